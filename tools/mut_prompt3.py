#!/usr/bin/env python3
"""round 3: prompt for an independent mutation sub-agent (property text + scratch worktree only); asks for four
mutants, one per mechanism class, so that the round differs from rounds 1/2 without telling the agent anything
about /verif"""
import json, sys
pid, wt = sys.argv[1], sys.argv[2]
p = next(json.loads(l) for l in open('/verif/properties.jsonl') if json.loads(l)['id'] == pid)
print(f"""You are testing how robust a Rust library is against subtle regressions. Work ONLY inside the git worktree {wt} (a checkout of the crate `toolbox-rs`; build offline: `cd {wt} && CARGO_NET_OFFLINE=true cargo build --offline`, tests: `cargo test --offline`). Do not look at or touch /verif or /repo; do not use the network. The crate has an optional cargo feature `verif` (read-only accessors and no-op hooks, all under `#[cfg(feature = "verif")]`): leave those items in place and make sure the crate still builds with `--features verif`.

Property under study — "{p['title']}":
"{p['statement']}"

Task: produce FOUR different, independent code changes (mutants) to the library source, each of which (1) still compiles (with and without `--features verif`), (2) still passes the crate's existing test suite unchanged (`cargo test --offline`: lib tests and doctests; do not edit tests), (3) breaks the property above for inputs/histories inside the domain the property quantifies over, and (4) needs something specific to manifest, NOT something that the most ordinary use exposes at once. One mutant per mechanism class (if a class is impossible for this property, replace it by another mutant of a class that is possible and say so):
 m1 — TWO COOPERATING SITES: two edits in different functions (or files) that each look fine and are harmless alone, but together break the property (e.g. a helper changes its contract slightly and one of its callers relies on the old one; an invariant is relaxed at the writer and a reader still assumes it).
 m2 — HISTORY / REUSE: state that survives a reset, clear, re-run or a specific ORDER of operations (needs at least three operations in a particular order, or a second use of the same object after a specific first use).
 m3 — STRUCTURAL BOUNDARY AT SCALE: manifests only at a particular size, count, depth, capacity, growth step, bucket/level boundary or after many elements (hundreds to tens of thousands), never on the small inputs of unit tests.
 m4 — RARE VALUES: ties/duplicates, extreme or boundary values (0, negative, MAX, wrap-around), degenerate shapes (empty, single, all equal, collinear, self-loops, parallel edges, disconnected parts) that are still valid inputs under the property.
Prefer realistic slips a maintainer could make in a refactor or "optimisation". Spread the mutants over DIFFERENT clauses/components of the property where it has several (the later clauses of the statement deserve as much attention as the first). The public API must stay the same (no signature changes).

For each mutant i in 1..4 create directory {wt}/out/m<i>/ containing:
- patch.diff — `git diff` of the source change relative to HEAD (apply with `git apply`), touching only files under src/ (not tests, not Cargo.toml);
- demo.rs — a small standalone Rust program (fn main) using the public API of toolbox_rs (for the command-line binaries you may run them with std::process::Command from `target/debug/<bin>` after `cargo build`) that exits with code 0 / prints PASS on the ORIGINAL code and panics / prints FAIL (non-zero exit) with the mutant applied; I will copy it to examples/demo.rs and run `cargo run --offline --example demo`;
- notes.md — first line: a one-sentence description of the change (file, function, what); then why the existing tests do not notice, and exactly what it needs in order to manifest (the smallest input/history you know).
Verify each one yourself: with the patch applied: cargo build OK (both feature settings), `cargo test --offline` all green, demo FAILS; with the patch reverted (`git checkout -- src`): demo PASSES. Make sure the worktree is back to a clean HEAD state at the end (except for the out/ directory; remove examples/demo.rs). Report a one-paragraph summary per mutant.""")
