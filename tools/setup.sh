#!/bin/bash
# MANIFEST.setup_cmd: build the whole framework from files on disk, offline.
set -u
cd "$(dirname "$(readlink -f "$0")")/.."
export CARGO_NET_OFFLINE=true
ROOT="$(pwd)"
mkdir -p build evidence
python3 tools/extract.py > build/extract.json || echo "extract.py failed (continuing)"
targets=""
for f in tools/props/C*.json; do
  t=$(python3 -c "import json,sys; c=json.load(open('$f')); print(' '.join(c.get('lean_targets',[])+[c['drv_exe']]))")
  targets="$targets $t"
done
(cd lean && lake build $targets) || echo "lake build reported errors (checks will report them per property)"
bins=""
for f in tools/props/C*.json; do
  b=$(python3 -c "import json; print(json.load(open('$f'))['gen_bin'])")
  bins="$bins --bin $b"
done
(cd harness && cargo build --release --offline $bins --target-dir "$ROOT/build/harness-target") || echo "cargo build reported errors"
# /repo's own binaries used by some checks
rb=$(python3 -c "
import json,glob
s=set()
for f in glob.glob('tools/props/C*.json'):
    s.update(json.load(open(f)).get('repo_bins',[]))
print(' '.join('--bin '+b for b in sorted(s)))")
if [ -n "$rb" ]; then
  (cd /repo && cargo build --release --offline --features verif $rb --target-dir "$ROOT/build/repo-target" --config profile.release.lto=false --config profile.release.debug=false) || echo "repo bin build reported errors"
fi
echo "setup done"
