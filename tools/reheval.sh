#!/bin/bash
# tools/reheval.sh <harmless-id>   re-evaluates a recorded behaviour-preserving change in a fresh scratch worktree
id=$1; P=${id%%-*}
cd "$(dirname "$(readlink -f "$0")")/.."
wt=/tmp/rh_$id; src=/tmp/rh_${id}_src
git -C /repo worktree add -q $wt HEAD || exit 2
rm -rf $src; mkdir -p $src/r; cp harmless/$id/patch.diff harmless/$id/notes.md $src/r/ 2>/dev/null
python3 tools/refactor_eval.py $wt $src/r $P $id 2>&1 | tail -3
git -C /repo worktree remove --force $wt; rm -rf $src
