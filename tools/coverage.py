#!/usr/bin/env python3
"""
Measures which lines of /repo's source the correspondence harness actually executes, per property.

  tools/coverage.py [--tier quick|thorough] [ID ...]

For each property: the generator binary (and the /repo binaries the property uses) is built with
`-C instrument-coverage` (nightly toolchain: its llvm-tools are the only llvm-profdata/llvm-cov that
read this rustc's profile format), the generated cases of the tier plus the corpus are executed on the
REAL code exactly as check.py does (`gen_cNN exec`), and the lines of the property's anchor files
(properties.jsonl, anchors.files) that were compiled but never executed are listed in
build/cov/<ID>/uncovered.txt; a summary goes to build/cov/summary.json and to stdout.

This is support tooling for the correspondence check (generator quality bounds what the tie sees): a
line the harness never executes is a place where a change cannot be noticed by differential execution.
It is not part of any registered check and proves nothing by itself.
"""
import json, os, re, subprocess, sys, glob, shutil

VERIF = os.path.dirname(os.path.dirname(os.path.abspath(__file__)))
REPO = os.environ.get("TBX_REPO", "/repo")
NIGHTLY_BIN = "/root/.rustup/toolchains/nightly-x86_64-unknown-linux-gnu/lib/rustlib/x86_64-unknown-linux-gnu/bin"
COVT = os.path.join(VERIF, "build", "cov-target")
COVR = os.path.join(VERIF, "build", "cov-repo-target")
ENV = dict(os.environ, CARGO_NET_OFFLINE="true", RUSTFLAGS="-C instrument-coverage",
           LLVM_PROFILE_FILE=os.path.join(VERIF, "build", "cov", "build-%p-%m.profraw"))  # build scripts run instrumented too


def sh(cmd, cwd=None, env=ENV, timeout=7200):
    p = subprocess.run(cmd, cwd=cwd, env=env, stdout=subprocess.PIPE, stderr=subprocess.STDOUT, text=True, timeout=timeout)
    return p.returncode, p.stdout


def main():
    args = sys.argv[1:]
    tier = "quick"
    if "--tier" in args:
        i = args.index("--tier")
        tier = args[i + 1]
        del args[i:i + 2]
    props = {json.loads(l)["id"]: json.loads(l) for l in open(os.path.join(VERIF, "properties.jsonl"))}
    ids = args or sorted(props)
    cfgs = {i: json.load(open(os.path.join(VERIF, "tools", "props", i + ".json"))) for i in ids}
    bins = sorted({c["gen_bin"] for c in cfgs.values()})
    rc, out = sh(["cargo", "+nightly", "build", "--release", "--offline", "--target-dir", COVT] + sum((["--bin", b] for b in bins), []),
                 cwd=os.path.join(VERIF, "harness"))
    if rc != 0:
        print(out[-2000:])
        return 2
    rbins = sorted({b for c in cfgs.values() for b in c.get("repo_bins", [])})
    if rbins:
        rc, out = sh(["cargo", "+nightly", "build", "--release", "--offline", "--features", "verif", "--target-dir", COVR,
                      "--config", "profile.release.lto=false"] + sum((["--bin", b] for b in rbins), []), cwd=REPO)
        if rc != 0:
            print(out[-2000:])
            return 2
    summary = {}
    for pid in ids:
        cfg = cfgs[pid]
        d = os.path.join(VERIF, "build", "cov", pid)
        shutil.rmtree(d, ignore_errors=True)
        os.makedirs(d)
        gen = os.path.join(COVT, "release", cfg["gen_bin"])
        env = dict(ENV, LLVM_PROFILE_FILE=os.path.join(d, "p-%p-%m.profraw"), TBX_REPO_BIN_DIR=os.path.join(COVR, "release"), TBX_RUN_DIR=d)
        genp = os.path.join(d, "gen.cases")
        rc, out = sh([gen, "gen", "--seed", "1", "--tier", tier, "--out", genp], env=env)
        if rc != 0:
            print(pid, "generator failed", out[-300:])
            continue
        # corpus + generated, as check.py does
        allp = os.path.join(d, "all.cases")
        with open(allp, "w") as f:
            for fn in sorted(glob.glob(os.path.join(VERIF, "corpus", pid, "*.case"))):
                f.write(open(fn).read().rstrip("\n") + "\n")
            f.write(open(genp).read())
        rc, out = sh([gen, "exec", "--in", allp, "--out", os.path.join(d, "out.exec")], env=env, timeout=3600)
        raws = glob.glob(os.path.join(d, "*.profraw"))
        rc, out = sh([os.path.join(NIGHTLY_BIN, "llvm-profdata"), "merge", "-sparse", "-o", os.path.join(d, "m.profdata")] + raws)
        if rc != 0:
            print(pid, "profdata failed", out[-300:])
            continue
        for r in raws:
            os.remove(r)
        objs = [gen] + [os.path.join(COVR, "release", b) for b in cfg.get("repo_bins", [])]
        files = [os.path.join(REPO, f) for f in props[pid]["anchors"]["files"]]
        cmd = [os.path.join(NIGHTLY_BIN, "llvm-cov"), "show", objs[0]] + sum((["-object", o] for o in objs[1:]), []) + \
              ["-instr-profile=" + os.path.join(d, "m.profdata"), "--show-line-counts-or-regions"] + files
        rc, out = sh(cmd)
        unc, tot, cur = [], 0, None
        per = {}
        for line in out.splitlines():
            m = re.match(r"^(/.*\.rs):$", line.strip())
            if m:
                cur = os.path.relpath(m.group(1), REPO)
                per[cur] = [0, 0]
                continue
            m = re.match(r"^\s*(\d+)\|\s*([0-9.kMGE]+)?\|(.*)$", line)
            if not m or cur is None:
                continue
            if len(files) == 1 and cur is None:
                cur = os.path.relpath(files[0], REPO)
            if m.group(2) is None:
                continue
            per[cur][1] += 1
            if m.group(2) == "0":
                per[cur][0] += 1
                unc.append(f"{cur}:{m.group(1)}: {m.group(3)}")
        if len(files) == 1 and not per:
            # llvm-cov prints no file header for a single file
            cur = os.path.relpath(files[0], REPO)
            per[cur] = [0, 0]
            for line in out.splitlines():
                m = re.match(r"^\s*(\d+)\|\s*([0-9.kMGE]+)?\|(.*)$", line)
                if m and m.group(2) is not None:
                    per[cur][1] += 1
                    if m.group(2) == "0":
                        per[cur][0] += 1
                        unc.append(f"{cur}:{m.group(1)}: {m.group(3)}")
        open(os.path.join(d, "uncovered.txt"), "w").write("\n".join(unc) + "\n")
        open(os.path.join(d, "show.txt"), "w").write(out)
        summary[pid] = {f: {"uncovered": v[0], "lines": v[1]} for f, v in per.items()}
        print(pid, " ".join(f"{f.replace('src/','')}:{v[1]-v[0]}/{v[1]}" for f, v in per.items()))
    json.dump(summary, open(os.path.join(VERIF, "build", "cov", "summary.json"), "w"), indent=1)
    return 0


if __name__ == "__main__":
    sys.exit(main())
