#!/usr/bin/env python3
"""
Orchestrator behind ./check <ID> [--tier quick|thorough] [--seed N] [--replay FILE]

One run = (1) regenerate lean/Tbx/Gen from /repo, (2) lake build the property's theorems,
audit file and driver, (3) audit axioms / forbidden tokens, (4) cargo build the harness against
/repo's working tree (feature `verif`), (5) corpus + generated cases through the REAL code and
through the Lean model + Spec judge, (6) compare, search for a concrete failing input, shrink,
(7) match against known_findings.txt, (8) write evidence/<ID>.json, exit 0/1.

See DESIGN.md section 2 for the reasoning.
"""
import fcntl, hashlib, json, os, re, shutil, subprocess, sys, time

VERIF = os.path.dirname(os.path.dirname(os.path.abspath(__file__)))
LEAN = os.path.join(VERIF, "lean")
HARNESS = os.path.join(VERIF, "harness")
BUILD = os.path.join(VERIF, "build")
TARGET = os.path.join(BUILD, "harness-target")
ALLOWED_AXIOMS = {"propext", "Classical.choice", "Quot.sound"}
FORBIDDEN = [r"\bsorry\b", r"\badmit\b", r"^\s*axiom\s", r"\bnative_decide\b", r"\bimplemented_by\b",
             r"\bunsafe\s", r"maxHeartbeats\s+0\b", r"\bbv_decide\b"]
ENV = dict(os.environ, CARGO_NET_OFFLINE="true")
# The registered checks always run against /repo.  For mutation experiments TBX_REPO=<worktree> runs the
# same check against a scratch worktree (a private copy of the harness crate with the path dependency
# rewritten, its own cargo target directory) so that /repo itself is never edited.
REPO = os.path.abspath(os.environ.get("TBX_REPO", "/repo"))
if REPO != "/repo":
    _h = hashlib.sha1(REPO.encode()).hexdigest()[:10]
    _alt = os.path.join(BUILD, "alt", _h)
    os.makedirs(_alt, exist_ok=True)
    _hs = os.path.join(_alt, "harness")
    subprocess.run(["rsync", "-a", "--delete", "--exclude", "target", HARNESS + "/", _hs + "/"], check=True)
    _ct = open(os.path.join(_hs, "Cargo.toml")).read().replace('path = "/repo"', f'path = "{REPO}"')
    open(os.path.join(_hs, "Cargo.toml"), "w").write(_ct)
    HARNESS = _hs
    TARGET = os.path.join(_alt, "target")
    REPO_TARGET = os.path.join(_alt, "repo-target")
else:
    REPO_TARGET = os.path.join(BUILD, "repo-target")
ENV["TBX_REPO"] = REPO


def log(*a):
    print("[check]", *a, file=sys.stderr, flush=True)


def run(cmd, cwd=None, timeout=None, stdin=None, stdout=subprocess.PIPE):
    t0 = time.time()
    p = subprocess.run(cmd, cwd=cwd, env=ENV, stdin=stdin, stdout=stdout, stderr=subprocess.STDOUT,
                       timeout=timeout, text=True)
    return p.returncode, (p.stdout or ""), time.time() - t0


# ----------------------------------------------------------------------------------------------
# case files

def proc_cpu_s(pid):
    """user+system CPU seconds of a process (None if it is gone)"""
    try:
        f = open(f"/proc/{pid}/stat").read().rsplit(")", 1)[1].split()
        return (int(f[11]) + int(f[12])) / os.sysconf("SC_CLK_TCK")
    except Exception:
        return None


def parse_cases(path):
    """-> list of dict(id, family, ops[], impl[])"""
    cases, cur = [], None
    with open(path, errors="replace") as f:
        for line in f:
            l = line.strip()
            if l.startswith("CASE "):
                t = l.split()
                cur = {"id": t[1], "family": t[2] if len(t) > 2 else "", "ops": [], "impl": []}
            elif l == "END":
                if cur is not None:
                    cases.append(cur)
                cur = None
            elif cur is None or not l or l.startswith("#"):
                continue
            elif l.startswith("I ") or l == "I":
                cur["impl"].append(l[2:])
            else:
                cur["ops"].append(l)
    return cases


def parse_driver(path):
    """-> dict id -> dict(model[], verdict, why, stats{})"""
    res, cur = {}, None
    with open(path, errors="replace") as f:
        for line in f:
            l = line.rstrip("\n")
            if l.startswith("CASE "):
                cur = {"model": [], "verdict": "none", "why": "", "stats": {}}
                res[l.split()[1]] = cur
            elif cur is None:
                continue
            elif l.startswith("M ") or l == "M":
                cur["model"].append(l[2:].strip())
            elif l.startswith("J "):
                t = l.split(" ", 2)
                cur["verdict"] = t[1]
                cur["why"] = t[2] if len(t) > 2 else ""
            elif l.startswith("S"):
                for kv in l.split()[1:]:
                    if "=" in kv:
                        k, v = kv.split("=", 1)
                        cur["stats"][k] = v
            elif l == "END":
                cur = None
    return res


def write_cases(path, cases, with_impl=False):
    with open(path, "w") as f:
        for c in cases:
            f.write(f"CASE {c['id']} {c['family']}\n")
            for o in c["ops"]:
                f.write(o + "\n")
            if with_impl:
                for o in c["impl"]:
                    f.write("I " + o + "\n")
            f.write("END\n")


# ----------------------------------------------------------------------------------------------

class Check:
    def __init__(self, pid, tier, seed):
        self.pid, self.tier, self.seed = pid, tier, seed
        with open(os.path.join(VERIF, "tools", "props", pid + ".json")) as f:
            self.cfg = json.load(f)
        suffix = "" if REPO == "/repo" else "-" + hashlib.sha1(REPO.encode()).hexdigest()[:10]
        self.rundir = os.path.join(BUILD, "run", pid + suffix)
        self.t0 = time.time()
        self.broken = []          # (kind, name, detail): proof obligations / ties that no longer check
        self.theorems = []
        self.violations = []      # dicts
        self.known_hits = []
        self.notes = []
        self.gen_info = {}

    # -- step 2-3: Lean side --------------------------------------------------------------------
    def lean_build(self):
        cfg = self.cfg
        # (1) regenerate Tbx/Gen from /repo's current source
        rc, out, dt = run([sys.executable, os.path.join(VERIF, "tools", "extract.py")])
        try:
            self.gen_info = json.loads(out.strip().splitlines()[-1]) if out.strip() else {}
        except Exception:
            self.gen_info = {"raw": out[-400:]}
        if rc != 0:
            self.broken.append(("extract", "tools/extract.py", out[-600:]))
        # Secondary ties: theorems that tie a hand model to the text tools/translate.py regenerates from the
        # source (Tbx.Props.GenTie*).  They are a SECOND tie next to the correspondence; when only they break
        # (a harmless rewrite of a pure function) while the theorems about the hand model and the
        # correspondence on every case still check, the property is still shown to hold: that is reported as a
        # note in evidence (`secondary_ties_broken`), not as a violation.
        # functions whose current source the translators could not handle: the pinned translation was used so
        # that models importing Tbx.Gen still build; the regenerated-text tie for them is broken (a note)
        fb = list((self.gen_info.get("functions") or {}).get("fallback", [])) + \
            list((self.gen_info.get("loop_functions") or {}).get("fallback", []))
        self.gen_fallback = fb
        sec_targets = [t for t in cfg.get("lean_targets", []) if t in cfg.get("secondary_ties", [])]
        sec_audits = [a for a in (cfg.get("audit") if isinstance(cfg.get("audit"), list) else [cfg.get("audit")]) if a and a[:-5].replace("/", ".") in [t.replace("Props", "Audit") for t in sec_targets]]
        self.secondary_broken = [("translator-fallback", f, "current source outside the translator's subset; pinned translation used") for f in fb]
        targets = [t for t in cfg.get("lean_targets", []) if t not in sec_targets] + [cfg["drv_exe"]]
        rc, out, dt = run(["lake", "build"] + targets, cwd=LEAN, timeout=3600)
        self.lake_s = dt
        self.checker_cmd = "cd /verif/lean && lake build " + " ".join(targets) + \
            " && lake env lean " + " ".join([cfg.get("audit")] if isinstance(cfg.get("audit"), str) else (cfg.get("audit") or [])) + "  (axioms of every registered theorem) + forbidden-token scan"
        if rc != 0:
            errs = [l for l in out.splitlines() if "error" in l.lower()][:8]
            self.broken.append(("lake-build", " ".join(targets), "\n".join(errs) or out[-800:]))
            # try the driver alone so that the correspondence / judge can still run
            rc2, out2, _ = run(["lake", "build", cfg["drv_exe"]], cwd=LEAN, timeout=3600)
            self.driver_ok = rc2 == 0
        else:
            self.driver_ok = True
        if not any("warning" in l and "sorry" in l for l in out.splitlines()):
            pass
        else:
            self.broken.append(("sorry", "lake build", "declaration uses sorry"))
        # (3) audit
        if sec_targets:
            rc, out, dt = run(["lake", "build"] + sec_targets, cwd=LEAN, timeout=3600)
            if rc != 0:
                errs = [l for l in out.splitlines() if "error" in l.lower()][:6]
                self.secondary_broken.append(("lake-build", " ".join(sec_targets), "\n".join(errs) or out[-600:]))
        audits = cfg.get("audit") or []
        if isinstance(audits, str):
            audits = [audits]
        for audit in audits:
            secondary = audit in sec_audits
            sink = self.secondary_broken if secondary else self.broken
            if not os.path.exists(os.path.join(LEAN, audit)):
                sink.append(("audit-file", audit, "missing"))
                continue
            src = open(os.path.join(LEAN, audit)).read()
            names = re.findall(r"^#print axioms\s+(\S+)", src, re.M)
            rc, out, dt = run(["lake", "env", "lean", audit], cwd=LEAN, timeout=1800)
            found = {}
            for m in re.finditer(r"'([^']+)' depends on axioms: \[([^\]]*)\]", out):
                found[m.group(1)] = [a.strip() for a in m.group(2).replace("\n", " ").split(",") if a.strip()]
            for m in re.finditer(r"'([^']+)' does not depend on any axioms", out):
                found[m.group(1)] = []
            for n in names:
                if n not in found:
                    if not secondary:
                        self.theorems.append({"name": n, "status": "MISSING", "axioms": []})
                    sink.append(("theorem", n, "not found / does not elaborate"))
                else:
                    bad = [a for a in found[n] if a not in ALLOWED_AXIOMS]
                    st = "proved" if not bad else "BAD-AXIOMS"
                    self.theorems.append({"name": n, "status": st, "axioms": found[n], **({"secondary_tie": True} if secondary else {})})
                    if bad:
                        sink.append(("theorem", n, "depends on " + ", ".join(bad)))
        # forbidden tokens (comments stripped) in every Lean file the property depends on: the transitive
        # `import Tbx.…` closure of its theorem modules, audit files and driver
        roots = list(cfg.get("lean_targets", [])) + ["Tbx.Drv." + self.pid]
        for a in audits:
            roots.append(a[:-5].replace("/", "."))
        seen, todo = set(), list(roots)
        while todo:
            mod = todo.pop()
            if mod in seen:
                continue
            seen.add(mod)
            path = os.path.join(LEAN, mod.replace(".", "/") + ".lean")
            if not os.path.exists(path):
                continue
            raw = open(path).read()
            todo += re.findall(r"^import\s+(Tbx\.\S+)", raw, re.M)
            txt = re.sub(r"/-.*?-/", "", raw, flags=re.S)
            txt = re.sub(r"--.*", "", txt)
            for pat in FORBIDDEN:
                if re.search(pat, txt, re.M):
                    self.broken.append(("forbidden-token", path, pat))
        self.lean_files_scanned = len(seen)
        if self.tier == "thorough" and cfg.get("lean_targets"):
            for t in cfg["lean_targets"]:
                rc, out, dt = run(["lake", "env", "leanchecker", t], cwd=LEAN, timeout=3600)
                self.notes.append(f"leanchecker {t}: rc={rc} ({dt:.0f}s)")
                if rc != 0:
                    self.broken.append(("leanchecker", t, out[-400:]))

    # -- step 4: Rust side ----------------------------------------------------------------------
    def cargo_build(self):
        cfg = self.cfg
        rc, out, dt = run(["cargo", "build", "--release", "--offline", "--bin", cfg["gen_bin"], "--target-dir", TARGET], cwd=HARNESS, timeout=3600)
        self.cargo_s = dt
        if rc != 0:
            errs = [l for l in out.splitlines() if l.startswith("error")][:6]
            self.broken.append(("harness-build", cfg["gen_bin"], "\n".join(errs) or out[-600:]))
            return False
        for b in cfg.get("repo_bins", []):
            rc, out, dt = run(["cargo", "build", "--release", "--offline", "--features", "verif", "--bin", b,
                               "--target-dir", REPO_TARGET,
                               "--config", "profile.release.lto=false", "--config", "profile.release.debug=false"],
                              cwd=REPO, timeout=3600)
            if rc != 0:
                self.broken.append(("repo-bin-build", b, out[-600:]))
                return False
        return True

    def gen_bin(self):
        """a private copy in the run directory: a concurrent cargo build cannot replace it under a running executor"""
        src = os.path.join(TARGET, "release", self.cfg["gen_bin"])
        dst = os.path.join(self.rundir, self.cfg["gen_bin"])
        if not os.path.exists(dst) or os.path.getmtime(dst) < os.path.getmtime(src):
            shutil.copy2(src, dst)
        return dst

    def drv_bin(self):
        priv = os.path.join(self.rundir, self.cfg["drv_exe"])
        return priv if os.path.exists(priv) else os.path.join(LEAN, ".lake", "build", "bin", self.cfg["drv_exe"])

    # -- step 5: execution ----------------------------------------------------------------------
    def exec_cases(self, cases_path, out_path):
        """run the real code with a hang watchdog; returns number of HANG/ABORT cases"""
        if os.path.exists(out_path):
            os.remove(out_path)
        allc = parse_cases(cases_path)
        n = len(allc)
        frm, bad = 0, 0
        hang_s = self.cfg.get("hang_timeout_s", 30)
        env = dict(ENV, TBX_REPO_BIN_DIR=os.path.join(REPO_TARGET, "release"), TBX_RUN_DIR=self.rundir)
        while frm < n:
            prog = out_path + ".progress"
            if os.path.exists(prog):
                os.remove(prog)
            p = subprocess.Popen([self.gen_bin(), "exec", "--in", cases_path, "--out", out_path, "--from", str(frm)],
                                 stdout=subprocess.DEVNULL, stderr=subprocess.DEVNULL, env=env)
            # the progress file ("<position> <case id|done>") is rewritten for every case: a read may see it
            # empty or half written, so only successfully parsed positions count
            # Long-running cases may "tick" by rewriting the file with extra tokens after the first two: any
            # change of a well-formed content counts as progress.
            def read_progress():
                try:
                    raw = open(prog).read()
                    t = raw.split()
                    if len(t) >= 2:
                        return int(t[0]), t[1] == "done", raw
                except (FileNotFoundError, ValueError):
                    pass
                return None
            last_pos, last_raw, last_t = frm - 1, None, time.time()
            done, status, cpu_mark = False, None, None
            while True:
                try:
                    p.wait(timeout=0.5)
                    status = "exit"
                except subprocess.TimeoutExpired:
                    pass
                pr = read_progress()
                if pr is not None:
                    if pr[0] != last_pos or pr[2] != last_raw:
                        last_pos, last_raw, last_t = pr[0], pr[2], time.time()
                    done = done or pr[1]
                if status == "exit":
                    break
                stalled = time.time() - last_t
                if stalled > hang_s:
                    # no case finished for hang_s seconds.  A genuine hang of the code under test burns CPU
                    # (infinite loop): then it is declared at once.  A process that is merely blocked (writer
                    # throttling / a starved machine during heavy concurrent builds) uses no CPU: it gets
                    # 6 x hang_s before it is declared hung (a real deadlock is still reported, later).
                    cpu = proc_cpu_s(p.pid)
                    if cpu_mark is None:
                        cpu_mark = (time.time(), cpu)
                    busy = cpu is not None and cpu_mark[1] is not None and (cpu - cpu_mark[1]) > 0.5 * max(1.0, time.time() - cpu_mark[0]) \
                        and time.time() - cpu_mark[0] >= min(10.0, hang_s / 2)
                    if busy or stalled > 6 * hang_s:
                        p.kill()
                        p.wait()
                        status = "hang"
                        break
                else:
                    cpu_mark = None
            pos = max(last_pos, frm)
            if done and status == "exit" and p.returncode == 0:
                break
            # case at position `pos` hung or aborted the process
            c = allc[pos] if pos < n else None
            if c is None:
                break
            bad += 1
            if bad > self.cfg.get("max_hangs", 4):
                # enough evidence: the remaining cases are not executed (each hang costs the full timeout)
                self.notes.append(f"executor stopped after {bad - 1} hung/aborted cases; {n - pos} cases not executed")
                break
            with open(out_path, "a") as f:
                f.write(f"CASE {c['id']} {c['family']}\n")
                for o in c["ops"]:
                    f.write(o + "\n")
                f.write("I HANG\n" if status == "hang" else "I ABORT\n")
                f.write("END\n")
            frm = pos + 1
        return bad

    def drive(self, exec_path, drv_path):
        with open(exec_path) as fin, open(drv_path, "w") as fout:
            p = subprocess.run([self.drv_bin()], stdin=fin, stdout=fout, stderr=subprocess.PIPE, text=True,
                               timeout=self.cfg.get("driver_timeout_s", 3600))
        if p.returncode != 0:
            self.broken.append(("driver-crash", self.cfg["drv_exe"], (p.stderr or "")[-400:]))
            return False
        return True

    def classify(self, c, d):
        """agree | fail | drift | disagree | skip"""
        if d is None:
            return "disagree", "driver produced no output for the case"
        if d["verdict"] == "fail":
            return "fail", d["why"]
        if d["verdict"] == "skip":
            return "skip", d["why"]
        impl, model = c["impl"], d["model"]
        if impl == model:
            return "agree", ""
        # first difference
        for i in range(max(len(impl), len(model))):
            a = impl[i] if i < len(impl) else "<missing>"
            b = model[i] if i < len(model) else "<missing>"
            if a != b:
                free = a.startswith("F ") or b.startswith("F ")
                return ("drift" if free else "disagree"), f"line {i}: impl [{a[:200]}] model [{b[:200]}]"
        return "agree", ""

    def run_batch(self, cases_path, tag):
        execp = os.path.join(self.rundir, tag + ".exec")
        drvp = os.path.join(self.rundir, tag + ".drv")
        t = time.time()
        hung = self.exec_cases(cases_path, execp)
        t_exec = time.time() - t
        t = time.time()
        ok = self.drive(execp, drvp)
        t_drv = time.time() - t
        cases = parse_cases(execp)
        drv = parse_driver(drvp) if ok else {}
        out = []
        for c in cases:
            d = drv.get(c["id"])
            st, why = self.classify(c, d)
            out.append((c, d, st, why))
        return out, {"exec_s": round(t_exec, 2), "driver_s": round(t_drv, 2), "hang_or_abort": hung}

    # -- shrinking ------------------------------------------------------------------------------
    def is_header(self, op):
        t = op.split()
        return bool(t) and t[0] in self.cfg.get("header_tokens", [])

    def shrink(self, case, want):
        """delta debugging (ddmin on the removable op lines), batched: every round writes all candidates of
        the current granularity into one file and runs the real code and the judge once. Bounded: at most
        ~2M op lines per round, 40 rounds and 90 s, so a 27 000-line witness is still reduced by halves."""
        best = dict(case)
        t_end = time.time() + self.cfg.get("shrink_budget_s", 90)
        n_chunks = 2
        rounds = 0
        while rounds < 40 and time.time() < t_end:
            rounds += 1
            idxs = [i for i, o in enumerate(best["ops"]) if not self.is_header(o)]
            if len(idxs) <= 1:
                break
            n_chunks = min(n_chunks, len(idxs))
            if n_chunks * len(best["ops"]) > 2_000_000:
                break
            size = (len(idxs) + n_chunks - 1) // n_chunks
            chunks = [idxs[k:k + size] for k in range(0, len(idxs), size)]
            cands = []
            for n, ch in enumerate(chunks):
                drop = set(ch)
                ops = [o for i, o in enumerate(best["ops"]) if i not in drop]
                cands.append({"id": f"s{n}", "family": best["family"], "ops": ops, "impl": []})
            p = os.path.join(self.rundir, "shrink.cases")
            write_cases(p, cands)
            res, _ = self.run_batch(p, "shrink")
            hit = None
            for (c, d, st, why) in res:
                if st == want:
                    hit = (c, why)
                    break
            if hit is not None:
                best = {"id": case["id"], "family": case["family"], "ops": hit[0]["ops"], "impl": hit[0]["impl"], "why": hit[1]}
                n_chunks = max(2, n_chunks - 1)
            elif n_chunks >= len(idxs):
                break
            else:
                n_chunks = min(len(idxs), n_chunks * 2)
        return best

    # -- known findings -------------------------------------------------------------------------
    def load_known(self):
        known = []
        p = os.path.join(VERIF, "known_findings.txt")
        if os.path.exists(p):
            for line in open(p):
                line = line.strip()
                if line.startswith("finding:"):
                    kv = dict(re.findall(r'(\w[\w-]*)=("[^"]*"|\S+)', line))
                    kv = {k: v.strip('"') for k, v in kv.items()}
                    props = kv.get("property", "").split(",")
                    if self.pid in props and "match" in kv:
                        known.append(kv)
        return known

    # -- main -----------------------------------------------------------------------------------
    def build_phase(self):
        """regeneration of Gen/, lake build, audit and cargo build share files between properties and
        repositories: serialised by one global lock, which is released before the (long) run phase"""
        with open(os.path.join(BUILD, "lock"), "w") as lk:
            fcntl.flock(lk, fcntl.LOCK_EX)
            self.lean_build()
            ok = self.cargo_build()
            # private copies of both executables, taken while the lock is held: a concurrent check (another
            # property, or a TBX_REPO run that regenerates Gen/ from another tree) may rebuild them afterwards
            try:
                self.gen_bin()
                src = os.path.join(LEAN, ".lake", "build", "bin", self.cfg["drv_exe"])
                if os.path.exists(src):
                    shutil.copy2(src, os.path.join(self.rundir, self.cfg["drv_exe"]))
            except OSError:
                pass
            return ok

    def run_lock(self):
        os.makedirs(os.path.join(BUILD, "run"), exist_ok=True)
        lk = open(self.rundir + ".lock", "w")
        fcntl.flock(lk, fcntl.LOCK_EX)
        shutil.rmtree(self.rundir, ignore_errors=True)
        os.makedirs(self.rundir, exist_ok=True)
        return lk

    def main(self):
        cfg = self.cfg
        _lk = self.run_lock()
        built = self.build_phase()
        results, timing = [], {}
        if built and self.driver_ok:
            # corpus first
            corpus_dir = os.path.join(VERIF, "corpus", self.pid)
            corpus = []
            if os.path.isdir(corpus_dir):
                for fn in sorted(os.listdir(corpus_dir)):
                    if fn.endswith(".case"):
                        for c in parse_cases(os.path.join(corpus_dir, fn)):
                            c["id"] = "corpus:" + fn[:-5] + ":" + c["id"]
                            corpus.append(c)
            genp = os.path.join(self.rundir, "gen.cases")
            rc, out, dt = run([self.gen_bin(), "gen", "--seed", str(self.seed), "--tier", self.tier, "--out", genp],
                              timeout=3600)
            timing["gen_s"] = round(dt, 2)
            if rc != 0:
                self.broken.append(("generator", cfg["gen_bin"], out[-400:]))
            else:
                allp = os.path.join(self.rundir, "all.cases")
                write_cases(allp, corpus + parse_cases(genp))
                results, t2 = self.run_batch(allp, "main")
                timing.update(t2)
        counts = {"agree": 0, "fail": 0, "drift": 0, "disagree": 0, "skip": 0}
        fams, agg, nontrivial_hashes, samples = {}, {}, set(), []
        fails, disagrees = [], []
        for (c, d, st, why) in results:
            counts[st] += 1
            fams[c["family"]] = fams.get(c["family"], 0) + 1
            if d:
                for k, v in d["stats"].items():
                    if re.fullmatch(r"-?\d+", v) and k != "nontrivial":
                        agg[k] = agg.get(k, 0) + int(v)
                if d["stats"].get("nontrivial") == "1" and st in ("agree", "drift"):
                    nontrivial_hashes.add(hashlib.sha1("\n".join(c["ops"]).encode()).hexdigest())
                    if len(samples) < 3 and len(c["ops"]) <= 40:
                        samples.append({"family": c["family"], "ops": c["ops"], "impl": c["impl"][:6]})
            if st == "fail":
                fails.append((c, why))
            elif st == "disagree":
                disagrees.append((c, why))
        if not samples and results:
            c = results[0][0]
            samples.append({"family": c["family"], "ops": c["ops"][:40], "impl": c["impl"][:6]})
        # ---- decide
        known = self.load_known()
        os.makedirs(os.path.join(VERIF, "evidence", "replay"), exist_ok=True)
        reported = set()

        def replay_file(kind, body):
            h = hashlib.sha1(json.dumps(body, sort_keys=True).encode()).hexdigest()[:10]
            p = os.path.join(VERIF, "evidence", "replay", f"{self.pid}-{h}.json")
            body = dict(body, property=self.pid, kind=kind, seed=self.seed, tier=self.tier)
            with open(p, "w") as f:
                json.dump(body, f, indent=1)
            return p

        # (a) implementation fails the Spec on a concrete case
        shrunk = 0
        for (c, why) in fails:
            hit = next((k for k in known if re.search(k["match"], why)), None)
            if hit:
                key = hit.get("key", hit["match"])
                if key not in reported:
                    reported.add(key)
                    self.known_hits.append({"key": key, "example": why[:300], "case": c["id"]})
                continue
            if shrunk < 3:
                small = self.shrink(c, "fail")
                shrunk += 1
            else:
                small = c
            p = replay_file("counterexample", {"case": {"family": small["family"], "ops": small["ops"]},
                                               "impl_output": small.get("impl", [])[:50],
                                               "spec_verdict": small.get("why", why), "original_case_id": c["id"]})
            self.violations.append({"replay": p, "why": small.get("why", why), "witness": True})
            if len(self.violations) >= 5:
                break
        # (b) model and implementation disagree although the Spec accepted the implementation, or a
        #     proof obligation is broken: no failing input was found by (a) on this run's cases
        if not self.violations:
            if disagrees:
                c, why = disagrees[0]
                small = self.shrink(c, "disagree") if self.driver_ok else c
                p = replay_file("broken-tie", {"broken": f"correspondence {self.pid}: model and implementation differ",
                                                "detail": small.get("why", why),
                                                "case": {"family": small["family"], "ops": small["ops"]},
                                                "impl_output": small.get("impl", [])[:50],
                                                "disagreeing_cases": len(disagrees)})
                self.violations.append({"replay": p, "why": why, "witness": False})
            elif self.broken:
                kind, name, detail = self.broken[0]
                p = replay_file("broken-tie", {"broken": f"{kind}: {name}", "detail": detail,
                                                "all_broken": [list(b) for b in self.broken][:20]})
                self.violations.append({"replay": p, "why": f"{kind} {name}", "witness": False})
        # ---- evidence
        obligations = len(self.theorems)
        discharged = sum(1 for t in self.theorems if t["status"] == "proved")
        ev = {
            "property_id": self.pid, "tier": self.tier, "seed": self.seed,
            "level": cfg.get("level", "proof"),
            "coverage": {
                "obligations": obligations, "discharged": discharged,
                "checker_cmd": getattr(self, "checker_cmd", ""),
                "trusted_base": cfg.get("trusted_base", []),
                "theorems": self.theorems,
                "stated_unproved": cfg.get("stated_unproved", []),
                "regenerated_from_source": self.gen_info,
                "evaluations": len(results),
                "distinct_nontrivial": len(nontrivial_hashes),
                "rule": cfg.get("nontrivial_rule", ""),
                "samples": samples,
                "families": fams,
                "model_branch_counters": agg,
                "agree": counts["agree"], "impl_spec_failures": counts["fail"],
                "model_impl_disagreements": counts["disagree"], "free_choice_drift": counts["drift"],
                "out_of_domain_skipped": counts["skip"],
                "strict_agreement": counts["agree"] == len(results) - counts["skip"] if results else False,
                "exhaustive": bool(cfg.get("exhaustive", {}).get(self.tier, False)),
                "exhaustive_scope": cfg.get("exhaustive_scope", {}).get(self.tier, ""),
                "timing": dict(timing, lake_s=round(getattr(self, "lake_s", 0), 1),
                               cargo_s=round(getattr(self, "cargo_s", 0), 1)),
                "broken_obligations": [list(b) for b in self.broken][:20],
                "secondary_ties_broken": [list(b) for b in getattr(self, "secondary_broken", [])][:20],
                "known_findings_hit": self.known_hits,
                "notes": self.notes,
            },
            "assumptions": cfg.get("assumptions", []),
            "wall_s": round(time.time() - self.t0, 2),
            "violations": len(self.violations),
        }
        os.makedirs(os.path.join(VERIF, "evidence"), exist_ok=True)
        # evidence/<ID>.json only ever describes a run against /repo itself; experiments against a scratch
        # worktree (TBX_REPO) leave their record in the run directory
        ev_path = os.path.join(VERIF, "evidence", self.pid + ".json") if REPO == "/repo" else os.path.join(self.rundir, "evidence.json")
        with open(ev_path, "w") as f:
            json.dump(ev, f, indent=1)
        # ---- report
        print(f"{self.pid} tier={self.tier} seed={self.seed}: theorems {discharged}/{obligations} proved; "
              f"cases {len(results)} agree={counts['agree']} fail={counts['fail']} disagree={counts['disagree']} "
              f"drift={counts['drift']} skip={counts['skip']} nontrivial={len(nontrivial_hashes)} "
              f"wall={ev['wall_s']}s")
        for b in getattr(self, "secondary_broken", []):
            print(f"NOTE: secondary tie to the regenerated source text no longer checks ({b[0]} {b[1]}); "
                  f"the correspondence and the theorems about the hand model decide")
        for k in self.known_hits:
            print(f"KNOWN-FINDING: property={self.pid} {k['key']}: {k['example'][:200]}")
        for v in self.violations:
            tail = "" if v["witness"] else " no-failing-input-found"
            print(f"VIOLATION property={self.pid} replay={v['replay']}{tail}")
        return 1 if self.violations else 0

    def replay(self, path):
        body = json.load(open(path))
        _lk = self.run_lock()
        if not self.build_phase():
            print("harness does not build")
            return 1
        if "case" not in body:
            print(f"replay file names a broken obligation, not a case: {body.get('broken')}\n{body.get('detail')}")
            return 1 if self.broken else 0
        p = os.path.join(self.rundir, "replay.cases")
        write_cases(p, [{"id": "replay", "family": body["case"].get("family", "replay"), "ops": body["case"]["ops"], "impl": []}])
        res, _ = self.run_batch(p, "replay")
        rc = 0
        for (c, d, st, why) in res:
            print("ops:")
            for o in c["ops"]:
                print("   ", o)
            print("implementation:")
            for o in c["impl"]:
                print("   ", o)
            print("model:")
            for o in (d or {}).get("model", []):
                print("   ", o)
            print(f"status: {st} {why}")
            if st in ("fail", "disagree"):
                rc = 1
                print(f"VIOLATION property={self.pid} replay={path}")
        return rc


def main():
    args = sys.argv[1:]
    if not args:
        print(__doc__)
        return 2
    pid = args[0]
    tier = os.environ.get("VERIF_TIER", "quick")
    seed = int(os.environ.get("VERIF_SEED", "1"))
    replay = None
    i = 1
    while i < len(args):
        if args[i] == "--tier":
            tier = args[i + 1]; i += 2
        elif args[i] == "--seed":
            seed = int(args[i + 1]); i += 2
        elif args[i] == "--replay":
            replay = args[i + 1]; i += 2
        else:
            i += 1
    os.makedirs(BUILD, exist_ok=True)
    chk = Check(pid, tier, seed)
    return chk.replay(replay) if replay else chk.main()


if __name__ == "__main__":
    try:
        sys.exit(main())
    except SystemExit:
        raise
    except BaseException:
        # an internal error of the machinery is neither "held" (0) nor a violation (1)
        import traceback
        traceback.print_exc()
        sys.exit(2)
