#!/usr/bin/env python3
"""rewrites the generated tables of DESIGN.md (between the SEEDED-TABLE / HARMLESS-TABLE markers) from seeded/ and harmless/"""
import os, re, subprocess, sys
V = os.path.dirname(os.path.dirname(os.path.abspath(__file__)))
p = os.path.join(V, "DESIGN.md")
s = open(p).read()
def table(tool):
    return subprocess.run([sys.executable, os.path.join(V, "tools", tool)], capture_output=True, text=True).stdout.strip()
for tag, tool in (("SEEDED-TABLE", "seeded_table.py"), ("HARMLESS-TABLE", "harmless_table.py")):
    a, b = f"<!-- {tag}-BEGIN -->", f"<!-- {tag}-END -->"
    if a in s and b in s:
        s = s[:s.index(a) + len(a)] + "\n" + table(tool) + "\n" + s[s.index(b):]
open(p, "w").write(s)
