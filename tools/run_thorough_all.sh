#!/bin/bash
# runs every claimed check at the thorough tier, one summary line each (used with `vp run`)
cd "$(dirname "$(readlink -f "$0")")/.."
bash tools/setup.sh > /dev/null 2>&1
for p in $(python3 -c "import json; print(' '.join(json.load(open('tools/claimed.json'))))"); do
  t0=$(date +%s)
  out=$(./check $p --tier thorough 2>&1 | grep -E "^$p tier|VIOLATION|KNOWN" | cut -c1-300)
  echo "$out  [$(( $(date +%s) - t0 )) s]"
done
echo THOROUGH DONE
