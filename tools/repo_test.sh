#!/bin/bash
# runs /repo's unedited test suite (guard off); prints one summary line; exit 0 iff every test passes
out=$(cd /repo && CARGO_NET_OFFLINE=true cargo test --workspace --no-fail-fast --offline 2>&1)
rc=$?
passed=$(echo "$out" | grep -E "^test result" | sed -E 's/.* ([0-9]+) passed.*/\1/' | paste -sd+ | bc)
failed=$(echo "$out" | grep -E "^test result" | sed -E 's/.* ([0-9]+) failed.*/\1/' | paste -sd+ | bc)
echo "repo tests: rc=$rc passed=$passed failed=$failed"
if [ $rc -ne 0 ]; then echo "$out" | grep -E "FAILED|panicked|error" | head -20; fi
exit $rc
