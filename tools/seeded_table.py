#!/usr/bin/env python3
"""prints the markdown table of seeded changes from seeded/*/meta.json (pasted into DESIGN.md 10.6)"""
import glob, json, os, re
V = os.path.dirname(os.path.dirname(os.path.abspath(__file__)))
rows = []
for f in sorted(glob.glob(os.path.join(V, "seeded", "*", "meta.json"))):
    m = json.load(open(f))
    notes = os.path.join(os.path.dirname(f), "notes.md")
    what = ""
    if os.path.exists(notes):
        txt = open(notes).read()
        txt = re.sub(r"```.*?```", "", txt, flags=re.S)
        para = [l.strip().lstrip("-* ") for l in txt.splitlines() if l.strip() and not l.startswith("#") and not l.startswith("```") and re.search(r"[a-z]{4}", l)]
        what = re.sub(r"\s+", " ", para[0])[:160] if para else ""
    chk = m["check"]
    how = "judge fails a concrete case (replayed)" if chk.get("with_failing_input") else ("broken tie, no failing input" if chk.get("detected") else "**NOT detected**")
    why = ""
    rp = chk.get("replay_excerpt") or {}
    if rp.get("spec_verdict"):
        why = re.sub(r"\s+", " ", rp["spec_verdict"])[:140]
    elif rp.get("broken"):
        why = rp["broken"][:140]
    rows.append(f"| {m['id']} | {what} | {how} | {why} |")
print("| seeded id | change (first line of the author's notes) | outcome of `./check` (quick) | judge's reason on the shrunk case |")
print("|---|---|---|---|")
print("\n".join(rows))
