#!/usr/bin/env python3
"""
G4 of the tie to /repo's current source: translates a whitelist of LOOP-BEARING integer/array functions of
/repo, statement by statement, into Lean definitions (lean/Tbx/Gen/Loops.lean) on every check run.  The
theorems in lean/Tbx/Props/GenLoops*.lean are stated about these GENERATED definitions (equality with the hand
model the property theorems speak about, or the law itself), so an edit of the Rust source changes the subject
of the theorems and the kernel re-checks them.  tools/translate.py (G3) does the same for straight-line code.

Rust subset (anything else: the function is NOT translated, it is reported under "skipped", and the theorems
about it fail to build, i.e. the check reports a broken secondary tie):
  let / let mut (with if-expressions), assignment and compound assignment to locals, to `self.<field>`, to
  `a[i]` / `self.<field>[i]`;  if / else if / else;  `return e;` and tail expressions;  `while c { .. }`;
  `for i in a..b`, `a..=b`, `(a..b).rev()`, `for x in slice`, `for (i, &x) in xs.iter().enumerate()`, `break`
  as the last statement of an else/then branch of a `for` over a slice (prefix loops);  `match a.cmp(&b)`;
  integer literals, + - * / % << >> & | ^, comparisons, && || !, `as` casts, calls of other translated
  functions, `.len()`, `.is_empty()`, `.leading_zeros()`, `.trailing_zeros()`, `.wrapping_neg()`,
  `.iter().any(|&x| ..)`, `vec![v; n]`, `T::zero()`, Some/None/Ok/Err.

Semantics: unsigned values are `Nat`, signed values and the generic `T` of Fenwick are `Int`, `Vec`/slices are
`Array`s read with `Tbx.Gen.aget` (default 0 out of bounds) and written with `Tbx.Gen.aset` (no-op out of
bounds); arithmetic is unbounded and `-` on `Nat` truncates.  The Rust agrees with this exactly when no
intermediate overflows or underflows and every index is in bounds (otherwise it panics); the theorems carry
those conditions as hypotheses or prove them from the loop invariants.  `while` loops become
`Tbx.Gen.whileFuel fuel cond body state` with the fuel expression given in the whitelist; the tie theorems
show that the fuel suffices on the domain.  A statement after an `if` is duplicated into both branches
(continuation passing), so the generated text contains no join points.
"""
import json, os, re, sys

REPO = os.environ.get("TBX_REPO", "/repo")
VERIF = os.path.dirname(os.path.dirname(os.path.abspath(__file__)))
OUT = os.path.join(VERIF, "lean", "Tbx", "Gen", "Loops.lean")


class Skip(Exception):
    pass


# ------------------------------------------------------------------------------------------------ whitelist
# file, impl header regex (None = free fn), rust name, lean name, self fields {name: type}, param types override,
# return type, fuel expressions for the while loops in order of appearance (Rust variable names are resolved
# at the position of the loop: in `rank`, `index` is the shadowing `let mut index = index + 1`); they are the
# fuels of the corresponding hand models, whose sufficiency the property proofs establish
#   types: N Nat, I Int, B Bool, AN Array Nat, AI Array Int, U Unit, ("O", t) Option t, ("T", [..]) tuple
# `Vec<HeapElement{index, weight}>` and `Vec<HeapNode{.., key, ..}>` become parallel arrays (source-level rewrite
# before parsing): field reads/writes through an index, whole-element copies and the element literal
HEAP_REWRITE = [
    (r"self\.heap\[([^\]]+)\]\s*=\s*self\.heap\[([^\]]+)\];",
     r"self.heap_index[\1] = self.heap_index[\2]; self.heap_weight[\1] = self.heap_weight[\2];"),
    (r"self\.heap\[([^\]]+)\]\s*=\s*HeapElement\s*\{\s*index:\s*(\w+),\s*weight,?\s*\};",
     r"self.heap_index[\1] = \2; self.heap_weight[\1] = weight;"),
    (r"self\.inserted_nodes\[self\.heap\[(\w+)\]\.index\]\.key", r"self.nodes_key[self.heap_index[\1]]"),
    (r"self\.inserted_nodes\[(\w+)\]\.key", r"self.nodes_key[\1]"),
    (r"self\.heap\[(\w+)\]\.index", r"self.heap_index[\1]"),
    (r"self\.heap\[(\w+)\]\.weight", r"self.heap_weight[\1]"),
    (r"self\.heap\.len\(\)", r"self.heap_index.len()"),
]
WL = [
    dict(file="src/math.rs", impl=None, fn="choose", lean="choose", ret="N", narrow={"u64": True}),
    dict(file="src/enumerative_source_coding.rs", impl=None, fn="decode_u64", lean="decodeU64", ret="N"),
    dict(file="src/bin_pack.rs", impl=None, fn="bin_pack_next_fit", lean="nextFit", ret=("O", ("T", ["N", "AN"]))),
    dict(file="src/fenwick.rs", impl=r"Fenwick<T>", fn="rank", lean="fenwickRank", selff={"tree": "AI"}, ret=("O", "I"),
         fuel=["index"], generic_T="I"),
    dict(file="src/fenwick.rs", impl=r"Fenwick<T>", fn="update", lean="fenwickUpdate", selff={"tree": "AI"}, ret=("O", "U"),
         fuel=["self_tree.size"], generic_T="I", params={"value": "I"}),
    dict(file="src/fenwick.rs", impl=r"Fenwick<T>", fn="range", lean="fenwickRange", selff={"tree": "AI"}, ret="I",
         fuel=["j", "i"], generic_T="I"),
    dict(file="src/fenwick.rs", impl=r"Fenwick<T>", fn="select", lean="fenwickSelect", selff={"tree": "AI"}, ret=("O", "N"),
         fuel=["step + 1"], generic_T="I", params={"value": "I"}),
    dict(file="src/union_find.rs", impl=r"UnionFind", fn="find", lean="ufFind", selff={"parent": "AN", "rank": "AN", "number_of_sets": "N"},
         ret="N", fuel=["self_parent.size + 1"]),
    dict(file="src/union_find.rs", impl=r"UnionFind", fn="union", lean="ufUnion", selff={"parent": "AN", "rank": "AN", "number_of_sets": "N"},
         ret="U"),
    dict(file="src/addressable_binary_heap.rs", impl=None, fn="up_heap", lean="heapUp", ret="U",
         selff={"heap_index": "AN", "heap_weight": "AI", "nodes_key": "AN"}, fuel=["key"], rewrite=HEAP_REWRITE),
    dict(file="src/addressable_binary_heap.rs", impl=None, fn="down_heap", lean="heapDown", ret="U",
         selff={"heap_index": "AN", "heap_weight": "AI", "nodes_key": "AN"}, fuel=["self_heap_index.size"], rewrite=HEAP_REWRITE),
    # the probing loop of the medium-size hash table: cells as parallel columns, the hash of the key is a parameter
    # (`home`), the generic key is a Nat
    dict(file="src/medium_size_hash_table.rs", impl=None, fn="contains_key", lean="tableContains", ret="B",
         selff={"time": "AN", "keys": "AN", "stamp": "N"}, params={"key": "N"}, extra_params=[("home", "N")], fuel=["65536"],
         rewrite=[(r"let key_as_u32: u32 = key[^;]*;", ""),
                  (r"self\.hasher\.hash\(key_as_u32\) as usize", "home"),
                  (r"self\.positions\[(\w+)\]\.time", r"self.time[\1]"),
                  (r"self\.positions\[(\w+)\]\.key", r"self.keys[\1]"),
                  (r"self\.current_timestamp\.0", "self.stamp"),
                  (r"MAX_ELEMENTS", "65536")]),
    dict(file="src/partition_id.rs", impl=r"PartitionID", fn="lowest_common_ancestor", lean="pidLca", newtype=True, ret="N",
         fuel=["32"], params={"other": "N"}),
]
# calls of already translated functions: rust path -> (lean name, arg types, result type, mutated-self results?)
CALLS = {
    "choose": ("Tbx.Gen.Loops.choose", "N"),
    "Self::largest_power_of_two_divisor": ("Tbx.Gen.fenwickLsb", "N"),
    "crate::math::prev_power_of_two": ("Tbx.Gen.Loops.prevPow2", "N"),
}
# methods of the same impl that are used inside translated bodies, by their (one-line) definitions
SELF_METHODS = {"Fenwick<T>": {"len": ("(self_tree.size - 1)", "N")}}
NEWTYPE_METHODS = {"level": ("Tbx.Gen.pidLevel", "N"), "parent": ("Tbx.Gen.pidParent", "N")}

# ------------------------------------------------------------------------------------------------ tokenizer
TOKEN = re.compile(r"\s*(\"[^\"]*\"|0x[0-9a-fA-F_]+|0b[01_]+|\d[\d_]*(?:[ui](?:8|16|32|64|128|size))?|[A-Za-z_][A-Za-z0-9_]*!?|"
                   r"\.\.=|\.\.|<<=|>>=|\+=|-=|\*=|/=|%=|&=|\|=|\^=|<<|>>|<=|>=|==|!=|&&|\|\||::|->|=>|[-+*/%&|^!<>=(){}\[\],;.:'?])")


def tokenize(s):
    s = re.sub(r"//[^\n]*", "", s)
    out, pos = [], 0
    while pos < len(s):
        m = TOKEN.match(s, pos)
        if not m:
            if s[pos:].strip() == "":
                break
            raise Skip(f"cannot tokenize at: {s[pos:pos+30]!r}")
        out.append(m.group(1))
        pos = m.end()
    return out


def find_fn(src, impl, name):
    scope = src
    if impl:
        m = re.search(r"\nimpl[^\n{]*" + impl + r"[^\n{]*\{", src)
        if not m:
            raise Skip(f"impl {impl} not found")
        # first impl block containing the fn
        for m in re.finditer(r"\nimpl[^\n{]*" + impl + r"[^\n{]*\{", src):
            depth, i = 1, m.end()
            while depth:
                depth += src[i] == "{"
                depth -= src[i] == "}"
                i += 1
            blk = src[m.end():i - 1]
            if re.search(r"\bfn\s+" + name + r"\s*[(<]", blk):
                scope = blk
                break
        else:
            raise Skip(f"fn {name} not found in an impl of {impl}")
    m = re.search(r"\bfn\s+" + name + r"\s*(?:<[^>]*>)?\s*\(([^)]*)\)\s*(?:->\s*([^{]+?))?\s*\{", scope)
    if not m:
        raise Skip(f"fn {name} not found")
    depth, i = 1, m.end()
    while depth:
        depth += scope[i] == "{"
        depth -= scope[i] == "}"
        i += 1
    return m.group(1), (m.group(2) or "").strip(), scope[m.end():i - 1]


# ------------------------------------------------------------------------------------------------ parser
class Parser:
    PREC = {"||": 1, "&&": 2, "==": 3, "!=": 3, "<": 3, "<=": 3, ">": 3, ">=": 3, "|": 4, "^": 5, "&": 6,
            "<<": 7, ">>": 7, "+": 8, "-": 8, "*": 9, "/": 9, "%": 9}
    ASSIGN = {"=", "+=", "-=", "*=", "/=", "%=", "<<=", ">>=", "&=", "|=", "^="}

    def __init__(self, toks):
        self.t, self.i = toks, 0

    def peek(self, k=0):
        return self.t[self.i + k] if self.i + k < len(self.t) else None

    def next(self):
        x = self.peek()
        self.i += 1
        return x

    def expect(self, x):
        y = self.next()
        if y != x:
            raise Skip(f"expected {x}, got {y} near {' '.join(self.t[max(0,self.i-5):self.i+3])}")

    # block := '{' stmt* [expr] '}'   (the opening brace is already consumed when inner=True)
    def block(self):
        self.expect("{")
        stmts, tail = [], None
        while self.peek() != "}":
            if self.peek() is None:
                raise Skip("unterminated block")
            s = self.stmt()
            if s[0] == "tail":
                tail = s[1]
                if self.peek() != "}":
                    raise Skip("expression without ; in the middle of a block")
            else:
                stmts.append(s)
        self.expect("}")
        # a trailing if/match statement is the block's value
        return (stmts, tail)

    def stmt(self):
        x = self.peek()
        if x == "let":
            self.next()
            mut = False
            if self.peek() == "mut":
                self.next()
                mut = True
            name = self.next()
            if not re.fullmatch(r"[A-Za-z_]\w*", name):
                raise Skip(f"let pattern {name}")
            if self.peek() == ":":
                self.next()
                self.type_()
            self.expect("=")
            e = self.expr()
            self.expect(";")
            return ("let", name, e)
        if x == "return":
            self.next()
            e = None if self.peek() == ";" else self.expr()
            self.expect(";")
            return ("return", e)
        if x == "break":
            self.next()
            self.expect(";")
            return ("break",)
        if x == "while":
            self.next()
            c = self.expr(nostruct=True)
            b = self.block()
            return ("while", c, b)
        if x == "for":
            self.next()
            pat = self.pattern()
            self.expect("in")
            it = self.expr(nostruct=True)
            b = self.block()
            return ("for", pat, it, b)
        if x in ("debug_assert!", "assert!", "debug!", "info!", "warn!"):
            self.next()
            self.skip_parens()
            self.expect(";")
            return ("nop",)
        if x == "if" or x == "match":
            e = self.expr()
            if self.peek() == ";":
                self.next()
                return ("expr", e)
            if self.peek() == "}":
                return ("tail", e)
            return ("expr", e)
        e = self.expr()
        if self.peek() in self.ASSIGN:
            op = self.next()
            r = self.expr()
            self.expect(";")
            return ("assign", e, op, r)
        if self.peek() == ";":
            self.next()
            return ("expr", e)
        return ("tail", e)

    def skip_parens(self):
        self.expect("(")
        d = 1
        while d:
            t = self.next()
            if t is None:
                raise Skip("unterminated macro")
            d += t == "("
            d -= t == ")"

    def type_(self):
        # consume a type (up to '=' , ',' , ')' , '{' at depth 0)
        d = 0
        while True:
            t = self.peek()
            if t in ("<", "(", "["):
                d += 1
            elif t in (">", ")", "]"):
                if d == 0:
                    return
                d -= 1
            elif d == 0 and t in ("=", ",", "{", ";"):
                return
            self.next()

    def pattern(self):
        if self.peek() == "(":
            self.next()
            ps = []
            while self.peek() != ")":
                if self.peek() in ("&", "mut"):
                    self.next()
                    continue
                ps.append(self.next())
                if self.peek() == ",":
                    self.next()
            self.next()
            return ("ptuple", ps)
        if self.peek() == "&":
            self.next()
        return ("pvar", self.next())

    def expr(self, minp=0, nostruct=False):
        lhs = self.unary(nostruct)
        while True:
            op = self.peek()
            if op == "as":
                self.next()
                ty = self.next()
                lhs = ("cast", lhs, ty)
                continue
            if op in ("..", "..=") and minp == 0:
                self.next()
                rhs = self.expr(1, nostruct)
                lhs = ("range", lhs, rhs, op == "..=")
                continue
            if op not in self.PREC or self.PREC[op] < minp:
                return lhs
            self.next()
            rhs = self.expr(self.PREC[op] + 1, nostruct)
            lhs = ("bin", op, lhs, rhs)

    def unary(self, nostruct):
        x = self.peek()
        if x == "-":
            self.next()
            return ("neg", self.unary(nostruct))
        if x == "!":
            self.next()
            return ("not", self.unary(nostruct))
        if x in ("*", "&"):
            self.next()
            if self.peek() == "mut":
                self.next()
            return self.unary(nostruct)
        return self.postfix(self.atom(nostruct))

    def args(self):
        self.expect("(")
        a = []
        while self.peek() != ")":
            a.append(self.expr())
            if self.peek() == ",":
                self.next()
        self.next()
        return a

    def atom(self, nostruct):
        x = self.next()
        if x is None:
            raise Skip("unexpected end")
        if x == "(":
            if self.peek() == ")":
                self.next()
                return ("unit",)
            e = self.expr()
            if self.peek() == ",":
                es = [e]
                while self.peek() == ",":
                    self.next()
                    if self.peek() == ")":
                        break
                    es.append(self.expr())
                self.expect(")")
                return ("tuple", es)
            self.expect(")")
            return ("paren", e)
        if x == "|":
            # closure |&x| body   or |x| body
            ps = []
            while self.peek() != "|":
                t = self.next()
                if t in ("&", "mut", ","):
                    continue
                ps.append(t)
            self.next()
            return ("closure", ps, self.expr())
        if x == "if":
            c = self.expr(nostruct=True)
            th = self.block()
            el = None
            if self.peek() == "else":
                self.next()
                if self.peek() == "if":
                    self.next()
                    self.i -= 1
                    e2 = self.atom(nostruct)
                    el = ([], e2)
                else:
                    el = self.block()
            return ("if", c, th, el)
        if x == "match":
            sc = self.expr(nostruct=True)
            self.expect("{")
            arms = []
            while self.peek() != "}":
                pat = []
                while self.peek() != "=>":
                    pat.append(self.next())
                self.next()
                if self.peek() == "{":
                    b = self.block()
                else:
                    b = ([], self.expr())
                if self.peek() == ",":
                    self.next()
                arms.append(("".join(pat), b))
            self.next()
            return ("match", sc, arms)
        if x == "vec!":
            self.expect("[")
            v = self.expr()
            self.expect(";")
            n = self.expr()
            self.expect("]")
            return ("vecrep", v, n)
        if re.fullmatch(r"0x[0-9a-fA-F_]+", x):
            return ("num", int(x.replace("_", ""), 16))
        if re.fullmatch(r"0b[01_]+", x):
            return ("num", int(x.replace("_", "")[2:], 2))
        m = re.fullmatch(r"(\d[\d_]*)((?:[ui](?:8|16|32|64|128|size))?)", x)
        if m:
            return ("num", int(m.group(1).replace("_", "")))
        if x in ("true", "false"):
            return ("bool", x == "true")
        if x.startswith('"'):
            return ("str", x)
        if re.fullmatch(r"[A-Za-z_]\w*", x):
            path = [x]
            while self.peek() == "::":
                self.next()
                path.append(self.next())
            if self.peek() == "(":
                return ("call", "::".join(path), self.args())
            if len(path) > 1 or x == "None":
                return ("path", "::".join(path))
            return ("var", x)
        raise Skip(f"unexpected token {x}")

    def postfix(self, e):
        while True:
            if self.peek() == ".":
                self.next()
                f = self.next()
                if self.peek() == "(":
                    e = ("mcall", e, f, self.args())
                else:
                    e = ("field", e, f)
            elif self.peek() == "[":
                self.next()
                i = self.expr()
                self.expect("]")
                e = ("index", e, i)
            elif self.peek() == "?":
                raise Skip("? operator")
            else:
                return e


# ------------------------------------------------------------------------------------------------ code generation
BINOP = {"+": "+", "-": "-", "*": "*", "/": "/", "%": "%", "<<": "<<<", ">>": ">>>", "&": "&&&", "|": "|||", "^": "^^^"}
CMP = {"==": "==", "!=": "!=", "<": "<", "<=": "≤", ">": ">", ">=": "≥"}
LTY = {"N": "Nat", "I": "Int", "B": "Bool", "AN": "Array Nat", "AI": "Array Int", "U": "Unit"}


def lty(t):
    if isinstance(t, tuple):
        if t[0] == "O":
            return f"Option ({lty(t[1])})"
        if t[0] == "T":
            return " × ".join(f"({lty(x)})" if isinstance(x, tuple) else lty(x) for x in t[1])
    return LTY[t]


class Gen:
    def __init__(self, spec, params):
        self.spec = spec
        self.counter = 0
        self.fuel = list(spec.get("fuel", []))
        self.fuel_of = {}
        self.T = spec.get("generic_T", "I")
        self.selff = spec.get("selff", {})
        self.ret = spec["ret"]
        self.size = 0

    def fresh(self, v):
        self.counter += 1
        return f"{v}_{self.counter}"

    # ---- types
    def ty(self, e, env, want=None):
        k = e[0]
        if k == "num":
            return want or "N"
        if k == "bool":
            return "B"
        if k == "var":
            if e[1] in env:
                return env[e[1]][1]
            raise Skip(f"unknown identifier {e[1]}")
        if k == "paren":
            return self.ty(e[1], env, want)
        if k == "neg":
            return "I"
        if k == "not":
            return self.ty(e[1], env, want)
        if k == "cast":
            return "I" if e[2].startswith("i") else "N"
        if k == "bin":
            if e[1] in CMP or e[1] in ("&&", "||"):
                return "B"
            lt = None if e[2][0] == "num" else self.ty(e[2], env, want)
            if e[1] in ("<<", ">>"):
                return lt or want or "N"
            rt = None if e[3][0] == "num" else self.ty(e[3], env, want)
            return lt or rt or want or "N"
        if k == "index":
            at = self.ty(e[1], env)
            return {"AN": "N", "AI": "I"}[at]
        if k == "field":
            return self.ty(("var", self.flat(e)), env)
        if k == "call":
            if e[1] in CALLS:
                return CALLS[e[1]][1]
            if e[1] in ("T::zero", "T::one"):
                return self.T
            if e[1] == "Vec::new":
                return want if want in ("AN", "AI") else "AN"
            if e[1] in ("Some", "Ok"):
                return ("O", self.ty(e[2][0], env) if e[2] else "U")
            raise Skip(f"call of {e[1]}")
        if k == "path":
            if e[1] in ("None",):
                return ("O", "U")
            raise Skip(f"path {e[1]}")
        if k == "mcall":
            m = e[2]
            if e[1] == ("var", "self") and m in SELF_METHODS.get(self.spec.get("impl"), {}):
                return SELF_METHODS[self.spec["impl"]][m][1]
            if m in ("len", "leading_zeros", "trailing_zeros"):
                return "N"
            if m in ("is_empty", "any"):
                return "B"
            if m in ("wrapping_neg", "unwrap", "min", "max", "clone"):
                return self.ty(e[1], env, want)
            if self.spec.get("newtype") and m in NEWTYPE_METHODS:
                return NEWTYPE_METHODS[m][1]
            if m == "find" and self.spec.get("impl") == "UnionFind":
                return "N"
            raise Skip(f"method .{m}()")
        if k == "if":
            return self.ty_block(e[2], env, want)
        if k == "vecrep":
            return {"N": "AN", "I": "AI"}[self.ty(e[1], env, want or "N")]
        if k == "tuple":
            return ("T", [self.ty(x, env) for x in e[1]])
        if k == "unit":
            return "U"
        raise Skip(f"type of {k}")

    def ty_block(self, b, env, want):
        if b[1] is None:
            raise Skip("if-expression without value")
        return self.ty(b[1], env, want)

    def flat(self, e):
        # self.tree -> self_tree ; x.0 -> x
        if e[0] == "field" and e[1] == ("var", "self") and e[2] in self.selff:
            return "self_" + e[2]
        if e[0] == "field" and e[2] == "0" and e[1][0] == "var":
            return e[1][1]
        raise Skip(f"field access {e}")

    # ---- expressions
    def ex(self, e, env, want=None):
        k = e[0]
        if k == "num":
            return f"({e[1]} : {LTY[want]})" if want in ("N", "I") else str(e[1])
        if k == "bool":
            return "true" if e[1] else "false"
        if k == "unit":
            return "()"
        if k == "var":
            if e[1] in env:
                return env[e[1]][0]
            raise Skip(f"unknown identifier {e[1]}")
        if k == "paren":
            return self.ex(e[1], env, want)
        if k == "neg":
            return f"(-{self.ex(e[1], env, 'I')})"
        if k == "not":
            return f"(!{self.ex(e[1], env)})"
        if k == "field":
            return env[self.flat(e)][0]
        if k == "cast":
            src = self.ty(e[1], env)
            inner = self.ex(e[1], env, src if src in ("N", "I") else None)
            tgt = e[2]
            if tgt.startswith("i"):
                return inner if src == "I" else f"(({inner} : Nat) : Int)"
            bits = {"u8": 8, "u16": 16, "u32": 32, "u64": 64, "usize": 64, "u128": 128}[tgt]
            if src == "I":
                return f"(Int.toNat ({inner} % {2 ** bits}))"
            # unsigned -> unsigned: widening is the identity; narrowing keeps the low bits
            if self.spec.get("narrow", {}).get(tgt):
                return f"({inner} % {2 ** bits})"
            return inner
        if k == "bin":
            op = e[1]
            if op in ("&&", "||"):
                return f"({self.ex(e[2], env)} {op} {self.ex(e[3], env)})"
            if op in CMP:
                t = self.ty(e[2], env) if e[2][0] != "num" else self.ty(e[3], env)
                if t not in ("N", "I"):
                    t = None
                a, b = self.ex(e[2], env, t), self.ex(e[3], env, t)
                if op in ("==", "!="):
                    return f"({a} {CMP[op]} {b})"
                return f"(decide ({a} {CMP[op]} {b}))"
            t = self.ty(e, env, want)
            if op in ("<<", ">>"):
                return f"({self.ex(e[2], env, t)} {BINOP[op]} {self.ex(e[3], env, 'N')})"
            return f"({self.ex(e[2], env, t)} {BINOP[op]} {self.ex(e[3], env, t)})"
        if k == "index":
            return f"(Tbx.Gen.aget {self.ex(e[1], env)} {self.ex(e[2], env, 'N')})"
        if k == "call":
            f = e[1]
            if f in CALLS:
                return "(" + " ".join([CALLS[f][0]] + [self.ex(a, env, "N") for a in e[2]]) + ")"
            if f == "Vec::new":
                return "#[]"
            if f == "T::zero":
                return f"(0 : {LTY[self.T]})"
            if f == "T::one":
                return f"(1 : {LTY[self.T]})"
            if f in ("Some", "Ok"):
                inner_t = self.ret[1] if isinstance(self.ret, tuple) and self.ret[0] == "O" else None
                a = self.ex(e[2][0], env, inner_t if inner_t in ("N", "I") else None) if e[2] else "()"
                return f"(some {a})"
            if f == "Err":
                return "none"
            raise Skip(f"call of {f}")
        if k == "path":
            if e[1] == "None":
                return "none"
            raise Skip(f"path {e[1]}")
        if k == "mcall":
            r, m, a = e[1], e[2], e[3]
            if r == ("var", "self") and m in SELF_METHODS.get(self.spec.get("impl"), {}):
                return SELF_METHODS[self.spec["impl"]][m][0]
            if m == "len":
                return f"({self.ex(r, env)}).size"
            if m == "is_empty":
                return f"(({self.ex(r, env)}).size == 0)"
            if m == "leading_zeros":
                return f"(Tbx.Gen.leadingZeros64 {self.ex(r, env, 'N')})"
            if m == "trailing_zeros":
                return f"(Tbx.Gen.trailingZeros {self.ex(r, env, 'N')})"
            if m == "wrapping_neg":
                return f"((18446744073709551616 - {self.ex(r, env, 'N')}) % 18446744073709551616)"
            if m in ("unwrap", "clone"):
                return self.ex(r, env, want)
            if m in ("min", "max") and len(a) == 1:
                t = self.ty(r, env)
                return f"({m} {self.ex(r, env, t)} {self.ex(a[0], env, t)})"
            if m == "any" and r[0] == "mcall" and r[2] == "iter" and a and a[0][0] == "closure":
                arr = r[1]
                et = {"AN": "N", "AI": "I"}[self.ty(arr, env)]
                p = a[0][1][0]
                env2 = dict(env)
                env2[p] = (p, et)
                return f"(({self.ex(arr, env)}).any fun {p} => {self.ex(a[0][2], env2)})"
            if self.spec.get("newtype") and m in NEWTYPE_METHODS and not a:
                return f"({NEWTYPE_METHODS[m][0]} {self.ex(r, env, 'N')})"
            raise Skip(f"method .{m}()")
        if k == "if":
            # pure if-expression (no statements with effects inside)
            th = self.pure_block(e[2], env, want)
            if e[3] is None:
                raise Skip("if-expression without else")
            el = self.pure_block(e[3], env, want)
            return f"(if {self.ex(e[1], env)} then {th} else {el})"
        if k == "vecrep":
            t = self.ty(e[1], env, want and {"AN": "N", "AI": "I"}.get(want) or "N")
            return f"(Array.replicate {self.ex(e[2], env, 'N')} {self.ex(e[1], env, t)})"
        if k == "tuple":
            wants = self.ret[1][1] if (isinstance(self.ret, tuple) and self.ret[0] == "O" and isinstance(self.ret[1], tuple)) else [None] * len(e[1])
            return "(" + ", ".join(self.ex(x, env, w if w in ("N", "I") else None) for x, w in zip(e[1], wants)) + ")"
        raise Skip(f"expression {k}")

    def pure_block(self, b, env, want):
        stmts, tail = b
        if tail is None:
            raise Skip("block without value in expression position")
        out, env2 = "", dict(env)
        for s in stmts:
            if s[0] == "let":
                t = self.ty(s[2], env2)
                n = self.fresh(s[1])
                out += f"let {n} : {lty(t)} := {self.ex(s[2], env2, t if t in ('N','I') else None)}; "
                env2[s[1]] = (n, t)
            elif s[0] == "nop":
                pass
            else:
                raise Skip("statement with effect inside an if-expression")
        return f"({out}{self.ex(tail, env2, want)})"

    # ---- statements (continuation passing: `final(env)` renders the end of the enclosing block)
    def assigned(self, b, outer):
        """names of the enclosing scope that the block assigns to"""
        names = []

        def base(e):
            if e[0] == "var":
                return e[1]
            if e[0] == "index":
                return base(e[1])
            if e[0] == "field":
                try:
                    return self.flat(e)
                except Skip:
                    return base(e[1])
            return None

        def walk_expr(e, local):
            if not isinstance(e, tuple):
                return
            if e[0] == "if":
                walk(e[2], set(local))
                if e[3]:
                    walk(e[3], set(local))
            elif e[0] == "match":
                for _, bb in e[2]:
                    walk(bb, set(local))
            elif e[0] == "mcall" and e[2] == "find" and self.spec.get("impl") == "UnionFind":
                add("self_parent", local)

        def add(n, local):
            if n and n in outer and n not in local and n not in names:
                names.append(n)

        def walk(bb, local):
            for s in bb[0]:
                if s[0] == "let":
                    walk_expr(s[2], local)
                    local.add(s[1])
                elif s[0] == "assign":
                    add(base(s[1]), local)
                    walk_expr(s[3], local)
                elif s[0] in ("expr",):
                    walk_expr(s[1], local)
                elif s[0] == "while":
                    walk(s[2], set(local))
                elif s[0] == "for":
                    walk(s[3], set(local))
            if bb[1] is not None:
                walk_expr(bb[1], local)

        walk(b, set())
        return names

    def tup(self, names, env):
        if not names:
            return "()"
        return "(" + ", ".join(env[n][0] for n in names) + ")" if len(names) > 1 else env[names[0]][0]

    def tup_pat(self, names, env2):
        if not names:
            return "_"
        return "(" + ", ".join(env2[n][0] for n in names) + ")" if len(names) > 1 else env2[names[0]][0]

    def seq(self, stmts, tail, env, final, ind):
        """Lean text for: stmts; tail-or-final"""
        self.size += 1
        if self.size > 4000:
            raise Skip("generated term too large (too many sequential branches)")
        pad = "  " * ind
        if not stmts:
            if tail is not None:
                if tail[0] == "if" and self.has_effect(tail):
                    return self.stmt_if(tail, [], None, env, final, ind, value=True)
                if tail[0] == "match":
                    return self.stmt_match(tail, [], None, env, final, ind)
                return final(env, tail, ind)
            return final(env, None, ind)
        s, rest = stmts[0], stmts[1:]
        k = s[0]
        if k == "nop":
            return self.seq(rest, tail, env, final, ind)
        if k == "let":
            t = self.ty(s[2], env)
            n = self.fresh(s[1])
            env2 = dict(env)
            env2[s[1]] = (n, t)
            return f"{pad}let {n} : {lty(t)} := {self.ex(s[2], env, t if t in ('N','I') else None)}\n" + self.seq(rest, tail, env2, final, ind)
        if k == "assign":
            lhs, op, rhs = s[1], s[2], s[3]
            if lhs[0] == "index":
                arr = lhs[1]
                an = arr[1] if arr[0] == "var" else self.flat(arr)
                at = env[an][1]
                et = {"AN": "N", "AI": "I"}[at]
                idx = self.ex(lhs[2], env, "N")
                val = self.ex(rhs, env, et)
                if op != "=":
                    val = f"((Tbx.Gen.aget {env[an][0]} {idx}) {BINOP[op[:-1]]} {val})"
                n = self.fresh(an)
                env2 = dict(env)
                env2[an] = (n, at)
                return f"{pad}let {n} : {lty(at)} := Tbx.Gen.aset {env[an][0]} {idx} {val}\n" + self.seq(rest, tail, env2, final, ind)
            vn = lhs[1] if lhs[0] == "var" else self.flat(lhs)
            if vn not in env:
                raise Skip(f"assignment to unknown {vn}")
            t = env[vn][1]
            val = self.ex(rhs, env, t if t in ("N", "I") else None)
            if op != "=":
                o = op[:-1]
                val = f"({env[vn][0]} {BINOP[o]} {self.ex(rhs, env, 'N' if o in ('<<', '>>') else t)})"
            n = self.fresh(vn)
            env2 = dict(env)
            env2[vn] = (n, t)
            return f"{pad}let {n} : {lty(t)} := {val}\n" + self.seq(rest, tail, env2, final, ind)
        if k == "return":
            return self.ret_final(env, s[1], ind)
        if k == "expr":
            e = s[1]
            if e[0] == "if":
                return self.stmt_if(e, rest, tail, env, final, ind)
            if e[0] == "match":
                return self.stmt_match(e, rest, tail, env, final, ind)
            if e[0] == "mcall" and e[2] == "push":
                return self.seq([("assign", e[1], "=", ("push", e[1], e[3][0]))] + rest, tail, env, final, ind)
            raise Skip(f"expression statement {e[0]}")
        if k == "while":
            names = self.assigned(s[2], env)
            # continuation duplication may render the same loop several times: one fuel expression per statement
            if id(s) not in self.fuel_of:
                if not self.fuel:
                    raise Skip("while loop without a fuel expression in the whitelist")
                self.fuel_of[id(s)] = self.fuel.pop(0)
            fuel = self.fuel_of[id(s)]
            for n_ in env:
                fuel = re.sub(r"\b" + n_ + r"\b", env[n_][0], fuel)
            has_break = self.contains_break(s[2])
            env = dict(env)
            if has_break:
                env["__brk"] = ("false", "B")
                names = ["__brk"] + names
            envb = dict(env)
            for n_ in names:
                envb[n_] = (self.fresh(n_.strip("_")), env[n_][1])
            cond = self.ex(s[1], envb)
            if has_break:
                cond = f"(!{envb['__brk'][0]} && {cond})"
            body = self.seq(s[2][0], s[2][1], envb, lambda e2, t_, i_: "  " * i_ + self.tup(names, e2), ind + 2)
            env2 = dict(env)
            for n_ in names:
                env2[n_] = (self.fresh(n_.strip("_")), env[n_][1])
            return (f"{pad}let {self.tup_pat(names, env2)} := Tbx.Gen.whileFuel ({fuel})\n"
                    f"{pad}    (fun {self.tup_pat(names, envb)} => {cond})\n"
                    f"{pad}    (fun {self.tup_pat(names, envb)} =>\n{body})\n"
                    f"{pad}    {self.tup(names, env)}\n") + self.seq(rest, tail, {k_: v_ for k_, v_ in env2.items() if k_ != "__brk"}, final, ind)
        if k == "for":
            return self.stmt_for(s, rest, tail, env, final, ind)
        if k == "break":
            if "__brk" in env:
                # leave the enclosing `while`: the rest of the body is skipped, the loop condition sees the flag
                env2 = dict(env)
                env2["__brk"] = ("true", "B")
                return final(env2, None, ind)
            raise Skip("break outside the supported loop shapes")
        raise Skip(f"statement {k}")

    def contains_break(self, b):
        def st(x):
            if x[0] == "break":
                return True
            if x[0] == "expr" and x[1][0] == "if":
                e = x[1]
                return blk(e[2]) or (e[3] is not None and blk(e[3]))
            return False
        def blk(bb):
            return any(st(x) for x in bb[0]) or (bb[1] is not None and bb[1][0] == "if" and (blk(bb[1][2]) or (bb[1][3] is not None and blk(bb[1][3]))))
        return blk(b)

    def has_effect(self, e):
        def blk(b):
            return any(s[0] not in ("let", "nop") for s in b[0]) or (b[1] is not None and b[1][0] in ("if", "match") and self.has_effect(b[1]))
        if e[0] == "if":
            return blk(e[2]) or (e[3] is not None and blk(e[3]))
        return True

    def stmt_if(self, e, rest, tail, env, final, ind, value=False):
        pad = "  " * ind
        c = self.ex(e[1], env)
        th = self.seq(e[2][0] + (rest if not value else []), e[2][1] if value else (tail if True else None), env, final, ind + 1) \
            if value else self.seq(e[2][0] + self.tail_as_stmts(e[2][1]) + rest, tail, env, final, ind + 1)
        if e[3] is None:
            el = self.seq(rest, tail, env, final, ind + 1)
        elif value:
            el = self.seq(e[3][0], e[3][1], env, final, ind + 1)
        else:
            el = self.seq(e[3][0] + self.tail_as_stmts(e[3][1]) + rest, tail, env, final, ind + 1)
        return f"{pad}if {c} then\n{th}\n{pad}else\n{el}"

    def tail_as_stmts(self, t):
        if t is None:
            return []
        if t[0] in ("if", "match"):
            return [("expr", t)]
        raise Skip("value of a statement-position block is dropped")

    def stmt_match(self, e, rest, tail, env, final, ind):
        pad = "  " * ind
        sc = e[1]
        if not (sc[0] == "mcall" and sc[2] == "cmp"):
            raise Skip("match on something other than a.cmp(&b)")
        t = self.ty(sc[1], env)
        a, b = self.ex(sc[1], env, t), self.ex(sc[3][0], env, t)
        out = f"{pad}match compare {a} {b} with\n"
        names = {"Ordering::Less": ".lt", "Ordering::Greater": ".gt", "Ordering::Equal": ".eq"}
        for pat, blk in e[2]:
            if pat not in names:
                raise Skip(f"match arm {pat}")
            out += f"{pad}| {names[pat]} =>\n" + self.seq(blk[0] + self.tail_as_stmts(blk[1]) + rest, tail, env, final, ind + 2) + "\n"
        return out.rstrip("\n")

    def stmt_for(self, s, rest, tail, env, final, ind):
        pad = "  " * ind
        pat, it, body = s[1], s[2], s[3]
        names = self.assigned(body, env)
        envb = dict(env)
        for n_ in names:
            envb[n_] = (self.fresh(n_), env[n_][1])
        rev = False
        if it[0] == "mcall" and it[2] == "rev":
            rev, it = True, it[1]
            if it[0] == "paren":
                it = it[1]
        # prefix loop: `for x in slice { if c { effects } else { break; } }`
        brk = None
        if len(body[0]) == 1 and body[0][0][0] == "expr" and body[0][0][1][0] == "if" and body[1] is None:
            ife = body[0][0][1]
            if ife[3] is not None and ife[3][0] == [("break",)] and ife[3][1] is None:
                brk = ife
        elif body[1] is not None and body[1][0] == "if" and not body[0]:
            ife = body[1]
            if ife[3] is not None and ife[3][0] == [("break",)] and ife[3][1] is None:
                brk = ife
        if it[0] == "range":
            if pat[0] != "pvar":
                raise Skip("tuple pattern over a range")
            iv = self.fresh(pat[1])
            envb[pat[1]] = (iv, "N")
            a, b = self.ex(it[1], env, "N"), self.ex(it[2], env, "N")
            ln = f"(({b} + 1) - {a})" if it[3] else f"({b} - {a})"
            lst = f"(List.range' {a} {ln})"
            binder = iv
            pre = ""
        elif it[0] == "mcall" and it[2] == "enumerate" and it[1][0] == "mcall" and it[1][2] == "iter":
            arr = it[1][1]
            at = self.ty(arr, env)
            iv, xv = self.fresh(pat[1][0]), self.fresh(pat[1][1])
            envb[pat[1][0]] = (iv, "N")
            envb[pat[1][1]] = (xv, {"AN": "N", "AI": "I"}[at])
            lst = f"(List.range ({self.ex(arr, env)}).size)"
            binder = iv
            pre = "  " * (ind + 2) + f"let {xv} : {LTY[envb[pat[1][1]][1]]} := Tbx.Gen.aget {self.ex(arr, env)} {iv}\n"
        else:
            # for x in slice
            at = self.ty(it, env)
            if at not in ("AN", "AI") or pat[0] != "pvar":
                raise Skip("for over an unsupported iterator")
            xv = self.fresh(pat[1])
            envb[pat[1]] = (xv, {"AN": "N", "AI": "I"}[at])
            lst = f"({self.ex(it, env)}).toList"
            binder = xv
            pre = ""
        if rev:
            lst = f"{lst}.reverse"
        env2 = dict(env)
        for n_ in names:
            env2[n_] = (self.fresh(n_), env[n_][1])
        if brk is not None:
            # state = (stopped, vars); once stopped the state is kept
            c = self.ex(brk[1], envb)
            stp = self.fresh("stopped")
            bodytxt = self.seq(brk[2][0], brk[2][1], envb, lambda e2, t_, i_: "  " * i_ + f"(false, {self.tup(names, e2)})", ind + 3)
            return (f"{pad}let (_, {self.tup_pat(names, env2)}) := {lst}.foldl\n"
                    f"{pad}    (fun ({stp}, {self.tup_pat(names, envb)}) {binder} =>\n{pre}"
                    f"{pad}      if {stp} then (true, {self.tup(names, envb)}) else if {c} then\n{bodytxt}\n"
                    f"{pad}      else (true, {self.tup(names, envb)}))\n"
                    f"{pad}    (false, {self.tup(names, env)})\n") + self.seq(rest, tail, env2, final, ind)
        bodytxt = self.seq(body[0], body[1], envb, lambda e2, t_, i_: "  " * i_ + self.tup(names, e2), ind + 2)
        return (f"{pad}let {self.tup_pat(names, env2)} := {lst}.foldl\n"
                f"{pad}    (fun {self.tup_pat(names, envb)} {binder} =>\n{pre}{bodytxt})\n"
                f"{pad}    {self.tup(names, env)}\n") + self.seq(rest, tail, env2, final, ind)

    def ret_final(self, env, e, ind):
        pad = "  " * ind
        rt = self.ret
        want = rt if rt in ("N", "I") else None
        v = "()" if e is None else self.ex(e, env, want)
        muts = self.spec.get("_mutated", [])
        if muts:
            return f"{pad}({v}, " + ", ".join(env[m][0] for m in muts) + ")"
        return f"{pad}{v}"


def translate(spec):
    src = open(os.path.join(REPO, spec["file"])).read()
    params, ret, body = find_fn(src, spec.get("impl"), spec["fn"])
    for pat, rep in spec.get("rewrite", []):
        body = re.sub(pat, rep, body)
    g = Gen(spec, params)
    env, binders = {}, []
    mut_self = False
    for p in [x.strip() for x in params.split(",") if x.strip()]:
        if p in ("&self", "self", "&mut self"):
            mut_self = p == "&mut self"
            if spec.get("newtype"):
                env["self"] = ("self", "N")
                binders.append("(self : Nat)")
            for f, t in spec.get("selff", {}).items():
                env["self_" + f] = ("self_" + f, t)
                binders.append(f"(self_{f} : {lty(t)})")
            continue
        if p.startswith("mut "):
            p = p[4:]
        pn, pt = [q.strip() for q in p.split(":", 1)]
        pt = pt.replace("&", "").replace("mut ", "").strip()
        t = spec.get("params", {}).get(pn)
        if t is None:
            if pt in ("u32", "usize", "u64", "u8", "u16", "u128"):
                t = "N"
            elif pt in ("i32", "i64", "isize"):
                t = "I"
            elif pt in ("[u32]", "[usize]", "[u64]", "Vec<u32>", "Vec<usize>"):
                t = "AN"
            elif pt == "T":
                t = spec.get("generic_T", "I")
            elif pt == "[T]":
                t = "AI"
            else:
                raise Skip(f"parameter type {pt}")
        env[pn] = (pn, t)
        binders.append(f"({pn} : {lty(t)})")
    for pn, t in spec.get("extra_params", []):
        env[pn] = (pn, t)
        binders.append(f"({pn} : {lty(t)})")
    toks = tokenize("{" + body + "}")
    blk = Parser(toks).block()
    # which self fields are written?
    muts = [n for n in g.assigned(blk, env) if n.startswith("self_")] if mut_self else []
    if spec.get("impl") == "UnionFind" and spec["fn"] == "union" and "self_parent" not in muts:
        muts.insert(0, "self_parent")
    muts = [m for m in ("self_" + f for f in spec.get("selff", {})) if m in muts]
    spec["_mutated"] = muts
    # calls of `self.find(x)` (UnionFind::union): thread the parent array through the call
    if spec.get("impl") == "UnionFind" and spec["fn"] == "union":
        blk = thread_find(blk)
    rt = spec["ret"]
    rts = lty(rt)
    if muts:
        rts = " × ".join([f"({rts})" if isinstance(rt, tuple) else rts] + [lty(env[m][1]) for m in muts])
    text = g.seq(blk[0], blk[1], env, lambda e2, t_, i_: g.ret_final(e2, t_, i_), 1)
    doc = f"/-- generated from {spec['file']}: {(spec.get('impl') or '').replace('<T>', '')}{'::' if spec.get('impl') else ''}{spec['fn']} -/"
    return f"{doc}\ndef {spec['lean']} {' '.join(binders)} : {rts} :=\n{text}\n"


def thread_find(blk):
    """`let r = self.find(x);` -> `let r_p = ufFind parent rank sets x; parent := r_p.2; let r = r_p.1` at AST level"""
    out = []
    for s in blk[0]:
        if s[0] == "let" and s[2][0] == "mcall" and s[2][2] == "find" and s[2][1] == ("var", "self"):
            out.append(("findcall", s[1], s[2][3][0]))
        else:
            out.append(s)
    return (out, blk[1])


# `findcall` statement support is patched into Gen.seq here to keep the generic part readable
_old_seq = Gen.seq


def _seq(self, stmts, tail, env, final, ind):
    if stmts and stmts[0][0] == "findcall":
        _, name, arg = stmts[0]
        pad = "  " * ind
        r = self.fresh(name + "_r")
        n = self.fresh(name)
        p = self.fresh("self_parent")
        env2 = dict(env)
        env2[name] = (n, "N")
        env2["self_parent"] = (p, "AN")
        call = f"ufFind {env['self_parent'][0]} {env['self_rank'][0]} {env['self_number_of_sets'][0]} {self.ex(arg, env, 'N')}"
        return (f"{pad}let {r} := {call}\n{pad}let {n} : Nat := {r}.1\n{pad}let {p} : Array Nat := {r}.2\n"
                + self.seq(stmts[1:], tail, env2, final, ind))
    return _old_seq(self, stmts, tail, env, final, ind)


Gen.seq = _seq

PRELUDE = """/- GENERATED by tools/translate2.py from /repo's current source on every check run. Do not edit. -/
import Tbx.Gen.Fns
set_option linter.unusedVariables false
namespace Tbx.Gen

/-- `v[i]` (the Rust panics out of bounds; the model reads the default) -/
def aget {α} [Inhabited α] (a : Array α) (i : Nat) : α := a.getD i default
/-- `v[i] = x` (the Rust panics out of bounds; the model leaves the array as it is) -/
def aset {α} (a : Array α) (i : Nat) (x : α) : Array α := a.setIfInBounds i x
/-- `while cond(st) { st = body(st) }` with an explicit bound on the number of iterations -/
def whileFuel {σ} : Nat → (σ → Bool) → (σ → σ) → σ → σ
  | 0, _, _, s => s
  | fuel + 1, cond, body, s => if cond s then whileFuel fuel cond body (body s) else s
/-- `u64::leading_zeros` / `usize::leading_zeros` -/
def leadingZeros64 (x : Nat) : Nat := if x = 0 then 64 else 63 - Nat.log2 x

namespace Loops

/-- `math::prev_power_of_two::<usize>` (generic over PrimInt in the source; written here by hand from its three
    lines: 0 for 0, otherwise `1 << (64 - leading_zeros - 1)`) -/
def prevPow2 (n : Nat) : Nat := if n = 0 then 0 else 1 <<< (64 - Tbx.Gen.leadingZeros64 n - 1)

"""
CALLS["crate::math::prev_power_of_two"] = ("Tbx.Gen.Loops.prevPow2", "N")


PINNED = os.path.join(VERIF, "tools", "pinned_loops.json")


def tie_theorems(names, sub):
    out, prev = [], ["fenwickLsb_cur", "pidLevel_cur", "pidParent_cur"]
    for l in names:
        a, b = f"Tbx.GenCur.{sub}{l}", f"Tbx.Gen.{sub}{l}"
        rw = "simp only [" + ", ".join(prev) + "]"
        out.append(f"theorem {l}_cur : @{a} = @{b} := by\n  unfold {a} {b}\n  try {rw}\n  all_goals rfl")
        prev.append(f"{l}_cur")
    return "\n".join(out)


def main():
    """writes lean/Tbx/Gen/Loops.lean with two namespaces (see tools/translate.py): `Tbx.Gen.Loops` = translation of
    the pinned commit (tools/pinned_loops.json; the tie theorems GenLoops*.lean and nothing else build on it),
    `Tbx.GenCur.Loops` = translation of the current source; lean/Tbx/Gen/LoopsCurTie.lean proves them equal by rfl"""
    done, skipped, raw = [], [], {}
    try:
        pinned = json.load(open(PINNED))
    except Exception:
        pinned = {}
    for spec in WL:
        try:
            raw[spec["lean"]] = translate(dict(spec))
            done.append(spec["lean"])
        except Skip as e:
            if os.environ.get("TBX_TRANSLATE_DEBUG"):
                import traceback
                traceback.print_exc()
            skipped.append({"fn": spec["fn"], "why": str(e)})
        except Exception as e:  # the translator never guesses and never takes the check down
            skipped.append({"fn": spec["fn"], "why": f"translator error {type(e).__name__}: {e}"})
    if "--pin" in sys.argv:
        json.dump(raw, open(PINNED, "w"), indent=1)
        print(json.dumps({"pinned": sorted(raw)}))
        return
    order = [spec["lean"] for spec in WL]
    pin_defs = [pinned.get(l, raw.get(l)) for l in order if pinned.get(l, raw.get(l)) is not None]
    cur = [raw[l] for l in order if l in raw]
    cur_txt = "\n".join(cur)
    for name in ("Tbx.Gen.Loops.choose", "Tbx.Gen.fenwickLsb", "Tbx.Gen.pidLevel", "Tbx.Gen.pidParent"):
        cur_txt = cur_txt.replace(name, name.replace("Tbx.Gen.", "Tbx.GenCur.", 1))
    new = PRELUDE + "\n".join(pin_defs) + "\nend Loops\nend Tbx.Gen\n"
    cur_file = ("/- GENERATED by tools/translate2.py from /repo's CURRENT source on every check run. Do not edit. -/\n"
                "import Tbx.Gen.Loops\nimport Tbx.Gen.FnsCur\nset_option linter.unusedVariables false\n"
                "namespace Tbx.GenCur.Loops\nopen Tbx.Gen.Loops (prevPow2)\n\n" + cur_txt + "\nend Tbx.GenCur.Loops\n")
    old = open(OUT).read() if os.path.exists(OUT) else None
    if new != old:
        with open(OUT, "w") as f:
            f.write(new)
    cp = os.path.join(os.path.dirname(OUT), "LoopsCur.lean")
    if not os.path.exists(cp) or open(cp).read() != cur_file:
        open(cp, "w").write(cur_file)
    tie = ("/- GENERATED by tools/translate2.py. Do not edit. -/\nimport Tbx.Gen.LoopsCur\nimport Tbx.Gen.CurTie\nset_option linter.unusedSimpArgs false\nnamespace Tbx.Gen.LoopsCurTie\n\n" +
           "open Tbx.Gen.CurTie\n" + tie_theorems([l for l in order if l in raw], "Loops.") +
           "\n\nend Tbx.Gen.LoopsCurTie\n")
    tp = os.path.join(os.path.dirname(OUT), "LoopsCurTie.lean")
    if not os.path.exists(tp) or open(tp).read() != tie:
        open(tp, "w").write(tie)
    print(json.dumps({"translated": done, "skipped": skipped, "fallback": [x["fn"] for x in skipped], "changed": new != old}))


if __name__ == "__main__":
    main()
