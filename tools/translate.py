#!/usr/bin/env python3
"""
G3 of DESIGN.md 2.3: translates a whitelist of straight-line integer functions of /repo, expression by
expression, into Lean definitions (lean/Tbx/Gen/Fns.lean), on every check run.  The theorems in
lean/Tbx/Props/GenFns.lean are stated about these GENERATED definitions, so an edit of the Rust source
changes the subject of the theorems and the kernel re-checks them.

Subset: `let` bindings, compound assignments to `self.0` / locals, early-`return`-free bodies, integer
literals, + - * / % << >> & | ^, comparisons, && || !, `as` casts (dropped: see below), calls of
max/min/PartitionID::new/PartitionID, methods leading_zeros/min/max/try_into/unwrap, field access,
calls of other translated methods.  Anything else: the function is NOT translated (no guessing), it is
reported under "skipped" and the theorems about it fail to build, i.e. the check reports a broken tie.

Semantics: unsigned values are `Nat`, signed values are `Int`, arithmetic is unbounded.  The Rust
arithmetic agrees with this exactly when no intermediate overflows; the theorems carry those bounds as
hypotheses (e.g. ids below 2^31 for child steps, |lat| <= 90e6 for the cross product whose i64 range is
proved sufficient).  Casts between integer types are therefore identity (Nat -> Int coercion for `as i64`).
"""
import json, os, re, sys

REPO = os.environ.get("TBX_REPO", "/repo")
VERIF = os.path.dirname(os.path.dirname(os.path.abspath(__file__)))
OUT = os.path.join(VERIF, "lean", "Tbx", "Gen", "Fns.lean")

# (file, impl type or None, fn name, lean name, self kind, param kinds, result kind)
#   kinds: N = Nat, I = Int, B = Bool, C = coordinate (lat, lon : Int), X = box (min, max : coordinate)
WHITELIST = [
    ("src/partition_id.rs", "PartitionID", "parent", "pidParent"),
    ("src/partition_id.rs", "PartitionID", "parent_at_level", "pidParentAtLevel"),
    ("src/partition_id.rs", "PartitionID", "left_child", "pidLeftChild"),
    ("src/partition_id.rs", "PartitionID", "right_child", "pidRightChild"),
    ("src/partition_id.rs", "PartitionID", "make_leftmost_descendant", "pidLeftmostDescendant"),
    ("src/partition_id.rs", "PartitionID", "make_rightmost_descendant", "pidRightmostDescendant"),
    ("src/partition_id.rs", "PartitionID", "make_left_child", "pidMakeLeftChild"),
    ("src/partition_id.rs", "PartitionID", "make_right_child", "pidMakeRightChild"),
    ("src/partition_id.rs", "PartitionID", "level", "pidLevel"),
    ("src/partition_id.rs", "PartitionID", "is_left_child", "pidIsLeftChild"),
    ("src/partition_id.rs", "PartitionID", "is_right_child", "pidIsRightChild"),
    ("src/partition_id.rs", "PartitionID", "extract_bit", "pidExtractBit"),
    ("src/geometry.rs", None, "cross_product", "crossProduct"),
    ("src/geometry.rs", None, "is_clock_wise_turn", "isClockWiseTurn"),
    ("src/bounding_box.rs", "BoundingBox", "contains", "bboxContains"),
    ("src/fibonacci_hash.rs", "FastHash for FibonacciHash", "hash", "fibonacciHash"),
    ("src/fenwick.rs", "<T: Integer + Clone + Copy + std::ops::AddAssign + std::ops::Sub<Output = T> + Ord> Fenwick<T>", "largest_power_of_two_divisor", "fenwickLsb"),
]
METHOD_LEAN = {n: l for (_, t, n, l) in WHITELIST if t == "PartitionID"}


class Skip(Exception):
    pass


TOKEN = re.compile(r"\s*(0x[0-9a-fA-F_]+|\d[\d_]*(?:[ui](?:8|16|32|64|128|size))?|[A-Za-z_][A-Za-z0-9_]*|<<=|>>=|\+=|-=|\*=|&=|\|=|\^=|<<|>>|<=|>=|==|!=|&&|\|\||::|->|[-+*/%&|^!<>=(){}\[\],;.:])")


def tokenize(s):
    s = re.sub(r"//[^\n]*", "", s)
    out, pos = [], 0
    while pos < len(s):
        m = TOKEN.match(s, pos)
        if not m:
            if s[pos:].strip() == "":
                break
            raise Skip(f"cannot tokenize at: {s[pos:pos+30]!r}")
        out.append(m.group(1))
        pos = m.end()
    return out


def find_fn(src, impl, name):
    """return (params string, return type, body string)"""
    scope = src
    if impl:
        m = re.search(r"\nimpl\s*" + re.escape(impl) + r"\s*\{", src) or re.search(r"\nimpl[^\n{]*\b" + re.escape(impl.split()[-1].split("<")[0]) + r"\b[^\n{]*\{", src)
        if not m:
            raise Skip(f"impl {impl} not found")
        scope = src[m.end():]
    m = re.search(r"\bfn\s+" + name + r"\s*\(([^)]*)\)\s*(?:->\s*([^{]+?))?\s*\{", scope)
    if not m:
        raise Skip(f"fn {name} not found")
    depth, i = 1, m.end()
    while depth:
        c = scope[i]
        depth += c == "{"
        depth -= c == "}"
        i += 1
    return m.group(1), (m.group(2) or "").strip(), scope[m.end():i - 1]


class P:
    """Pratt parser producing Lean expression strings"""
    PREC = {"||": 1, "&&": 2, "==": 3, "!=": 3, "<": 3, "<=": 3, ">": 3, ">=": 3, "|": 4, "^": 5, "&": 6,
            "<<": 7, ">>": 7, "+": 8, "-": 8, "*": 9, "/": 9, "%": 9}
    LEAN = {"||": "||", "&&": "&&", "==": "==", "!=": "!=", "<": "<", "<=": "≤", ">": ">", ">=": "≥",
            "|": "|||", "^": "^^^", "&": "&&&", "<<": "<<<", ">>": ">>>", "+": "+", "-": "-", "*": "*", "/": "/", "%": "%"}
    CMP = {"==", "!=", "<", "<=", ">", ">="}

    def __init__(self, toks, env):
        self.t, self.i, self.env = toks, 0, env

    def peek(self):
        return self.t[self.i] if self.i < len(self.t) else None

    def next(self):
        x = self.peek()
        self.i += 1
        return x

    def expect(self, x):
        if self.next() != x:
            raise Skip(f"expected {x} near {' '.join(self.t[max(0,self.i-4):self.i+3])}")

    def expr(self, minp=0):
        lhs = self.unary()
        while True:
            op = self.peek()
            if op == "as":
                self.next()
                ty = self.next()
                if ty in ("i64", "i32", "i128", "isize"):
                    lhs = f"(({lhs} : Int))" if not lhs.startswith("((") else lhs
                elif ty in ("u8", "u16", "u32") and self.env.get("__wrap__"):
                    # narrowing cast of an unsigned value keeps the low bits
                    lhs = f"({lhs} % {2 ** int(ty[1:])})"
                continue
            if op not in self.PREC or self.PREC[op] < minp:
                return lhs
            self.next()
            rhs = self.expr(self.PREC[op] + 1)
            if op in self.CMP:
                lhs = f"(decide ({lhs} {self.LEAN[op]} {rhs}))" if op not in ("==", "!=") else f"({lhs} {self.LEAN[op]} {rhs})"
            else:
                lhs = f"({lhs} {self.LEAN[op]} {rhs})"

    def unary(self):
        x = self.peek()
        if x == "-":
            self.next()
            return f"(-{self.unary()})"
        if x == "!":
            self.next()
            return f"(!{self.unary()})"
        if x == "*" or x == "&":
            self.next()
            return self.unary()
        return self.postfix(self.atom())

    def atom(self):
        x = self.next()
        if x is None:
            raise Skip("unexpected end")
        if x == "(":
            e = self.expr()
            self.expect(")")
            return e
        if re.fullmatch(r"0x[0-9a-fA-F_]+", x):
            return str(int(x.replace("_", ""), 16))
        m = re.fullmatch(r"(\d[\d_]*)(?:[ui](?:8|16|32|64|128|size))?", x)
        if m:
            return str(int(m.group(1).replace("_", "")))
        if x in ("max", "min") and self.peek() == "(":
            self.next()
            a = self.expr()
            self.expect(",")
            b = self.expr()
            self.expect(")")
            return f"({x} {a} {b})"
        if x == "PartitionID":
            if self.peek() == "::":
                self.next()
                if self.next() != "new":
                    raise Skip("PartitionID:: call other than new")
            self.expect("(")
            e = self.expr()
            self.expect(")")
            return e
        if x == "self":
            if self.peek() == ".":
                save = self.i
                self.next()
                f = self.next()
                if f == "0":
                    return self.env["self"]
                if f in METHOD_LEAN and self.peek() == "(":
                    self.next()
                    args = []
                    while self.peek() != ")":
                        args.append(self.expr())
                        if self.peek() == ",":
                            self.next()
                    self.next()
                    return "(" + " ".join([METHOD_LEAN[f], self.env["self"]] + args) + ")"
                self.i = save
            return self.env["self"]
        if re.fullmatch(r"[A-Za-z_]\w*", x):
            if x in self.env:
                return self.env[x]
            raise Skip(f"unknown identifier {x}")
        raise Skip(f"unexpected token {x}")

    def postfix(self, e):
        while self.peek() == ".":
            self.next()
            f = self.next()
            if self.peek() == "(":
                self.next()
                args = []
                while self.peek() != ")":
                    args.append(self.expr())
                    if self.peek() == ",":
                        self.next()
                self.next()
                if f == "leading_zeros" and not args:
                    e = f"(Tbx.Gen.leadingZeros32 {e})"
                elif f in ("min", "max") and len(args) == 1:
                    e = f"({f} {e} {args[0]})"
                elif f in ("try_into", "unwrap", "into") and not args:
                    pass
                elif f == "wrapping_mul" and len(args) == 1:
                    e = f"(({e} * {args[0]}) % 18446744073709551616)"
                elif f == "wrapping_neg" and not args:
                    e = f"((18446744073709551616 - {e}) % 18446744073709551616)"
                else:
                    raise Skip(f"method .{f}()")
            else:
                # field access on a structured parameter: names were flattened (a.lat -> a_lat)
                e = f"{e}_{f}"
                if e not in self.env.values() and e not in self.env:
                    raise Skip(f"unknown field {e}")
        return e


def split_statements(body):
    toks = tokenize(body)
    stmts, cur, depth = [], [], 0
    for t in toks:
        if t in "({[":
            depth += 1
        if t in ")}]":
            depth -= 1
        if t == ";" and depth == 0:
            stmts.append(cur)
            cur = []
        else:
            cur.append(t)
    return stmts, cur  # cur = trailing expression (may be empty)


def translate(file, impl, name, lean):
    src = open(os.path.join(REPO, file)).read()
    params, ret, body = find_fn(src, impl, name)
    env, binders = {}, []
    mut_self = False
    for p in [x.strip() for x in params.split(",") if x.strip()]:
        if p in ("&self", "self"):
            if impl == "BoundingBox":
                for f in ("min_lat", "min_lon", "max_lat", "max_lon"):
                    env["self_" + f] = "self_" + f
                    binders.append(f"(self_{f} : Int)")
                env["self"] = "self"
            elif impl == "PartitionID":
                env["self"] = "x"
                binders.append("(x : Nat)")
            else:
                env["self"] = "self"
        elif p == "&mut self":
            env["self"] = "x"
            binders.append("(x : Nat)")
            mut_self = True
        else:
            pn, pt = [q.strip() for q in p.split(":", 1)]
            pt = pt.replace("&", "").strip()
            if pt == "FPCoordinate":
                for f in ("lat", "lon"):
                    env[f"{pn}_{f}"] = f"{pn}_{f}"
                    binders.append(f"({pn}_{f} : Int)")
                env[pn] = pn
            elif pt in ("u32", "usize", "u64", "u8", "u16"):
                env[pn] = pn
                binders.append(f"({pn} : Nat)")
            elif pt in ("i32", "i64"):
                env[pn] = pn
                binders.append(f"({pn} : Int)")
            else:
                raise Skip(f"parameter type {pt}")
    if impl and impl != "PartitionID" and impl != "BoundingBox":
        env["__wrap__"] = "1"
    if impl == "BoundingBox":
        # self.min.lat etc. are written self.min.lat in Rust: pre-flatten
        body = re.sub(r"self\.(min|max)\.(lat|lon)", r"self_\1_\2", body)
    body = re.sub(r"debug_assert!\([^;]*\);", "", body)
    stmts, tail = split_statements(body)
    lines, counter = [], 0
    for st in stmts:
        if not st:
            continue
        if st[0] == "let":
            i = 1
            if st[i] == "mut":
                i += 1
            var = st[i]
            i += 1
            if st[i] == ":":
                while st[i] != "=":
                    i += 1
            if st[i] != "=":
                raise Skip("let without initialiser")
            e = P(st[i + 1:], env).expr()
            counter += 1
            ln = f"{var}{counter}"
            lines.append(f"let {ln} := {e}")
            env[var] = ln
        elif st[0] == "const":
            var = st[1]
            i = st.index("=")
            counter += 1
            ln = f"{var}{counter}"
            lines.append(f"let {ln} := {P(st[i + 1:], env).expr()}")
            env[var] = ln
        elif len(st) > 2 and st[0] in env and st[0] != "self" and st[1] in ("<<=", ">>=", "+=", "-=", "&=", "|=", "^="):
            op = st[1][:-1]
            e = P(st[2:], env).expr()
            counter += 1
            ln = f"{st[0]}{counter}"
            lines.append(f"let {ln} := ({env[st[0]]} {P.LEAN[op]} {e})")
            env[st[0]] = ln
        elif st[:3] == ["self", ".", "0"] and len(st) > 3 and st[3] in ("<<=", ">>=", "+=", "-=", "&=", "|=", "^="):
            op = st[3][:-1]
            e = P(st[4:], env).expr()
            counter += 1
            ln = f"x{counter}"
            lines.append(f"let {ln} := ({env['self']} {P.LEAN[op]} {e})")
            env["self"] = ln
        elif st[:4] == ["self", ".", "0", "="]:
            e = P(st[4:], env).expr()
            counter += 1
            ln = f"x{counter}"
            lines.append(f"let {ln} := {e}")
            env["self"] = ln
        elif len(st) > 2 and st[0] in env and st[0] != "self" and st[1] == "=":
            e = P(st[2:], env).expr()
            counter += 1
            ln = f"{st[0]}{counter}"
            lines.append(f"let {ln} := {e}")
            env[st[0]] = ln
        elif st[:2] == ["self", "."] and st[2] in METHOD_LEAN and mut_self:
            p = P(st[3:], env)
            p.expect("(")
            args = []
            while p.peek() != ")":
                args.append(p.expr())
                if p.peek() == ",":
                    p.next()
            counter += 1
            ln = f"x{counter}"
            lines.append(f"let {ln} := " + " ".join([METHOD_LEAN[st[2]], env["self"]] + args))
            env["self"] = ln
        else:
            raise Skip("statement: " + " ".join(st[:8]))
    if mut_self:
        if tail:
            raise Skip("&mut self method with a result expression")
        result = env["self"]
        rty = "Nat"
    else:
        if not tail:
            raise Skip("no result expression")
        result = P(tail, env).expr()
        rty = {"bool": "Bool", "i64": "Int", "i32": "Int", "u8": "Nat", "u16": "Nat", "u32": "Nat", "u64": "Nat", "usize": "Nat", "PartitionID": "Nat"}.get(ret)
        if rty is None:
            raise Skip(f"return type {ret}")
    text = f"def {lean} " + " ".join(binders) + f" : {rty} :=\n"
    for l in lines:
        text += f"  {l}\n"
    text += f"  {result}\n"
    return text


class PZ(P):
    """expression parser for zorder_cmp: values of the four coordinate fields are `Int`; `^`, `>>`, `&` act on
    their 32-bit patterns; results of those operators are `Nat` patterns"""
    VALUES = {"lhs_lat", "lhs_lon", "rhs_lat", "rhs_lon"}

    def pat(self, e):
        return f"(Tbx.Gen.pat32 {e})" if e in self.VALUES else e

    def expr(self, minp=0):
        lhs = self.unary()
        while True:
            op = self.peek()
            if op not in self.PREC or self.PREC[op] < minp:
                return lhs
            self.next()
            rhs = self.expr(self.PREC[op] + 1)
            if op in ("^", "&", ">>", "<<", "|"):
                lhs = f"({self.pat(lhs)} {self.LEAN[op]} {self.pat(rhs)})"
            elif op in self.CMP:
                lhs = f"({lhs} {self.LEAN[op]} {rhs})" if op in ("==", "!=") else f"(decide ({lhs} {self.LEAN[op]} {rhs}))"
            else:
                lhs = f"({lhs} {self.LEAN[op]} {rhs})"

    def postfix(self, e):
        while self.peek() == ".":
            save = self.i
            self.next()
            f = self.next()
            if f == "cmp" and self.peek() == "(":
                self.next()
                a = self.expr()
                self.expect(")")
                e = f"(compare {e} {a})"
            elif f == "leading_zeros" and self.peek() == "(":
                self.next()
                self.expect(")")
                e = f"(Tbx.Gen.leadingZeros32 {self.pat(e)})"
            elif f in ("lat", "lon") and e in ("lhs", "rhs"):
                e = f"{e}_{f}"
            else:
                self.i = save
                raise Skip(f"zorder: postfix .{f}")
        return e


ORD = {"Greater": ".gt", "Less": ".lt", "Equal": ".eq"}


def z_block(toks, env):
    """statements; `if c { return e; }`; tail expression / `return e` / `match` / `if c { e } else { e }` -> Lean term"""
    toks = list(toks)
    if not toks:
        raise Skip("zorder: empty block")
    # strip `std :: cmp :: Ordering :: X` -> X marker
    def strip_ord(ts):
        out, i = [], 0
        while i < len(ts):
            if ts[i] == "std" and ts[i + 1:i + 7] == ["::", "cmp", "::", "Ordering", "::"] if False else False:
                pass
            if ts[i] == "Ordering" and i + 2 < len(ts) and ts[i + 1] == "::":
                while out and out[-1] in ("::", "std", "cmp"):
                    out.pop()
                out.append("ORD_" + ts[i + 2])
                i += 3
            else:
                out.append(ts[i])
                i += 1
        return out
    toks = strip_ord(toks)

    def find_close(ts, start):
        depth = 0
        for k in range(start, len(ts)):
            if ts[k] in "({[":
                depth += 1
            elif ts[k] in ")}]":
                depth -= 1
                if depth == 0:
                    return k
        raise Skip("zorder: unbalanced")

    def term(ts, env):
        if not ts:
            raise Skip("zorder: empty term")
        if ts[0] == "return":
            ts = ts[1:]
            if ts and ts[-1] == ";":
                ts = ts[:-1]
            return term(ts, env)
        if len(ts) == 1 and ts[0].startswith("ORD_"):
            return ORD[ts[0][4:]]
        if ts[0] == "let":
            semi = next(k for k, t in enumerate(ts) if t == ";" and balanced(ts[:k]))
            var = ts[1]
            e = PZ(ts[3:semi], env).expr()
            ln = var + "'"
            env2 = dict(env)
            env2[var] = ln
            return f"let {ln} := {e}\n  " + term(ts[semi + 1:], env2)
        if ts[0] == "if":
            ob = next(k for k, t in enumerate(ts) if t == "{" and balanced(ts[1:k]))
            cond = PZ(ts[1:ob], env).expr()
            cb = find_close(ts, ob)
            then = term(ts[ob + 1:cb], env)
            rest = ts[cb + 1:]
            if rest and rest[0] == "else":
                eb = find_close(rest, 1)
                els = term(rest[2:eb], env)
                if rest[eb + 1:]:
                    raise Skip("zorder: tokens after if/else")
                return f"(if {cond} then {then} else {els})"
            return f"(if {cond} then {then} else\n  {term(rest, env)})"
        if ts[0] == "match":
            ob = next(k for k, t in enumerate(ts) if t == "{" and balanced(ts[1:k]))
            scrut = PZ(ts[1:ob], env).expr()
            cb = find_close(ts, ob)
            body, arms, k = ts[ob + 1:cb], [], 0
            while k < len(body):
                if not body[k].startswith("ORD_") or body[k + 1:k + 3] != ["=", ">"]:
                    raise Skip("zorder: match arm " + " ".join(body[k:k + 4]))
                pat_ = ORD[body[k][4:]]
                k += 3
                if body[k] == "{":
                    e_end = find_close(body, k)
                    arm = term(body[k + 1:e_end], env)
                    k = e_end + 1
                else:
                    e_end = k
                    depth = 0
                    while e_end < len(body) and not (body[e_end] == "," and depth == 0):
                        depth += body[e_end] in "({["
                        depth -= body[e_end] in ")}]"
                        e_end += 1
                    arm = term(body[k:e_end], env)
                    k = e_end
                if k < len(body) and body[k] == ",":
                    k += 1
                arms.append(f"    | {pat_} => {arm}")
            return f"(match {scrut} with\n" + "\n".join(arms) + ")"
        if ts[-1] == ";":
            ts = ts[:-1]
        return PZ(ts, env).expr()

    def balanced(ts):
        d = 0
        for t in ts:
            d += t in "({["
            d -= t in ")}]"
        return d == 0

    return term(toks, env)


def translate_zorder():
    src = open(os.path.join(REPO, "src/space_filling_curve.rs")).read()
    params, ret, body = find_fn(src, None, "zorder_cmp")
    if "lhs" not in params or "rhs" not in params:
        raise Skip("zorder: parameter names")
    # `std::cmp::Ordering::X`: tokenised as std :: cmp :: Ordering :: X
    env = {"lhs": "lhs", "rhs": "rhs", "lhs_lat": "lhs_lat", "lhs_lon": "lhs_lon", "rhs_lat": "rhs_lat", "rhs_lon": "rhs_lon"}
    body = re.sub(r"//[^\n]*", "", body)
    t = z_block(tokenize(body), env)
    return ("/-- two's complement pattern of an i32 value -/\n"
            "def pat32 (x : Int) : Nat := (x % 4294967296).toNat\n\n"
            "/-- generated from src/space_filling_curve.rs: zorder_cmp -/\n"
            "def zorderCmp (lhs_lat lhs_lon rhs_lat rhs_lon : Int) : Ordering :=\n  " + t + "\n")


PINNED = os.path.join(VERIF, "tools", "pinned_fns.json")


def pinned_text(lean, why):
    """Definition text of `lean` as translated from the pinned commit (tools/pinned_fns.json, written by
    `translate.py --pin`).  Used when the CURRENT source of the function is outside the translator's subset: the
    hand models that call the function keep building (they then describe the pinned code; the correspondence check
    still ties them to the current code), and the function is reported under "fallback", which check.py turns into
    a secondary-tie note for every property."""
    try:
        txt = json.load(open(PINNED)).get(lean)
    except Exception:
        txt = None
    if txt is None:
        return None
    return f"/-- PINNED, not regenerated: the current source is outside the translator's subset ({why}) -/\n" + txt


def tie_theorems(names, sub):
    """`Tbx.GenCur.<sub>f = Tbx.Gen.<sub>f` for every f: unfold both, rewrite the calls of earlier functions with
    their own tie, close by rfl (bounded: a definition that changed makes the proof fail, it never searches)"""
    out, prev = [], []
    for l in names:
        a, b = f"Tbx.GenCur.{sub}{l}", f"Tbx.Gen.{sub}{l}"
        rw = ("simp only [" + ", ".join(prev) + "]") if prev else "fail"
        out.append(f"theorem {l}_cur : @{a} = @{b} := by\n  unfold {a} {b}\n  try {rw}\n  all_goals rfl")
        prev.append(f"{l}_cur")
    return "\n".join(out)


def main():
    done, skipped, defs, fallback, raw = [], {}, [], [], {}
    for (file, impl, name, lean) in WHITELIST:
        try:
            t = translate(file, impl, name, lean)
            raw[lean] = t
            defs.append(f"/-- generated from {file}: {(impl + '::') if impl else ''}{name} -/\n" + t)
            done.append(name)
        except Skip as e:
            skipped[name] = str(e)
        except Exception as e:  # the extractor never guesses
            skipped[name] = f"{type(e).__name__}: {e}"
        if name in skipped:
            t = pinned_text(lean, skipped[name])
            if t is not None:
                defs.append(t)
                fallback.append(name)
    # the four projection keys of inertial flow: closures `|lat, lon| -> i32 { expr }` in ROTATED_COMPARATORS
    try:
        src = open(os.path.join(REPO, "src/inertial_flow.rs")).read()
        m = re.search(r"const\s+ROTATED_COMPARATORS\s*:[^=]*=\s*\[(.*?)\];", src, re.S)
        if not m:
            raise Skip("ROTATED_COMPARATORS not found")
        closures = re.findall(r"\|\s*(\w+)\s*,\s*(\w+)\s*\|\s*->\s*i32\s*\{([^}]*)\}", m.group(1))
        if len(closures) != 4:
            raise Skip(f"expected 4 comparators, found {len(closures)}")
        arms = []
        for i, (a, b, body) in enumerate(closures):
            e = P(tokenize(body), {a: "lat", b: "lon"}).expr()
            arms.append(f"  | {i} => {e}")
        raw["rotatedComparator"] = ("def rotatedComparator (axis : Nat) (lat lon : Int) : Int :=\n  match axis with\n" + "\n".join(arms) + "\n  | _ => 0\n")
        defs.append("/-- generated from src/inertial_flow.rs: ROTATED_COMPARATORS[axis](lat, lon) -/\n" + raw["rotatedComparator"])
        done.append("ROTATED_COMPARATORS")
    except Skip as e:
        skipped["ROTATED_COMPARATORS"] = str(e)
    except Exception as e:
        skipped["ROTATED_COMPARATORS"] = f"{type(e).__name__}: {e}"
    if "ROTATED_COMPARATORS" in skipped:
        t = pinned_text("rotatedComparator", skipped["ROTATED_COMPARATORS"])
        if t is not None:
            defs.append(t)
            fallback.append("ROTATED_COMPARATORS")
    # zorder_cmp: early returns, `.cmp(&x)`, a final `match` on an Ordering; i32 bit operations are taken on the
    # two's complement patterns (pat32), comparisons on the signed values
    try:
        raw["zorderCmp"] = translate_zorder()
        defs.append(raw["zorderCmp"])
        done.append("zorder_cmp")
    except Skip as e:
        skipped["zorder_cmp"] = str(e)
    except Exception as e:
        skipped["zorder_cmp"] = f"{type(e).__name__}: {e}"
    if "zorder_cmp" in skipped:
        t = pinned_text("zorderCmp", skipped["zorder_cmp"])
        if t is not None:
            defs.append(t)
            fallback.append("zorder_cmp")
    if "--pin" in sys.argv:
        json.dump(raw, open(PINNED, "w"), indent=1)
        print(json.dumps({"pinned": sorted(raw)}))
        return 0
    # Two namespaces.  `Tbx.Gen` holds the translation of the PINNED commit (tools/pinned_fns.json): the hand models
    # and their proofs build on it and therefore never break when the source is merely rewritten.  `Tbx.GenCur` holds
    # the translation of the CURRENT source, regenerated on every run; lean/Tbx/Gen/CurTie.lean states, per function,
    # `Tbx.GenCur.f = Tbx.Gen.f` by `rfl` - it checks iff the current source still translates to the pinned text.
    # On the unchanged tree both are identical, so every theorem about `Tbx.Gen.f` is a theorem about what the
    # source says now; after an edit the tie breaks (secondary tie: a note when the correspondence still holds).
    try:
        pinned = json.load(open(PINNED))
    except Exception:
        pinned = {}
    order = [l for (_, _, _, l) in WHITELIST] + ["rotatedComparator", "zorderCmp"]
    pin_defs, cur_defs, ties = [], [], []
    for lean in order:
        ptxt = pinned.get(lean, raw.get(lean))
        if ptxt is None:
            continue
        pin_defs.append(ptxt)
        if lean in raw:
            cur_defs.append(raw[lean])
            ties.append(lean)
    helper = ("/-- `u32::leading_zeros` -/\n"
              "def leadingZeros32 (x : Nat) : Nat := if x = 0 then 32 else 31 - Nat.log2 x\n\n")
    # separate files: a current source whose translation does not even elaborate must not take the pinned
    # definitions (which the hand models import) down with it
    text = ("/- GENERATED by tools/translate.py on every check run. Do not edit.\n"
            "   namespace Tbx.Gen = translation of the pinned commit (tools/pinned_fns.json); the translation of /repo's\n"
            "   CURRENT source is in Tbx/Gen/FnsCur.lean (namespace Tbx.GenCur), Tbx/Gen/CurTie.lean proves them equal -/\n"
            "namespace Tbx.Gen\n\n" + helper + "\n".join(pin_defs) + "\nend Tbx.Gen\n")
    cur_text = ("/- GENERATED by tools/translate.py from /repo's CURRENT source on every check run. Do not edit. -/\n"
                "import Tbx.Gen.Fns\nnamespace Tbx.GenCur\n\n" + "\n".join(cur_defs).replace("Tbx.Gen.pat32", "Tbx.GenCur.pat32") + "\nend Tbx.GenCur\n")
    for path, txt in ((OUT, text), (os.path.join(os.path.dirname(OUT), "FnsCur.lean"), cur_text)):
        old = open(path).read() if os.path.exists(path) else None
        if old != txt:
            os.makedirs(os.path.dirname(path), exist_ok=True)
            open(path, "w").write(txt)
    tie = ("/- GENERATED by tools/translate.py. Do not edit. -/\nimport Tbx.Gen.FnsCur\nset_option linter.unusedSimpArgs false\nnamespace Tbx.Gen.CurTie\n\n" +
           tie_theorems(["pat32"] + ties if "zorderCmp" in ties else ties, "") +
           "\n\nend Tbx.Gen.CurTie\n")
    tp = os.path.join(os.path.dirname(OUT), "CurTie.lean")
    if not os.path.exists(tp) or open(tp).read() != tie:
        open(tp, "w").write(tie)
    fallback = [n for n in skipped]
    print(json.dumps({"translated": done, "skipped": skipped, "fallback": fallback}))
    return 0


if __name__ == "__main__":
    sys.exit(main())
