#!/bin/bash
# tools/eval_round.sh <PROPERTY> <worktree> <round-tag>   evaluates out/m1..m4 of a sub-agent's worktree
P=$1; WT=$2; TAG=$3
cd "$(dirname "$(readlink -f "$0")")/.."
for i in 1 2 3 4 5; do
  [ -d $WT/out/m$i ] || continue
  needs=$(head -1 $WT/out/m$i/notes.md | cut -c1-300)
  python3 tools/mutant_eval.py $WT $WT/out/m$i $P $P-${TAG}m$i --needs "$needs" 2>&1 | grep -E "valid_mutant|does not apply"
done
