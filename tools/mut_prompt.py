#!/usr/bin/env python3
"""prints the prompt for an independent mutation sub-agent: property text + scratch worktree only"""
import json, sys
pid, wt, n = sys.argv[1], sys.argv[2], int(sys.argv[3]) if len(sys.argv) > 3 else 3
p = next(json.loads(l) for l in open('/verif/properties.jsonl') if json.loads(l)['id'] == pid)
print(f"""You are testing how robust a Rust library is against subtle regressions. Work ONLY inside the git worktree {wt} (a checkout of the crate `toolbox-rs`; build offline: `cd {wt} && CARGO_NET_OFFLINE=true cargo build --offline`, tests: `cargo test --offline`). Do not look at or touch /verif or /repo; do not use the network. The crate has an optional cargo feature `verif` (read-only accessors and no-op hooks, all under `#[cfg(feature = "verif")]`): leave those items in place and make sure the crate still builds with `--features verif`.

Property under study — "{p['title']}":
"{p['statement']}"

Task: produce {n} different, independent code changes (mutants) to the library source, each of which (1) still compiles (with and without `--features verif`), (2) still passes the crate's existing test suite unchanged (`cargo test --offline`: lib tests and doctests; do not edit tests), (3) breaks the property above for inputs/histories inside the domain the property quantifies over, and (4) needs something specific to manifest — a multi-step sequence of operations, a particular size or shape at a structural boundary, ties/duplicates, an unusual but valid input, reuse of an object, two code sites that each look fine alone — NOT something that the most ordinary use exposes at once. Prefer realistic slips a maintainer could make in a refactor or "optimisation" (an off-by-one on a boundary, a comparison `<` vs `<=` that matters only with ties, a forgotten update in a rare branch, stale state that survives a reset in one specific order, a fast path with a subtly wrong guard, an overflow-prone shortcut, a wrong index in a non-square case). Spread the mutants over DIFFERENT clauses/components of the property where it has several. The public API must stay the same (no signature changes).

For each mutant i in 1..{n} create directory {wt}/out/m<i>/ containing:
- patch.diff — `git diff` of the source change relative to HEAD (apply with `git apply`), touching only files under src/ (not tests, not Cargo.toml);
- demo.rs — a small standalone Rust program (fn main) using the public API of toolbox_rs (for the command-line binaries you may run them with std::process::Command from `target/debug/<bin>` after `cargo build`) that exits with code 0 / prints PASS on the ORIGINAL code and panics / prints FAIL (non-zero exit) with the mutant applied; I will copy it to examples/demo.rs and run `cargo run --offline --example demo`;
- notes.md — what the change is, why the existing tests do not notice, and exactly what it needs in order to manifest.
Verify each one yourself: with the patch applied: cargo build OK (both feature settings), `cargo test --offline` all green, demo FAILS; with the patch reverted (`git checkout -- src`): demo PASSES. Make sure the worktree is back to a clean HEAD state at the end (except for the out/ directory; remove examples/demo.rs). Report a one-paragraph summary per mutant.""")
