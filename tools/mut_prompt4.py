#!/usr/bin/env python3
"""round 4: prompt for an independent mutation sub-agent (property text + scratch worktree only); three mutants,
one per class: a alternate entry point / glue, b multi-step history across different operations, c arithmetic /
representation.  Nothing about /verif is told to the agent."""
import json, sys
pid, wt = sys.argv[1], sys.argv[2]
p = next(json.loads(l) for l in open('/verif/properties.jsonl') if json.loads(l)['id'] == pid)
print(f"""You are testing how robust a Rust library is against subtle regressions. Work ONLY inside the git worktree {wt} (a checkout of the crate `toolbox-rs`; build offline: `cd {wt} && CARGO_NET_OFFLINE=true cargo build --offline`, tests: `cargo test --offline`). Do not look at or touch /verif or /repo; do not use the network. The crate has an optional cargo feature `verif` (read-only accessors and no-op hooks, all under `#[cfg(feature = "verif")]`): leave those items in place and make sure the crate still builds with `--features verif`.

Property under study — "{p['title']}":
"{p['statement']}"

Task: produce THREE different, independent code changes (mutants) to the library source, each of which (1) still compiles (with and without `--features verif`), (2) still passes the crate's existing test suite unchanged (`cargo test --offline`: lib tests and doctests; do not edit tests), (3) breaks the property above for inputs/histories inside the domain the property quantifies over, and (4) needs something specific to manifest - a multi-step sequence of operations, an unusual but valid input, a particular interleaving, or two cooperating sites that each look fine alone - NOT something that the most ordinary use exposes at once. One mutant per class (if a class is impossible for this property, replace it by another mutant of a possible class and say so):
 m1 — ALTERNATE ENTRY POINT / GLUE: the main, most-used path stays right, but a less-travelled public entry point, constructor variant (`Default`, `with_capacity`, `from_*`), conversion, accessor, iterator adaptor, option/error handling branch or the parsing / serialisation / command-line layer that the property still covers goes wrong on some valid inputs.
 m2 — MULTI-STEP HISTORY ACROSS DIFFERENT OPERATIONS: the failure needs at least three operations of at least two different kinds in a particular order (e.g. grow, then shrink, then look up; run, clear, run on something smaller; remove then re-insert), and every single operation on a fresh object still behaves.
 m3 — ARITHMETIC / REPRESENTATION: an integer width, signedness, rounding, overflow, shift, mask, index or capacity computation that is right on small and on typical values and wrong at a power-of-two boundary, at a specific count, for a specific bit pattern or for large-but-valid values.
Prefer realistic slips a maintainer could make in a refactor or "optimisation". Spread the three mutants over DIFFERENT clauses/components of the property where it has several (the later clauses of the statement deserve as much attention as the first, and so do the less prominent components it names). The public API must stay the same (no signature changes).

For each mutant i in 1..3 create directory {wt}/out/m<i>/ containing:
- patch.diff — `git diff` of the source change relative to HEAD (apply with `git apply`), touching only files under src/ (not tests, not Cargo.toml);
- demo.rs — a small standalone Rust program (fn main) using the public API of toolbox_rs (for the command-line binaries you may run them with std::process::Command from `target/debug/<bin>` after `cargo build`) that exits with code 0 / prints PASS on the ORIGINAL code and panics / prints FAIL (non-zero exit) with the mutant applied; I will copy it to examples/demo.rs and run `cargo run --offline --example demo`;
- notes.md — first line: a one-sentence description of the change (file, function, what); then why the existing tests do not notice, and exactly what it needs in order to manifest (the smallest input/history you know).
Verify each one yourself: with the patch applied: cargo build OK (both feature settings), `cargo test --offline` all green, demo FAILS; with the patch reverted (`git checkout -- src`): demo PASSES. Make sure the worktree is back to a clean HEAD state at the end (except for the out/ directory; remove examples/demo.rs). Report a one-paragraph summary per mutant.""")
