#!/usr/bin/env python3
"""markdown table of the behaviour-preserving changes in harmless/*/meta.json (DESIGN.md 10.7)"""
import glob, json, os, re
V = os.path.dirname(os.path.dirname(os.path.abspath(__file__)))
print("| id | change (first line of the author's notes) | existing tests | author's property demo | `./check` exit | check summary |")
print("|---|---|---|---|---|---|")
for f in sorted(glob.glob(os.path.join(V, "harmless", "*", "meta.json"))):
    m = json.load(open(f))
    n = os.path.join(os.path.dirname(f), "notes.md")
    what = ""
    if os.path.exists(n):
        txt = re.sub(r"```.*?```", "", open(n).read(), flags=re.S)
        para = [l.strip().lstrip("-* ") for l in txt.splitlines() if l.strip() and not l.startswith("#") and re.search(r"[a-z]{4}", l)]
        what = re.sub(r"\s+", " ", para[0])[:150] if para else ""
    out = m["check"]["output"][0] if m["check"]["output"] else ""
    mm = re.search(r"cases (\d+) agree=(\d+) fail=(\d+) disagree=(\d+) drift=(\d+)", out)
    summ = f"{mm.group(1)} cases: agree {mm.group(2)}, fail {mm.group(3)}, disagree {mm.group(4)}, drift {mm.group(5)}" if mm else out[:80]
    print(f"| {m['id']} | {what} | {'pass' if m.get('tests_failed') == 0 else 'FAIL'} | {m.get('authors_property_demo')} | {m['check']['exit']} | {summ} |")
