#!/bin/bash
# runs every claimed check at the quick tier against /repo (refreshes evidence/*.json); 4 at a time
cd "$(dirname "$(readlink -f "$0")")/.."
python3 -c "import json; print('\n'.join(json.load(open('tools/claimed.json'))))" | xargs -P 4 -I{} sh -c './check {} --tier quick 2>&1 | grep -E "^{} tier|VIOLATION" | cut -c1-200'
