#!/usr/bin/env python3
"""
Confirms a seeded change and runs the property's check against it, without ever editing /repo.

  tools/mutant_eval.py <worktree> <mutant-dir> <PROPERTY> <seeded-id> [--needs "text"]

<mutant-dir> holds patch.diff, demo.rs, notes.md (written by an independent sub-agent in its own scratch
worktree of /repo).  Steps, all in <worktree> (a `git worktree` of /repo outside /repo and /verif):
  1. clean tree: demo passes on the unchanged code;
  2. apply the patch: builds, the crate's own test suite passes unchanged, the demo FAILS;
  3. TBX_REPO=<worktree> ./check <PROPERTY> --tier quick  -> record whether a VIOLATION is reported;
  4. revert.
Writes /verif/seeded/<seeded-id>/{patch.diff,demo.rs,notes.md,meta.json}.
"""
import json, os, shutil, subprocess, sys, time

VERIF = os.path.dirname(os.path.dirname(os.path.abspath(__file__)))
ENV = dict(os.environ, CARGO_NET_OFFLINE="true")


def sh(cmd, cwd, timeout=3600):
    p = subprocess.run(cmd, cwd=cwd, shell=True, env=ENV, stdout=subprocess.PIPE, stderr=subprocess.STDOUT, text=True, timeout=timeout)
    return p.returncode, p.stdout


def main():
    wt, md, prop, sid = sys.argv[1:5]
    needs = sys.argv[sys.argv.index("--needs") + 1] if "--needs" in sys.argv else ""
    tier = sys.argv[sys.argv.index("--tier") + 1] if "--tier" in sys.argv else "quick"
    meta = {"id": sid, "property": prop, "needs_to_manifest": needs, "ran": []}
    os.makedirs(os.path.join(wt, "examples"), exist_ok=True)
    sh("git checkout -q -- . && git clean -fdq examples", wt)
    shutil.copy(os.path.join(md, "demo.rs"), os.path.join(wt, "examples", "demo.rs"))
    rc, out = sh("cargo run -q --offline --example demo", wt)
    meta["demo_on_original"] = "pass" if rc == 0 else f"FAIL rc={rc}"
    meta["ran"].append("cargo run --offline --example demo   (unchanged tree)")
    rc, out = sh(f"git apply {os.path.join(md, 'patch.diff')}", wt)
    if rc != 0:
        print("patch does not apply:", out)
        return 2
    rc, out = sh("cargo build -q --offline && cargo build -q --offline --features verif", wt)
    meta["builds"] = rc == 0
    rc, out = sh("cargo test --workspace --no-fail-fast --offline 2>&1 | grep -E '^test result'", wt)
    passed = sum(int(l.split(" passed")[0].split()[-1]) for l in out.splitlines() if " passed" in l)
    failed = sum(int(l.split(" failed")[0].split()[-1]) for l in out.splitlines() if " failed" in l)
    meta["existing_tests_with_change"] = {"passed": passed, "failed": failed}
    meta["ran"].append("git apply patch.diff; cargo build (with and without --features verif); cargo test --workspace --offline")
    rc, out = sh("cargo run -q --offline --example demo", wt)
    meta["demo_with_change"] = "FAILS" if rc != 0 else "passes (!)"
    os.remove(os.path.join(wt, "examples", "demo.rs"))
    t0 = time.time()
    rc, out = sh(f"TBX_REPO={wt} ./check {prop} --tier {tier}", VERIF, timeout=7200)
    lines = [l for l in out.splitlines() if l.startswith("VIOLATION") or l.startswith("KNOWN-FINDING") or l.startswith(prop)]
    meta["check"] = {"cmd": f"TBX_REPO={wt} ./check {prop} --tier {tier}", "exit": rc, "output": lines[:8], "wall_s": round(time.time() - t0, 1),
                     "detected": rc == 1 and any(l.startswith("VIOLATION") for l in lines),
                     "with_failing_input": any(l.startswith("VIOLATION") and "no-failing-input-found" not in l for l in lines)}
    # keep the first replay file as part of the record
    for l in lines:
        if l.startswith("VIOLATION") and "replay=" in l:
            rp = l.split("replay=")[1].split()[0]
            if os.path.exists(rp):
                meta["check"]["replay_excerpt"] = json.load(open(rp))
                break
    sh("git checkout -q -- . && git clean -fdq examples", wt)
    dst = os.path.join(VERIF, "seeded", sid)
    os.makedirs(dst, exist_ok=True)
    for f in ("patch.diff", "demo.rs", "notes.md"):
        if os.path.exists(os.path.join(md, f)):
            shutil.copy(os.path.join(md, f), os.path.join(dst, f))
    json.dump(meta, open(os.path.join(dst, "meta.json"), "w"), indent=1)
    ok = meta["demo_on_original"] == "pass" and meta["builds"] and failed == 0 and meta["demo_with_change"] == "FAILS"
    print(f"{sid}: valid_mutant={ok} tests={passed}/{passed+failed} detected={meta['check']['detected']} "
          f"with_input={meta['check']['with_failing_input']} ({meta['check']['wall_s']}s)")
    for l in lines[:4]:
        print("   ", l[:200])
    return 0


if __name__ == "__main__":
    sys.exit(main())
