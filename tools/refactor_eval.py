#!/usr/bin/env python3
"""
Runs a property's check against a BEHAVIOUR-PRESERVING change (written by an independent sub-agent) to see
whether the check raises a false alarm.   tools/refactor_eval.py <worktree> <refactor-dir> <PROPERTY> <id>
Records the result under /verif/harmless/<id>/{patch.diff,notes.md,meta.json}; /repo is never edited.
"""
import json, os, shutil, subprocess, sys, time
VERIF = os.path.dirname(os.path.dirname(os.path.abspath(__file__)))
ENV = dict(os.environ, CARGO_NET_OFFLINE="true")
def sh(cmd, cwd, timeout=7200):
    p = subprocess.run(cmd, cwd=cwd, shell=True, env=ENV, stdout=subprocess.PIPE, stderr=subprocess.STDOUT, text=True, timeout=timeout)
    return p.returncode, p.stdout
wt, rd, prop, rid = sys.argv[1:5]
meta = {"id": rid, "property": prop}
sh("git checkout -q -- . && git clean -fdq examples", wt)
rc, out = sh(f"git apply {os.path.join(rd, 'patch.diff')}", wt)
if rc != 0:
    print(rid, "patch does not apply"); sys.exit(2)
rc, out = sh("cargo build -q --offline && cargo build -q --offline --features verif", wt)
meta["builds"] = rc == 0
rc, out = sh("cargo test --workspace --no-fail-fast --offline 2>&1 | grep -E '^test result'", wt)
meta["tests_failed"] = sum(int(l.split(" failed")[0].split()[-1]) for l in out.splitlines() if " failed" in l)
demo = os.path.join(os.path.dirname(rd), "demo.rs")
if os.path.exists(demo):
    os.makedirs(os.path.join(wt, "examples"), exist_ok=True)
    shutil.copy(demo, os.path.join(wt, "examples", "demo.rs"))
    rc, out = sh("cargo run -q --offline --example demo", wt)
    meta["authors_property_demo"] = "pass" if rc == 0 else "FAIL"
    os.remove(os.path.join(wt, "examples", "demo.rs"))
t0 = time.time()
rc, out = sh(f"TBX_REPO={wt} ./check {prop} --tier quick", VERIF)
lines = [l for l in out.splitlines() if l.startswith("VIOLATION") or l.startswith("KNOWN-FINDING") or l.startswith(prop)]
meta["check"] = {"exit": rc, "output": [l[:300] for l in lines[:6]], "wall_s": round(time.time() - t0, 1)}
for l in lines:
    if l.startswith("VIOLATION") and "replay=" in l:
        rp = l.split("replay=")[1].split()[0]
        if os.path.exists(rp):
            meta["check"]["replay_excerpt"] = json.load(open(rp))
            break
sh("git checkout -q -- . && git clean -fdq examples", wt)
dst = os.path.join(VERIF, "harmless", rid)
os.makedirs(dst, exist_ok=True)
for f in ("patch.diff", "notes.md"):
    if os.path.exists(os.path.join(rd, f)):
        shutil.copy(os.path.join(rd, f), os.path.join(dst, f))
json.dump(meta, open(os.path.join(dst, "meta.json"), "w"), indent=1)
print(f"{rid}: builds={meta['builds']} tests_failed={meta['tests_failed']} demo={meta.get('authors_property_demo')} check_exit={rc}  {lines[0][:160] if lines else ''}")
for l in lines[1:3]:
    print("    ", l[:220])
