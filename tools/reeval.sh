#!/bin/bash
# tools/reeval.sh <seeded-id> [PROPERTY] [record-id]  re-evaluates a recorded seeded change in a fresh scratch worktree of /repo
id=$1; P=${2:-${id%%-*}}; rec=${3:-$id}
cd "$(dirname "$(readlink -f "$0")")/.."
wt=/tmp/re_$rec; src=/tmp/re_${rec}_src
git -C /repo worktree add -q $wt HEAD || exit 2
rm -rf $src; cp -r seeded/$id $src
needs=$(python3 -c "import json;print(json.load(open('seeded/$id/meta.json')).get('needs_to_manifest',''))")
python3 tools/mutant_eval.py $wt $src $P $rec --needs "$needs" 2>&1 | grep -E "valid_mutant|does not apply"
git -C /repo worktree remove --force $wt; rm -rf $src
