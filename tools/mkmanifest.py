#!/usr/bin/env python3
"""Regenerates MANIFEST.json from tools/props/C*.json (each carries a `manifest` block)."""
import glob, json, os, subprocess
V = os.path.dirname(os.path.dirname(os.path.abspath(__file__)))
props = [json.loads(l) for l in open(os.path.join(V, "properties.jsonl"))]
# only slices that the integrator has run green are claimed
CLAIMED = json.load(open(os.path.join(V, "tools", "claimed.json")))
cfgs = {}
for f in sorted(glob.glob(os.path.join(V, "tools", "props", "C*.json"))):
    c = json.load(open(f))
    if c["id"] in CLAIMED:
        cfgs[c["id"]] = c
commits = subprocess.run(["git", "-C", "/repo", "log", "--format=%h", "--grep=^verif:"], capture_output=True, text=True).stdout.split()
na_reasons = json.load(open(os.path.join(V, "tools", "not_applicable.json"))) if os.path.exists(os.path.join(V, "tools", "not_applicable.json")) else {}
checks = []
for pid, c in cfgs.items():
    m = c["manifest"]
    checks.append({
        "property_id": pid,
        "quick_cmd": f"./check {pid} --tier quick",
        "thorough_cmd": f"./check {pid} --tier thorough",
        "evidence_file": f"evidence/{pid}.json",
        "replay_cmd_template": f"./check {pid} --replay {{path}}",
        "engine": "lean-proof+correspondence",
        "level_claimed": {"category": c.get("level", "proof"), "text": m["text"], "design_ref": m.get("design_ref", f"DESIGN.md section 7/{pid}")},
        "level_note": m["note"],
        "technique": m.get("technique", "Lean 4 proof over a hand model + model/code correspondence by differential execution"),
    })
man = {
    "version": 1,
    "setup_cmd": "bash tools/setup.sh",
    "hooks": {"guard": "cargo feature `verif` (off by default)",
              "enable": "the harness crate depends on /repo with features=[\"verif\"]; /repo binaries are built with --features verif",
              "baseline_off_cmd": "cd /repo && cargo test --workspace --no-fail-fast --offline",
              "source_commits": commits, "add_only": True},
    "engines": [{"name": "lean-proof+correspondence", "path": "tools/check.py", "serves_properties": sorted(cfgs),
                 "kind_free_text": "Lean 4 theorems about hand-written executable models (lean/Tbx), tied to /repo on every run by differential execution of model, Spec judge and the real code on generated cases (harness/), plus constants/tables/functions regenerated from source (tools/extract.py)"}],
    "checks": checks,
    "not_applicable": [{"property_id": p["id"], "reason": na_reasons.get(p["id"], "check under construction in this session (not yet claimed)")} for p in props if p["id"] not in cfgs],
    "notes": "See DESIGN.md. ./check <ID> --tier quick|thorough [--replay FILE]",
}
json.dump(man, open(os.path.join(V, "MANIFEST.json"), "w"), indent=1)
print("claimed:", " ".join(sorted(cfgs)))
