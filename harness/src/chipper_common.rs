//! Shared by gen_c05 / gen_c06: inputs of the `chipper` binary of /repo, running it as a subprocess,
//! reading its three output files, graph generators (sub-graphs of grids with pairwise distinct keys on
//! all four inertial-flow axes).
//!
//! Case format (ops):
//!   P r=<recursion depth> m=<minimum cell size> bbits=<f64 bit pattern of the balance factor> bstr=<the same number as passed on the command line>
//!   N <number of nodes>
//!   C <lat> <lon>                 one per node, in id order (i32 micro-degrees)
//!   U <u> <v> <w1> <w2>           two directed edges of the graph file, in this order: (u,v,w1), (v,u,w2)
//!   E <u> <v> <w>                 one directed edge of the graph file
//!   R n=<threads|-> pin=<cpu list|-> jit=<0|1>      (C06 only) one run of the binary
#![allow(dead_code)]
use std::collections::HashSet;
use std::process::{Command, Stdio};
use std::time::{Duration, Instant};
use tbx_harness::*;

// ------------------------------------------------------------------------------------------------
// SHA-256 (FIPS 180-4), no dependency

const K256: [u32; 64] = [
    0x428a2f98, 0x71374491, 0xb5c0fbcf, 0xe9b5dba5, 0x3956c25b, 0x59f111f1, 0x923f82a4, 0xab1c5ed5, 0xd807aa98, 0x12835b01, 0x243185be, 0x550c7dc3, 0x72be5d74,
    0x80deb1fe, 0x9bdc06a7, 0xc19bf174, 0xe49b69c1, 0xefbe4786, 0x0fc19dc6, 0x240ca1cc, 0x2de92c6f, 0x4a7484aa, 0x5cb0a9dc, 0x76f988da, 0x983e5152, 0xa831c66d,
    0xb00327c8, 0xbf597fc7, 0xc6e00bf3, 0xd5a79147, 0x06ca6351, 0x14292967, 0x27b70a85, 0x2e1b2138, 0x4d2c6dfc, 0x53380d13, 0x650a7354, 0x766a0abb, 0x81c2c92e,
    0x92722c85, 0xa2bfe8a1, 0xa81a664b, 0xc24b8b70, 0xc76c51a3, 0xd192e819, 0xd6990624, 0xf40e3585, 0x106aa070, 0x19a4c116, 0x1e376c08, 0x2748774c, 0x34b0bcb5,
    0x391c0cb3, 0x4ed8aa4a, 0x5b9cca4f, 0x682e6ff3, 0x748f82ee, 0x78a5636f, 0x84c87814, 0x8cc70208, 0x90befffa, 0xa4506ceb, 0xbef9a3f7, 0xc67178f2,
];

pub fn sha256_hex(data: &[u8]) -> String {
    let mut h: [u32; 8] = [0x6a09e667, 0xbb67ae85, 0x3c6ef372, 0xa54ff53a, 0x510e527f, 0x9b05688c, 0x1f83d9ab, 0x5be0cd19];
    let mut msg = data.to_vec();
    let bitlen = (data.len() as u64).wrapping_mul(8);
    msg.push(0x80);
    while msg.len() % 64 != 56 {
        msg.push(0);
    }
    msg.extend_from_slice(&bitlen.to_be_bytes());
    for chunk in msg.chunks(64) {
        let mut w = [0u32; 64];
        for i in 0..16 {
            w[i] = u32::from_be_bytes([chunk[4 * i], chunk[4 * i + 1], chunk[4 * i + 2], chunk[4 * i + 3]]);
        }
        for i in 16..64 {
            let s0 = w[i - 15].rotate_right(7) ^ w[i - 15].rotate_right(18) ^ (w[i - 15] >> 3);
            let s1 = w[i - 2].rotate_right(17) ^ w[i - 2].rotate_right(19) ^ (w[i - 2] >> 10);
            w[i] = w[i - 16].wrapping_add(s0).wrapping_add(w[i - 7]).wrapping_add(s1);
        }
        let mut v = h;
        for i in 0..64 {
            let s1 = v[4].rotate_right(6) ^ v[4].rotate_right(11) ^ v[4].rotate_right(25);
            let ch = (v[4] & v[5]) ^ (!v[4] & v[6]);
            let t1 = v[7].wrapping_add(s1).wrapping_add(ch).wrapping_add(K256[i]).wrapping_add(w[i]);
            let s0 = v[0].rotate_right(2) ^ v[0].rotate_right(13) ^ v[0].rotate_right(22);
            let maj = (v[0] & v[1]) ^ (v[0] & v[2]) ^ (v[1] & v[2]);
            let t2 = s0.wrapping_add(maj);
            v[7] = v[6];
            v[6] = v[5];
            v[5] = v[4];
            v[4] = v[3].wrapping_add(t1);
            v[3] = v[2];
            v[2] = v[1];
            v[1] = v[0];
            v[0] = t1.wrapping_add(t2);
        }
        for i in 0..8 {
            h[i] = h[i].wrapping_add(v[i]);
        }
    }
    let mut s = String::with_capacity(64);
    for x in h {
        s.push_str(&format!("{x:08x}"));
    }
    s
}

// ------------------------------------------------------------------------------------------------
// bincode 2, standard configuration, written by hand (the Lean model Tbx.Bincode is the proved twin;
// the `D gsha` / `D csha` lines compare the two encoders on every case)

pub fn enc_varint(out: &mut Vec<u8>, n: u64) {
    if n < 251 {
        out.push(n as u8);
    } else if n < 65536 {
        out.push(251);
        out.extend_from_slice(&(n as u16).to_le_bytes());
    } else if n < 4294967296 {
        out.push(252);
        out.extend_from_slice(&(n as u32).to_le_bytes());
    } else {
        out.push(253);
        out.extend_from_slice(&n.to_le_bytes());
    }
}

pub fn zigzag(v: i32) -> u64 {
    (((v as i64) << 1) ^ ((v as i64) >> 63)) as u64
}

pub fn enc_edges(edges: &[(usize, usize, u64)]) -> Vec<u8> {
    let mut out = Vec::new();
    enc_varint(&mut out, edges.len() as u64);
    for (u, v, w) in edges {
        enc_varint(&mut out, *u as u64);
        enc_varint(&mut out, *v as u64);
        enc_varint(&mut out, *w);
    }
    out
}

pub fn enc_coords(coords: &[(i32, i32)]) -> Vec<u8> {
    let mut out = Vec::new();
    enc_varint(&mut out, coords.len() as u64);
    for (lat, lon) in coords {
        enc_varint(&mut out, zigzag(*lat));
        enc_varint(&mut out, zigzag(*lon));
    }
    out
}

fn dec_varint(bs: &[u8], pos: &mut usize) -> Option<u64> {
    let b = *bs.get(*pos)?;
    *pos += 1;
    let width = match b {
        0..=250 => return Some(b as u64),
        251 => 2,
        252 => 4,
        253 => 8,
        _ => return None,
    };
    if *pos + width > bs.len() {
        return None;
    }
    let mut v = 0u64;
    for i in 0..width {
        v |= (bs[*pos + i] as u64) << (8 * i);
    }
    *pos += width;
    Some(v)
}

/// Vec<PartitionID> = Vec<u32>; None if the bytes are not exactly one such vector
pub fn decode_pids(bs: &[u8]) -> Option<Vec<u64>> {
    let mut pos = 0;
    let n = dec_varint(bs, &mut pos)?;
    let mut out = Vec::new();
    for _ in 0..n {
        out.push(dec_varint(bs, &mut pos)?);
    }
    if pos != bs.len() {
        return None;
    }
    Some(out)
}

// ------------------------------------------------------------------------------------------------
// inputs

#[derive(Clone, Debug, Default)]
pub struct Input {
    pub r: u32,
    pub m: usize,
    pub bbits: u64,
    pub bstr: String,
    pub n_announced: usize,
    pub coords: Vec<(i32, i32)>,
    pub edges: Vec<(usize, usize, u64)>,
    pub runs: Vec<RunSpec>,
}

#[derive(Clone, Debug, Default)]
pub struct RunSpec {
    pub threads: Option<usize>,
    pub pin: Option<String>,
    pub jitter: bool,
}

pub fn parse_input(case: &Case) -> Option<Input> {
    let mut inp = Input::default();
    let mut have_p = false;
    for op in &case.ops {
        let t: Vec<&str> = op.split_whitespace().collect();
        match t.first().copied() {
            Some("P") => {
                for kv in &t[1..] {
                    let (k, v) = kv.split_once('=')?;
                    match k {
                        "r" => inp.r = v.parse().ok()?,
                        "m" => inp.m = v.parse().ok()?,
                        "bbits" => inp.bbits = v.parse().ok()?,
                        "bstr" => inp.bstr = v.to_string(),
                        _ => {}
                    }
                }
                have_p = true;
            }
            Some("N") => inp.n_announced = t.get(1)?.parse().ok()?,
            Some("C") => inp.coords.push((t.get(1)?.parse().ok()?, t.get(2)?.parse().ok()?)),
            Some("U") => {
                let u: usize = t.get(1)?.parse().ok()?;
                let v: usize = t.get(2)?.parse().ok()?;
                let w1: u64 = t.get(3)?.parse().ok()?;
                let w2: u64 = t.get(4)?.parse().ok()?;
                inp.edges.push((u, v, w1));
                inp.edges.push((v, u, w2));
            }
            Some("E") => {
                inp.edges.push((t.get(1)?.parse().ok()?, t.get(2)?.parse().ok()?, t.get(3)?.parse().ok()?));
            }
            Some("R") => {
                let mut rs = RunSpec::default();
                for kv in &t[1..] {
                    let (k, v) = kv.split_once('=')?;
                    match k {
                        "n" => rs.threads = if v == "-" { None } else { Some(v.parse().ok()?) },
                        "pin" => rs.pin = if v == "-" { None } else { Some(v.to_string()) },
                        "jit" => rs.jitter = v == "1",
                        _ => {}
                    }
                }
                inp.runs.push(rs);
            }
            _ => {}
        }
    }
    if !have_p {
        return None;
    }
    Some(inp)
}

// ------------------------------------------------------------------------------------------------
// running the real binary

pub struct RunOut {
    pub rc: String,
    pub p: Vec<u8>,
    pub a: Vec<u8>,
    pub c: Vec<u8>,
    pub joblog: String,
}

pub fn run_dir() -> String {
    let run_dir = std::env::var("TBX_RUN_DIR").unwrap_or_else(|_| "/verif/build/run/chipper".to_string());
    let dir = format!("{run_dir}/files-{}", std::process::id());
    std::fs::create_dir_all(&dir).unwrap();
    dir
}

pub fn have_taskset() -> bool {
    Command::new("taskset").arg("-V").stdout(Stdio::null()).stderr(Stdio::null()).status().map(|s| s.success()).unwrap_or(false)
}

/// writes graph.bin / coords.bin; returns their bytes
pub fn write_inputs(dir: &str, inp: &Input) -> (Vec<u8>, Vec<u8>) {
    let g = enc_edges(&inp.edges);
    let c = enc_coords(&inp.coords);
    std::fs::write(format!("{dir}/graph.bin"), &g).unwrap();
    std::fs::write(format!("{dir}/coords.bin"), &c).unwrap();
    (g, c)
}

/// one run of `chipper` on the files written by `write_inputs`
pub fn run_chipper(dir: &str, inp: &Input, spec: &RunSpec, joblog: bool, taskset_ok: bool) -> RunOut {
    let bin_dir = std::env::var("TBX_REPO_BIN_DIR").unwrap_or_else(|_| "/verif/build/repo-target/release".to_string());
    let p = format!("{dir}/partition.bin");
    let a = format!("{dir}/assignment.csv");
    let c = format!("{dir}/cut.csv");
    let j = format!("{dir}/joblog.txt");
    for f in [&p, &a, &c, &j] {
        let _ = std::fs::remove_file(f);
    }
    let chipper = format!("{bin_dir}/chipper");
    let mut cmd = match (&spec.pin, taskset_ok) {
        (Some(cpus), true) => {
            // cpu numbers beyond this machine's are folded onto the first one or two cores
            let ncpu = std::thread::available_parallelism().map(|n| n.get()).unwrap_or(1);
            let fits = cpus.split('-').all(|x| x.parse::<usize>().map(|v| v < ncpu).unwrap_or(false));
            let cpus = if fits { cpus.clone() } else if cpus.contains('-') && ncpu >= 2 { "0-1".to_string() } else { "0".to_string() };
            let mut c = Command::new("taskset");
            c.args(["-c", &cpus, &chipper]);
            c
        }
        _ => Command::new(&chipper),
    };
    cmd.args(["-g", &format!("{dir}/graph.bin"), "-c", &format!("{dir}/coords.bin")]);
    cmd.args(["-r", &inp.r.to_string(), "-m", &inp.m.to_string(), "-b", &inp.bstr]);
    cmd.args(["-p", &p, "-a", &a, "-o", &c]);
    if let Some(n) = spec.threads {
        cmd.args(["-n", &n.to_string()]);
    }
    cmd.env("RUST_LOG", "off").env_remove("TOOLBOX_RS_VERIF_JITTER").env_remove("TOOLBOX_RS_VERIF_JOBLOG");
    if spec.jitter {
        cmd.env("TOOLBOX_RS_VERIF_JITTER", "1");
    }
    if joblog {
        cmd.env("TOOLBOX_RS_VERIF_JOBLOG", &j);
    }
    cmd.stdin(Stdio::null()).stdout(Stdio::null()).stderr(Stdio::null());
    let rc = match cmd.spawn() {
        Err(e) => format!("spawn-failed:{}", e.kind()).replace(' ', "_"),
        Ok(mut child) => {
            let t0 = Instant::now();
            loop {
                match child.try_wait() {
                    Ok(Some(st)) => break st.code().map(|c| c.to_string()).unwrap_or_else(|| "signal".to_string()),
                    Ok(None) => {
                        if t0.elapsed() > Duration::from_secs(120) {
                            let _ = child.kill();
                            let _ = child.wait();
                            break "timeout".to_string();
                        }
                        std::thread::sleep(Duration::from_micros(300));
                    }
                    Err(_) => break "wait-failed".to_string(),
                }
            }
        }
    };
    RunOut {
        rc,
        p: std::fs::read(&p).unwrap_or_default(),
        a: std::fs::read(&a).unwrap_or_default(),
        c: std::fs::read(&c).unwrap_or_default(),
        joblog: std::fs::read_to_string(&j).unwrap_or_default(),
    }
}

// ------------------------------------------------------------------------------------------------
// canonical re-parse of the CSV files (no floats: decimal strings to micro-degrees, exactly)

/// "48.123456" -> 48123456 ; None if it is not a plain decimal with at most 6 fractional digits
pub fn micro(s: &str) -> Option<i64> {
    let (neg, body) = match s.strip_prefix('-') {
        Some(r) => (true, r),
        None => (false, s),
    };
    let (ip, fp) = match body.split_once('.') {
        Some((a, b)) => (a, b),
        None => (body, ""),
    };
    if ip.is_empty() || !ip.bytes().all(|b| b.is_ascii_digit()) || !fp.bytes().all(|b| b.is_ascii_digit()) || fp.len() > 6 || ip.len() > 12 {
        return None;
    }
    if body.contains('.') && fp.is_empty() {
        return None;
    }
    let mut v: i64 = ip.parse().ok()?;
    let mut f = fp.to_string();
    while f.len() < 6 {
        f.push('0');
    }
    v = v * 1_000_000 + f.parse::<i64>().ok()?;
    Some(if neg { -v } else { v })
}

fn micro_or_err(s: &str) -> String {
    match micro(s) {
        Some(v) => v.to_string(),
        None => format!("ERR({})", s.replace([' ', ',', ':', '>'], "_")),
    }
}

/// header ok?, rows `id:lat:lon`
pub fn canon_assignment(bytes: &[u8]) -> (bool, Vec<String>, bool) {
    let text = String::from_utf8_lossy(bytes);
    let ends_nl = text.is_empty() || text.ends_with('\n');
    let mut lines = text.split('\n').collect::<Vec<_>>();
    if lines.last() == Some(&"") {
        lines.pop();
    }
    let hdr = lines.first() == Some(&"partition_id, latitude, longitude");
    let mut rows = Vec::new();
    for l in lines.iter().skip(1) {
        let f: Vec<&str> = l.split(", ").collect();
        if f.len() == 3 {
            rows.push(format!("{}:{}:{}", f[0], micro_or_err(f[1]), micro_or_err(f[2])));
        } else {
            rows.push(format!("ERR({})", l.replace([' ', ','], "_")));
        }
    }
    (hdr, rows, ends_nl)
}

/// header ok?, segments `lat:lon>lat:lon` (two consecutive rows = source, target of a cut edge)
pub fn canon_cut(bytes: &[u8]) -> (bool, Vec<String>, bool) {
    let text = String::from_utf8_lossy(bytes);
    let ends_nl = text.is_empty() || text.ends_with('\n');
    let mut lines = text.split('\n').collect::<Vec<_>>();
    if lines.last() == Some(&"") {
        lines.pop();
    }
    let hdr = lines.first() == Some(&"latitude, longitude");
    let pt = |l: &str| -> String {
        let f: Vec<&str> = l.split(", ").collect();
        if f.len() == 2 { format!("{}:{}", micro_or_err(f[0]), micro_or_err(f[1])) } else { format!("ERR({})", l.replace([' ', ','], "_")) }
    };
    let body: Vec<&str> = lines.iter().skip(1).copied().collect();
    let mut segs = Vec::new();
    let mut i = 0;
    while i < body.len() {
        if i + 1 < body.len() {
            segs.push(format!("{}>{}", pt(body[i]), pt(body[i + 1])));
        } else {
            segs.push(format!("{}>ODD", pt(body[i])));
        }
        i += 2;
    }
    (hdr, segs, ends_nl)
}

/// the hook's job log, canonical: per level the jobs sorted by their smallest id, ids ascending inside a job;
/// `L<level>:<id> <id>|<id> ...`; levels ascending.  A malformed line yields `ERR`.
pub fn canon_joblog(text: &str) -> Vec<String> {
    let mut per: std::collections::BTreeMap<u64, Vec<(u64, Vec<u64>)>> = Default::default();
    for l in text.lines() {
        let t: Vec<&str> = l.split_whitespace().collect();
        if t.len() < 2 {
            return vec!["ERR".to_string()];
        }
        let nums: Option<Vec<u64>> = t.iter().map(|x| x.parse::<u64>().ok()).collect();
        let Some(nums) = nums else { return vec!["ERR".to_string()] };
        let mut ids = nums[2..].to_vec();
        ids.sort();
        per.entry(nums[0]).or_default().push((nums[1], ids));
    }
    let mut out = Vec::new();
    for (lvl, mut jobs) in per {
        jobs.sort_by(|a, b| a.1.first().cmp(&b.1.first()).then(a.1.cmp(&b.1)));
        out.push(format!("L{lvl}:{}", jobs.iter().map(|j| join(j.1.iter(), " ")).collect::<Vec<_>>().join("|")));
    }
    out
}

// ------------------------------------------------------------------------------------------------
// graph generators

#[derive(Clone, Debug)]
pub struct GridSpec {
    pub w: usize,
    pub h: usize,
    /// per-mille probability of keeping a node / a grid edge
    pub node_keep: u64,
    pub edge_keep: u64,
    /// per-mille probability of each diagonal (dense families only) and of a random chord per node
    pub diag: u64,
    pub chord: u64,
    pub base: (i32, i32),
    pub swap: bool,
    /// rotate the layout by 45 degrees: (i, j) -> (i + j, i - j), so that the diagonal axes are the natural ones
    pub rot: bool,
    /// 0 = row-major ids, 1 = random ids, 2 = reversed
    pub order: u8,
}

pub struct Graph {
    pub coords: Vec<(i32, i32)>,
    /// undirected edges, each once
    pub und: Vec<(usize, usize)>,
}

/// connected sub-graph of a w x h grid (largest component after the random deletions), with perturbed
/// coordinates such that lat, lon, lat+lon and lat-lon are pairwise distinct over all nodes
pub fn gen_grid(rng: &mut Rng, s: &GridSpec) -> Graph {
    let (w, h) = (s.w.max(1), s.h.max(1));
    let idx = |i: usize, j: usize| i * w + j;
    let mut keep = vec![false; w * h];
    for k in keep.iter_mut() {
        *k = rng.chance(s.node_keep, 1000);
    }
    let mut adj: Vec<Vec<usize>> = vec![Vec::new(); w * h];
    let mut und0: Vec<(usize, usize)> = Vec::new();
    let mut add = |a: usize, b: usize, und0: &mut Vec<(usize, usize)>, adj: &mut Vec<Vec<usize>>| {
        if a != b && !adj[a].contains(&b) {
            adj[a].push(b);
            adj[b].push(a);
            und0.push((a, b));
        }
    };
    for i in 0..h {
        for j in 0..w {
            if !keep[idx(i, j)] {
                continue;
            }
            if j + 1 < w && keep[idx(i, j + 1)] && rng.chance(s.edge_keep, 1000) {
                add(idx(i, j), idx(i, j + 1), &mut und0, &mut adj);
            }
            if i + 1 < h && keep[idx(i + 1, j)] && rng.chance(s.edge_keep, 1000) {
                add(idx(i, j), idx(i + 1, j), &mut und0, &mut adj);
            }
            if s.diag > 0 && i + 1 < h && j + 1 < w {
                if keep[idx(i + 1, j + 1)] && rng.chance(s.diag, 1000) {
                    add(idx(i, j), idx(i + 1, j + 1), &mut und0, &mut adj);
                }
                if keep[idx(i, j + 1)] && keep[idx(i + 1, j)] && rng.chance(s.diag, 1000) {
                    add(idx(i, j + 1), idx(i + 1, j), &mut und0, &mut adj);
                }
            }
            if s.chord > 0 && rng.chance(s.chord, 1000) {
                let t = rng.below((w * h) as u64) as usize;
                if keep[t] {
                    add(idx(i, j), t, &mut und0, &mut adj);
                }
            }
        }
    }
    // largest connected component
    let mut comp = vec![usize::MAX; w * h];
    let mut best = (0usize, usize::MAX);
    let mut nc = 0;
    for s0 in 0..w * h {
        if !keep[s0] || comp[s0] != usize::MAX {
            continue;
        }
        let mut stack = vec![s0];
        comp[s0] = nc;
        let mut size = 0;
        while let Some(x) = stack.pop() {
            size += 1;
            for &y in &adj[x] {
                if comp[y] == usize::MAX {
                    comp[y] = nc;
                    stack.push(y);
                }
            }
        }
        if size > best.0 {
            best = (size, nc);
        }
        nc += 1;
    }
    if best.0 < 3 {
        // degenerate after the deletions: the full grid instead
        let full = GridSpec { node_keep: 1000, edge_keep: 1000, w: w.max(2), h: h.max(2), ..s.clone() };
        return gen_grid(rng, &full);
    }
    let mut members: Vec<usize> = (0..w * h).filter(|&x| comp[x] == best.1).collect();
    match s.order {
        1 => rng.shuffle(&mut members),
        2 => members.reverse(),
        _ => {}
    }
    let mut newid = vec![usize::MAX; w * h];
    for (k, &x) in members.iter().enumerate() {
        newid[x] = k;
    }
    // coordinates: grid position * spacing + perturbation, all four keys pairwise distinct
    let spacing = (8 * w.max(h) as i64 + 8 + rng.below(40) as i64) as i64;
    let pr = (spacing / 2 - 1).max(2);
    let mut used: [HashSet<i64>; 4] = Default::default();
    let mut coords = Vec::with_capacity(members.len());
    for &x in &members {
        let (i, j) = ((x / w) as i64, (x % w) as i64);
        let (gi, gj) = if s.swap { (j, i) } else { (i, j) };
        let (gi, gj) = if s.rot { (gi + gj, gi - gj) } else { (gi, gj) };
        loop {
            let lat = s.base.0 as i64 + gi * spacing + rng.below(pr as u64) as i64;
            let lon = s.base.1 as i64 + gj * spacing + rng.below(pr as u64) as i64;
            let keys = [lat, lon, lat + lon, lat - lon];
            if (0..4).all(|a| !used[a].contains(&keys[a])) {
                for a in 0..4 {
                    used[a].insert(keys[a]);
                }
                coords.push((lat as i32, lon as i32));
                break;
            }
        }
    }
    let und: Vec<(usize, usize)> = und0.iter().filter(|(a, b)| comp[*a] == best.1 && comp[*b] == best.1).map(|(a, b)| (newid[*a], newid[*b])).collect();
    Graph { coords, und }
}

/// connected random graph on `n` nodes with edge probability `p`/1000 (a Hamiltonian path is always present),
/// random coordinates with pairwise distinct keys on all four axes.  Not road-like: cuts can exceed the
/// node count of a cell.
pub fn gen_dense(rng: &mut Rng, n: usize, p: u64) -> Graph {
    let mut used: [HashSet<i64>; 4] = Default::default();
    let mut coords = Vec::with_capacity(n);
    let span = (n as u64 * 50).max(200);
    for _ in 0..n {
        loop {
            let lat = rng.below(span) as i64 - (span / 2) as i64;
            let lon = rng.below(span) as i64 - (span / 3) as i64;
            let keys = [lat, lon, lat + lon, lat - lon];
            if (0..4).all(|a| !used[a].contains(&keys[a])) {
                for a in 0..4 {
                    used[a].insert(keys[a]);
                }
                coords.push((lat as i32, lon as i32));
                break;
            }
        }
    }
    let mut order: Vec<usize> = (0..n).collect();
    rng.shuffle(&mut order);
    let mut und = Vec::new();
    let mut has = HashSet::new();
    for w in order.windows(2) {
        let (a, b) = (w[0].min(w[1]), w[0].max(w[1]));
        if has.insert((a, b)) {
            und.push((a, b));
        }
    }
    for a in 0..n {
        for b in a + 1..n {
            if rng.chance(p, 1000) && has.insert((a, b)) {
                und.push((a, b));
            }
        }
    }
    Graph { coords, und }
}

pub fn rand_weight(rng: &mut Rng) -> u64 {
    match rng.below(10) {
        0 => *rng.pick(&[0u64, 250, 251, 65535, 65536, 4294967295, 4294967296, u64::MAX]),
        1 => rng.below(100000),
        _ => 1 + rng.below(200),
    }
}

/// edge_mode: 0 = `U` lines in random order and orientation, 1 = `E` lines, all directed edges shuffled,
/// 2 = `E` lines sorted by (source, target); anything else = one of the three at random
pub fn make_case(rng: &mut Rng, family: &str, r: u32, m: usize, b: f64, g: &Graph, edge_mode: u8) -> Case {
    let edge_mode = if edge_mode > 2 { rng.below(3) as u8 } else { edge_mode };
    let mut c = Case::new(family);
    c.op(format!("P r={r} m={m} bbits={} bstr={}", b.to_bits(), b));
    c.op(format!("N {}", g.coords.len()));
    for (lat, lon) in &g.coords {
        c.op(format!("C {lat} {lon}"));
    }
    let mut und = g.und.clone();
    match edge_mode {
        0 => {
            rng.shuffle(&mut und);
            for (u, v) in und {
                let (u, v) = if rng.chance(1, 2) { (u, v) } else { (v, u) };
                c.op(format!("U {u} {v} {} {}", rand_weight(rng), rand_weight(rng)));
            }
        }
        _ => {
            let mut dir: Vec<(usize, usize)> = und.iter().flat_map(|&(u, v)| [(u, v), (v, u)]).collect();
            if edge_mode == 1 {
                rng.shuffle(&mut dir);
            } else {
                dir.sort();
            }
            for (u, v) in dir {
                c.op(format!("E {u} {v} {}", rand_weight(rng)));
            }
        }
    }
    c
}

/// One-way streets on top of a grid sub-graph: returns DIRECTED edges.
///  * districts: the nodes beyond a threshold along one of the four axis keys (a strip / corner of the map, i.e. where
///    the contracted ends of an inertial-flow step lie); `inward` districts can be entered but not left (every edge
///    from inside to outside is deleted), `outward` ones can be left but not entered;
///  * `oneway` per-mille of the remaining two-way streets keep one random direction only;
///  * `sinks` nodes lose all outgoing edges, `sources` nodes lose all incoming edges.
pub fn gen_oneway(rng: &mut Rng, g: &Graph, districts: usize, oneway: u64, sinks: usize, sources: usize) -> Vec<(usize, usize)> {
    let n = g.coords.len();
    let mut dir: HashSet<(usize, usize)> = HashSet::new();
    for &(u, v) in &g.und {
        dir.insert((u, v));
        dir.insert((v, u));
    }
    let key = |a: usize, c: (i32, i32)| -> i64 {
        let (lat, lon) = (c.0 as i64, c.1 as i64);
        match a {
            0 => lat,
            1 => lon,
            2 => lat + lon,
            _ => lat - lon,
        }
    };
    for _ in 0..districts {
        let a = rng.below(4) as usize;
        let high = rng.chance(1, 2);
        let mut ks: Vec<i64> = g.coords.iter().map(|c| key(a, *c)).collect();
        ks.sort();
        let cnt = 1 + rng.below((n as u64 * 2 / 5).max(1)) as usize;
        let thr = if high { ks[n - cnt.min(n)] } else { ks[cnt.min(n) - 1] };
        let inside: Vec<bool> = g.coords.iter().map(|c| if high { key(a, *c) >= thr } else { key(a, *c) <= thr }).collect();
        let inward = rng.chance(2, 3);
        dir.retain(|&(u, v)| {
            if inside[u] == inside[v] {
                true
            } else if inward {
                !inside[u] // only edges entering the district survive
            } else {
                inside[u]
            }
        });
    }
    for &(u, v) in &g.und {
        if dir.contains(&(u, v)) && dir.contains(&(v, u)) && rng.chance(oneway, 1000) {
            if rng.chance(1, 2) {
                dir.remove(&(u, v));
            } else {
                dir.remove(&(v, u));
            }
        }
    }
    for _ in 0..sinks {
        let x = rng.below(n as u64) as usize;
        dir.retain(|&(u, _)| u != x);
    }
    for _ in 0..sources {
        let x = rng.below(n as u64) as usize;
        dir.retain(|&(_, v)| v != x);
    }
    let mut out: Vec<(usize, usize)> = dir.into_iter().collect();
    out.sort();
    out
}

/// a case from directed edges (`E` lines): shuffled or sorted by (source, target)
pub fn make_case_directed(rng: &mut Rng, family: &str, r: u32, m: usize, b: f64, coords: &[(i32, i32)], dir: &[(usize, usize)], shuffle: bool) -> Case {
    let mut c = Case::new(family);
    c.op(format!("P r={r} m={m} bbits={} bstr={}", b.to_bits(), b));
    c.op(format!("N {}", coords.len()));
    for (lat, lon) in coords {
        c.op(format!("C {lat} {lon}"));
    }
    let mut dir = dir.to_vec();
    if shuffle {
        rng.shuffle(&mut dir);
    }
    for (u, v) in dir {
        c.op(format!("E {u} {v} {}", rand_weight(rng)));
    }
    c
}

pub const BASES: [(i32, i32); 8] = [
    (0, 0),
    (48_137_000, 11_575_000),
    (-33_868_000, 151_209_000),
    (-1_000, -1_000),
    (89_900_000, -179_900_000),
    (1_000_000, -2_000_000),
    (-90_000_000, -180_000_000),
    (52_000_000, 0),
];

pub fn balance_factor(rng: &mut Rng) -> f64 {
    match rng.below(10) {
        0 => 0.01,
        1 => 0.1,
        2 | 3 => 0.25,
        4 => 0.3,
        5 => 0.49,
        6 => 0.49999999999999994,
        7 => 0.2,
        _ => {
            // random in (0, 0.5) with a short decimal expansion
            let k = 1 + rng.below(499);
            k as f64 / 1000.0
        }
    }
}
