//! Shared plumbing of the correspondence harness.
//!
//! Every property has a binary `gen_cXX` with two modes:
//!   gen  --seed S --tier quick|thorough --out FILE        generate cases (ops only), deterministic in S
//!   exec --in FILE --out FILE2 [--from K]                  run the REAL code on each case and add `I ` lines
//! The case format is described in lean/Tbx/Drv/Common.lean.
use std::fmt::Write as _;
use std::io::{BufRead, Write};
use std::panic::{AssertUnwindSafe, catch_unwind};

/// splitmix64: every random choice of a run derives from one seed
#[derive(Clone)]
pub struct Rng(pub u64);
impl Rng {
    pub fn new(seed: u64) -> Self {
        Rng(seed ^ 0x9E3779B97F4A7C15)
    }
    pub fn next(&mut self) -> u64 {
        self.0 = self.0.wrapping_add(0x9E3779B97F4A7C15);
        let mut z = self.0;
        z = (z ^ (z >> 30)).wrapping_mul(0xBF58476D1CE4E5B9);
        z = (z ^ (z >> 27)).wrapping_mul(0x94D049BB133111EB);
        z ^ (z >> 31)
    }
    /// uniform in 0..n (n > 0)
    pub fn below(&mut self, n: u64) -> u64 {
        self.next() % n
    }
    /// uniform in lo..=hi
    pub fn range(&mut self, lo: i64, hi: i64) -> i64 {
        lo + (self.next() % ((hi - lo + 1) as u64)) as i64
    }
    pub fn chance(&mut self, num: u64, den: u64) -> bool {
        self.below(den) < num
    }
    pub fn pick<'a, T>(&mut self, xs: &'a [T]) -> &'a T {
        &xs[self.below(xs.len() as u64) as usize]
    }
    pub fn shuffle<T>(&mut self, xs: &mut [T]) {
        for i in (1..xs.len()).rev() {
            let j = self.below(i as u64 + 1) as usize;
            xs.swap(i, j);
        }
    }
    pub fn fork(&mut self) -> Rng {
        Rng(self.next())
    }
}

#[derive(Clone, Copy, PartialEq, Eq, Debug)]
pub enum Tier {
    Quick,
    Thorough,
}

#[derive(Clone, Debug, Default)]
pub struct Case {
    pub family: String,
    pub ops: Vec<String>,
}
impl Case {
    pub fn new(family: &str) -> Self {
        Case { family: family.to_string(), ops: Vec::new() }
    }
    pub fn op(&mut self, s: impl Into<String>) -> &mut Self {
        self.ops.push(s.into());
        self
    }
}

pub fn join<T: std::fmt::Display>(xs: impl IntoIterator<Item = T>, sep: &str) -> String {
    let mut s = String::new();
    for (i, x) in xs.into_iter().enumerate() {
        if i > 0 {
            s.push_str(sep);
        }
        let _ = write!(s, "{x}");
    }
    s
}

fn arg(args: &[String], name: &str) -> Option<String> {
    args.iter().position(|a| a == name).and_then(|i| args.get(i + 1).cloned())
}

pub fn read_cases(path: &str) -> Vec<(String, Case)> {
    let f = std::fs::File::open(path).unwrap_or_else(|e| panic!("open {path}: {e}"));
    let mut cases = Vec::new();
    let mut cur: Option<(String, Case)> = None;
    for line in std::io::BufReader::new(f).lines() {
        let line = line.unwrap();
        let l = line.trim();
        if l.starts_with("CASE ") {
            let mut it = l.split_whitespace();
            it.next();
            let id = it.next().unwrap_or("0").to_string();
            let fam = it.next().unwrap_or("").to_string();
            cur = Some((id, Case::new(&fam)));
        } else if l == "END" {
            if let Some(c) = cur.take() {
                cases.push(c);
            }
        } else if l.starts_with("I ") || l == "I" || l.is_empty() || l.starts_with('#') {
            // observations of an earlier exec and comments are dropped
        } else if let Some(c) = cur.as_mut() {
            c.1.ops.push(l.to_string());
        }
    }
    cases
}

/// entry point of every gen_cXX binary
pub fn harness_main(
    generate: impl Fn(&mut Rng, Tier, &mut Vec<Case>),
    execute: impl Fn(&Case, &mut Vec<String>) + Sync,
) {
    let args: Vec<String> = std::env::args().collect();
    let mode = args.get(1).map(|s| s.as_str()).unwrap_or("");
    // keep panic messages of the code under test out of stderr noise
    std::panic::set_hook(Box::new(|_| {}));
    match mode {
        "gen" => {
            let seed: u64 = arg(&args, "--seed").and_then(|s| s.parse().ok()).unwrap_or(1);
            let tier = match arg(&args, "--tier").as_deref() {
                Some("thorough") => Tier::Thorough,
                _ => Tier::Quick,
            };
            let out = arg(&args, "--out").expect("--out");
            let mut rng = Rng::new(seed);
            let mut cases = Vec::new();
            generate(&mut rng, tier, &mut cases);
            let mut w = std::io::BufWriter::new(std::fs::File::create(&out).unwrap());
            for (k, c) in cases.iter().enumerate() {
                writeln!(w, "CASE {k} {}", c.family).unwrap();
                for o in &c.ops {
                    writeln!(w, "{o}").unwrap();
                }
                writeln!(w, "END").unwrap();
            }
            w.flush().unwrap();
            eprintln!("generated {} cases", cases.len());
        }
        "exec" => {
            let inp = arg(&args, "--in").expect("--in");
            let out = arg(&args, "--out").expect("--out");
            let from: usize = arg(&args, "--from").and_then(|s| s.parse().ok()).unwrap_or(0);
            let cases = read_cases(&inp);
            let f = std::fs::OpenOptions::new().create(true).append(true).open(&out).unwrap();
            let mut w = std::io::BufWriter::new(f);
            let progress = format!("{out}.progress");
            for (pos, (id, c)) in cases.iter().enumerate() {
                if pos < from {
                    continue;
                }
                std::fs::write(&progress, format!("{pos} {id}\n")).unwrap();
                // observations made before a panic are kept; the panic itself is an observation
                let mut obs: Vec<String> = Vec::new();
                // every case runs on a thread of its own (8 MiB stack, like the main thread): whatever the library might keep per
                // thread - a memo table, a scratch buffer (seeded change C20-r4m2: a thread-local Pascal table
                // that is only damaged by a particular order of calls and healed by any n = 64 query) - starts
                // fresh and is built up in the order of the case's own operations.  TBX_SAME_THREAD=1 restores
                // in-line execution.
                let same_thread = std::env::var_os("TBX_SAME_THREAD").is_some();
                let panicked = if same_thread {
                    catch_unwind(AssertUnwindSafe(|| execute(c, &mut obs))).is_err()
                } else {
                    let obs_ref = &mut obs;
                    let exec_ref = &execute;
                    std::thread::scope(|s| {
                        std::thread::Builder::new()
                            .stack_size(8 << 20)
                            .spawn_scoped(s, move || catch_unwind(AssertUnwindSafe(|| exec_ref(c, obs_ref))).is_err())
                            .expect("spawn case thread")
                            .join()
                            .unwrap_or(true)
                    })
                };
                if panicked {
                    obs.push("PANIC".to_string());
                }
                writeln!(w, "CASE {id} {}", c.family).unwrap();
                for o in &c.ops {
                    writeln!(w, "{o}").unwrap();
                }
                for o in &obs {
                    writeln!(w, "I {o}").unwrap();
                }
                writeln!(w, "END").unwrap();
                w.flush().unwrap();
            }
            std::fs::write(&progress, format!("{} done\n", cases.len())).unwrap();
        }
        _ => {
            eprintln!("usage: gen --seed S --tier T --out FILE | exec --in FILE --out FILE [--from K]");
            std::process::exit(2);
        }
    }
}
