//! C15: BFS / DFS reachability and path unpacking.
//! Real code: toolbox_rs::bfs::BFS, toolbox_rs::dfs::DFS over toolbox_rs::static_graph::StaticGraph.
//!
//! ops (see lean/Tbx/Drv/C15.lean):
//!   G <bfs|dfs> <n> <m> u0 v0 u1 v1 ...   edges sorted by source (CSR order), edge id = position
//!   new <obj> <srcs> <tgts> | run <obj> <filter> | q <srcs> <tgts> <filter> | rep <obj> <N> <filter>
use std::collections::HashMap;
use tbx_harness::*;
use toolbox_rs::bfs::BFS;
use toolbox_rs::dfs::DFS;
use toolbox_rs::edge::InputEdge;
use toolbox_rs::graph::Graph;
use toolbox_rs::static_graph::StaticGraph;

type G = StaticGraph<i32>;

enum Srch {
    B(BFS),
    D(DFS),
}

impl Srch {
    fn new(alg: &str, s: &[usize], t: &[usize], n: usize) -> Srch {
        if alg == "bfs" { Srch::B(BFS::new(s, t, n)) } else { Srch::D(DFS::new(s, t, n)) }
    }
    /// `None` = the unfiltered entry point `run`, `Some(mask)` = `run_with_filter`
    fn run(&mut self, g: &G, filt: Option<&Vec<bool>>) -> bool {
        match (self, filt) {
            (Srch::B(x), None) => x.run(g),
            (Srch::D(x), None) => x.run(g),
            (Srch::B(x), Some(m)) => x.run_with_filter(g, |_g, e| m.get(e).copied().unwrap_or(false)),
            (Srch::D(x), Some(m)) => x.run_with_filter(g, |_g, e| m.get(e).copied().unwrap_or(false)),
        }
    }
    fn node_path(&self) -> Vec<usize> {
        match self {
            Srch::B(x) => x.fetch_node_path(),
            Srch::D(x) => x.fetch_node_path(),
        }
    }
    fn edge_path(&self, g: &G) -> Vec<usize> {
        match self {
            Srch::B(x) => x.fetch_edge_path(g),
            Srch::D(x) => x.fetch_edge_path(g),
        }
    }
    fn iter(&self) -> Vec<usize> {
        match self {
            Srch::B(x) => x.path_iter().collect(),
            Srch::D(x) => x.path_iter().collect(),
        }
    }
}

fn lst(xs: &[usize]) -> String {
    if xs.is_empty() { "-".to_string() } else { join(xs.iter(), ",") }
}

fn parse_list(s: &str) -> Vec<usize> {
    if s == "-" { Vec::new() } else { s.split(',').map(|x| x.parse().unwrap()).collect() }
}

/// StaticGraph::new_from_sorted_list gives `max id + 1` nodes (1 for the empty edge list)
fn node_count(edges: &[(usize, usize)]) -> usize {
    edges.iter().map(|e| e.0.max(e.1)).max().unwrap_or(0) + 1
}

fn g_line(alg: &str, edges: &[(usize, usize)]) -> String {
    let mut s = format!("G {alg} {} {}", node_count(edges), edges.len());
    for (u, v) in edges {
        s.push_str(&format!(" {u} {v}"));
    }
    s
}

fn build_graph(edges: &[(usize, usize)]) -> G {
    let input: Vec<InputEdge<i32>> = edges.iter().enumerate().map(|(i, (u, v))| InputEdge::new(*u, *v, i as i32)).collect();
    G::new_from_sorted_list(input)
}

fn mask(m: usize, filt: &[usize]) -> Vec<bool> {
    let mut v = vec![false; m];
    for e in filt {
        if *e < m {
            v[*e] = true;
        }
    }
    v
}

// ------------------------------------------------------------------------------------------------
// generation

/// all assignments node -> {source, target, neither}; `small` keeps only |S| = |T| = 1
fn st_assignments(n: usize, small: bool) -> Vec<(Vec<usize>, Vec<usize>)> {
    let mut out = Vec::new();
    let total = 3usize.pow(n as u32);
    for code in 0..total {
        let (mut s, mut t) = (Vec::new(), Vec::new());
        let mut c = code;
        for v in 0..n {
            match c % 3 {
                1 => s.push(v),
                2 => t.push(v),
                _ => {}
            }
            c /= 3;
        }
        if small && !(s.len() == 1 && t.len() == 1) {
            continue;
        }
        out.push((s, t));
    }
    out
}

/// edge list (sorted by source, then target) of the digraph whose adjacency bits are `bits` over k x k
fn graph_from_bits(k: usize, bits: u64, loops: bool) -> Vec<(usize, usize)> {
    let mut edges = Vec::new();
    let mut b = 0;
    for u in 0..k {
        for v in 0..k {
            if !loops && u == v {
                continue;
            }
            if bits >> b & 1 == 1 {
                edges.push((u, v));
            }
            b += 1;
        }
    }
    edges
}

fn exhaustive(k: usize, loops: bool, small: bool, family: &str, cases: &mut Vec<Case>) {
    let nbits = if loops { k * k } else { k * (k - 1) };
    for bits in 0..(1u64 << nbits) {
        let edges = graph_from_bits(k, bits, loops);
        let n = node_count(&edges);
        // an edge set whose top nodes are isolated is a StaticGraph on fewer nodes (max id + 1), so the
        // edge sets over k x k enumerate every StaticGraph on <= k nodes exactly once
        for alg in ["bfs", "dfs"] {
            let mut c = Case::new(family);
            c.op(g_line(alg, &edges));
            for (s, t) in st_assignments(n, small) {
                c.op(format!("q {} {} -", lst(&s), lst(&t)));
            }
            cases.push(c);
        }
    }
}

/// random multigraph with self loops and parallel edges, sorted stably by source only
fn random_graph(rng: &mut Rng, n: usize, m: usize, par: u64, lp: u64) -> Vec<(usize, usize)> {
    let mut edges: Vec<(usize, usize)> = Vec::new();
    while edges.len() < m {
        if !edges.is_empty() && rng.chance(par, 100) {
            let e = *rng.pick(&edges);
            edges.push(e);
        } else if rng.chance(lp, 100) {
            let u = rng.below(n as u64) as usize;
            edges.push((u, u));
        } else {
            edges.push((rng.below(n as u64) as usize, rng.below(n as u64) as usize));
        }
    }
    edges.sort_by_key(|e| e.0);
    edges
}

/// disjoint source / target lists (possibly with repeated entries)
fn random_st(rng: &mut Rng, n: usize, max_s: usize, max_t: usize) -> (Vec<usize>, Vec<usize>) {
    let mut nodes: Vec<usize> = (0..n).collect();
    rng.shuffle(&mut nodes);
    let ns = (if rng.chance(1, 25) { 0 } else { 1 + rng.below(max_s as u64) as usize }).min(n);
    let nt = (if rng.chance(1, 12) { 0 } else { 1 + rng.below(max_t as u64) as usize }).min(n - ns);
    let mut s: Vec<usize> = nodes[..ns].to_vec();
    let mut t: Vec<usize> = nodes[ns..ns + nt].to_vec();
    if !s.is_empty() && rng.chance(1, 6) {
        let x = *rng.pick(&s);
        s.push(x);
    }
    if !t.is_empty() && rng.chance(1, 6) {
        let x = *rng.pick(&t);
        t.push(x);
    }
    (s, t)
}

fn random_filter(rng: &mut Rng, m: usize) -> Vec<usize> {
    if m == 0 {
        return Vec::new();
    }
    let p = *rng.pick(&[0u64, 10, 25, 50, 80]);
    (0..m).filter(|_| rng.chance(p, 100)).collect()
}

/// segment lengths whose running total hits each of `marks` exactly with the LAST call of a 2-call segment
/// (so calls mark-1, mark and then mark+1 .. mark+3 are observed individually); role 0 = long silent stretch,
/// 1 = jitter segment, 2 = segment ending with the mark-th call, 3 = segment right after the mark
fn segments_hitting(marks: &[usize], jitter: usize) -> Vec<(usize, u8)> {
    let mut segs = Vec::new();
    let mut total = 0usize;
    for &m in marks {
        let upto = m - 2 - jitter;
        if upto > total {
            segs.push((upto - total, 0));
            total = upto;
        }
        if jitter > 0 {
            segs.push((jitter, 1));
            total += jitter;
        }
        segs.push((2, 2));
        segs.push((3, 3));
        total += 5;
    }
    segs
}

fn long_reuse(rng: &mut Rng, tier: Tier, cases: &mut Vec<Case>) {
    // (edges, sources, targets, run specs); "-" = the unfiltered entry point `run`.  The specs are sorted into
    // reachable / unreachable by a closure computed here (only to steer generation; the judge decides on its own).
    struct Shape {
        edges: Vec<(usize, usize)>,
        s: &'static str,
        t: &'static str,
        reach: Vec<&'static str>,
        unreach: Vec<&'static str>,
    }
    fn shape(edges: Vec<(usize, usize)>, s: &'static str, t: &'static str, specs: &[&'static str]) -> Shape {
        let (src, tgt) = (parse_list(s), parse_list(t));
        let (mut reach, mut unreach) = (Vec::new(), Vec::new());
        for spec in specs {
            let f = parse_list(spec);
            let mut seen = src.clone();
            let mut changed = true;
            while changed {
                changed = false;
                for (e, (u, v)) in edges.iter().enumerate() {
                    if !f.contains(&e) && seen.contains(u) && !seen.contains(v) {
                        seen.push(*v);
                        changed = true;
                    }
                }
            }
            if tgt.is_empty() || tgt.iter().any(|x| seen.contains(x)) { reach.push(*spec) } else { unreach.push(*spec) }
        }
        Shape { edges, s, t, reach, unreach }
    }
    let shapes = vec![
        // diamond with a back edge: two 2-hop paths to 3
        shape(vec![(0, 1), (0, 2), (1, 3), (2, 3), (3, 0)], "0", "3", &["-", "0", "1", "3", "0,2", "0,1", "2,3", "0,3", "0,1,3"]),
        // path of three hops with a self loop and a parallel edge
        shape(vec![(0, 1), (0, 1), (1, 1), (1, 2), (2, 3)], "0", "3", &["-", "0", "1", "2", "0,1", "3", "4"]),
        // target unreachable without any filter (edge points the wrong way), 5 nodes, multi-source
        shape(vec![(0, 1), (1, 2), (2, 0), (4, 3)], "0,1", "4", &["-", "0", "3"]),
        // multi-target on 5 nodes
        shape(vec![(0, 1), (0, 2), (1, 3), (2, 4), (4, 3)], "0", "3,4", &["-", "0", "1", "2,4", "2,3", "0,1", "1,2,3", "0,1,4"]),
        // empty target set: always true
        shape(vec![(0, 1), (1, 2), (2, 0)], "0", "-", &["-", "0", "0,1,2"]),
    ];
    let marks: Vec<usize> = match tier {
        Tier::Quick => vec![1 << 8, 1 << 16],
        Tier::Thorough => vec![1 << 8, 1 << 15, 1 << 16, 1 << 17, 3 << 16],
    };
    let variants = match tier {
        Tier::Quick => 3,
        Tier::Thorough => 8,
    };
    for sh in &shapes {
        for alg in ["bfs", "dfs"] {
            for v in 0..variants {
                let mut c = Case::new("long-reuse");
                c.op(g_line(alg, &sh.edges));
                c.op(format!("new a {} {}", sh.s, sh.t));
                let jitter = if v == 0 { 0 } else { 1 + rng.below(40) as usize };
                let segs = segments_hitting(&marks, jitter);
                // variant 0: reachable specs wherever the shape has one, walking through them in order (starting
                // with the unfiltered `run`); variant 1: long silent stretches unreachable, the calls around the
                // marks reachable; variant 2: the opposite; further variants: drawn
                for (i, (n, role)) in segs.iter().enumerate() {
                    let want_reach = match v {
                        0 => true,
                        1 => *role >= 2,
                        2 => *role < 2,
                        _ => rng.chance(1, 2),
                    };
                    let pool = if (want_reach && !sh.reach.is_empty()) || sh.unreach.is_empty() { &sh.reach } else { &sh.unreach };
                    let spec = if v == 0 { pool[i % pool.len()] } else { *rng.pick(pool) };
                    c.op(format!("rep a {n} {spec}"));
                }
                // a few ordinary runs at the end, on the same object
                for spec in sh.reach.iter().chain(sh.unreach.iter()) {
                    c.op(format!("run a {spec}"));
                }
                cases.push(c);
            }
        }
    }
}

fn generate(rng: &mut Rng, tier: Tier, cases: &mut Vec<Case>) {
    // ---- hand-written shapes (kept in the generator so that they run in every tier)
    // the unit-test graph of bfs.rs / dfs.rs (sorted), single / multi source, empty target set
    let mut ut = vec![(0, 1), (1, 2), (4, 2), (2, 3), (0, 4), (4, 5), (5, 3), (1, 5)];
    ut.sort();
    for alg in ["bfs", "dfs"] {
        let mut c = Case::new("unit-test-graph");
        c.op(g_line(alg, &ut));
        c.op("q 0 5 -").op("q 0 - -").op("q 0,1 - -").op("q 0 3 -").op("q 3 0 -").op("q 0,1 3,5 -").op("q - 3 -").op("q - - -");
        cases.push(c);
        // parallel edges whose first copy is filtered: find_edge returns the filtered copy
        let mut c = Case::new("parallel-filtered");
        c.op(g_line(alg, &[(0, 1), (0, 1), (1, 2), (1, 2), (2, 2)]));
        c.op("q 0 2 0").op("q 0 2 0,2").op("q 0 2 0,1").op("q 0 2 2,3").op("q 0 2 1,3");
        cases.push(c);
        // one object, found / not found / found again (stale `target` and parents must not leak)
        let mut c = Case::new("reuse-basic");
        c.op(g_line(alg, &[(0, 1), (0, 2), (1, 3), (2, 3), (3, 0)]));
        c.op("new a 0 3").op("run a -").op("run a 2,3").op("run a 0").op("run a -").op("run a 0,1").op("run a 1");
        c.op("new b 0 -").op("run b -").op("run b 0,1").op("run a -").op("run b -");
        cases.push(c);
    }
    // ---- exhaustive scopes
    exhaustive(3, true, false, "exhaustive-3-nodes-loops-all-ST", cases);
    exhaustive(4, false, false, "exhaustive-4-nodes-all-ST", cases);
    // all 65536 edge sets with self loops on 4 nodes (those on fewer nodes are covered above), sampled (S,T);
    // four graphs per case, each searched by both algorithms (a further G line switches graph / algorithm)
    let per_graph = match tier {
        Tier::Quick => 2,
        Tier::Thorough => 12,
    };
    let mut c = Case::new("exhaustive-4-nodes-loops-sampled-ST");
    let mut in_case = 0;
    for bits in 0..(1u64 << 16) {
        let edges = graph_from_bits(4, bits, true);
        let n = node_count(&edges);
        if n != 4 {
            continue;
        }
        for alg in ["bfs", "dfs"] {
            c.op(g_line(alg, &edges));
            for i in 0..per_graph {
                let (s, t) = if i % 2 == 0 { random_st(rng, n, 1, 1) } else { random_st(rng, n, 2, 2) };
                c.op(format!("q {} {} -", lst(&s), lst(&t)));
            }
        }
        in_case += 1;
        if in_case == 4 {
            cases.push(std::mem::replace(&mut c, Case::new("exhaustive-4-nodes-loops-sampled-ST")));
            in_case = 0;
        }
    }
    if in_case > 0 {
        cases.push(c);
    }
    if tier == Tier::Thorough {
        // all 2^20 loop-free edge sets on 5 nodes, both algorithms, two sampled (S,T) pairs each;
        // eight consecutive graphs per case
        let mut c = Case::new("exhaustive-5-nodes-sampled-ST");
        let mut in_case = 0;
        for bits in 0..(1u64 << 20) {
            let edges = graph_from_bits(5, bits, false);
            let n = node_count(&edges);
            if n != 5 {
                continue;
            }
            for alg in ["bfs", "dfs"] {
                c.op(g_line(alg, &edges));
                let (s, t) = random_st(rng, n, 1, 1);
                c.op(format!("q {} {} -", lst(&s), lst(&t)));
                let (s, t) = random_st(rng, n, 2, 2);
                c.op(format!("q {} {} -", lst(&s), lst(&t)));
            }
            in_case += 1;
            if in_case == 8 {
                cases.push(std::mem::replace(&mut c, Case::new("exhaustive-5-nodes-sampled-ST")));
                in_case = 0;
            }
        }
        if in_case > 0 {
            cases.push(c);
        }
    }
    // ---- long histories on ONE object: the same object is run tens of thousands of times (cheap: tiny graphs,
    //      `rep` observes only the last three calls of a segment and counts the `true` results of all of them).
    //      Segment lengths are chosen so that the cumulative number of calls on the object passes 2^8 and 2^16
    //      (thorough: 2^17, 3*2^16) both INSIDE an observed window and inside a silent stretch, and the run
    //      specs alternate between reachable and unreachable so that stale per-run state shows either way.
    long_reuse(rng, tier, cases);
    // ---- wide graphs: thousands of nodes pass through the queue / stack of ONE search (buffers are reclaimed,
    //      regrown or wrapped at 4096 / 8192 entries) while the graph stays shallow (the kernel-checked Spec
    //      checkers work level by level on lists and stop at the first closed ball): source -> 70 nodes -> 70 nodes
    //      each; the 3985th..4045th and 8111th..8131st node of the third layer (in search order) each have one
    //      child, and every such child is the single target of one query: a node that is dropped from the queue
    //      instead of being expanded makes its child unreachable
    for fan in [70usize, 95] {
        if tier == Tier::Quick && fan > 70 {
            continue;
        }
        let mut edges: Vec<(usize, usize)> = Vec::new();
        let mut n = 1usize;
        let l1: Vec<usize> = (0..fan).map(|_| { n += 1; n - 1 }).collect();
        for v in &l1 {
            edges.push((0, *v));
        }
        let mut l2: Vec<usize> = Vec::new();
        for u in &l1 {
            for _ in 0..fan {
                edges.push((*u, n));
                l2.push(n);
                n += 1;
            }
        }
        let mut kids: Vec<usize> = Vec::new();
        for k in [4096 - 1 - fan - 40..4096 - 1 - fan + 20, 8192 - 1 - fan - 10..8192 - 1 - fan + 10] {
            for i in k {
                if i < l2.len() {
                    edges.push((l2[i], n));
                    kids.push(n);
                    n += 1;
                }
            }
        }
        edges.sort();
        for alg in ["bfs", "dfs"] {
            let mut c = Case::new("wide-graph");
            c.op(g_line(alg, &edges));
            for t in kids.iter() {
                c.op(format!("q 0 {t} -"));
            }
            c.op(format!("q 0 {} -", lst(&kids)));
            c.op(format!("q {} 0 -", kids[0]));
            cases.push(c);
        }
    }
    // ---- all filters (every subset of the edge ids) on sampled small multigraphs
    let n_filt = match tier {
        Tier::Quick => 120,
        Tier::Thorough => 1500,
    };
    for i in 0..n_filt {
        let n = 3 + rng.below(3) as usize;
        let m = 2 + rng.below(if tier == Tier::Quick { 5 } else { 7 }) as usize;
        let edges = random_graph(rng, n, m, 25, 8);
        let n = node_count(&edges);
        let alg = if i % 2 == 0 { "bfs" } else { "dfs" };
        let (s, t) = random_st(rng, n, 2, 2);
        let mut c = Case::new("all-filters");
        c.op(g_line(alg, &edges));
        for fm in 0..(1u32 << m) {
            let f: Vec<usize> = (0..m).filter(|e| fm >> e & 1 == 1).collect();
            c.op(format!("q {} {} {}", lst(&s), lst(&t), lst(&f)));
        }
        cases.push(c);
    }
    // ---- random larger multigraphs
    let n_rand = match tier {
        Tier::Quick => 700,
        Tier::Thorough => 25000,
    };
    for i in 0..n_rand {
        let n = 4 + rng.below(if i % 8 == 0 { 60 } else { 20 }) as usize;
        // sparse graphs give long paths, dense ones many alternatives
        let dens = *rng.pick(&[8u64, 12, 15, 20, 30]);
        let m = (n as u64 * dens / 10) as usize;
        let edges = random_graph(rng, n, m, 10, 5);
        let n = node_count(&edges);
        let alg = if i % 2 == 0 { "bfs" } else { "dfs" };
        let mut c = Case::new("random");
        c.op(g_line(alg, &edges));
        for _ in 0..4 {
            let (s, t) = random_st(rng, n, 3, 3);
            let f = if rng.chance(1, 3) { Vec::new() } else { random_filter(rng, m) };
            c.op(format!("q {} {} {}", lst(&s), lst(&t), lst(&f)));
        }
        cases.push(c);
    }
    // ---- sequences of runs on ONE object with changing filters, as the augmenting-path solvers do:
    //      each found path "saturates" one of its edges (added to the filter); when nothing is found the
    //      filter is re-drawn.  Several objects (different source / target sets) are interleaved.
    let n_seq = match tier {
        Tier::Quick => 400,
        Tier::Thorough => 12000,
    };
    for i in 0..n_seq {
        let n = 4 + rng.below(14) as usize;
        let m = (n as u64 * *rng.pick(&[12u64, 18, 25]) / 10) as usize;
        let edges = random_graph(rng, n, m, 8, 4);
        let n = node_count(&edges);
        let alg = if i % 2 == 0 { "bfs" } else { "dfs" };
        let g = build_graph(&edges);
        let nobj = 1 + rng.below(3) as usize;
        let mut c = Case::new("sequence");
        c.op(g_line(alg, &edges));
        let mut objs: Vec<(Srch, Vec<usize>, bool)> = Vec::new();
        for o in 0..nobj {
            let (s, t) = random_st(rng, n, 2, 2);
            c.op(format!("new o{o} {} {}", lst(&s), lst(&t)));
            objs.push((Srch::new(alg, &s, &t, n), Vec::new(), t.is_empty()));
        }
        let runs = 4 + rng.below(14) as usize;
        for _ in 0..runs {
            let o = rng.below(nobj as u64) as usize;
            let (srch, filt, empty_t) = &mut objs[o];
            let unfiltered = filt.is_empty() && rng.chance(1, 2);
            c.op(format!("run o{o} {}", if unfiltered { "-".to_string() } else { lst(filt) }));
            // follow the real search only to choose the next filter
            let mk = mask(m, filt);
            let found = std::panic::catch_unwind(std::panic::AssertUnwindSafe(|| {
                let f = srch.run(&g, Some(&mk));
                if f && !*empty_t { Some(srch.edge_path(&g)) } else { None }
            }))
            .unwrap_or(None);
            match found {
                Some(ep) if !ep.is_empty() => {
                    let e = *rng.pick(&ep);
                    if !filt.contains(&e) {
                        filt.push(e);
                        filt.sort();
                    } else {
                        // find_edge returned a filtered parallel edge: saturate all parallel copies' first unfiltered one
                        let extra = rng.below(m as u64) as usize;
                        if !filt.contains(&extra) {
                            filt.push(extra);
                            filt.sort();
                        }
                    }
                }
                _ => {
                    *filt = if rng.chance(1, 3) { Vec::new() } else { random_filter(rng, m) };
                }
            }
        }
        cases.push(c);
    }
}

// ------------------------------------------------------------------------------------------------
// execution of the real code

fn observe(pfx: &str, srch: &mut Srch, g: &G, filt: Option<&Vec<bool>>, empty_t: bool, obs: &mut Vec<String>) -> bool {
    let found = srch.run(g, filt);
    obs.push(format!("D {pfx} found={}", if found { 1 } else { 0 }));
    if found && !empty_t {
        let np = srch.node_path();
        let ep = srch.edge_path(g);
        let it = srch.iter();
        obs.push(format!("F {pfx} np={} ep={} it={}", lst(&np), lst(&ep), lst(&it)));
    }
    found
}

fn execute(c: &Case, obs: &mut Vec<String>) {
    let mut alg = String::new();
    let mut n = 0usize;
    let mut edges: Vec<(usize, usize)> = Vec::new();
    let mut graph: Option<G> = None;
    struct Obj {
        srch: Srch,
        s: Vec<usize>,
        t: Vec<usize>,
        runs: usize,
    }
    let mut objs: HashMap<String, Obj> = HashMap::new();
    let mut k = 0usize;
    for l in &c.ops {
        let t: Vec<&str> = l.split_whitespace().collect();
        match t[0] {
            "G" => {
                alg = t[1].to_string();
                n = t[2].parse().unwrap();
                let m: usize = t[3].parse().unwrap();
                edges = (0..m).map(|i| (t[4 + 2 * i].parse().unwrap(), t[5 + 2 * i].parse().unwrap())).collect();
                let g = build_graph(&edges);
                // the op line must describe the graph the real code sees
                let mut same = g.number_of_nodes() == n && g.number_of_edges() == m;
                if same {
                    let mut seen = 0;
                    for u in 0..n {
                        for e in g.edge_range(u) {
                            same &= e < m && edges[e].0 == u && g.target(e) == edges[e].1;
                            seen += 1;
                        }
                    }
                    same &= seen == m;
                }
                if !same {
                    obs.push("D graph-differs-from-op-line".to_string());
                    return;
                }
                graph = Some(g);
                objs.clear();
            }
            "new" => {
                let (s, tg) = (parse_list(t[2]), parse_list(t[3]));
                objs.insert(t[1].to_string(), Obj { srch: Srch::new(&alg, &s, &tg, n), s, t: tg, runs: 0 });
            }
            "run" => {
                let g = graph.as_ref().expect("graph");
                let mk = if t[2] == "-" { None } else { Some(mask(edges.len(), &parse_list(t[2]))) };
                let o = objs.get_mut(t[1]).expect("object");
                let empty_t = o.t.is_empty();
                observe(&format!("{k}"), &mut o.srch, g, mk.as_ref(), empty_t, obs);
                if o.runs > 0 {
                    let mut fresh = Srch::new(&alg, &o.s, &o.t, n);
                    observe(&format!("{k} fresh"), &mut fresh, g, mk.as_ref(), empty_t, obs);
                }
                o.runs += 1;
                k += 1;
            }
            "rep" => {
                // the same run N times on one object; only the last min(N,3) calls are observed individually
                // (and compared with a fresh object), all N are counted
                let g = graph.as_ref().expect("graph");
                let total: usize = t[2].parse().unwrap();
                let mk = if t[3] == "-" { None } else { Some(mask(edges.len(), &parse_list(t[3]))) };
                let o = objs.get_mut(t[1]).expect("object");
                let empty_t = o.t.is_empty();
                let observed = total.min(3);
                let mut trues = 0usize;
                for _ in 0..(total - observed) {
                    if o.srch.run(g, mk.as_ref()) {
                        trues += 1;
                    }
                    o.runs += 1;
                }
                let k0 = k;
                for _ in 0..observed {
                    if observe(&format!("{k}"), &mut o.srch, g, mk.as_ref(), empty_t, obs) {
                        trues += 1;
                    }
                    if o.runs > 0 {
                        let mut fresh = Srch::new(&alg, &o.s, &o.t, n);
                        observe(&format!("{k} fresh"), &mut fresh, g, mk.as_ref(), empty_t, obs);
                    }
                    o.runs += 1;
                    k += 1;
                }
                obs.push(format!("D r{k0} n={total} true={trues}"));
            }
            "q" => {
                let g = graph.as_ref().expect("graph");
                let (s, tg) = (parse_list(t[1]), parse_list(t[2]));
                let mk = if t[3] == "-" { None } else { Some(mask(edges.len(), &parse_list(t[3]))) };
                let mut srch = Srch::new(&alg, &s, &tg, n);
                observe(&format!("{k}"), &mut srch, g, mk.as_ref(), tg.is_empty(), obs);
                k += 1;
            }
            _ => panic!("unknown op"),
        }
    }
}

fn main() {
    harness_main(generate, execute);
}
