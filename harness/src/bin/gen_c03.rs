//! C03: one inertial-flow bisection step. Real code: toolbox_rs::inertial_flow::sub_step (in-process).
//!
//! Case format (see lean/Tbx/Drv/C03.lean):
//!   P <axis> <b as u64 bit pattern> <bound i32> <coordinates.len()>
//!   n <id> <lat> <lon>        one line per entry of node_id_list, in list order
//!   e <u> <v>                 one line per input edge, in order
//! Observation lines: `D k <size_of_contraction>` (the f64 expression evaluated here in Rust), then
//! `X res ok|err`, `X flow f`, `X left <sorted ids>`, `X right <sorted ids>`, `X balance <f64 bits>`,
//! `X bound_after v` with X = D when the projection keys of the cell's ids are pairwise distinct on the
//! chosen axis (everything is determined) and X = F when keys tie (the unstable sort may pick other
//! ends); `F leftseq` / `F rightseq` = the ids in the order the code returned them.
use std::sync::{
    Arc,
    atomic::{AtomicI32, Ordering},
};
use tbx_harness::*;
use toolbox_rs::edge::TrivialEdge;
use toolbox_rs::geometry::FPCoordinate;
use toolbox_rs::inertial_flow::sub_step;

const BS: [f64; 6] = [0.01, 0.1, 0.25, 0.3, 0.49, 0.49999999999999994];
const BIG: i32 = 1_000_000;

fn key(axis: usize, lat: i64, lon: i64) -> i64 {
    match axis {
        0 => lat,
        1 => lon,
        2 => lon + lat,
        _ => -lon + lat,
    }
}

struct Cell {
    axis: usize,
    b: f64,
    bound: i32,
    ncoords: usize,
    nodes: Vec<(usize, i32, i32)>,
    edges: Vec<(usize, usize)>,
}

fn render(family: &str, c: &Cell) -> Case {
    let mut out = Case::new(family);
    out.op(format!("P {} {} {} {}", c.axis, c.b.to_bits(), c.bound, c.ncoords));
    for (id, lat, lon) in &c.nodes {
        out.op(format!("n {id} {lat} {lon}"));
    }
    for (u, v) in &c.edges {
        out.op(format!("e {u} {v}"));
    }
    out
}

fn parse(c: &Case) -> Option<Cell> {
    let mut cell = Cell { axis: 0, b: 0.25, bound: BIG, ncoords: 0, nodes: vec![], edges: vec![] };
    let mut seen_p = false;
    for l in &c.ops {
        let t: Vec<&str> = l.split_whitespace().collect();
        match t[0] {
            "P" => {
                cell.axis = t[1].parse().ok()?;
                cell.b = f64::from_bits(t[2].parse().ok()?);
                cell.bound = t[3].parse().ok()?;
                cell.ncoords = t[4].parse().ok()?;
                seen_p = true;
            }
            "n" => cell.nodes.push((t[1].parse().ok()?, t[2].parse().ok()?, t[3].parse().ok()?)),
            "e" => cell.edges.push((t[1].parse().ok()?, t[2].parse().ok()?)),
            _ => return None,
        }
    }
    if seen_p { Some(cell) } else { None }
}

fn keys_distinct(c: &Cell) -> bool {
    let mut ks: Vec<i64> = c.nodes.iter().map(|(_, la, lo)| key(c.axis, *la as i64, *lo as i64)).collect();
    ks.sort();
    ks.windows(2).all(|w| w[0] != w[1])
}

fn execute(case: &Case, obs: &mut Vec<String>) {
    let Some(c) = parse(case) else {
        obs.push("D malformed".into());
        return;
    };
    let tag = if keys_distinct(&c) { "D" } else { "F" };
    let mut coords = vec![FPCoordinate::new(0, 0); c.ncoords];
    for (id, lat, lon) in &c.nodes {
        if *id < coords.len() {
            coords[*id] = FPCoordinate::new(*lat, *lon);
        }
    }
    let ids: Vec<usize> = c.nodes.iter().map(|n| n.0).collect();
    let edges: Vec<TrivialEdge> = c.edges.iter().map(|(u, v)| TrivialEdge { source: *u, target: *v }).collect();
    // the same f64 expression as in sub_step
    let k = std::cmp::max(1, (ids.len() as f64 * c.b) as usize);
    obs.push(format!("D k {k}"));
    let bound = Arc::new(AtomicI32::new(c.bound));
    let r = sub_step(&edges, &ids, &coords, c.axis, c.b, bound.clone());
    match r {
        Err(_) => obs.push(format!("{tag} res err")),
        Ok(f) => {
            obs.push(format!("{tag} res ok"));
            obs.push(format!("{tag} flow {}", f.flow));
            let mut l = f.left_ids.clone();
            l.sort();
            let mut r = f.right_ids.clone();
            r.sort();
            obs.push(format!("{tag} left {}", join(&l, " ")));
            obs.push(format!("{tag} right {}", join(&r, " ")));
            obs.push(format!("{tag} balance {}", f.balance.to_bits()));
            obs.push(format!("F leftseq {}", join(&f.left_ids, " ")));
            obs.push(format!("F rightseq {}", join(&f.right_ids, " ")));
        }
    }
    obs.push(format!("{tag} bound_after {}", bound.load(Ordering::Relaxed)));
}

// ---------------------------------------------------------------------------------------------
// generation

/// a w x h grid graph: node (x, y) has id y*w + x; each undirected grid edge is kept with probability
/// keep_num/keep_den and then emitted in both directions (with probability 1/8 only one direction)
struct Grid {
    w: usize,
    h: usize,
    edges: Vec<(usize, usize)>,
}

fn grid(rng: &mut Rng, w: usize, h: usize, keep_num: u64, keep_den: u64, diagonals: bool) -> Grid {
    let mut edges = Vec::new();
    let mut add = |rng: &mut Rng, a: usize, b: usize, edges: &mut Vec<(usize, usize)>| {
        if !rng.chance(keep_num, keep_den) {
            return;
        }
        match rng.below(16) {
            0 => edges.push((a, b)),
            1 => edges.push((b, a)),
            _ => {
                edges.push((a, b));
                edges.push((b, a));
            }
        }
    };
    for y in 0..h {
        for x in 0..w {
            let id = y * w + x;
            if x + 1 < w {
                add(rng, id, id + 1, &mut edges);
            }
            if y + 1 < h {
                add(rng, id, id + w, &mut edges);
            }
            if diagonals && x + 1 < w && y + 1 < h && rng.chance(1, 4) {
                add(rng, id, id + w + 1, &mut edges);
            }
        }
    }
    Grid { w, h, edges }
}

/// coordinates for the ids of a grid: `distinct` = pairwise distinct projection keys on all four axes
/// (lat = 1000*y + 7*x + jitter, lon = 1000*x + 13*y + jitter with small unique jitters: lat, lon,
/// lon+lat and lat-lon are all injective for grids up to 60 x 60); otherwise plain (y, x), which ties
/// whole rows / columns / diagonals
fn coords_for(rng: &mut Rng, g: &Grid, distinct: bool, axis: usize) -> Vec<(i32, i32)> {
    let n = g.w * g.h;
    let mut cs = Vec::with_capacity(n);
    for id in 0..n {
        let (x, y) = ((id % g.w) as i32, (id / g.w) as i32);
        if distinct {
            cs.push((1000 * y + 7 * x + rng.range(0, 2) as i32, 1000 * x + 13 * y + rng.range(0, 2) as i32));
        } else {
            cs.push((y, x));
        }
    }
    if distinct {
        // make sure (the jitter could in principle collide): bump until the keys on `axis` are distinct
        loop {
            let mut ks: Vec<(i64, usize)> =
                cs.iter().enumerate().map(|(i, c)| (key(axis, c.0 as i64, c.1 as i64), i)).collect();
            ks.sort();
            let mut dup = None;
            for w in ks.windows(2) {
                if w[0].0 == w[1].0 {
                    dup = Some(w[1].1);
                    break;
                }
            }
            match dup {
                None => break,
                Some(i) => cs[i].0 += 3,
            }
        }
    }
    cs
}

/// the cell made of the given ids (in the given list order): all edges whose source is in the cell
fn cell_of(g: &Grid, cs: &[(i32, i32)], ids: &[usize], axis: usize, b: f64, bound: i32, rng: &mut Rng) -> Cell {
    let mut inside = vec![false; g.w * g.h];
    for i in ids {
        inside[*i] = true;
    }
    let mut edges: Vec<(usize, usize)> = g.edges.iter().filter(|e| inside[e.0]).cloned().collect();
    if rng.chance(1, 2) {
        rng.shuffle(&mut edges);
    }
    Cell {
        axis,
        b,
        bound,
        ncoords: g.w * g.h,
        nodes: ids.iter().map(|i| (*i, cs[*i].0, cs[*i].1)).collect(),
        edges,
    }
}

fn pick_b(rng: &mut Rng) -> f64 {
    if rng.chance(1, 2) {
        *rng.pick(&BS)
    } else {
        // random in (0, 0.5)
        let x = (rng.below((1u64 << 52) - 2) + 1) as f64 / (1u64 << 53) as f64;
        debug_assert!(x > 0.0 && x < 0.5);
        x
    }
}

/// the renumbered edge list is non-empty after self-loop removal iff some edge does not have both end
/// points in the same contracted group (computed for the stable order; only used to keep the cells on
/// which the real code panics in their own opt-in family)
fn flow_graph_nonempty(c: &Cell) -> bool {
    let mut order: Vec<usize> = (0..c.nodes.len()).collect();
    order.sort_by_key(|i| key(c.axis, c.nodes[*i].1 as i64, c.nodes[*i].2 as i64));
    let n = order.len();
    let k = std::cmp::max(1, (n as f64 * c.b) as usize);
    let mut grp = std::collections::HashMap::new();
    for i in 0..k.min(n) {
        grp.insert(c.nodes[order[i]].0, 0usize);
    }
    for i in n.saturating_sub(k)..n {
        grp.insert(c.nodes[order[i]].0, 1usize);
    }
    c.edges.iter().any(|(u, v)| {
        if u == v {
            return false;
        }
        match (grp.get(u), grp.get(v)) {
            (Some(a), Some(b)) => a != b,
            _ => true,
        }
    })
}

fn sub_ids(rng: &mut Rng, g: &Grid) -> Vec<usize> {
    // a rectangular window, a random half plane, or a random blob grown from a seed
    let n = g.w * g.h;
    let mut ids: Vec<usize> = Vec::new();
    match rng.below(3) {
        0 => {
            let w = 2 + rng.below((g.w - 1) as u64) as usize;
            let h = 1 + rng.below(g.h as u64) as usize;
            let x0 = rng.below((g.w - w + 1) as u64) as usize;
            let y0 = rng.below((g.h - h + 1) as u64) as usize;
            for y in y0..y0 + h {
                for x in x0..x0 + w {
                    ids.push(y * g.w + x);
                }
            }
        }
        1 => {
            let (a, b, c) = (rng.range(-3, 3), rng.range(-3, 3), rng.range(0, 3 * (g.w + g.h) as i64));
            for id in 0..n {
                let (x, y) = ((id % g.w) as i64, (id / g.w) as i64);
                if a * x + b * y <= c - 6 {
                    ids.push(id);
                }
            }
        }
        _ => {
            let want = 2 + rng.below((n - 1) as u64) as usize;
            let mut inb = vec![false; n];
            let s = rng.below(n as u64) as usize;
            inb[s] = true;
            ids.push(s);
            let mut guard = 0;
            while ids.len() < want && guard < 20 * n {
                guard += 1;
                let from = *rng.pick(&ids);
                let (x, y) = (from % g.w, from / g.w);
                let cand = match rng.below(4) {
                    0 if x + 1 < g.w => from + 1,
                    1 if x > 0 => from - 1,
                    2 if y + 1 < g.h => from + g.w,
                    3 if y > 0 => from - g.w,
                    _ => continue,
                };
                if !inb[cand] {
                    inb[cand] = true;
                    ids.push(cand);
                }
            }
        }
    }
    if ids.len() < 2 {
        ids = vec![0, 1];
    }
    if rng.chance(1, 2) {
        rng.shuffle(&mut ids);
    }
    ids
}

fn push_case(cases: &mut Vec<Case>, family: &str, c: Cell) {
    if c.nodes.len() < 2 || c.ncoords <= 2 {
        return;
    }
    // cells whose flow graph is empty (defect D22, fixed) are counted in their own family
    if flow_graph_nonempty(&c) {
        cases.push(render(family, &c));
    } else {
        cases.push(render("empty-flow-graph", &c));
    }
}

/// line coordinates: node i at (10*i + jitter, 3*i): distinct keys on every axis
fn line_nodes(n: usize) -> Vec<(usize, i32, i32)> {
    (0..n).map(|i| (i, 10 * i as i32, 3 * i as i32)).collect()
}

fn generate(rng: &mut Rng, tier: Tier, cases: &mut Vec<Case>) {
    let scale = if tier == Tier::Quick { 6 } else { 120 };
    let big: u64 = if tier == Tier::Quick { 0 } else { 6 };
    // (0) exhaustive small scope: every digraph (no self-loops) on 3 nodes under every assignment of the three
    //     positions along the axis (k = 1); thorough: also every digraph on 4 nodes (one random assignment each)
    {
        let pairs3: Vec<(usize, usize)> = (0..3).flat_map(|u| (0..3).filter(move |v| *v != u).map(move |v| (u, v))).collect();
        let perms3: [[usize; 3]; 6] = [[0, 1, 2], [0, 2, 1], [1, 0, 2], [1, 2, 0], [2, 0, 1], [2, 1, 0]];
        for mask in 0..(1u32 << pairs3.len()) {
            for (pi, perm) in perms3.iter().enumerate() {
                let edges: Vec<(usize, usize)> = pairs3.iter().enumerate().filter(|(i, _)| mask >> i & 1 == 1).map(|(_, e)| *e).collect();
                let nodes: Vec<(usize, i32, i32)> = (0..3).map(|i| (i, 10 * perm[i] as i32, 3 * perm[i] as i32)).collect();
                let c = Cell { axis: (mask as usize + pi) % 4, b: 0.25, bound: BIG, ncoords: 3, nodes, edges };
                push_case(cases, "exhaustive3", c);
            }
        }
        if tier == Tier::Thorough {
            let pairs4: Vec<(usize, usize)> = (0..4).flat_map(|u| (0..4).filter(move |v| *v != u).map(move |v| (u, v))).collect();
            for mask in 0..(1u32 << pairs4.len()) {
                let mut perm: Vec<usize> = (0..4).collect();
                rng.shuffle(&mut perm);
                let edges: Vec<(usize, usize)> = pairs4.iter().enumerate().filter(|(i, _)| mask >> i & 1 == 1).map(|(_, e)| *e).collect();
                let nodes: Vec<(usize, i32, i32)> = (0..4).map(|i| (i, 10 * perm[i] as i32, 3 * perm[i] as i32)).collect();
                let c = Cell { axis: mask as usize % 4, b: 0.3, bound: BIG, ncoords: 4, nodes, edges };
                push_case(cases, "exhaustive4", c);
            }
        }
    }
    // (1) whole grids with random deletions, distinct keys, every axis, every listed b
    for round in 0..3 * scale {
        let w = 3 + rng.below(if round % 3 == 2 { 14 + big } else { 7 }) as usize;
        let h = 2 + rng.below(if round % 3 == 2 { 10 + big } else { 6 }) as usize;
        let g = { let kn = 4 + rng.below(3); let dg = rng.chance(1, 3); grid(rng, w, h, kn, 6, dg) };
        for axis in 0..4 {
            let cs = coords_for(rng, &g, true, axis);
            for b in BS {
                let mut ids: Vec<usize> = (0..w * h).collect();
                if rng.chance(1, 2) {
                    rng.shuffle(&mut ids);
                }
                let c = cell_of(&g, &cs, &ids, axis, b, BIG, rng);
                push_case(cases, "grid", c);
            }
            for _ in 0..2 {
                let ids: Vec<usize> = (0..w * h).collect();
                let b = pick_b(rng);
                let c = cell_of(&g, &cs, &ids, axis, b, BIG, rng);
                push_case(cases, "grid-randb", c);
            }
        }
    }
    // (2) sub-cells with edges to outside nodes (what chipper's recursion produces)
    for _ in 0..40 * scale {
        let w = 4 + rng.below(12) as usize;
        let h = 3 + rng.below(9) as usize;
        let g = { let kn = 4 + rng.below(3); let dg = rng.chance(1, 3); grid(rng, w, h, kn, 6, dg) };
        let axis = rng.below(4) as usize;
        let cs = coords_for(rng, &g, true, axis);
        let ids = sub_ids(rng, &g);
        let b = pick_b(rng);
        let c = cell_of(&g, &cs, &ids, axis, b, BIG, rng);
        push_case(cases, "subcell", c);
    }
    // (3) small sub-cells of a large universe: RenumberingTable takes its hash-map variant
    //     (coordinates.len() / node_id_list.len() > 8)
    for _ in 0..15 * scale {
        let w = 10 + rng.below(10) as usize;
        let h = 10 + rng.below(8) as usize;
        let g = { let kn = 5; let dg = false; grid(rng, w, h, kn, 6, dg) };
        let axis = rng.below(4) as usize;
        let cs = coords_for(rng, &g, true, axis);
        let mut ids = sub_ids(rng, &g);
        ids.truncate(2 + rng.below(((w * h) / 9 - 2) as u64) as usize);
        let b = pick_b(rng);
        let c = cell_of(&g, &cs, &ids, axis, b, BIG, rng);
        push_case(cases, "subcell-sparse", c);
    }
    // (4) small bounds: aborted => Err
    for _ in 0..25 * scale {
        let w = 3 + rng.below(8) as usize;
        let h = 3 + rng.below(6) as usize;
        let g = { let kn = 5 + rng.below(2); let dg = rng.chance(1, 2); grid(rng, w, h, kn, 6, dg) };
        let axis = rng.below(4) as usize;
        let cs = coords_for(rng, &g, true, axis);
        let ids = if rng.chance(1, 2) { (0..w * h).collect() } else { sub_ids(rng, &g) };
        let b = pick_b(rng);
        let bound = rng.range(0, 6) as i32;
        let c = cell_of(&g, &cs, &ids, axis, b, bound, rng);
        push_case(cases, "small-bound", c);
    }
    // (4b) large cells: more than 4096 / 8192 nodes (sizes at which sorting or selection strategies, buffer
    //      growth and batching typically switch), whole grid in scrambled id order, every axis
    for (w, h) in [(80usize, 64usize), (130, 70)] {
        if tier == Tier::Quick && w * h > 6000 {
            continue;
        }
        let g = grid(rng, w, h, 6, 6, false);
        for axis in 0..4 {
            let cs = coords_for(rng, &g, true, axis);
            let mut ids: Vec<usize> = (0..w * h).collect();
            rng.shuffle(&mut ids);
            let c = cell_of(&g, &cs, &ids, axis, 0.25, BIG, rng);
            push_case(cases, "large", c);
        }
    }
    // (5) tied keys: plain (y, x) coordinates; only the structural clauses are judged
    for _ in 0..30 * scale {
        let w = 3 + rng.below(8) as usize;
        let h = 2 + rng.below(7) as usize;
        let g = { let kn = 4 + rng.below(3); let dg = rng.chance(1, 3); grid(rng, w, h, kn, 6, dg) };
        let axis = rng.below(4) as usize;
        let cs = coords_for(rng, &g, false, axis);
        let ids = if rng.chance(1, 2) { (0..w * h).collect() } else { sub_ids(rng, &g) };
        let b = pick_b(rng);
        let c = cell_of(&g, &cs, &ids, axis, b, BIG, rng);
        push_case(cases, "tied", c);
    }
    // (6) tiny cells, exhaustive-ish: paths and small random digraphs on 2..5 nodes
    for _ in 0..40 * scale {
        let n = 2 + rng.below(4) as usize;
        let g = Grid { w: n, h: 1, edges: vec![] };
        let mut edges = Vec::new();
        for u in 0..n {
            for v in 0..n {
                if u != v && rng.chance(1, 2) {
                    edges.push((u, v));
                }
            }
        }
        let g = Grid { edges, ..g };
        let axis = rng.below(4) as usize;
        let cs = coords_for(rng, &g, true, axis);
        let ids: Vec<usize> = (0..n).collect();
        let b = pick_b(rng);
        let mut c = cell_of(&g, &cs, &ids, axis, b, BIG, rng);
        c.ncoords = 3.max(n) + rng.below(3) as usize;
        push_case(cases, "tiny", c);
    }
    // (9) dumbbells: two dense blocks joined by a narrow bridge, the long side along the chosen axis: the
    //     contraction merges many parallel edges (capacity > 1) and the minimum cut is the bridge, away
    //     from both contracted ends (the non-trivial regime of the property)
    for round in 0..36 * scale {
        let bw = 2 + rng.below(4) as usize; // block width
        let h = 2 + rng.below(4) as usize;
        let gap = 1 + rng.below(3) as usize; // bridge length
        let w = 2 * bw + gap;
        let mut g = { let dg = rng.chance(1, 3); grid(rng, w, h, 6, 6, dg) };
        // keep only 1..2 rows of the bridge columns
        let keep_rows: Vec<usize> = { let mut r: Vec<usize> = (0..h).collect(); rng.shuffle(&mut r); r.truncate(1 + rng.below(2) as usize); r };
        g.edges.retain(|(a, b)| {
            let (xa, ya, xb, yb) = (a % w, a / w, b % w, b / w);
            let in_gap = |x: usize| x >= bw && x < bw + gap;
            if in_gap(xa) || in_gap(xb) {
                ya == yb && keep_rows.contains(&ya)
            } else {
                true
            }
        });
        // axis 1 = lon = x direction for the distinct coordinates; axes 2, 3 are dominated by x or y as well
        let axis = if round % 4 == 3 { rng.below(4) as usize } else { 1 };
        let cs = coords_for(rng, &g, true, axis);
        let mut ids: Vec<usize> = (0..w * h).collect();
        if rng.chance(1, 3) {
            // a sub-cell: drop one block column at the far end, its edges become edges to outside nodes
            ids.retain(|i| i % w != w - 1);
        }
        rng.shuffle(&mut ids);
        let b = *rng.pick(&[0.1, 0.25, 0.3, 0.2, 0.15]);
        let c = cell_of(&g, &cs, &ids, axis, b, BIG, rng);
        push_case(cases, "dumbbell", c);
    }
    // (7) cells whose contracted graph has no edge (D22, fixed): no edges at all, or all edges inside
    //     the two contracted ends, with isolated / self-looped middle nodes
    for _ in 0..12 * scale {
        let n = 2 + rng.below(9) as usize;
        let b = *rng.pick(&[0.1, 0.25, 0.3, 0.49, 0.49999999999999994]);
        let k = std::cmp::max(1, (n as f64 * b) as usize);
        let axis = rng.below(2) as usize; // line coordinates are increasing on axes 0, 1, 2
        let mut edges = Vec::new();
        for u in 0..n {
            for v in 0..n {
                let same_end = (u < k && v < k) || (u >= n - k && v >= n - k);
                if u != v && same_end && rng.chance(1, 2) {
                    edges.push((u, v));
                }
                if u == v && rng.chance(1, 6) {
                    edges.push((u, u));
                }
            }
        }
        let c = Cell { axis, b, bound: if rng.chance(1, 4) { rng.range(0, 1) as i32 } else { BIG }, ncoords: 3.max(n) + rng.below(40) as usize, nodes: line_nodes(n), edges };
        push_case(cases, "empty-flow-graph", c);
    }
    // (8) input self-loops on top of ordinary cells (a node all of whose edges are self-loops is not part
    //     of the flow graph and must land on the right)
    for _ in 0..20 * scale {
        let w = 3 + rng.below(6) as usize;
        let h = 2 + rng.below(5) as usize;
        let mut g = { let kn = 3 + rng.below(3); let dg = rng.chance(1, 3); grid(rng, w, h, kn, 6, dg) };
        for id in 0..w * h {
            if rng.chance(1, 5) {
                let at = rng.below(g.edges.len() as u64 + 1) as usize;
                g.edges.insert(at, (id, id));
            }
        }
        let axis = rng.below(4) as usize;
        let cs = coords_for(rng, &g, true, axis);
        let ids = if rng.chance(1, 2) { (0..w * h).collect() } else { sub_ids(rng, &g) };
        let b = pick_b(rng);
        let c = cell_of(&g, &cs, &ids, axis, b, BIG, rng);
        push_case(cases, "selfloop", c);
    }
}

fn main() {
    harness_main(generate, execute);
}
