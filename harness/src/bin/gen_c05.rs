//! C05: chipper emits the exact recursive inertial-flow hierarchy for every node.
//!
//! Real code: the `chipper` binary of /repo (feature `verif`), run as a subprocess with `-n 1` on graph and
//! coordinate files this harness writes in bincode.  Case format: see harness/src/chipper_common.rs and
//! lean/Tbx/Drv/C05.lean.
//!
//! obs:
//!   D rc=<exit status>                         nothing else follows if it is not 0
//!   D gsha=<sha256 of graph.bin> csha=<sha256 of coords.bin>      (ties this file's encoder to Tbx.Bincode)
//!   D pfile len=<bytes> sha=<sha256>           the partition file, raw
//!   D ids=<id> <id> ...                        the partition file decoded (ERR if it is not a Vec<u32>)
//!   F afile sha=<sha256> hdr=<0|1> nl=<0|1>    the assignment CSV, raw (the byte layout of the CSV is not fixed by the
//!                                              property: validated through the re-parsed rows, compared strictly for drift only)
//!   D arows=<id>:<lat>:<lon>,...               ... re-parsed (decimal strings -> micro-degrees, exact)
//!   F cfile sha=<sha256> hdr=<0|1> nl=<0|1>    the cut CSV, raw
//!   D crows=<lat>:<lon>><lat>:<lon>,...        ... re-parsed, one item per cut edge (source > target)
#[path = "../chipper_common.rs"]
mod chipper_common;
use chipper_common::*;
use tbx_harness::*;

fn spec(rng: &mut Rng, w: usize, h: usize, node_keep: u64, edge_keep: u64) -> GridSpec {
    GridSpec { w, h, node_keep, edge_keep, diag: 0, chord: 0, base: *rng.pick(&BASES), swap: rng.chance(1, 2), rot: rng.chance(1, 4), order: rng.below(3) as u8 }
}

fn generate(rng: &mut Rng, tier: Tier, cases: &mut Vec<Case>) {
    let scale: usize = match tier {
        Tier::Quick => 1,
        Tier::Thorough => 10,
    };
    // --- tiny graphs: every depth 1..5 x m in 1..3 (paths, squares, 2x3, 3x3, 4x2)
    for &(w, h) in &[(3usize, 1usize), (4, 1), (5, 1), (2, 2), (3, 2), (3, 3), (4, 2)] {
        for r in 1..=5u32 {
            for m in 1..=3usize {
                let s = spec(rng, w, h, 1000, 1000);
                let g = gen_grid(rng, &s);
                let b = *rng.pick(&[0.25, 0.1, 0.49, 0.3, 0.5, 0.0]);
                cases.push(make_case(rng, "tiny", r, m, b, &g, 255));
            }
        }
    }
    // --- grids with random deletions, moderate depth
    for i in 0..(240 * scale) {
        let (w, h) = match i % 4 {
            0 => (4 + rng.below(6) as usize, 4 + rng.below(6) as usize),
            1 => (8 + rng.below(10) as usize, 6 + rng.below(8) as usize),
            2 => (3 + rng.below(4) as usize, 10 + rng.below(20) as usize),
            _ => (10 + rng.below(10) as usize, 10 + rng.below(10) as usize),
        };
        let (nk, ek) = (850 + rng.below(151), 800 + rng.below(201));
        let s = spec(rng, w, h, nk, ek);
        let g = gen_grid(rng, &s);
        let r = 1 + rng.below(10) as u32;
        let m = *rng.pick(&[1usize, 2, 3, 5, 8, 13, 20, 50]);
        let b = balance_factor(rng);
        cases.push(make_case(rng, "grid", r, m, b, &g, 255));
    }
    // --- the root is always split, also when it has at most m nodes
    for _ in 0..(12 * scale) {
        let (w, h) = (2 + rng.below(4) as usize, 2 + rng.below(4) as usize);
        let s = spec(rng, w, h, 1000, 950);
        let g = gen_grid(rng, &s);
        let m = g.coords.len() + rng.below(3) as usize;
        let r = 1 + rng.below(31) as u32;
        let b = balance_factor(rng);
        cases.push(make_case(rng, "root-small", r, m, b, &g, 255));
    }
    // --- thin graphs (paths, ladders) with small b: one contracted node per end, deep recursion up to 31
    for i in 0..(60 * scale) {
        let len = 20 + rng.below(60) as usize;
        let h = 1 + (i % 3 == 2) as usize;
        let s = spec(rng, len, h, 1000, if h == 1 { 1000 } else { 900 });
        let g = gen_grid(rng, &s);
        let r = if i % 2 == 0 { 31 - rng.below(4) as u32 } else { 10 + rng.below(21) as u32 };
        let m = 1 + rng.below(3) as usize;
        let b = *rng.pick(&[0.01, 0.02, 0.03, 0.1]);
        cases.push(make_case(rng, "thin-deep", r, m, b, &g, 255));
    }
    // --- every depth 1..31 on medium grids (padding by r - level - 1 for every r)
    for rep in 0..(3 * scale) {
        for r in 1..=31u32 {
            let (w, h) = (6 + rng.below(5) as usize, 5 + rng.below(5) as usize);
            let s = spec(rng, w, h, 950, 900);
            let g = gen_grid(rng, &s);
            let m = *rng.pick(&[2usize, 4, 6]);
            let b = balance_factor(rng);
            cases.push(make_case(rng, if rep == 0 { "all-depths" } else { "all-depths-more" }, r, m, b, &g, 255));
        }
    }
    // --- balance factors at the ends of the accepted range (command line accepts 0 ..= 0.5)
    for i in 0..(40 * scale) {
        let (w, h) = (4 + rng.below(7) as usize, 4 + rng.below(7) as usize);
        let s = spec(rng, w, h, 950, 900);
        let g = gen_grid(rng, &s);
        let b = if i % 2 == 0 { 0.5 } else { 0.0 };
        let (r, m) = (1 + rng.below(8) as u32, 1 + rng.below(5) as usize);
        cases.push(make_case(rng, "b-edge", r, m, b, &g, 255));
    }
    // --- larger grids
    let big = match tier {
        Tier::Quick => 16,
        Tier::Thorough => 60,
    };
    for i in 0..big {
        let (w, h) = match tier {
            Tier::Quick => (16 + rng.below(5) as usize, 16 + rng.below(5) as usize),
            Tier::Thorough => {
                if i < 12 {
                    (48 + rng.below(12) as usize, 45 + rng.below(12) as usize)
                } else {
                    (22 + rng.below(14) as usize, 22 + rng.below(14) as usize)
                }
            }
        };
        let s = spec(rng, w, h, 930, 900);
        let g = gen_grid(rng, &s);
        let r = 4 + rng.below(8) as u32;
        let m = *rng.pick(&[3usize, 10, 30]);
        let b = balance_factor(rng);
        cases.push(make_case(rng, "grid-large", r, m, b, &g, 255));
    }
    // --- one grid with more than 4096 nodes (sizes at which batching / buffering strategies switch), shallow recursion
    {
        let s = spec(rng, 70, 60, 1000, 1000);
        let g = gen_grid(rng, &s);
        cases.push(make_case(rng, "grid-huge", 2, 50, 0.25, &g, 255));
    }
    // --- denser graphs (diagonals, chords): a cut may exceed the cell's node count; the level clause is not claimed
    for _ in 0..(60 * scale) {
        let (w, h) = (4 + rng.below(8) as usize, 4 + rng.below(8) as usize);
        let mut s = spec(rng, w, h, 950, 950);
        s.diag = 500 + rng.below(501);
        s.chord = rng.below(600);
        let g = gen_grid(rng, &s);
        let r = 1 + rng.below(8) as u32;
        let m = *rng.pick(&[1usize, 2, 4, 8]);
        let b = balance_factor(rng);
        cases.push(make_case(rng, "dense", r, m, b, &g, 255));
    }
    // --- not road-like at all: near-complete graphs, every axis' cut exceeds the node count of the (root) cell
    for _ in 0..(24 * scale) {
        let n = 5 + rng.below(14) as usize;
        let p = 500 + rng.below(501);
        let g = gen_dense(rng, n, p);
        let r = 1 + rng.below(6) as u32;
        let m = *rng.pick(&[1usize, 2, 4]);
        let b = balance_factor(rng);
        cases.push(make_case(rng, "dense-over", r, m, b, &g, 255));
    }
}

fn execute(case: &Case, obs: &mut Vec<String>) {
    let Some(inp) = parse_input(case) else { return };
    let dir = run_dir();
    let (gb, cb) = write_inputs(&dir, &inp);
    let out = run_chipper(&dir, &inp, &RunSpec { threads: Some(1), pin: None, jitter: false }, false, false);
    obs.push(format!("D rc={}", out.rc));
    if out.rc != "0" {
        return;
    }
    obs.push(format!("D gsha={} csha={}", sha256_hex(&gb), sha256_hex(&cb)));
    obs.push(format!("D pfile len={} sha={}", out.p.len(), sha256_hex(&out.p)));
    obs.push(format!(
        "D ids={}",
        match decode_pids(&out.p) {
            Some(ids) => join(ids.iter(), " "),
            None => "ERR".to_string(),
        }
    ));
    let (ahdr, rows, anl) = canon_assignment(&out.a);
    obs.push(format!("D arows={}", rows.join(",")));
    let (chdr, segs, cnl) = canon_cut(&out.c);
    obs.push(format!("D crows={}", segs.join(",")));
    // byte layout of the CSV files: free lines, after all determined ones
    obs.push(format!("F afile sha={} hdr={} nl={}", sha256_hex(&out.a), ahdr as u8, anl as u8));
    obs.push(format!("F cfile sha={} hdr={} nl={}", sha256_hex(&out.c), chdr as u8, cnl as u8));
}

fn main() {
    harness_main(generate, execute)
}
