//! C20: codes and identifiers.  Real code: toolbox_rs::{polyline, math, enumerative_source_coding,
//! bit_weight_iterator, bitset_subset_iterator, one_iterator, partition_id, level_directory, huffman_code}.
//! Op / observation formats: see lean/Tbx/Drv/C20.lean.  f64 values travel as hex bit patterns.
use std::panic::{AssertUnwindSafe, catch_unwind};
use tbx_harness::*;
use toolbox_rs::bit_weight_iterator::U64BitWeightIterator;
use toolbox_rs::bitset_subset_iterator::BitsetSubsetIterator;
use toolbox_rs::enumerative_source_coding::decode_u64;
use toolbox_rs::huffman_code::{generate_huffman_code_from_sorted, generate_huffman_code_from_unsorted};
use toolbox_rs::level_directory::LevelDirectory;
use toolbox_rs::math::{choose, zigzag_encode};
use toolbox_rs::one_iterator::OneIterator;
use toolbox_rs::partition_id::PartitionID;
use toolbox_rs::polyline;

// ------------------------------------------------------------------------------------------------
// generation

fn f(x: f64) -> String {
    format!("{:x}", x.to_bits())
}

fn polyline_case(family: &str, prec: u32, pts: &[[f64; 2]]) -> Case {
    let mut c = Case::new(family);
    c.op(format!("pl {prec}"));
    for p in pts {
        c.op(format!("p {} {}", f(p[0]), f(p[1])));
    }
    c
}

fn clamp(x: f64, lim: f64) -> f64 {
    if x > lim {
        lim
    } else if x < -lim {
        -lim
    } else {
        x
    }
}

fn unit(rng: &mut Rng) -> f64 {
    (rng.next() >> 11) as f64 / (1u64 << 53) as f64
}

/// a value whose scaled image lies on or next to a rounding boundary (n + 0.5) / 10^prec
fn boundary_value(rng: &mut Rng, prec: u32, lim: f64) -> f64 {
    let factor = 10f64.powi(prec as i32);
    let max_n = (lim * factor) as i64 - 1;
    let n = match rng.below(4) {
        0 => rng.range(-max_n, max_n),
        1 => rng.range(-3, 3),
        2 => max_n - rng.range(0, 3),
        _ => -max_n + rng.range(0, 3),
    };
    let half = if n < 0 { n as f64 - 0.5 } else { n as f64 + 0.5 };
    let mut x = half / factor;
    match rng.below(5) {
        0 => {}
        1 => x = x.next_up(),
        2 => x = x.next_down(),
        3 => x = x.next_up().next_up(),
        _ => x = x.next_down().next_down(),
    }
    clamp(x, lim)
}

fn random_path(rng: &mut Rng, prec: u32, len: usize, style: u64) -> Vec<[f64; 2]> {
    let mut pts = Vec::with_capacity(len);
    let mut cur = [(unit(rng) - 0.5) * 180.0, (unit(rng) - 0.5) * 360.0];
    for i in 0..len {
        let p = match style {
            // uniform over the full range
            0 => [(unit(rng) - 0.5) * 180.0, (unit(rng) - 0.5) * 360.0],
            // random walk with small steps (short deltas, both signs)
            1 => {
                let s = 10f64.powi(-(rng.below(6) as i32));
                cur = [clamp(cur[0] + (unit(rng) - 0.5) * s, 90.0), clamp(cur[1] + (unit(rng) - 0.5) * s, 180.0)];
                cur
            }
            // extremes: the largest deltas the domain allows
            2 => {
                let a = if (i + rng.below(2) as usize) % 2 == 0 { 90.0 } else { -90.0 };
                let b = if rng.chance(1, 2) { 180.0 } else { -180.0 };
                [a, b]
            }
            // rounding boundaries
            3 => [boundary_value(rng, prec, 90.0), boundary_value(rng, prec, 180.0)],
            // grid values and signed zeros
            4 => {
                let factor = 10f64.powi(prec as i32);
                let a = rng.range(-(90.0 * factor) as i64, (90.0 * factor) as i64) as f64 / factor;
                let b = rng.range(-(180.0 * factor) as i64, (180.0 * factor) as i64) as f64 / factor;
                match rng.below(6) {
                    0 => [0.0, -0.0],
                    1 => [-0.0, b],
                    _ => [a, b],
                }
            }
            // tiny magnitudes around zero (subnormal to 10^-prec)
            _ => {
                let e = -(rng.below(320) as i32);
                let v = 10f64.powi(e) * (unit(rng) - 0.5);
                [v, -v * unit(rng)]
            }
        };
        pts.push(p);
    }
    pts
}

fn gen_polyline(rng: &mut Rng, tier: Tier, cases: &mut Vec<Case>) {
    let google = [[38.5, -120.2], [40.7, -120.95], [43.252, -126.453]];
    for prec in 0..=6u32 {
        cases.push(polyline_case("polyline-fixed", prec, &[]));
        cases.push(polyline_case("polyline-fixed", prec, &google));
        cases.push(polyline_case("polyline-fixed", prec, &[[90.0, 180.0], [-90.0, -180.0], [90.0, -180.0], [-90.0, 180.0], [0.0, 0.0]]));
        cases.push(polyline_case("polyline-fixed", prec, &[[0.0, -0.0], [-0.0, 0.0], [5e-324, -5e-324], [0.0, 0.000006], [0.0, 0.000002]]));
        cases.push(polyline_case("polyline-fixed", prec, &[[35.6, -82.55], [35.59985, -82.55015], [35.6, -82.55]]));
        let fct = 10f64.powi(prec as i32);
        // exact halves in both directions and their neighbours
        let mut b = Vec::new();
        for n in [0i64, 1, 2, 7, 12, 89] {
            for s in [1.0, -1.0] {
                let x = s * (n as f64 + 0.5) / fct;
                b.push([clamp(x, 90.0), clamp(x.next_up(), 180.0)]);
                b.push([clamp(x.next_down(), 90.0), clamp(-x, 180.0)]);
            }
        }
        cases.push(polyline_case("polyline-boundary", prec, &b));
        let n_rand = match tier {
            Tier::Quick => 300,
            Tier::Thorough => 4000,
        };
        for i in 0..n_rand {
            let style = rng.below(6);
            let len = if i % 25 == 0 { 200 + rng.below(800) as usize } else { 1 + rng.below(30) as usize };
            let fam = ["polyline-uniform", "polyline-walk", "polyline-extremes", "polyline-boundary", "polyline-grid", "polyline-tiny"][style as usize];
            cases.push(polyline_case(fam, prec, &random_path(rng, prec, len, style)));
        }
    }
}

fn gen_zigzag(rng: &mut Rng, tier: Tier, cases: &mut Vec<Case>) {
    let mut c = Case::new("zigzag-boundary");
    c.op(format!("zz {}", join([0i64, -1, 1, -2, 2, i32::MIN as i64, i32::MAX as i64, i32::MIN as i64 + 1, i32::MAX as i64 - 1].iter(), " ")));
    for k in 1..31 {
        let p = 1i64 << k;
        c.op(format!("zz {} {} {} {} {} {}", p, p - 1, p + 1, -p, -p - 1, -p + 1));
    }
    cases.push(c);
    let n = match tier {
        Tier::Quick => 100,
        Tier::Thorough => 5000,
    };
    for _ in 0..n {
        let mut c = Case::new("zigzag-random");
        for _ in 0..4 {
            let vs: Vec<i64> = (0..8)
                .map(|_| {
                    let bits = rng.below(32);
                    let v = (rng.next() & ((1u64 << bits) - 1).max(1)) as i64;
                    if rng.chance(1, 2) { -v - 1 } else { v }
                })
                .collect();
            c.op(format!("zz {}", join(vs.iter(), " ")));
        }
        cases.push(c);
    }
}

/// binomial coefficients for the generator only (ordinal bounds); u128 Pascal triangle
fn pascal() -> Vec<Vec<u128>> {
    let mut t: Vec<Vec<u128>> = vec![vec![1]];
    for n in 1..=64usize {
        let mut row = vec![1u128; n + 1];
        for k in 1..n {
            row[k] = t[n - 1][k - 1] + t[n - 1][k];
        }
        t.push(row);
    }
    t
}

fn gen_choose_unrank(rng: &mut Rng, tier: Tier, cases: &mut Vec<Case>) {
    // D18 witness first, then all n ≤ 64 with all k (k up to n+2 covers k > n)
    let mut c = Case::new("choose-all");
    c.op("ch 64");
    cases.push(c);
    for n in 0..=64 {
        let mut c = Case::new("choose-all");
        c.op(format!("ch {n}"));
        cases.push(c);
    }
    let t = pascal();
    let reps = match tier {
        Tier::Quick => 4,
        Tier::Thorough => 60,
    };
    for rep in 0..reps {
        for w in 0..=64usize {
            let total = t[64][w] as u64;
            let mut ords: Vec<u64> = vec![0, 1, 2, total / 2, total.saturating_sub(2), total.saturating_sub(1)];
            for _ in 0..20 {
                ords.push(rng.next() % total);
            }
            // neighbouring ordinals: monotonicity is judged on adjacent pairs
            let base = rng.next() % total;
            for d in 0..6 {
                ords.push((base + d).min(total - 1));
            }
            ords.retain(|o| *o < total);
            ords.sort();
            ords.dedup();
            if rep % 2 == 1 {
                rng.shuffle(&mut ords);
            }
            let mut c = Case::new("unrank");
            c.op(format!("ur {w} {}", join(ords.iter(), " ")));
            cases.push(c);
        }
    }
    // histories: `choose` / `decode_u64` / the iterator are stateless, so any order of calls must give the same
    // answers; every case runs on a fresh thread (`harness_main`), so a cache - global or thread-local - starts
    // empty and is filled in the order of the case: small n first, narrow k before wide k, decode in between
    let hist = match tier {
        Tier::Quick => 400,
        Tier::Thorough => 6000,
    };
    for h in 0..hist {
        let mut c = Case::new("choose-history");
        let steps = 3 + rng.below(6);
        let mut cap = 2 + rng.below(12);
        for _ in 0..steps {
            match rng.below(4) {
                0 | 1 => {
                    let n = rng.below(cap.min(64) + 1);
                    c.op(format!("chk {n} {}", rng.below(n + 2)));
                }
                2 => {
                    let w = rng.below(if h % 2 == 0 { 4 } else { 65 }) as usize;
                    let total = t[64][w] as u64;
                    c.op(format!("ur {w} {} {}", rng.next() % total, rng.next() % total));
                }
                _ => {
                    c.op(format!("ch {}", rng.below(cap.min(64) + 1)));
                }
            }
            cap = (cap * 2).min(80);
        }
        cases.push(c);
    }
    // the iterator: complete enumeration for the small classes, a prefix for the others
    for w in 0..=64u64 {
        let total = t[64][w as usize];
        let cnt = if total <= 3000 { total as u64 + 5 } else { 40 + rng.below(40) };
        let mut c = Case::new(if total <= 3000 { "bwiter-complete" } else { "bwiter-prefix" });
        c.op(format!("bw {w} {cnt}"));
        cases.push(c);
    }
}

fn gen_bit_iters(rng: &mut Rng, tier: Tier, cases: &mut Vec<Case>) {
    // all u8 sets (complete), sparse u32 / u64 sets
    for base in (0..256u64).step_by(8) {
        let mut c = Case::new("subsets-u8-all");
        for s in base..base + 8 {
            c.op(format!("ss 8 {s}"));
        }
        cases.push(c);
    }
    // signed instantiations: the mask is given by its two's-complement pattern; i8 over all 256 masks (the 128
    // negative ones included), the all-ones masks -1i8 / -1i16, u16 for completeness
    for base in (0..256u64).step_by(8) {
        let mut c = Case::new("subsets-i8-all");
        for s in base..base + 8 {
            c.op(format!("ssi 8 {s}"));
        }
        cases.push(c);
    }
    let mut c = Case::new("subsets-signed-fixed");
    c.op("ssi 8 129"); // 0x81 as i8
    c.op("ssi 8 255"); // -1i8
    c.op("ssi 16 65535"); // -1i16: all 65536 subsets
    c.op("ssi 16 32768"); // i16::MIN
    c.op("ssi 32 2147483648"); // i32::MIN
    c.op("ssi 64 9223372036854775808"); // i64::MIN
    c.op("ssi 32 2147483733"); // sign bit + 0x55
    c.op("ss 16 65535");
    cases.push(c);
    let n = match tier {
        Tier::Quick => 200,
        Tier::Thorough => 4000,
    };
    for _ in 0..n {
        let mut c = Case::new("subsets-random");
        for _ in 0..3 {
            let bits = *rng.pick(&[16u64, 32, 64]);
            let pc = rng.below(11);
            let mut set = 0u64;
            for _ in 0..pc {
                set |= 1 << rng.below(bits);
            }
            if rng.chance(1, 6) {
                set |= 1 << (bits - 1);
            }
            c.op(format!("ss {bits} {set}"));
        }
        cases.push(c);
    }
    for _ in 0..n {
        let mut c = Case::new("subsets-signed-random");
        for _ in 0..3 {
            let bits = *rng.pick(&[16u64, 32, 64]);
            // sign bit (mostly) plus a few other bits, biased to low ones
            let pc = rng.below(10);
            let mut set = 0u64;
            for _ in 0..pc {
                set |= 1 << if rng.chance(1, 2) { rng.below(8) } else { rng.below(bits) };
            }
            if rng.chance(4, 5) {
                set |= 1 << (bits - 1);
            }
            c.op(format!("ssi {bits} {set}"));
        }
        cases.push(c);
    }
    let mut c = Case::new("ones-fixed");
    for v in [0u64, 1, 2, 3, 0xFFFF_FFFF, 0x4410_4085, 0x8000_0000, 0x8000_0001, 0x7FFF_FFFF, 0xAAAA_AAAA, 0x5555_5555] {
        c.op(format!("on {v}"));
    }
    for k in 0..32 {
        c.op(format!("on {}", 1u64 << k));
    }
    cases.push(c);
    for _ in 0..n {
        let mut c = Case::new("ones-random");
        for _ in 0..8 {
            let v = (rng.next() & rng.next()) as u32 | if rng.chance(1, 4) { rng.next() as u32 } else { 0 };
            c.op(format!("on {v}"));
        }
        cases.push(c);
    }
}

fn random_id(rng: &mut Rng) -> u64 {
    let level = rng.below(32);
    (1u64 << level) | (rng.next() & ((1u64 << level) - 1))
}

fn gen_partition_ids(rng: &mut Rng, tier: Tier, cases: &mut Vec<Case>) {
    // every level: first, second, last id of the level and a random one; several descendant depths
    for level in 0..32u64 {
        let lo = 1u64 << level;
        let hi = (lo << 1) - 1;
        let mut c = Case::new(if level == 31 { "id-topbit" } else { "id-levels" });
        let mut ids = vec![lo, (lo + 1).min(hi), hi, lo | (rng.next() & (lo - 1))];
        ids.dedup();
        for x in ids {
            for k in [0, 1, 2, 31 - level, (32 - level).min(31), 31] {
                c.op(format!("id {x} {k}"));
            }
        }
        cases.push(c);
    }
    let n = match tier {
        Tier::Quick => 600,
        Tier::Thorough => 20000,
    };
    for _ in 0..n {
        let mut c = Case::new("id-random");
        for _ in 0..6 {
            c.op(format!("id {} {}", random_id(rng), rng.below(32)));
        }
        cases.push(c);
    }
    // sweeps: every id of a range through a checksum (quick: 2^20 ids, thorough: 2^27)
    let (win, nwin) = match tier {
        Tier::Quick => (1u64 << 16, 28),
        Tier::Thorough => (1u64 << 21, 56),
    };
    let mut sw = |lo: u64, hi: u64, fam: &str| {
        let mut c = Case::new(fam);
        c.op(format!("sw {lo} {hi}"));
        cases.push(c);
    };
    sw(1, 1 << 16, "sweep-low");
    sw((1 << 31) - 4096, (1 << 31) + 4096, "sweep-bit31");
    sw((1 << 32) - 8192, 1 << 32, "sweep-top");
    for _ in 0..nwin {
        let lo = 1 + rng.next() % ((1u64 << 32) - win - 1);
        sw(lo, lo + win, "sweep-window");
    }
    for k in 17..32 {
        sw((1u64 << k) - 512, (1u64 << k) + 512, "sweep-level-boundary");
    }
    // LCA: structured pairs
    let m = match tier {
        Tier::Quick => 600,
        Tier::Thorough => 20000,
    };
    let mut c = Case::new("lca-fixed");
    for (a, b) in [(1u64, 1u64), (1, 2), (2, 3), (8, 9), (9, 15), (8, 5), (8, 7), (128, 2), (1, 15), (0xFFFF_FFFF, 0xFFFF_FFFE), (0xFFFF_FFFF, 0x8000_0000), (0x8000_0000, 1), (0xFFFF_FFFF, 0x7FFF_FFFF), (0xC000_0000, 0x8000_0001)] {
        c.op(format!("lca {a} {b}"));
    }
    cases.push(c);
    for _ in 0..m {
        let mut c = Case::new("lca-structured");
        for _ in 0..8 {
            let x = random_id(rng);
            let lx = 63 - x.leading_zeros() as u64;
            let y = match rng.below(7) {
                0 => x,                                  // same node
                1 => (x >> rng.below(lx + 1)).max(1),    // an ancestor
                2 => x ^ 1,                              // sibling (x ≥ 2), or the root's pseudo sibling 0 → avoided below
                3 => {
                    // common ancestor at depth j, then the branch x does not take, then a random descent
                    let j = rng.below(lx + 1);
                    let anc = x >> (lx - j);
                    if j == lx {
                        anc
                    } else {
                        let xbit = (x >> (lx - j - 1)) & 1;
                        let d = rng.below(31 - j);
                        (((anc << 1) | (xbit ^ 1)) << d) | (rng.next() & ((1u64 << d) - 1))
                    }
                }
                4 => {
                    // descendant
                    let d = rng.below(32 - lx);
                    (x << d) | (rng.next() & ((1u64 << d) - 1))
                }
                5 => 0x8000_0000 | (rng.next() & 0x7FFF_FFFF), // top-bit id
                _ => random_id(rng),
            };
            let y = if y == 0 || y > 0xFFFF_FFFF { 1 } else { y };
            c.op(format!("lca {x} {y}"));
        }
        cases.push(c);
    }
    // level directory
    let nl = match tier {
        Tier::Quick => 300,
        Tier::Thorough => 6000,
    };
    for _ in 0..nl {
        let nlev = 1 + rng.below(6);
        let mut levels: Vec<u64> = (0..nlev).map(|_| rng.below(24)).collect();
        if rng.chance(3, 4) {
            levels.sort();
            levels.dedup();
        }
        let maxl = *levels.iter().max().unwrap();
        let nid = 2 + rng.below(6);
        let top = maxl + rng.below(31 - maxl) + 1;
        let prefix = rng.next();
        let ids: Vec<u64> = (0..nid)
            .map(|_| {
                // ids share a random number of leading bits so that crossings stop at different levels
                let share = rng.below(top + 1);
                let mask = (1u64 << (top - share)) - 1;
                (1u64 << top) | ((prefix & !mask) & ((1u64 << top) - 1)) | (rng.next() & mask)
            })
            .collect();
        let mut pairs = Vec::new();
        for _ in 0..6 {
            pairs.push(format!("{}:{}", rng.below(nid), rng.below(nid)));
        }
        let mut c = Case::new("level-directory");
        c.op(format!("ld {} {} {}", join(ids.iter(), ","), join(levels.iter(), ","), pairs.join(",")));
        cases.push(c);
    }
}

fn huffman_case(rng: &mut Rng, family: &str, freqs: &[i64], shuffle_syms: bool) -> Case {
    let mut table: Vec<(u64, i64)> = freqs.iter().enumerate().map(|(i, f)| (i as u64, *f)).collect();
    if shuffle_syms {
        rng.shuffle(&mut table);
    }
    let mut c = Case::new(family);
    c.op(format!("hu {}", join(table.iter().map(|(s, f)| format!("{s}:{f}")), " ")));
    if table.len() >= 2 {
        // the sorted construction gets the table sorted by frequency; the order among ties is random
        let mut sorted = table.clone();
        rng.shuffle(&mut sorted);
        sorted.sort_by_key(|e| e.1);
        c.op(format!("hs {}", join(sorted.iter().map(|(s, f)| format!("{s}:{f}")), " ")));
    }
    c
}

fn gen_huffman(rng: &mut Rng, tier: Tier, cases: &mut Vec<Case>) {
    // the unit test table, and a one-symbol table for the heap construction only
    cases.push(huffman_case(rng, "huffman-fixed", &[5, 9, 12, 13, 16, 45], false));
    cases.push(huffman_case(rng, "huffman-fixed", &[7], false));
    cases.push(huffman_case(rng, "huffman-fixed", &[1, 1, 2, 2], false));
    cases.push(huffman_case(rng, "huffman-fixed", &[1, 1, 1, 1, 1, 1, 1, 1], false));
    cases.push(huffman_case(rng, "huffman-fixed", &[1, 2, 4, 8, 16, 32, 64, 128, 256, 512, 1024, 2048], false));
    cases.push(huffman_case(rng, "huffman-fixed", &[1_000_000_000, 1_000_000_000, 147_483_647], false));
    // all tables of 2..nmax symbols over {1..4}
    let nmax = match tier {
        Tier::Quick => 5,
        Tier::Thorough => 7,
    };
    for n in 2..=nmax {
        let mut idx = vec![1i64; n];
        loop {
            cases.push(huffman_case(rng, "huffman-exhaustive", &idx, false));
            let mut p = 0;
            while p < n {
                if idx[p] < 4 {
                    idx[p] += 1;
                    break;
                }
                idx[p] = 1;
                p += 1;
            }
            if p == n {
                break;
            }
        }
    }
    // deep trees: Fibonacci-like frequencies give a code of depth n-1 (up to 43 for 44 symbols, the sum F(46)-1
    // still fits i32); powers of two give depth n-1 as well.  Code words longer than 32 / 64 bits only occur here.
    let mut fib: Vec<i64> = vec![1, 1];
    while fib.len() < 44 {
        let k = fib.len();
        fib.push(fib[k - 1] + fib[k - 2]);
    }
    for n in [20usize, 30, 31, 32, 33, 34, 35, 36, 40, 43, 44] {
        cases.push(huffman_case(rng, "huffman-deep", &fib[..n], false));
        cases.push(huffman_case(rng, "huffman-deep", &fib[..n], true));
    }
    for n in [17usize, 25, 30, 31] {
        let pw: Vec<i64> = (0..n).map(|i| 1i64 << i.saturating_sub(1)).collect();
        cases.push(huffman_case(rng, "huffman-deep", &pw, true));
    }
    let m = match tier {
        Tier::Quick => 2500,
        Tier::Thorough => 60000,
    };
    for _ in 0..m {
        let n = 2 + rng.below(11) as usize;
        let hi = *rng.pick(&[2i64, 3, 5, 10, 100, 100000]);
        let freqs: Vec<i64> = (0..n).map(|_| rng.range(1, hi)).collect();
        cases.push(huffman_case(rng, "huffman-random", &freqs, true));
    }
}

fn generate(rng: &mut Rng, tier: Tier, cases: &mut Vec<Case>) {
    gen_choose_unrank(rng, tier, cases);
    gen_zigzag(rng, tier, cases);
    gen_polyline(rng, tier, cases);
    gen_bit_iters(rng, tier, cases);
    gen_partition_ids(rng, tier, cases);
    gen_huffman(rng, tier, cases);
}

// ------------------------------------------------------------------------------------------------
// execution of the real code

fn unhex(s: &str) -> f64 {
    f64::from_bits(u64::from_str_radix(s, 16).expect("hex"))
}

/// nearest integer to d * 10^prec, computed exactly from the bit pattern (half away from zero)
fn scaled_int(d: f64, prec: u32) -> i128 {
    let bits = d.to_bits();
    let neg = bits >> 63 == 1;
    let ex = ((bits >> 52) & 0x7ff) as i32;
    let fr = (bits & ((1u64 << 52) - 1)) as i128;
    let (m, e) = if ex == 0 { (fr, -1074) } else { (fr | (1i128 << 52), ex - 1075) };
    let num = m * 10i128.pow(prec);
    let mag = if e >= 0 {
        num << e.min(40)
    } else if -e >= 126 {
        0
    } else {
        (num + (1i128 << (-e - 1))) >> (-e)
    };
    if neg { -mag } else { mag }
}

fn opt<T: std::fmt::Display>(f: impl FnOnce() -> T) -> String {
    match catch_unwind(AssertUnwindSafe(f)) {
        Ok(v) => format!("{v}"),
        Err(_) => "x".to_string(),
    }
}

fn comma<T: std::fmt::Display>(xs: &[T]) -> String {
    if xs.is_empty() { "-".to_string() } else { join(xs.iter(), ",") }
}

fn b(x: bool) -> u8 {
    x as u8
}

fn exec_polyline(prec: u32, pts: &[[f64; 2]], obs: &mut Vec<String>) {
    let enc = polyline::encode(pts, prec as i32);
    let s = String::from_utf8_lossy(&enc).to_string();
    obs.push(format!("D enc {s}").trim_end().to_string());
    let dec = polyline::decode(&s, prec as i32);
    let ints: Vec<String> = dec.iter().map(|p| format!("{},{}", scaled_int(p[0], prec), scaled_int(p[1], prec))).collect();
    obs.push(format!("D ints {}", if ints.is_empty() { "-".to_string() } else { ints.join(";") }));
    let bits: Vec<String> = dec.iter().map(|p| format!("{}:{}", f(p[0]), f(p[1]))).collect();
    obs.push(format!("F dec {}", bits.join(" ")).trim_end().to_string());
}

fn exec_id(x: u32, k: usize, obs: &mut Vec<String>) {
    let id = PartitionID(x);
    let l = id.left_child();
    let r = id.right_child();
    obs.push(format!(
        "D id {x} parent={} left={} right={} level={} isl={} isr={} pl={} pr={} ll={} lr={} lisl={} risr={} mlc={} mrc={}",
        opt(|| id.parent().0),
        l.0,
        r.0,
        opt(|| id.level()),
        b(id.is_left_child()),
        b(id.is_right_child()),
        opt(|| l.parent().0),
        opt(|| r.parent().0),
        opt(|| l.level()),
        opt(|| r.level()),
        b(l.is_left_child()),
        b(r.is_right_child()),
        opt(|| {
            let mut t = id;
            t.make_left_child();
            t.0
        }),
        opt(|| {
            let mut t = id;
            t.make_right_child();
            t.0
        }),
    ));
    let mut lk = id;
    let mut rk = id;
    for _ in 0..k {
        lk = lk.left_child();
        rk = rk.right_child();
    }
    obs.push(format!(
        "D desc {x} {k} lm={} rm={} lk={} rk={}",
        opt(|| {
            let mut t = id;
            t.make_leftmost_descendant(k);
            t.0
        }),
        opt(|| {
            let mut t = id;
            t.make_rightmost_descendant(k);
            t.0
        }),
        lk.0,
        rk.0
    ));
    let bits: String = (0..32).rev().map(|i| match catch_unwind(AssertUnwindSafe(|| id.extract_bit(i))) {
        Ok(true) => '1',
        Ok(false) => '0',
        Err(_) => 'x',
    }).collect();
    obs.push(format!("D bits {x} {bits}"));
    let pal = match catch_unwind(AssertUnwindSafe(|| id.level())) {
        Ok(lv) => join((0..=lv as u32).map(|i| opt(|| id.parent_at_level(i).0)), ","),
        Err(_) => "x".to_string(),
    };
    obs.push(format!("D pal {x} {pal}"));
}

fn sweep(lo: u64, hi: u64) -> u64 {
    let mut acc: u64 = 0;
    for x in lo..hi {
        let id = PartitionID(x as u32);
        let l = id.left_child();
        let r = id.right_child();
        let mut lm = id;
        lm.make_leftmost_descendant(3);
        let mut rm = id;
        rm.make_rightmost_descendant(3);
        let term = (id.parent().0 as u64)
            .wrapping_add(3u64.wrapping_mul(l.0 as u64))
            .wrapping_add(5u64.wrapping_mul(r.0 as u64))
            .wrapping_add(7 * id.level() as u64)
            .wrapping_add(11 * id.is_left_child() as u64)
            .wrapping_add(13 * id.is_right_child() as u64)
            .wrapping_add(17u64.wrapping_mul(l.parent().0 as u64))
            .wrapping_add(19u64.wrapping_mul(r.parent().0 as u64))
            .wrapping_add(23u64.wrapping_mul(lm.0 as u64))
            .wrapping_add(29u64.wrapping_mul(rm.0 as u64));
        acc = acc.wrapping_mul(0x100000001B3).wrapping_add(term);
    }
    acc
}

fn exec_huffman(tag: &str, table: &[(u32, i32)], obs: &mut Vec<String>) {
    let book = if tag == "hs" { generate_huffman_code_from_sorted(table) } else { generate_huffman_code_from_unsorted(table) };
    let mut cost: i64 = 0;
    for (s, code) in &book {
        let fq = table.iter().find(|e| e.0 == *s).map(|e| e.1).unwrap_or(0);
        cost += fq as i64 * code.len() as i64;
    }
    let mut syms: Vec<u32> = book.iter().map(|e| e.0).collect();
    syms.sort();
    obs.push(format!("D {tag} cost={cost} n={} syms={}", book.len(), comma(&syms)));
    let words: Vec<String> = book.iter().map(|(s, c)| format!("{s}:{}", if c.is_empty() { "-" } else { c.as_str() })).collect();
    obs.push(format!("F {tag} {}", words.join(" ")).trim_end().to_string());
}

/// (every case runs on a thread of its own: `harness_main`)
fn execute(c: &Case, obs: &mut Vec<String>) {
    let mut i = 0;
    while i < c.ops.len() {
        let t: Vec<&str> = c.ops[i].split_whitespace().collect();
        i += 1;
        if t.is_empty() {
            continue;
        }
        let n = |k: usize| t[k].parse::<u64>().expect("number");
        match t[0] {
            "pl" => {
                let prec = n(1) as u32;
                let mut pts = Vec::new();
                while i < c.ops.len() && c.ops[i].starts_with("p ") {
                    let w: Vec<&str> = c.ops[i].split_whitespace().collect();
                    pts.push([unhex(w[1]), unhex(w[2])]);
                    i += 1;
                }
                exec_polyline(prec, &pts, obs);
            }
            "zz" => {
                let us: Vec<u32> = t[1..].iter().map(|v| zigzag_encode(v.parse::<i32>().expect("i32"))).collect();
                obs.push(format!("D zz {}", join(us.iter(), " ")));
            }
            "chk" => {
                // a single binomial (histories: the order of single calls matters for a cache)
                obs.push(format!("D chk {} {} {}", n(1), n(2), opt(|| choose(n(1), n(2)))));
            }
            "ch" => {
                let vals: Vec<String> = (0..n(1) + 3).map(|k| opt(|| choose(n(1), k))).collect();
                obs.push(format!("D ch {} {}", n(1), vals.join(",")));
            }
            "ur" => {
                let vals: Vec<String> = (2..t.len()).map(|k| opt(|| decode_u64(n(1), n(k)))).collect();
                obs.push(format!("D ur {} {}", n(1), vals.join(" ")).trim_end().to_string());
            }
            "bw" => {
                let items: Vec<u64> = U64BitWeightIterator::with_weight(n(1)).take(n(2) as usize).collect();
                obs.push(format!("D bw {} {} {}", n(1), items.len(), comma(&items)));
            }
            "ss" => {
                let items: Vec<u64> = match n(1) {
                    8 => BitsetSubsetIterator::<u8>::from_bitset(n(2) as u8).map(|v| v as u64).collect(),
                    16 => BitsetSubsetIterator::<u16>::from_bitset(n(2) as u16).map(|v| v as u64).collect(),
                    32 => BitsetSubsetIterator::<u32>::from_bitset(n(2) as u32).map(|v| v as u64).collect(),
                    _ => BitsetSubsetIterator::<u64>::from_bitset(n(2)).collect(),
                };
                obs.push(format!("D ss {} {}", items.len(), comma(&items)));
            }
            "ssi" => {
                // signed T: the mask is the two's-complement pattern reinterpreted; items are the signed values
                let items: Vec<i64> = match n(1) {
                    8 => BitsetSubsetIterator::<i8>::from_bitset(n(2) as u8 as i8).map(|v| v as i64).collect(),
                    16 => BitsetSubsetIterator::<i16>::from_bitset(n(2) as u16 as i16).map(|v| v as i64).collect(),
                    32 => BitsetSubsetIterator::<i32>::from_bitset(n(2) as u32 as i32).map(|v| v as i64).collect(),
                    _ => BitsetSubsetIterator::<i64>::from_bitset(n(2) as i64).collect(),
                };
                obs.push(format!("D ssi {} {}", items.len(), comma(&items)));
            }
            "on" => {
                let items: Vec<u32> = OneIterator::from(n(1) as u32).collect();
                obs.push(format!("D on {} {}", n(1), comma(&items)));
            }
            "id" => exec_id(n(1) as u32, n(2) as usize, obs),
            "lca" => {
                let (x, y) = (PartitionID(n(1) as u32), PartitionID(n(2) as u32));
                obs.push(format!("D lca {} {} {} {}", n(1), n(2), opt(|| x.lowest_common_ancestor(&y).0), opt(|| y.lowest_common_ancestor(&x).0)));
            }
            "sw" => obs.push(format!("D sw {} {} {:x}", n(1), n(2), sweep(n(1), n(2)))),
            "ld" => {
                let ids: Vec<PartitionID> = t[1].split(',').map(|v| PartitionID(v.parse::<u32>().expect("id"))).collect();
                let levels: Vec<u32> = t[2].split(',').map(|v| v.parse().expect("level")).collect();
                let dir = LevelDirectory::new(&ids, &levels);
                for pr in t[3].split(',') {
                    let (u, v) = pr.split_once(':').expect("pair");
                    let (u, v): (usize, usize) = (u.parse().unwrap(), v.parse().unwrap());
                    let r = match catch_unwind(AssertUnwindSafe(|| dir.get_crossing_levels(u, v).to_vec())) {
                        Ok(l) => comma(&l),
                        Err(_) => "x".to_string(),
                    };
                    obs.push(format!("D ld {u} {v} {r}"));
                }
            }
            "hu" | "hs" => {
                let table: Vec<(u32, i32)> = t[1..]
                    .iter()
                    .map(|w| {
                        let (s, fq) = w.split_once(':').expect("s:f");
                        (s.parse().unwrap(), fq.parse().unwrap())
                    })
                    .collect();
                exec_huffman(t[0], &table, obs);
            }
            _ => obs.push(format!("UNKNOWN-OP {}", t[0])),
        }
    }
}

fn main() {
    harness_main(generate, execute);
}
