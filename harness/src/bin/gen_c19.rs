//! C19: geometric primitives.  Real code: toolbox_rs::{convex_hull, geometry, space_filling_curve,
//! bounding_box, mercator, vector_tile, great_circle} in-process, and the `scaffold` binary as a
//! subprocess (family `scaffold`).
//!
//! Case kinds (first op line = header):
//!   H   / p lat lon ...                       monotone_chain
//!   Z   / p lat lon ...                       zorder_cmp on all ordered pairs
//!   B   / p lat lon ... then q|x|xi|s|c ...   BoundingBox from_coordinates / contains / extend_with / center
//!   MD a b c d / q lat lon ...                BoundingBox::min_distance (box = corners (a,b),(c,d))
//!   MR  / lat <bits> | lon <bits> ...         mercator round trips (f64 bit patterns, decimal u64)
//!   T   / t <latbits> <lonbits> zoom ...      vector_tile conversions
//!   SC  / n lat lon pid ...                   scaffold --convex-cells-geojson
//! Observation formats are documented next to the Lean driver (lean/Tbx/Drv/C19.lean).
use tbx_harness::*;
use toolbox_rs::bounding_box::BoundingBox;
use toolbox_rs::convex_hull::monotone_chain;
use toolbox_rs::geometry::FPCoordinate;
use toolbox_rs::space_filling_curve::zorder_cmp;
use toolbox_rs::wgs84::{FloatCoordinate, FloatLatitude, FloatLongitude};
use toolbox_rs::{mercator, vector_tile};

type P = (i32, i32); // (lat, lon)

const LAT_MAX: i32 = 90_000_000;
const LON_MAX: i32 = 180_000_000;

// ------------------------------------------------------------------------------------------------
// canonical form of a hull (same algorithm in lean/Tbx/Drv/C19.lean `canonHull`)

fn cross(o: P, a: P, b: P) -> i128 {
    (a.1 as i128 - o.1 as i128) * (b.0 as i128 - o.0 as i128) - (a.0 as i128 - o.0 as i128) * (b.1 as i128 - o.1 as i128)
}

/// n_input <= 3: as returned.  Otherwise: one point if all vertices are equal, the sorted pair for two
/// vertices, else the cyclic sequence with positive orientation rotated to start at its smallest vertex.
fn canon_hull(n_input: usize, hull: &[P]) -> Vec<P> {
    if n_input <= 3 || hull.is_empty() {
        return hull.to_vec();
    }
    if hull.iter().all(|p| *p == hull[0]) {
        return vec![hull[0]];
    }
    let mut h = hull.to_vec();
    if h.len() == 2 {
        h.sort();
        return h;
    }
    let mut area2: i128 = 0;
    for i in 1..h.len() - 1 {
        area2 += cross(h[0], h[i], h[i + 1]);
    }
    if area2 < 0 {
        h.reverse();
    }
    let mut best = 0;
    for i in 1..h.len() {
        if h[i] < h[best] {
            best = i;
        }
    }
    h.rotate_left(best);
    h
}

fn pts_str(ps: &[P]) -> String {
    join(ps.iter().map(|p| format!("{},{}", p.0, p.1)), " ")
}

// ------------------------------------------------------------------------------------------------
// generation

fn clamp_valid(p: (i64, i64)) -> P {
    (p.0.clamp(-(LAT_MAX as i64), LAT_MAX as i64) as i32, p.1.clamp(-(LON_MAX as i64), LON_MAX as i64) as i32)
}

fn hull_case(family: &str, pts: &[P]) -> Case {
    let mut c = Case::new(family);
    c.op("H");
    for p in pts {
        c.op(format!("p {} {}", p.0, p.1));
    }
    c
}

fn gen_hull_grid(rng: &mut Rng, w: usize, h: usize, cases: &mut Vec<Case>) {
    let cells = w * h;
    for mask in 0u32..(1u32 << cells) {
        let mut pts: Vec<P> = (0..cells).filter(|i| mask >> i & 1 == 1).map(|i| ((i / w) as i32, (i % w) as i32)).collect();
        cases.push(hull_case("hull-grid", &pts));
        // the same subset in a random order, translated and scaled into the geographic range
        if pts.len() > 1 {
            rng.shuffle(&mut pts);
            let (s, dlat, dlon) = (*rng.pick(&[1i32, 7, 1000, 1_000_000]), rng.range(-80, 80) as i32 * 1_000_000, rng.range(-170, 170) as i32 * 1_000_000);
            let q: Vec<P> = pts.iter().map(|p| (p.0 * s + dlat, p.1 * s + dlon)).collect();
            cases.push(hull_case("hull-grid-shuffled", &q));
        }
    }
}

fn gen_hull_degenerate(rng: &mut Rng, rounds: usize, cases: &mut Vec<Case>) {
    for r in 0..rounds {
        let base: P = if r % 3 == 0 { (0, 0) } else { (rng.range(-80_000_000, 80_000_000) as i32, rng.range(-170_000_000, 170_000_000) as i32) };
        // all equal
        let n = rng.range(1, 9) as usize;
        cases.push(hull_case("hull-degenerate", &vec![base; n]));
        // two values repeated
        let other = (base.0 + rng.range(-5, 5) as i32, base.1 + rng.range(-5, 5) as i32);
        let mut v: Vec<P> = (0..rng.range(2, 9)).map(|i| if i % 2 == 0 { base } else { other }).collect();
        rng.shuffle(&mut v);
        cases.push(hull_case("hull-degenerate", &v));
        // collinear: direction (dlat, dlon), multipliers with repetitions
        let dir: P = *rng.pick(&[(0, 1), (1, 0), (1, 1), (1, -1), (2, 3), (-3, 1), (1000, 1), (1, 100000), (7, -5)]);
        let n = rng.range(1, 12) as usize;
        let mut v: Vec<P> = (0..n)
            .map(|_| {
                let t = rng.range(-6, 6);
                clamp_valid((base.0 as i64 + t * dir.0 as i64, base.1 as i64 + t * dir.1 as i64))
            })
            .collect();
        // clamping at the range border could break collinearity only for bases near the border (not generated)
        cases.push(hull_case("hull-degenerate", &v));
        // collinear plus one point off the line (a fan: every line point but the extremes must go)
        let off = (base.0 + dir.1 * 3 + 1, base.1 - dir.0 * 3);
        v.push(clamp_valid((off.0 as i64, off.1 as i64)));
        rng.shuffle(&mut v);
        cases.push(hull_case("hull-degenerate", &v));
        // square with duplicated corners, edge midpoints and centre
        let s = *rng.pick(&[2i32, 10, 1000, 2_000_000]);
        let mut v: Vec<P> = Vec::new();
        for (a, b) in [(0, 0), (0, 2), (2, 2), (2, 0), (0, 1), (1, 2), (2, 1), (1, 0), (1, 1), (0, 0), (2, 2)] {
            v.push((base.0 + a * s / 2, base.1 + b * s / 2));
        }
        rng.shuffle(&mut v);
        v.truncate(rng.range(4, 11) as usize);
        cases.push(hull_case("hull-degenerate", &v));
        // up to three arbitrary points (identity clause), duplicates allowed
        let n = rng.range(0, 3) as usize;
        let v: Vec<P> = (0..n).map(|_| (base.0 + rng.range(-2, 2) as i32, base.1 + rng.range(-2, 2) as i32)).collect();
        cases.push(hull_case("hull-small", &v));
    }
    // the extreme corners of the valid range (largest cross products that can occur)
    let ext: Vec<P> = vec![(LAT_MAX, LON_MAX), (-LAT_MAX, LON_MAX), (LAT_MAX, -LON_MAX), (-LAT_MAX, -LON_MAX), (0, 0), (LAT_MAX, 0), (0, LON_MAX), (1, -1)];
    cases.push(hull_case("hull-extreme", &ext));
    let mut e2 = ext.clone();
    e2.reverse();
    e2.push((LAT_MAX - 1, LON_MAX - 1));
    e2.push((-LAT_MAX + 1, LON_MAX));
    cases.push(hull_case("hull-extreme", &e2));
}

/// point clouds of a thousand points and more (block-wise or divide-and-conquer variants change strategy at such
/// sizes); sizes just above multiples of 1024 included
fn gen_hull_large(rng: &mut Rng, quick: bool, cases: &mut Vec<Case>) {
    let sizes: &[usize] = if quick { &[1024, 1025, 2049, 4097] } else { &[1023, 1024, 1025, 1026, 2048, 2049, 3073, 4097, 8193, 10241] };
    for &n in sizes {
        let center = (rng.range(-40_000_000, 40_000_000), rng.range(-100_000_000, 100_000_000));
        let r = *rng.pick(&[1_000i64, 100_000, 5_000_000]);
        let mut pts: Vec<P> = Vec::with_capacity(n);
        for _ in 0..n {
            // disc-like cloud: many interior points, a few dozen hull vertices
            let (dx, dy) = (rng.range(-r, r), rng.range(-r, r));
            if dx * dx + dy * dy <= r * r {
                pts.push(((center.0 + dx) as i32, (center.1 + dy) as i32));
            } else {
                pts.push(((center.0 + dx / 2) as i32, (center.1 + dy / 2) as i32));
            }
        }
        cases.push(hull_case("hull-large", &pts));
    }
}

fn gen_hull_random(rng: &mut Rng, count: usize, cases: &mut Vec<Case>) {
    for i in 0..count {
        let n = match i % 5 {
            0 => rng.range(4, 8),
            1 => rng.range(4, 30),
            2 => rng.range(10, 80),
            _ => rng.range(4, 200),
        } as usize;
        let kind = rng.below(8);
        let center = (rng.range(-(LAT_MAX as i64), LAT_MAX as i64), rng.range(-(LON_MAX as i64), LON_MAX as i64));
        let pts: Vec<P> = match kind {
            // tiny lattice: many duplicates and collinear triples
            0 => (0..n).map(|_| clamp_valid((center.0 + rng.range(0, 4), center.1 + rng.range(0, 4)))).collect(),
            // small spread
            1 => (0..n).map(|_| clamp_valid((center.0 + rng.range(-50, 50), center.1 + rng.range(-50, 50)))).collect(),
            // city / country extents; clamping at the border makes boundary-collinear points
            2 => (0..n).map(|_| clamp_valid((center.0 + rng.range(-100_000, 100_000), center.1 + rng.range(-100_000, 100_000)))).collect(),
            3 => (0..n).map(|_| clamp_valid((center.0 + rng.range(-10_000_000, 10_000_000), center.1 + rng.range(-10_000_000, 10_000_000)))).collect(),
            // the whole globe including the extreme latitudes / longitudes
            4 => (0..n)
                .map(|_| {
                    if rng.chance(1, 4) {
                        (*rng.pick(&[-LAT_MAX, LAT_MAX, 0, LAT_MAX - 1]), *rng.pick(&[-LON_MAX, LON_MAX, 0, -LON_MAX + 1]))
                    } else {
                        (rng.range(-(LAT_MAX as i64), LAT_MAX as i64) as i32, rng.range(-(LON_MAX as i64), LON_MAX as i64) as i32)
                    }
                })
                .collect(),
            // points in convex position (parabola): every point is a hull vertex
            5 => {
                let m = (n as i64).min(60);
                let mut v: Vec<P> = (0..m).map(|k| { let x = k - m / 2; clamp_valid((center.0 / 2 + x * x, center.1 / 2 + x)) }).collect();
                rng.shuffle(&mut v);
                v
            }
            // thin sliver: nearly collinear points (orientation signs decided by the last digit)
            6 => (0..n)
                .map(|_| {
                    let t = rng.range(-1_000_000, 1_000_000);
                    clamp_valid((center.0 / 2 + t + rng.range(-1, 1), center.1 / 2 + 2 * t))
                })
                .collect(),
            // two clusters far apart
            _ => (0..n)
                .map(|k| {
                    let c = if k % 2 == 0 { center } else { (-center.0, -center.1) };
                    clamp_valid((c.0 + rng.range(-1000, 1000), c.1 + rng.range(-1000, 1000)))
                })
                .collect(),
        };
        cases.push(hull_case("hull-random", &pts));
    }
}

fn egcd(a: i128, b: i128) -> (i128, i128, i128) {
    if b == 0 { (a, 1, 0) } else {
        let (g, x, y) = egcd(b, a % b);
        (g, y, x - (a / b) * y)
    }
}

fn valid(p: (i128, i128)) -> Option<P> {
    if p.0.abs() <= LAT_MAX as i128 && p.1.abs() <= LON_MAX as i128 { Some((p.0 as i32, p.1 as i32)) } else { None }
}

/// Point sets around a long base segment o -> o + g*(dy,dx) (tens to hundreds of degrees in both
/// coordinates, (dx,dy) primitive) plus points whose exact cross product with the base is tiny:
/// with dx*v - dy*u = 1 (extended Euclid) the point o + (s*u mod dx, matching lat) has cross product g*s.
/// The products in the orientation test exceed 2^53, so any rounding of them flips turns; both signs are
/// generated, so some of these points are genuine hull vertices and some lie just inside.
fn gen_hull_near_collinear_far(rng: &mut Rng, count: usize, cases: &mut Vec<Case>) {
    let mut made = 0;
    let mut guard = 0;
    while made < count && guard < count * 50 {
        guard += 1;
        let g: i128 = *rng.pick(&[1i128, 1, 1, 2, 3]);
        // span of the whole base in micro-degrees: lon 20..340 degrees, lat 20..160 degrees (biased to large)
        let span_lon = if rng.chance(2, 3) { rng.range(150_000_000, 340_000_000) } else { rng.range(20_000_000, 340_000_000) } as i128;
        let span_lat = if rng.chance(2, 3) { rng.range(60_000_000, 160_000_000) } else { rng.range(20_000_000, 160_000_000) } as i128;
        let dx = span_lon / g;
        let mut dy = span_lat / g;
        if rng.chance(1, 2) {
            dy = -dy;
        }
        let (gg, x, y) = egcd(dx, dy.abs());
        if gg != 1 {
            continue;
        }
        // dx*v - dy*u = 1
        let (u, v) = if dy > 0 { (-y, x) } else { (y, x) };
        debug_assert_eq!(dx * v - dy * u, 1);
        // origin such that both end points are valid
        let (tot_lon, tot_lat) = (g * dx, g * dy);
        let lon0 = rng.range(-(LON_MAX as i64), (LON_MAX as i128 - tot_lon) as i64) as i128;
        let lat0 = if tot_lat >= 0 {
            rng.range(-(LAT_MAX as i64), (LAT_MAX as i128 - tot_lat) as i64) as i128
        } else {
            rng.range((-(LAT_MAX as i128) - tot_lat) as i64, LAT_MAX as i64) as i128
        };
        let mut pts: Vec<P> = Vec::new();
        // lattice points on the base line (cross product 0): the end points, interior ones if g > 1
        for k in 0..=g {
            if k == 0 || k == g || rng.chance(1, 2) {
                if let Some(p) = valid((lat0 + k * dy, lon0 + k * dx)) {
                    pts.push(p);
                }
            }
        }
        // points with cross product g*s, s in -2..=2, anywhere along the base
        let ns = rng.range(2, 7);
        for _ in 0..ns {
            let sgn = *rng.pick(&[-2i128, -1, -1, 1, 1, 2, 0]);
            let (mut us, mut vs) = (sgn * u, sgn * v);
            let m = us.div_euclid(dx);
            us -= m * dx;
            vs -= m * dy;
            let k = rng.range(0, (g - 1) as i64) as i128;
            if let Some(p) = valid((lat0 + vs + k * dy, lon0 + us + k * dx)) {
                pts.push(p);
            }
        }
        // sometimes a far point on one side (then the near points of that side lie just inside the polygon),
        // sometimes a duplicate
        match rng.below(4) {
            0 => {
                let side: i128 = if rng.chance(1, 2) { 1 } else { -1 };
                // normal direction (-dy, dx) in (lon, lat) = left of the base
                let t = rng.range(1, 40) as i128;
                if let Some(p) = valid((lat0 + tot_lat / 2 + side * dx * t / 100, lon0 + tot_lon / 2 - side * dy * t / 100)) {
                    pts.push(p);
                }
            }
            1 => {
                let p = *rng.pick(&pts);
                pts.push(p);
            }
            _ => {}
        }
        if pts.len() <= 3 {
            continue;
        }
        rng.shuffle(&mut pts);
        cases.push(hull_case("hull-near-collinear-far", &pts));
        made += 1;
    }
}

const ZVALS: [i32; 16] = [
    0, 1, -1, i32::MIN, i32::MAX, 2, -2, i32::MIN + 1, i32::MAX - 1, 0x4000_0000, -0x4000_0000, 0x3FFF_FFFF, 0x5555_5555, -0x5555_5556, 0x0001_0000, -0x0001_0000,
];

fn z_case(family: &str, pts: &[P]) -> Case {
    let mut c = Case::new(family);
    c.op("Z");
    for p in pts {
        c.op(format!("p {} {}", p.0, p.1));
    }
    c
}

fn gen_zorder(rng: &mut Rng, tier: Tier, cases: &mut Vec<Case>) {
    // all triples over the boundary bit patterns: one case whose point set is V x V
    let nv = if tier == Tier::Quick { 11 } else { 16 };
    let mut grid = Vec::new();
    for a in &ZVALS[..nv] {
        for b in &ZVALS[..nv] {
            grid.push((*a, *b));
        }
    }
    cases.push(z_case("zorder-boundary", &grid));
    let count = if tier == Tier::Quick { 1500 } else { 30000 };
    for i in 0..count {
        let n = rng.range(3, 14) as usize;
        let mut pts: Vec<P> = Vec::new();
        let base: P = match i % 4 {
            0 => (rng.next() as i32, rng.next() as i32),
            1 => (rng.range(-(LAT_MAX as i64), LAT_MAX as i64) as i32, rng.range(-(LON_MAX as i64), LON_MAX as i64) as i32),
            2 => (*rng.pick(&ZVALS), *rng.pick(&ZVALS)),
            _ => (rng.range(-3, 3) as i32, rng.range(-3, 3) as i32),
        };
        pts.push(base);
        while pts.len() < n {
            let src = *rng.pick(&pts);
            let p = match rng.below(8) {
                // values differing in exactly one bit (possibly the sign bit), in one or both dimensions
                0 => (src.0 ^ (1i32 << rng.below(32)), src.1),
                1 => (src.0, src.1 ^ (1i32 << rng.below(32))),
                2 => {
                    let k = rng.below(32);
                    (src.0 ^ (1i32 << k), src.1 ^ (1i32 << k))
                }
                3 => (src.0 ^ (1i32 << rng.below(32)), src.1 ^ (1i32 << rng.below(32))),
                4 => (src.1, src.0),
                5 => (src.0.wrapping_neg(), src.1.wrapping_add(1)),
                6 => (rng.next() as i32, rng.next() as i32),
                _ => (*rng.pick(&ZVALS), *rng.pick(&ZVALS)),
            };
            pts.push(p);
        }
        cases.push(z_case("zorder-random", &pts));
    }
}

fn gen_bbox(rng: &mut Rng, count: usize, cases: &mut Vec<Case>) {
    for i in 0..count {
        let mut c = Case::new("bbox");
        c.op("B");
        let kind = i % 4;
        let coord = |rng: &mut Rng| -> P {
            match kind {
                0 => (rng.range(-4, 4) as i32, rng.range(-4, 4) as i32),
                1 => (rng.range(-(LAT_MAX as i64), LAT_MAX as i64) as i32, rng.range(-(LON_MAX as i64), LON_MAX as i64) as i32),
                2 => (rng.range(40_000_000, 40_100_000) as i32, rng.range(-74_100_000, -74_000_000) as i32),
                _ => {
                    if rng.chance(1, 3) {
                        (*rng.pick(&[i32::MIN, i32::MAX, 0, -1]), *rng.pick(&[i32::MIN, i32::MAX, 0, 1]))
                    } else {
                        (rng.next() as i32, rng.next() as i32)
                    }
                }
            }
        };
        let n = if i % 17 == 0 { 0 } else { rng.range(1, 12) as usize };
        let pts: Vec<P> = (0..n).map(|_| coord(rng)).collect();
        for p in &pts {
            c.op(format!("p {} {}", p.0, p.1));
        }
        let nops = rng.range(3, 14);
        for _ in 0..nops {
            match rng.below(10) {
                0..=4 => {
                    // queries: around the input points (corner +-1 in each dimension) or anywhere
                    let q = if !pts.is_empty() && rng.chance(2, 3) {
                        let a = *rng.pick(&pts);
                        let b = *rng.pick(&pts);
                        (a.0.saturating_add(rng.range(-1, 1) as i32), b.1.saturating_add(rng.range(-1, 1) as i32))
                    } else {
                        coord(rng)
                    };
                    c.op(format!("q {} {}", q.0, q.1));
                }
                5 | 6 => {
                    let a = coord(rng);
                    let b = coord(rng);
                    c.op(format!("x {} {} {} {}", a.0, a.1, b.0, b.1));
                }
                7 => {
                    c.op("xi");
                }
                8 => {
                    let a = coord(rng);
                    c.op(format!("s {} {}", a.0, a.1));
                }
                _ => {
                    // center does i32 arithmetic on the corner differences: only inside the geographic range
                    if kind != 3 && n > 0 {
                        c.op("c");
                    }
                }
            }
        }
        cases.push(c);
    }
}

fn md_case(family: &str, b: (P, P), qs: &[P]) -> Case {
    let mut c = Case::new(family);
    c.op(format!("MD {} {} {} {}", b.0.0, b.0.1, b.1.0, b.1.1));
    for q in qs {
        c.op(format!("q {} {}", q.0, q.1));
    }
    c
}

/// clean family: queries inside / on the boundary (distance 0) and in the four corner regions with
/// a longitude span <= 1 degree and a latitude offset >= 0.01 degree, where the clamped point is a
/// corner and that corner is also the nearest corner on the sphere
fn gen_md_clean(rng: &mut Rng, count: usize, cases: &mut Vec<Case>) {
    for _ in 0..count {
        let lat0 = rng.range(-60_000_000, 60_000_000) as i32;
        let lon0 = rng.range(-90_000_000, 90_000_000) as i32;
        let h = rng.range(0, 400_000) as i32;
        let w = rng.range(0, 400_000) as i32;
        let b = ((lat0, lon0), (lat0 + h, lon0 + w));
        let mut qs = Vec::new();
        for _ in 0..rng.range(2, 8) {
            let q = match rng.below(7) {
                0 => (lat0 + rng.range(0, h as i64) as i32, lon0 + rng.range(0, w as i64) as i32),
                1 => (*rng.pick(&[lat0, lat0 + h]), lon0 + rng.range(0, w as i64) as i32),
                // the western / eastern edge away from the corners, and the corners themselves (C19-r4m1: a
                // half-open longitude range in min_distance's "inside" test)
                2 => (lat0 + rng.range(0, h as i64) as i32, *rng.pick(&[lon0, lon0 + w])),
                3 => (lat0 + h / 2, lon0 + w),
                4 => (*rng.pick(&[lat0, lat0 + h]), *rng.pick(&[lon0, lon0 + w])),
                _ => {
                    let dlat = rng.range(10_000, 3_000_000) as i32;
                    let dlon = rng.range(1, 300_000) as i32;
                    let lat = if rng.chance(1, 2) { lat0 - dlat } else { lat0 + h + dlat };
                    let lon = if rng.chance(1, 2) { lon0 - dlon } else { lon0 + w + dlon };
                    (lat, lon)
                }
            };
            qs.push(q);
        }
        cases.push(md_case("mindist", b, &qs));
    }
}

/// dedicated D7 family (known finding): queries beside an edge, where the closest point of the box
/// is not a corner
fn gen_md_d7(rng: &mut Rng, count: usize, cases: &mut Vec<Case>) {
    cases.push(md_case("mindist-d7", ((10_000_000, 10_000_000), (20_000_000, 60_000_000)), &[(9_900_000, 35_000_000)]));
    cases.push(md_case("mindist-d7", ((10, 10), (20, 20)), &[(15, 25)]));
    for _ in 0..count {
        let lat0 = rng.range(-50_000_000, 40_000_000) as i32;
        let lon0 = rng.range(-90_000_000, 30_000_000) as i32;
        let h = rng.range(1_000_000, 10_000_000) as i32;
        let w = rng.range(1_000_000, 50_000_000) as i32;
        let b = ((lat0, lon0), (lat0 + h, lon0 + w));
        let q = match rng.below(4) {
            0 => (lat0 - rng.range(1000, 500_000) as i32, lon0 + w / 2),
            1 => (lat0 + h + rng.range(1000, 500_000) as i32, lon0 + w / 3),
            2 => (lat0 + h / 2, lon0 - rng.range(1000, 500_000) as i32),
            _ => (lat0 + h / 3, lon0 + w + rng.range(1000, 500_000) as i32),
        };
        cases.push(md_case("mindist-d7", b, &[q]));
    }
}

const MAX_MERC_LAT: f64 = 85.05;

fn gen_mercator(rng: &mut Rng, count: usize, cases: &mut Vec<Case>) {
    let unit = |rng: &mut Rng| (rng.next() >> 11) as f64 / (1u64 << 53) as f64;
    // fixed values from the crate's own tests
    let mut c = Case::new("mercator");
    c.op("MR");
    for lat in [0.0f64, 51.0, -33.9, 85.0, -85.0, MAX_MERC_LAT, -MAX_MERC_LAT, 70.0, -70.0, 70.00000000000001, -70.00000000000001, 1e-300, -0.0, 0.84, -0.85] {
        c.op(format!("lat {}", lat.to_bits()));
    }
    for lon in [0.0f64, 13.0, 151.2, 180.0, -180.0, 179.99999999999997, -90.0, 1e-300, -0.0] {
        c.op(format!("lon {}", lon.to_bits()));
    }
    cases.push(c);
    for i in 0..count {
        let mut c = Case::new("mercator");
        c.op("MR");
        for _ in 0..40 {
            let lat = match i % 4 {
                0 => (unit(rng) * 2.0 - 1.0) * MAX_MERC_LAT,
                1 => (unit(rng) * 2.0 - 1.0) * 0.85,
                2 => (unit(rng) * 2.0 - 1.0) * 70.0,
                _ => {
                    let s = if rng.chance(1, 2) { 1.0 } else { -1.0 };
                    s * (70.0 + unit(rng) * (MAX_MERC_LAT - 70.0))
                }
            };
            c.op(format!("lat {}", lat.to_bits()));
            let lon = (unit(rng) * 2.0 - 1.0) * 180.0;
            c.op(format!("lon {}", lon.to_bits()));
        }
        cases.push(c);
    }
}

fn gen_tiles(rng: &mut Rng, count: usize, cases: &mut Vec<Case>) {
    let unit = |rng: &mut Rng| (rng.next() >> 11) as f64 / (1u64 << 53) as f64;
    // values from the crate's tests (one lies exactly on a tile boundary)
    let mut c = Case::new("tiles");
    c.op("T");
    for (lat, lon, z) in [(52.52f64, 13.405f64, 14u32), (50.20731, 8.57747, 14), (52.5224609375, 13.4033203125, 14), (35.6590699, 139.7006793, 18), (0.0, 0.0, 0), (0.0, 0.0, 1), (85.0, -180.0, 20), (-85.05, 179.999999, 20), (0.0, -180.0, 5)] {
        c.op(format!("t {} {} {}", lat.to_bits(), lon.to_bits(), z));
    }
    cases.push(c);
    for i in 0..count {
        let mut c = Case::new("tiles");
        c.op("T");
        for _ in 0..30 {
            let zoom = rng.range(0, 20) as u32;
            let n = (1u64 << zoom) as f64;
            let (lat, lon) = match i % 3 {
                0 | 1 => ((unit(rng) * 2.0 - 1.0) * MAX_MERC_LAT, unit(rng) * 360.0 - 180.0),
                _ => {
                    // exactly on / next to a tile boundary: longitude k/n*360-180 is exact for dyadic n,
                    // latitude is the boundary value the crate itself computes
                    let tx = rng.below(1u64 << zoom) as u32;
                    let ty = rng.below(1u64 << zoom) as u32;
                    let b = vector_tile::get_tile_bounds(zoom, tx, ty);
                    let mut lat = b.min_lat.0;
                    let mut lon = tx as f64 / n * 360.0 - 180.0;
                    match rng.below(4) {
                        0 => {}
                        1 => lat = f64::from_bits(lat.to_bits() + 1),
                        2 => lat = f64::from_bits(lat.to_bits().wrapping_sub(1)),
                        _ => lon = f64::from_bits(if lon > 0.0 { lon.to_bits() - 1 } else { lon.to_bits() + 1 }),
                    }
                    (lat, lon)
                }
            };
            if !(lat.abs() <= MAX_MERC_LAT) || !(-180.0..180.0).contains(&lon) {
                continue;
            }
            c.op(format!("t {} {} {}", lat.to_bits(), lon.to_bits(), zoom));
        }
        cases.push(c);
    }
}

fn gen_scaffold(rng: &mut Rng, count: usize, cases: &mut Vec<Case>) {
    for i in 0..count {
        let mut c = Case::new("scaffold");
        c.op("SC");
        let n = if i == 0 { 1 } else { rng.range(1, 120) as usize };
        let ncells = rng.range(1, 9) as u32;
        let ids: Vec<u32> = (0..ncells).map(|k| if rng.chance(1, 5) { rng.next() as u32 } else { 1 + k * 3 + rng.below(3) as u32 }).collect();
        let center = (rng.range(-80_000_000, 80_000_000), rng.range(-170_000_000, 170_000_000));
        let spread = *rng.pick(&[3i64, 1000, 1_000_000]);
        for _ in 0..n {
            let p = clamp_valid((center.0 + rng.range(-spread, spread), center.1 + rng.range(-spread, spread)));
            c.op(format!("n {} {} {}", p.0, p.1, rng.pick(&ids)));
        }
        cases.push(c);
    }
}

fn generate(rng: &mut Rng, tier: Tier, cases: &mut Vec<Case>) {
    let quick = tier == Tier::Quick;
    // witnesses first: D7 (known finding), the crate's overflow regression set
    gen_md_d7(&mut rng.fork(), if quick { 6 } else { 30 }, cases);
    // hulls: exhaustive tiny grids
    if quick {
        gen_hull_grid(&mut rng.fork(), 3, 3, cases);
    } else {
        gen_hull_grid(&mut rng.fork(), 4, 3, cases);
    }
    gen_hull_degenerate(&mut rng.fork(), if quick { 150 } else { 3000 }, cases);
    gen_hull_random(&mut rng.fork(), if quick { 3000 } else { 60000 }, cases);
    gen_hull_large(&mut rng.fork(), quick, cases);
    gen_hull_near_collinear_far(&mut rng.fork(), if quick { 600 } else { 12000 }, cases);
    gen_zorder(&mut rng.fork(), tier, cases);
    gen_bbox(&mut rng.fork(), if quick { 1500 } else { 30000 }, cases);
    gen_md_clean(&mut rng.fork(), if quick { 500 } else { 10000 }, cases);
    gen_mercator(&mut rng.fork(), if quick { 300 } else { 6000 }, cases);
    gen_tiles(&mut rng.fork(), if quick { 300 } else { 6000 }, cases);
    gen_scaffold(&mut rng.fork(), if quick { 60 } else { 600 }, cases);
}

// ------------------------------------------------------------------------------------------------
// execution of the real code

fn fp(p: P) -> FPCoordinate {
    FPCoordinate::new(p.0, p.1)
}

fn parse_p(t: &[&str], i: usize) -> P {
    (t[i].parse().expect("lat"), t[i + 1].parse().expect("lon"))
}

fn exec_hull(ops: &[Vec<&str>], obs: &mut Vec<String>) {
    let pts: Vec<P> = ops.iter().filter(|t| t[0] == "p").map(|t| parse_p(t, 1)).collect();
    let input: Vec<FPCoordinate> = pts.iter().map(|p| fp(*p)).collect();
    let hull: Vec<P> = monotone_chain(&input).iter().map(|c| (c.lat, c.lon)).collect();
    obs.push(format!("F hull {}", pts_str(&hull)).trim_end().to_string());
    obs.push(format!("D hullc {}", pts_str(&canon_hull(pts.len(), &hull))).trim_end().to_string());
}

fn exec_zorder(ops: &[Vec<&str>], obs: &mut Vec<String>) {
    let pts: Vec<FPCoordinate> = ops.iter().filter(|t| t[0] == "p").map(|t| fp(parse_p(t, 1))).collect();
    for (i, a) in pts.iter().enumerate() {
        let row: String = pts
            .iter()
            .map(|b| match zorder_cmp(a, b) {
                std::cmp::Ordering::Less => 'L',
                std::cmp::Ordering::Equal => 'E',
                std::cmp::Ordering::Greater => 'G',
            })
            .collect();
        // the order itself is not determined by the property (any strict total order consistent with equality
        // would do): class F; what is determined is where the answer is Equal
        obs.push(format!("F z {i} {row}"));
        let eq: String = row.chars().map(|c| if c == 'E' { 'E' } else { 'N' }).collect();
        obs.push(format!("D zeq {i} {eq}"));
    }
}

fn box_line(tag: &str, k: usize, b: &BoundingBox) -> String {
    let c = b.verif_corners();
    format!("D {tag} {k} {} {} {} {} valid={}", c[0], c[1], c[2], c[3], if b.is_valid() { 1 } else { 0 })
}

fn exec_bbox(ops: &[Vec<&str>], obs: &mut Vec<String>) {
    let pts: Vec<FPCoordinate> = ops.iter().filter(|t| t[0] == "p").map(|t| fp(parse_p(t, 1))).collect();
    let mut b = if pts.is_empty() { BoundingBox::invalid() } else { BoundingBox::from_coordinates(&pts) };
    obs.push(box_line("box", 0, &b));
    let mut k = 0;
    for t in ops.iter().filter(|t| t[0] != "p" && t[0] != "B") {
        k += 1;
        match t[0] {
            "q" => obs.push(format!("D q {k} {}", if b.contains(&fp(parse_p(t, 1))) { 1 } else { 0 })),
            "x" => {
                let o = BoundingBox::from_coordinates(&[fp(parse_p(t, 1)), fp(parse_p(t, 3))]);
                b.extend_with(&o);
                obs.push(box_line("x", k, &b));
            }
            "xi" => {
                b.extend_with(&BoundingBox::invalid());
                obs.push(box_line("x", k, &b));
            }
            "s" => {
                b = BoundingBox::from_coordinate(&fp(parse_p(t, 1)));
                obs.push(box_line("x", k, &b));
            }
            "c" => {
                let c = b.center();
                // the rounding of the centre is not fixed by the property: class F, validated by the judge
                obs.push(format!("F c {k} {} {}", c.lat, c.lon));
            }
            _ => panic!("bad bbox op"),
        }
    }
}

fn exec_md(ops: &[Vec<&str>], obs: &mut Vec<String>) {
    let h = &ops[0];
    let (lo, hi) = (parse_p(h, 1), parse_p(h, 3));
    let b = BoundingBox::from_coordinates(&[fp(lo), fp(hi)]);
    let c = b.verif_corners();
    obs.push(format!("D mdbox {} {} {} {}", c[0], c[1], c[2], c[3]));
    for (k, t) in ops.iter().filter(|t| t[0] == "q").enumerate() {
        let q = parse_p(t, 1);
        let qc = fp(q);
        let inside = b.contains(&qc);
        let got = b.min_distance(&qc);
        // closest point of the box in the lat/lon plane: componentwise clamp (the judge recomputes it)
        let cl = (q.0.clamp(c[0], c[2]), q.1.clamp(c[1], c[3]));
        let dclamp = fp(cl).distance_to(&qc);
        // the four corners in the order of the source: max, min, (max.lat,min.lon), (min.lat,max.lon)
        let corners = [(c[2], c[3]), (c[0], c[1]), (c[2], c[1]), (c[0], c[3])];
        let dc: Vec<u64> = corners.iter().map(|p| fp(*p).distance_to(&qc).to_bits()).collect();
        obs.push(format!(
            "F md {k} inside={} got={} clamp={},{} dclamp={} dc={}",
            if inside { 1 } else { 0 },
            got.to_bits(),
            cl.0,
            cl.1,
            dclamp.to_bits(),
            join(dc.iter(), ",")
        ));
    }
}

fn exec_mercator(ops: &[Vec<&str>], obs: &mut Vec<String>) {
    for (k, t) in ops.iter().filter(|t| t[0] != "MR").enumerate() {
        let v = f64::from_bits(t[1].parse::<u64>().expect("bits"));
        match t[0] {
            "lat" => {
                let y = mercator::lat_to_y(FloatLatitude(v));
                let back = mercator::y_to_lat(y).0;
                let approx = mercator::lat_to_y_approx(FloatLatitude(v));
                // from_wgs84 / to_wgs84 (uses the approximation for the latitude, passes the longitude through)
                let m = mercator::from_wgs84(FloatCoordinate { lon: FloatLongitude(12.5), lat: FloatLatitude(v) });
                let w = mercator::to_wgs84(m);
                obs.push(format!("F lat {k} y={} back={} approx={} wlat={} wlon={}", y.to_bits(), back.to_bits(), approx.to_bits(), w.lat.0.to_bits(), w.lon.0.to_bits()));
            }
            "lon" => {
                let x = mercator::lon_to_x(FloatLongitude(v));
                let back = mercator::x_to_lon(x);
                obs.push(format!("F lon {k} x={} back={}", x.to_bits(), back.to_bits()));
            }
            _ => panic!("bad mercator op"),
        }
    }
}

fn exec_tiles(ops: &[Vec<&str>], obs: &mut Vec<String>) {
    for (k, t) in ops.iter().filter(|t| t[0] == "t").enumerate() {
        let lat = f64::from_bits(t[1].parse::<u64>().expect("bits"));
        let lon = f64::from_bits(t[2].parse::<u64>().expect("bits"));
        let zoom: u32 = t[3].parse().expect("zoom");
        let c = FloatCoordinate { lon: FloatLongitude(lon), lat: FloatLatitude(lat) };
        let (tx, ty) = vector_tile::coordinate_to_tile_number(c, zoom);
        let mut line = format!("F tile {k} x={tx} y={ty}");
        if (tx as u64) < (1u64 << zoom) && (ty as u64) < (1u64 << zoom) {
            let b = vector_tile::get_tile_bounds(zoom, tx, ty);
            line += &format!(" lon1={} lat1={} lon2={} lat2={}", b.min_lon.0.to_bits(), b.min_lat.0.to_bits(), b.max_lon.0.to_bits(), b.max_lat.0.to_bits());
            let px = vector_tile::linestring_to_tile_coords(&[c], zoom, tx, ty);
            line += &format!(" tpx={},{}", px[0].0, px[0].1);
        }
        let plon = vector_tile::degree_to_pixel_lon(FloatLongitude(lon), zoom);
        let plat = vector_tile::degree_to_pixel_lat(FloatLatitude(lat), zoom);
        let shift = (1usize << zoom) * 4096;
        let (mut x, mut y) = (plon, plat);
        vector_tile::pixel_to_degree(shift, &mut x, &mut y);
        line += &format!(" plon={} plat={} blon={} blat={}", plon.to_bits(), plat.to_bits(), x.to_bits(), y.to_bits());
        obs.push(line);
    }
}

// -- scaffold: bincode (standard config: varint, little endian, zigzag for signed) written by hand

fn varint(v: u64, out: &mut Vec<u8>) {
    if v < 251 {
        out.push(v as u8);
    } else if v < 1 << 16 {
        out.push(251);
        out.extend_from_slice(&(v as u16).to_le_bytes());
    } else if v < 1 << 32 {
        out.push(252);
        out.extend_from_slice(&(v as u32).to_le_bytes());
    } else {
        out.push(253);
        out.extend_from_slice(&v.to_le_bytes());
    }
}

fn zigzag(n: i32) -> u64 {
    (((n << 1) ^ (n >> 31)) as u32) as u64
}

#[derive(Debug, Clone)]
enum J {
    Null,
    Bool(#[allow(dead_code)] bool),
    Num(f64),
    Str(String),
    Arr(Vec<J>),
    Obj(Vec<(String, J)>),
}

struct JP<'a> {
    s: &'a [u8],
    i: usize,
}
impl<'a> JP<'a> {
    fn ws(&mut self) {
        while self.i < self.s.len() && (self.s[self.i] as char).is_ascii_whitespace() {
            self.i += 1;
        }
    }
    fn val(&mut self) -> Result<J, String> {
        self.ws();
        if self.i >= self.s.len() {
            return Err("eof".into());
        }
        match self.s[self.i] {
            b'{' => {
                self.i += 1;
                let mut v = Vec::new();
                loop {
                    self.ws();
                    if self.s.get(self.i) == Some(&b'}') {
                        self.i += 1;
                        break;
                    }
                    let k = match self.val()? {
                        J::Str(s) => s,
                        _ => return Err("key".into()),
                    };
                    self.ws();
                    if self.s.get(self.i) != Some(&b':') {
                        return Err("colon".into());
                    }
                    self.i += 1;
                    let x = self.val()?;
                    v.push((k, x));
                    self.ws();
                    if self.s.get(self.i) == Some(&b',') {
                        self.i += 1;
                    }
                }
                Ok(J::Obj(v))
            }
            b'[' => {
                self.i += 1;
                let mut v = Vec::new();
                loop {
                    self.ws();
                    if self.s.get(self.i) == Some(&b']') {
                        self.i += 1;
                        break;
                    }
                    v.push(self.val()?);
                    self.ws();
                    if self.s.get(self.i) == Some(&b',') {
                        self.i += 1;
                    }
                }
                Ok(J::Arr(v))
            }
            b'"' => {
                self.i += 1;
                let st = self.i;
                while self.i < self.s.len() && self.s[self.i] != b'"' {
                    if self.s[self.i] == b'\\' {
                        self.i += 1;
                    }
                    self.i += 1;
                }
                let r = String::from_utf8_lossy(&self.s[st..self.i.min(self.s.len())]).to_string();
                self.i += 1;
                Ok(J::Str(r))
            }
            b't' => {
                self.i += 4;
                Ok(J::Bool(true))
            }
            b'f' => {
                self.i += 5;
                Ok(J::Bool(false))
            }
            b'n' => {
                self.i += 4;
                Ok(J::Null)
            }
            _ => {
                let st = self.i;
                while self.i < self.s.len() && matches!(self.s[self.i], b'-' | b'+' | b'.' | b'e' | b'E' | b'0'..=b'9') {
                    self.i += 1;
                }
                std::str::from_utf8(&self.s[st..self.i]).ok().and_then(|t| t.parse::<f64>().ok()).map(J::Num).ok_or_else(|| "number".to_string())
            }
        }
    }
}
impl J {
    fn get(&self, k: &str) -> Option<&J> {
        match self {
            J::Obj(v) => v.iter().find(|e| e.0 == k).map(|e| &e.1),
            _ => None,
        }
    }
    fn arr(&self) -> Option<&Vec<J>> {
        match self {
            J::Arr(v) => Some(v),
            _ => None,
        }
    }
    fn micro(&self) -> Option<i64> {
        match self {
            J::Num(x) => {
                let m = x * 1e6;
                let r = m.round();
                if (m - r).abs() < 1e-3 { Some(r as i64) } else { None }
            }
            _ => None,
        }
    }
}

fn exec_scaffold(ops: &[Vec<&str>], obs: &mut Vec<String>) {
    let nodes: Vec<(P, u32)> = ops.iter().filter(|t| t[0] == "n").map(|t| (parse_p(t, 1), t[3].parse::<u32>().expect("pid"))).collect();
    let bin_dir = match std::env::var("TBX_REPO_BIN_DIR") {
        Ok(d) => d,
        Err(_) => {
            obs.push("D NOBIN".into());
            return;
        }
    };
    let bin = format!("{bin_dir}/scaffold");
    if !std::path::Path::new(&bin).exists() {
        obs.push("D NOBIN".into());
        return;
    }
    let dir = std::env::var("TBX_RUN_DIR").unwrap_or_else(|_| std::env::temp_dir().to_string_lossy().to_string());
    let dir = format!("{dir}/scaffold-{}", std::process::id());
    std::fs::create_dir_all(&dir).expect("scratch dir");
    let (pf, cf, gf, of) = (format!("{dir}/p.bin"), format!("{dir}/c.bin"), format!("{dir}/g.bin"), format!("{dir}/hulls.geojson"));
    let mut pb = Vec::new();
    varint(nodes.len() as u64, &mut pb);
    let mut cb = Vec::new();
    varint(nodes.len() as u64, &mut cb);
    for (p, id) in &nodes {
        varint(*id as u64, &mut pb);
        varint(zigzag(p.0), &mut cb);
        varint(zigzag(p.1), &mut cb);
    }
    // a few edges (only read for --boundary-nodes-geojson, which is not requested)
    let mut gb = Vec::new();
    let ne = nodes.len().min(3);
    varint(ne as u64, &mut gb);
    for e in 0..ne {
        varint(e as u64, &mut gb);
        varint(((e + 1) % nodes.len()) as u64, &mut gb);
        varint(1, &mut gb);
    }
    std::fs::write(&pf, &pb).unwrap();
    std::fs::write(&cf, &cb).unwrap();
    std::fs::write(&gf, &gb).unwrap();
    // every second case: the output path already holds a (much longer) file from an earlier run; the others: no file
    let _ = std::fs::remove_file(&of);
    if nodes.len() % 2 == 0 {
        let mut prev = String::from("{\"type\":\"FeatureCollection\",\"features\":[");
        for i in 0..4000 {
            prev.push_str(&format!("{{\"type\":\"Feature\",\"geometry\":{{\"type\":\"Polygon\",\"coordinates\":[[[{i}.0,1.0],[2.0,3.0],[{i}.0,1.0]]]}},\"properties\":null}},"));
        }
        prev.push_str("]}");
        std::fs::write(&of, prev).unwrap();
    }
    let st = std::process::Command::new(&bin)
        .args(["-p", &pf, "-c", &cf, "-g", &gf, "--convex-cells-geojson", &of])
        .stdout(std::process::Stdio::null())
        .stderr(std::process::Stdio::null())
        .status();
    match st {
        Ok(s) if s.success() => {}
        Ok(s) => {
            obs.push(format!("D scaffold-exit {}", s.code().unwrap_or(-1)));
            return;
        }
        Err(_) => {
            obs.push("D NOBIN".into());
            return;
        }
    }
    let txt = match std::fs::read(&of) {
        Ok(t) => t,
        Err(_) => {
            obs.push("D scaffold-no-output".into());
            return;
        }
    };
    let mut jp = JP { s: &txt, i: 0 };
    let doc = match jp.val() {
        Ok(d) => d,
        Err(e) => {
            obs.push(format!("D scaffold-bad-json {e}"));
            return;
        }
    };
    // the file must be exactly one JSON document (nothing but white space after it)
    if txt[jp.i.min(txt.len())..].iter().any(|b| !b.is_ascii_whitespace()) {
        obs.push(format!("D scaffold-bad-json trailing bytes after the document ({} of {} bytes parsed)", jp.i, txt.len()));
        return;
    }
    let empty = Vec::new();
    let feats = doc.get("features").and_then(|f| f.arr()).unwrap_or(&empty);
    // (id, ring, bbox)
    let mut out: Vec<(u64, String, Vec<P>, Vec<i64>, bool)> = Vec::new();
    for f in feats {
        let ids = match f.get("id") {
            Some(J::Str(s)) => s.clone(),
            Some(J::Num(x)) => format!("{x}"),
            _ => "?".into(),
        };
        let idn = ids.parse::<u64>().unwrap_or(u64::MAX);
        let mut ok = f.get("geometry").and_then(|g| g.get("type")).map(|t| matches!(t, J::Str(s) if s == "Polygon")).unwrap_or(false);
        let rings = f.get("geometry").and_then(|g| g.get("coordinates")).and_then(|c| c.arr()).cloned().unwrap_or_default();
        if rings.len() != 1 {
            ok = false;
        }
        let mut ring: Vec<P> = Vec::new();
        if let Some(r) = rings.first().and_then(|r| r.arr()) {
            for pt in r {
                match pt.arr().map(|a| (a.len(), a.first().and_then(|x| x.micro()), a.get(1).and_then(|x| x.micro()))) {
                    Some((2, Some(lon), Some(lat))) => ring.push((lat as i32, lon as i32)),
                    _ => ok = false,
                }
            }
        }
        let bb: Vec<i64> = f.get("bbox").and_then(|b| b.arr()).map(|a| a.iter().map(|x| x.micro().unwrap_or(i64::MIN)).collect()).unwrap_or_default();
        out.push((idn, ids, ring, bb, ok));
    }
    out.sort_by(|a, b| (a.0, &a.1).cmp(&(b.0, &b.1)));
    obs.push(format!("D scids {}", join(out.iter().map(|o| o.1.clone()), " ")).trim_end().to_string());
    for (idn, ids, ring, bb, ok) in &out {
        let cell = nodes.iter().filter(|n| n.1 as u64 == *idn).count();
        obs.push(format!("F scring {ids} wellformed={} {}", if *ok { 1 } else { 0 }, pts_str(ring)).trim_end().to_string());
        let open: &[P] = if ring.is_empty() { ring } else { &ring[..ring.len() - 1] };
        obs.push(format!("D schull {ids} {}", pts_str(&canon_hull(cell, open))).trim_end().to_string());
        // geojson bbox order: min lon, min lat, max lon, max lat
        if bb.len() == 4 {
            obs.push(format!("F scbox {ids} {} {} {} {}", bb[1], bb[0], bb[3], bb[2]));
        } else {
            obs.push(format!("F scbox {ids} none"));
        }
    }
    let _ = std::fs::remove_dir_all(&dir);
}

fn execute(c: &Case, obs: &mut Vec<String>) {
    let ops: Vec<Vec<&str>> = c.ops.iter().map(|l| l.split_whitespace().collect::<Vec<&str>>()).filter(|t| !t.is_empty()).collect();
    if ops.is_empty() {
        return;
    }
    match ops[0][0] {
        "H" => exec_hull(&ops, obs),
        "Z" => exec_zorder(&ops, obs),
        "B" => exec_bbox(&ops, obs),
        "MD" => exec_md(&ops, obs),
        "MR" => exec_mercator(&ops, obs),
        "T" => exec_tiles(&ops, obs),
        "SC" => exec_scaffold(&ops, obs),
        _ => obs.push("D BADCASE".into()),
    }
}

fn main() {
    harness_main(generate, execute);
}
