//! C17: radix sort on every implemented element type. Real code: toolbox_rs::rdx_sort::Sort::rdx_sort.
//!
//! ops:   T <type>                 element type (u8 u16 u32 u64 u128 usize i8 i16 i32 i64 i128 isize bool f32 f64)
//!        v <hex> <hex> ...        one complete vector (bit patterns, hex of the unsigned pattern; `v` alone = empty)
//!        e <hex>                  one element of a trailing vector (one per line so that shrinking can delete elements)
//! obs (vector i, in the order of the v lines, the e-vector last):
//!        D <i> out <hex> ...      the vector after rdx_sort (bit patterns)
//!        D <i> std=<0|1>[ partial=<0|1>]
//!                                 std: output is bitwise identical to the standard library sort
//!                                      (integers/bool: `sort()`, floats: `sort_by(total_cmp)`, i.e. −0.0 before +0.0)
//!                                 partial (floats only): output is `==`-equal, element by element, to the
//!                                      stable `sort_by(partial_cmp)` (which keeps −0.0/+0.0 in input order)
//! Values are never exchanged as float decimals. NaN patterns are never generated (outside the quantifier).
use tbx_harness::*;
use toolbox_rs::rdx_sort::Sort;

const TYPES: [&str; 15] =
    ["u8", "u16", "u32", "u64", "u128", "usize", "i8", "i16", "i32", "i64", "i128", "isize", "bool", "f32", "f64"];

fn width(ty: &str) -> usize {
    match ty {
        "u8" | "i8" | "bool" => 1,
        "u16" | "i16" => 2,
        "u32" | "i32" | "f32" => 4,
        "u64" | "i64" | "f64" => 8,
        "usize" | "isize" => std::mem::size_of::<usize>(),
        "u128" | "i128" => 16,
        _ => panic!("unknown type {ty}"),
    }
}
fn mask(ty: &str) -> u128 {
    let w = width(ty);
    if w == 16 { u128::MAX } else { (1u128 << (8 * w)) - 1 }
}
fn is_float(ty: &str) -> bool {
    ty == "f32" || ty == "f64"
}
fn is_nan(ty: &str, bits: u128) -> bool {
    match ty {
        "f32" => f32::from_bits(bits as u32).is_nan(),
        "f64" => f64::from_bits(bits as u64).is_nan(),
        _ => false,
    }
}

fn hexs(xs: &[u128]) -> String {
    join(xs.iter().map(|x| format!("{x:x}")), " ")
}
fn vline(xs: &[u128]) -> String {
    if xs.is_empty() { "v".to_string() } else { format!("v {}", hexs(xs)) }
}

// ------------------------------------------------------------------------------------------------
// execution of the real code

macro_rules! run_int {
    ($t:ty, $u:ty, $bits:expr) => {{
        let mut v: Vec<$t> = $bits.iter().map(|b| *b as $u as $t).collect();
        let mut s = v.clone();
        v.rdx_sort();
        s.sort();
        let out: Vec<u128> = v.iter().map(|x| *x as $u as u128).collect();
        let std: Vec<u128> = s.iter().map(|x| *x as $u as u128).collect();
        (out, std, None)
    }};
}
macro_rules! run_float {
    ($t:ty, $u:ty, $bits:expr) => {{
        let mut v: Vec<$t> = $bits.iter().map(|b| <$t>::from_bits(*b as $u)).collect();
        let mut s = v.clone();
        let mut p = v.clone();
        v.rdx_sort();
        s.sort_by(|a, b| a.total_cmp(b));
        // stable; all values are non-NaN so partial_cmp is defined
        p.sort_by(|a, b| a.partial_cmp(b).unwrap());
        let peq = v.len() == p.len() && v.iter().zip(p.iter()).all(|(a, b)| a == b);
        let out: Vec<u128> = v.iter().map(|x| x.to_bits() as u128).collect();
        let std: Vec<u128> = s.iter().map(|x| x.to_bits() as u128).collect();
        (out, std, Some(peq))
    }};
}

/// -> (output patterns, std-sorted patterns, ==-equality with the partial_cmp sort)
fn run_real(ty: &str, bits: &[u128]) -> (Vec<u128>, Vec<u128>, Option<bool>) {
    match ty {
        "u8" => run_int!(u8, u8, bits),
        "u16" => run_int!(u16, u16, bits),
        "u32" => run_int!(u32, u32, bits),
        "u64" => run_int!(u64, u64, bits),
        "u128" => run_int!(u128, u128, bits),
        "usize" => run_int!(usize, usize, bits),
        "i8" => run_int!(i8, u8, bits),
        "i16" => run_int!(i16, u16, bits),
        "i32" => run_int!(i32, u32, bits),
        "i64" => run_int!(i64, u64, bits),
        "i128" => run_int!(i128, u128, bits),
        "isize" => run_int!(isize, usize, bits),
        "bool" => {
            let mut v: Vec<bool> = bits.iter().map(|b| *b != 0).collect();
            let mut s = v.clone();
            v.rdx_sort();
            s.sort();
            (v.iter().map(|x| *x as u8 as u128).collect(), s.iter().map(|x| *x as u8 as u128).collect(), None)
        }
        "f32" => run_float!(f32, u32, bits),
        "f64" => run_float!(f64, u64, bits),
        _ => panic!("unknown type {ty}"),
    }
}

fn parse_hex(s: &str) -> u128 {
    u128::from_str_radix(s, 16).expect("hex")
}

fn execute(c: &Case, obs: &mut Vec<String>) {
    let mut ty = String::new();
    // (type, bit patterns, observed?) in the order of the case; `W <type> …` vectors are sorted too, in place in the
    // sequence, but not observed (family sort-history: sorts of OTHER element types on the same thread before and
    // between the observed ones - whatever the library keeps between calls must not leak into a later sort)
    let mut vectors: Vec<(String, Vec<u128>, bool)> = Vec::new();
    let mut tail: Vec<u128> = Vec::new();
    let mut has_tail = false;
    for l in &c.ops {
        let t: Vec<&str> = l.split_whitespace().collect();
        match t[0] {
            "T" => ty = t[1].to_string(),
            "v" => vectors.push((ty.clone(), t[1..].iter().map(|x| parse_hex(x)).collect(), true)),
            "W" => vectors.push((t[1].to_string(), t[2..].iter().map(|x| parse_hex(x)).collect(), false)),
            "e" => {
                has_tail = true;
                tail.push(parse_hex(t[1]));
            }
            _ => panic!("bad op {l}"),
        }
    }
    if has_tail {
        vectors.push((ty.clone(), tail, true));
    }
    let mut i = 0;
    for (vty, bits, observed) in vectors.iter() {
        let m = mask(vty);
        if !observed {
            if !bits.iter().any(|b| *b > m || (vty == "bool" && *b > 1)) {
                let _ = run_real(vty, bits);
            }
            continue;
        }
        // patterns that are not values of the type cannot be constructed: out of domain, no observation
        if bits.iter().any(|b| *b > m || (vty == "bool" && *b > 1)) {
            obs.push(format!("D {i} invalid"));
            i += 1;
            continue;
        }
        let (out, std, peq) = run_real(vty, bits);
        obs.push(if out.is_empty() { format!("D {i} out") } else { format!("D {i} out {}", hexs(&out)) });
        let s = if out == std { 1 } else { 0 };
        match peq {
            Some(p) => obs.push(format!("D {i} std={s} partial={}", if p { 1 } else { 0 })),
            None => obs.push(format!("D {i} std={s}")),
        }
        i += 1;
    }
}

// ------------------------------------------------------------------------------------------------
// generation

fn packed(family: &str, ty: &str, vectors: &[Vec<u128>], per_case: usize, cases: &mut Vec<Case>) {
    for chunk in vectors.chunks(per_case) {
        let mut c = Case::new(family);
        c.op(format!("T {ty}"));
        for v in chunk {
            c.op(vline(v));
        }
        cases.push(c);
    }
}

fn single(family: &str, ty: &str, v: &[u128], cases: &mut Vec<Case>) {
    let mut c = Case::new(family);
    c.op(format!("T {ty}"));
    if v.is_empty() {
        c.op("v");
    }
    for x in v {
        c.op(format!("e {x:x}"));
    }
    cases.push(c);
}

/// sign/byte-boundary value classes of a w-byte integer, as bit patterns:
/// MIN, MIN/2, -256, -255, -1, 0, 1, 255, 256, MAX/2, MAX (signed reading);
/// the same patterns are 2^(n-1), 3·2^(n-2), MAX-255, MAX-254, MAX, 0, 1, 255, 256, 2^(n-2)-1, 2^(n-1)-1 unsigned
fn int_classes(ty: &str) -> Vec<u128> {
    let m = mask(ty);
    let bits = 8 * width(ty) as u32;
    let min = 1u128 << (bits - 1);
    let mut v = vec![
        min,
        min | (min >> 1),
        m - 255,
        m - 254,
        m,
        0,
        1,
        255 & m,
        256 & m,
        (min >> 1) - 1,
        min - 1,
    ];
    v.dedup();
    v
}

fn float_classes(ty: &str, rng: &mut Rng) -> Vec<u128> {
    let (sign, pos): (u128, Vec<u128>) = if ty == "f32" {
        (
            1 << 31,
            vec![
                0,          // +0.0
                1,          // smallest subnormal
                0x007FFFFF, // largest subnormal
                0x00800000, // smallest normal
                0x3F800000, // 1.0
                0x3FC00000, // 1.5
                0x7F7FFFFF, // MAX
                0x7F800000, // +inf
            ],
        )
    } else {
        (
            1 << 63,
            vec![
                0,
                1,
                0x000FFFFFFFFFFFFF,
                0x0010000000000000,
                0x3FF0000000000000,
                0x3FF8000000000000,
                0x7FEFFFFFFFFFFFFF,
                0x7FF0000000000000,
            ],
        )
    };
    let mut v = Vec::new();
    for p in &pos {
        v.push(*p);
        v.push(*p | sign);
    }
    // two random finite values of either sign
    for _ in 0..2 {
        v.push(random_float(ty, rng));
    }
    v
}

fn random_float(ty: &str, rng: &mut Rng) -> u128 {
    loop {
        let b = (rng.next() as u128) & mask(ty);
        if !is_nan(ty, b) {
            return b;
        }
    }
}

fn random_bits(ty: &str, rng: &mut Rng) -> u128 {
    let b = (((rng.next() as u128) << 64) | rng.next() as u128) & mask(ty);
    if ty == "bool" { b & 1 } else { b }
}

/// random vector; `mode` selects the shape
fn random_vector(ty: &str, rng: &mut Rng, len: usize, mode: u64) -> Vec<u128> {
    let w = width(ty);
    let m = mask(ty);
    let mut v: Vec<u128> = Vec::with_capacity(len);
    if ty == "bool" {
        let p = rng.below(5);
        for _ in 0..len {
            v.push(match p {
                0 => 0,
                1 => 1,
                _ => rng.below(2) as u128,
            });
        }
        return v;
    }
    match mode {
        // fully random bits
        0 => {
            for _ in 0..len {
                v.push(if is_float(ty) { random_float(ty, rng) } else { random_bits(ty, rng) });
            }
        }
        // constant bytes: a random non-empty subset of the byte positions is fixed (those rounds are skipped)
        1 => {
            let mut fixed_mask: u128 = 0;
            for k in 0..w {
                if rng.chance(1, 2) {
                    fixed_mask |= 0xFFu128 << (8 * k);
                }
            }
            if fixed_mask == 0 {
                fixed_mask = 0xFFu128 << (8 * rng.below(w as u64));
            }
            let base = if is_float(ty) { random_float(ty, rng) } else { random_bits(ty, rng) };
            for _ in 0..len {
                let r = random_bits(ty, rng);
                let mut x = (base & fixed_mask) | (r & !fixed_mask & m);
                if is_nan(ty, x) {
                    x = base;
                }
                v.push(x);
            }
        }
        // small magnitudes of both signs: upper bytes are 0x00 / 0xFF (integers), sign bit varies (floats)
        2 => {
            let span = *rng.pick(&[3i64, 300, 70000]);
            for _ in 0..len {
                let s = rng.range(-span, span);
                if is_float(ty) {
                    let mag = (s.unsigned_abs() as u128) << (if ty == "f32" { 12 } else { 40 });
                    let sign = if rng.chance(1, 2) { 1u128 << (8 * w - 1) } else { 0 };
                    v.push((mag & (m >> 1)) | sign);
                } else {
                    v.push((s as i128 as u128) & m);
                }
            }
        }
        // few distinct values, many duplicates
        3 => {
            let k = 1 + rng.below(4) as usize;
            let pool: Vec<u128> = (0..k)
                .map(|_| {
                    if is_float(ty) {
                        let mut sub = rng.fork();
                        let cl = float_classes(ty, &mut sub);
                        *rng.pick(&cl)
                    } else if rng.chance(1, 2) {
                        let cl = int_classes(ty);
                        *rng.pick(&cl)
                    } else {
                        random_bits(ty, rng)
                    }
                })
                .collect();
            for _ in 0..len {
                v.push(*rng.pick(&pool));
            }
        }
        // same top byte(s), random low part: the last round is skipped although signs may be negative
        4 => {
            let base = if is_float(ty) { random_float(ty, rng) } else { random_bits(ty, rng) };
            let low = if w == 1 { 0xF } else { (1u128 << (8 * (1 + rng.below(w as u64 - 1)))) - 1 };
            for _ in 0..len {
                let mut x = (base & !low) | (random_bits(ty, rng) & low);
                if is_nan(ty, x) {
                    x = base;
                }
                v.push(x);
            }
        }
        // ascending / descending runs around the sign change
        _ => {
            let start = rng.range(-150, 0);
            for i in 0..len {
                let s = start + i as i64;
                if is_float(ty) {
                    let mag = (s.unsigned_abs() as u128) << (if ty == "f32" { 16 } else { 44 });
                    let sign = if s < 0 { 1u128 << (8 * w - 1) } else { 0 };
                    v.push(mag | sign);
                } else {
                    v.push((s as i128 as u128) & m);
                }
            }
            if rng.chance(1, 2) {
                v.reverse();
            }
        }
    }
    v
}

fn generate(rng: &mut Rng, tier: Tier, cases: &mut Vec<Case>) {
    let quick = tier == Tier::Quick;
    // witnesses of the defects fixed in /repo (D13, D14, D15)
    single("corpus-d13", "i32", &[0xFFFFFFFF, 0xC0000000], cases);
    single("corpus-d14", "isize", &[u64::MAX as u128, 5, (-7i64) as u64 as u128], cases);
    single("corpus-d15", "f32", &[0xBF800000, 0xC0000000, 0x40400000, 0xBF000000], cases);
    single("corpus-d15", "f64", &[0xBFF0000000000000, 0xC000000000000000, 0x4008000000000000, 0xBFE0000000000000], cases);
    single("corpus-d13", "i64", &[u64::MAX as u128, 0xC000000000000000], cases);
    single("corpus-d13", "i128", &[u128::MAX, 0xC0u128 << 120, 1u128 << 127, 0], cases);

    // 8-bit types: all pairs; triples sampled (quick) / all triples over a 64-value subset + samples (thorough)
    let mut bool_vecs: Vec<Vec<u128>> = Vec::new();
    for len in 0..=4u32 {
        for code in 0..(1u32 << len) {
            bool_vecs.push((0..len).map(|i| ((code >> i) & 1) as u128).collect());
        }
    }
    packed("exh-bool", "bool", &bool_vecs, 64, cases);
    for ty in ["u8", "i8"] {
        let mut singles: Vec<Vec<u128>> = vec![vec![]];
        for a in 0..256u128 {
            singles.push(vec![a]);
        }
        packed("exh8-len01", ty, &singles, 257, cases);
        for a in 0..256u128 {
            let vs: Vec<Vec<u128>> = (0..256u128).map(|b| vec![a, b]).collect();
            packed("exh8-pairs", ty, &vs, 256, cases);
        }
        if !quick {
            let mut sub: Vec<u128> = (0..16).chain(120..136).chain(240..256).collect();
            for i in 0..16u128 {
                sub.push(16 + 13 * i % 104); // 16 further values spread over the rest
            }
            sub.sort();
            sub.dedup();
            for a in &sub {
                let mut vs = Vec::new();
                for b in &sub {
                    for c in &sub {
                        vs.push(vec![*a, *b, *c]);
                    }
                }
                packed("exh8-triples-subset", ty, &vs, 1024, cases);
            }
        }
        let n_tr = if quick { 20_000 } else { 400_000 };
        let vs: Vec<Vec<u128>> =
            (0..n_tr).map(|_| vec![rng.below(256) as u128, rng.below(256) as u128, rng.below(256) as u128]).collect();
        packed("rand8-triples", ty, &vs, 500, cases);
    }

    // wider integer types: all pairs and triples over the sign/byte-boundary value classes
    for ty in ["u16", "u32", "u64", "u128", "usize", "i16", "i32", "i64", "i128", "isize"] {
        let cl = int_classes(ty);
        let mut vs: Vec<Vec<u128>> = Vec::new();
        for a in &cl {
            for b in &cl {
                vs.push(vec![*a, *b]);
            }
        }
        packed("classes-pairs", ty, &vs, 200, cases);
        let mut vs: Vec<Vec<u128>> = Vec::new();
        for a in &cl {
            for b in &cl {
                for c in &cl {
                    vs.push(vec![*a, *b, *c]);
                }
            }
        }
        packed("classes-triples", ty, &vs, 200, cases);
    }
    // floats: zeros of both signs, subnormals, infinities, extremes, mixed signs
    for ty in ["f32", "f64"] {
        let cl = float_classes(ty, rng);
        let mut vs: Vec<Vec<u128>> = Vec::new();
        for a in &cl {
            for b in &cl {
                vs.push(vec![*a, *b]);
            }
        }
        packed("fclasses-pairs", ty, &vs, 200, cases);
        let mut vs: Vec<Vec<u128>> = Vec::new();
        for a in &cl {
            for b in &cl {
                for c in &cl {
                    vs.push(vec![*a, *b, *c]);
                }
            }
        }
        packed("fclasses-triples", ty, &vs, 300, cases);
    }

    // big vectors: more than 65 536 elements that share a byte value in some round (a bucket count or offset of
    // 8 / 16 bits overflows), scrambled
    for (ty, n) in [("u32", 70_000u128), ("i64", 66_000), ("u8", 70_000)] {
        if quick && ty == "u8" {
            continue;
        }
        let bits: u32 = match ty {
            "u8" => 8,
            "u32" => 32,
            _ => 64,
        };
        let mask: u128 = if bits == 128 { u128::MAX } else { (1u128 << bits) - 1 };
        let mut v: Vec<u128> = (0..n)
            .map(|i| match ty {
                "i64" => (0u128.wrapping_sub(1 + i % 60_000)) & mask, // small negative values (top bytes all 0xFF)
                "u8" => i % 3,
                _ => i,
            })
            .collect();
        if ty == "i64" {
            v.extend([1u128, 2, 3]);
        }
        rng.shuffle(&mut v);
        single("big-vector", ty, &v, cases);
    }
    // random vectors, lengths 0..300, every type, every shape
    let per_type = if quick { 120 } else { 3000 };
    for ty in TYPES {
        for i in 0..per_type {
            let len = match i % 6 {
                0 => rng.below(8) as usize,
                1 => 290 + rng.below(11) as usize,
                _ => rng.below(301) as usize,
            };
            let mode = (i as u64 / 6) % 6;
            let v = random_vector(ty, rng, len, mode);
            let fam = match mode {
                0 => "random-bits",
                1 => "random-constbytes",
                2 => "random-smallmixed",
                3 => "random-dups",
                4 => "random-sametop",
                _ => "random-runs",
            };
            single(fam, ty, &v, cases);
        }
    }
    // sort-history: on ONE thread (every case has a thread of its own), sorts of other element types - wider and
    // narrower ones, empty and non-empty vectors - run before and between the observed sorts (`W` lines); each
    // observed sort must come out as if it were the first call (seeded change C17-r4m2: a thread-local histogram
    // table that is cleared lazily and under-records after a call on a narrower type; needs wide, narrow, wide)
    let nhist = if quick { 600 } else { 12000 };
    for i in 0..nhist {
        let ty = TYPES[i % TYPES.len()];
        let mut c = Case::new("sort-history");
        c.op(format!("T {ty}"));
        let steps = 2 + rng.below(4);
        for _ in 0..steps {
            for _ in 0..rng.below(3) {
                let wty = *rng.pick(&TYPES);
                let wlen = *rng.pick(&[0usize, 1, 4, 9, 40]);
                let mode = rng.below(6);
                let w = random_vector(wty, rng, wlen, mode);
                c.op(format!("W {wty} {}", hexs(&w)).trim_end().to_string());
            }
            let len = *rng.pick(&[1usize, 2, 4, 7, 30, 120]);
            let mode = rng.below(6);
            let v = random_vector(ty, rng, len, mode);
            c.op(vline(&v));
        }
        cases.push(c);
    }
}

fn main() {
    harness_main(generate, execute);
}
