//! C14: static and dynamic graphs represent exactly the edges they were given.
//! Real code: toolbox_rs::static_graph::StaticGraph, toolbox_rs::dynamic_graph::DynamicGraph
//! (both through the `Graph` trait).  Case format: see lean/Tbx/Drv/C14.lean.
use tbx_harness::*;
use toolbox_rs::dynamic_graph::DynamicGraph;
use toolbox_rs::edge::InputEdge;
use toolbox_rs::graph::{EdgeID, Graph};
use toolbox_rs::static_graph::StaticGraph;

type E = (usize, usize, i32);

#[derive(Clone, Debug)]
enum Op {
    Ins(usize, usize, i32),
    Rem(usize, usize, i32),
    Node,
    SetD(usize, usize, i32, i32),
}

fn render(op: &Op) -> String {
    match op {
        Op::Ins(s, t, d) => format!("ins {s} {t} {d}"),
        Op::Rem(s, t, d) => format!("rem {s} {t} {d}"),
        Op::Node => "node".into(),
        Op::SetD(s, t, d, d2) => format!("setd {s} {t} {d} {d2}"),
    }
}

fn parse(l: &str) -> Option<Op> {
    let t: Vec<&str> = l.split_whitespace().collect();
    let u = |i: usize| t[i].parse::<usize>().unwrap();
    let d = |i: usize| t[i].parse::<i32>().unwrap();
    match t[0] {
        "ins" => Some(Op::Ins(u(1), u(2), d(3))),
        "rem" => Some(Op::Rem(u(1), u(2), d(3))),
        "node" => Some(Op::Node),
        "setd" => Some(Op::SetD(u(1), u(2), d(3), d(4))),
        _ => None,
    }
}

fn case_from(family: &str, header: &str, edges: &[E], ops: &[Op]) -> Case {
    let mut c = Case::new(family);
    c.op(header);
    for (s, t, d) in edges {
        c.op(format!("e {s} {t} {d}"));
    }
    for o in ops {
        c.op(render(o));
    }
    c
}

// ------------------------------------------------------------------------------------------------
// observation of the REAL code, through the Graph trait only

fn observe<G: Graph<i32>>(g: &G, k: usize, rb: Option<i32>, obs: &mut Vec<String>) {
    let n = g.number_of_nodes();
    let m = g.number_of_edges();
    let deg = join(g.node_range().map(|v| g.out_degree(v)), ",");
    let mut adj: Vec<String> = Vec::new();
    for v in g.node_range() {
        let mut l: Vec<(usize, i32)> = g.edge_range(v).map(|e| (g.target(e), *g.data(e))).collect();
        l.sort();
        adj.push(if l.is_empty() { "-".to_string() } else { join(l.iter().map(|(t, d)| format!("{t}:{d}")), ",") });
    }
    let in_range = |s: usize, e: EdgeID| s < n && g.edge_range(s).contains(&e);
    let mut fe: Vec<String> = Vec::new();
    let mut feu: Vec<String> = Vec::new();
    for s in 0..n + 3 {
        let mut row = String::new();
        let mut rowu = String::new();
        for t in 0..=n {
            row.push(match g.find_edge(s, t) {
                None => '0',
                Some(e) => {
                    if in_range(s, e) && g.target(e) == t { '1' } else { 'X' }
                }
            });
            let e = g.find_edge_unchecked(s, t);
            rowu.push(if e == EdgeID::MAX {
                '0'
            } else if in_range(s, e) && g.target(e) == t {
                '1'
            } else {
                'X'
            });
        }
        fe.push(row);
        feu.push(rowu);
    }
    let mut line = format!("D {k} n={n} m={m} deg={deg} adj={} fe={} feu={}", adj.join("|"), fe.join("|"), feu.join("|"));
    if let Some(x) = rb {
        line.push_str(&format!(" rb={x}"));
    }
    obs.push(line);
    obs.push(format!("F {k} sl={}", join(g.node_range().map(|v| format!("{}:{}", g.begin_edges(v), g.out_degree(v))), ",")));
}

/// first edge id of edge_range(s) carrying (t,d)
fn pick<G: Graph<i32>>(g: &G, s: usize, t: usize, d: i32) -> Option<EdgeID> {
    if s >= g.number_of_nodes() {
        return None;
    }
    g.edge_range(s).find(|&e| g.target(e) == t && *g.data(e) == d)
}

fn execute(c: &Case, obs: &mut Vec<String>) {
    let mut header: Vec<String> = Vec::new();
    let mut edges: Vec<InputEdge<i32>> = Vec::new();
    let mut ops: Vec<Op> = Vec::new();
    for l in &c.ops {
        let t: Vec<&str> = l.split_whitespace().collect();
        match t[0] {
            "static" | "dyn" => header = t.iter().map(|s| s.to_string()).collect(),
            "e" => edges.push(InputEdge::new(t[1].parse().unwrap(), t[2].parse().unwrap(), t[3].parse().unwrap())),
            _ => ops.push(parse(l).expect("op")),
        }
    }
    if header.is_empty() {
        return;
    }
    if header[0] == "static" {
        let mut g: StaticGraph<i32> = if header.len() > 1 && header[1] == "sorted" {
            StaticGraph::new_from_sorted_list(edges)
        } else {
            StaticGraph::new(edges)
        };
        observe(&g, 0, None, obs);
        for (i, op) in ops.iter().enumerate() {
            let k = i + 1;
            match op {
                Op::SetD(s, t, d, d2) => match pick(&g, *s, *t, *d) {
                    Some(e) => {
                        *g.data_mut(e) = *d2;
                        let rb = *g.data(e);
                        observe(&g, k, Some(rb), obs);
                    }
                    None => {
                        obs.push(format!("D {k} invalid"));
                        return;
                    }
                },
                _ => {
                    obs.push(format!("D {k} invalid"));
                    return;
                }
            }
        }
    } else {
        let mut g: DynamicGraph<i32> = if header.len() > 1 && header[1] == "default" {
            DynamicGraph::default()
        } else {
            DynamicGraph::new(header[1].parse().unwrap(), edges)
        };
        observe(&g, 0, None, obs);
        for (i, op) in ops.iter().enumerate() {
            let k = i + 1;
            let mut rb = None;
            match op {
                Op::Ins(s, t, d) => g.insert_edge(*s, *t, *d),
                Op::Rem(s, t, d) => match pick(&g, *s, *t, *d) {
                    Some(e) => g.remove_edge(*s, e),
                    None => {
                        obs.push(format!("D {k} invalid"));
                        return;
                    }
                },
                Op::Node => g.insert_node(),
                Op::SetD(s, t, d, d2) => match pick(&g, *s, *t, *d) {
                    Some(e) => {
                        *g.data_mut(e) = *d2;
                        rb = Some(*g.data(e));
                    }
                    None => {
                        obs.push(format!("D {k} invalid"));
                        return;
                    }
                },
            }
            observe(&g, k, rb, obs);
        }
    }
}

// ------------------------------------------------------------------------------------------------
// generators

/// generator-side shadow of the abstract state
#[derive(Clone, Default)]
struct Shadow {
    n: usize,
    es: Vec<E>,
}
impl Shadow {
    fn apply(&mut self, op: &Op) {
        match op {
            Op::Ins(s, t, d) => {
                self.n = self.n.max(s.max(t) + 1);
                self.es.push((*s, *t, *d));
            }
            Op::Rem(s, t, d) => {
                if let Some(p) = self.es.iter().position(|e| e == &(*s, *t, *d)) {
                    self.es.remove(p);
                }
            }
            Op::Node => self.n += 1,
            Op::SetD(s, t, d, d2) => {
                if let Some(p) = self.es.iter().position(|e| e == &(*s, *t, *d)) {
                    self.es[p].2 = *d2;
                }
            }
        }
    }
}

/// all static edge lists of length <= maxlen over ids 0..ids and data 0..nd
fn static_exhaustive(maxlen: usize, ids: usize, nd: i32, family: &str, cases: &mut Vec<Case>) {
    let mut alphabet: Vec<E> = Vec::new();
    for s in 0..ids {
        for t in 0..ids {
            for d in 0..nd {
                alphabet.push((s, t, d));
            }
        }
    }
    fn rec(cur: &mut Vec<E>, maxlen: usize, alphabet: &[E], family: &str, cases: &mut Vec<Case>) {
        cases.push(case_from(family, "static", cur, &[]));
        if cur.len() == maxlen {
            return;
        }
        for e in alphabet {
            cur.push(*e);
            rec(cur, maxlen, alphabet, family, cases);
            cur.pop();
        }
    }
    rec(&mut Vec::new(), maxlen, &alphabet, family, cases);
}

/// random edge list: ids from a sparse subset of 0..=maxid (gaps), duplicates, any order
fn random_edges(rng: &mut Rng, m: usize, maxid: usize, nd: i64) -> Vec<E> {
    let mut pool: Vec<usize> = (0..=maxid).filter(|_| rng.chance(1, 2)).collect();
    if pool.is_empty() {
        pool.push(rng.below(maxid as u64 + 1) as usize);
    }
    let mut es: Vec<E> = Vec::new();
    for _ in 0..m {
        if !es.is_empty() && rng.chance(1, 4) {
            // duplicate: exact copy, or parallel edge with other data
            let mut e = *rng.pick(&es);
            if rng.chance(1, 2) {
                e.2 = rng.range(0, nd) as i32;
            }
            es.push(e);
        } else {
            es.push((*rng.pick(&pool), *rng.pick(&pool), rng.range(0, nd) as i32));
        }
    }
    rng.shuffle(&mut es);
    es
}

fn static_random(rng: &mut Rng, count: usize, cases: &mut Vec<Case>) {
    for i in 0..count {
        let m = rng.range(0, if i % 5 == 0 { 80 } else { 25 }) as usize;
        let maxid = rng.range(0, 24) as usize;
        let es = random_edges(rng, m, maxid, 5);
        // a few data_mut writes through edge ids
        let mut sh = Shadow { n: 0, es: es.clone() };
        let mut ops = Vec::new();
        for _ in 0..rng.below(4) {
            if sh.es.is_empty() {
                break;
            }
            let e = *rng.pick(&sh.es);
            let op = Op::SetD(e.0, e.1, e.2, rng.range(-9, 99) as i32);
            sh.apply(&op);
            ops.push(op);
        }
        if rng.chance(1, 3) {
            // new_from_sorted_list directly: sorted by source only (targets/data in arbitrary order)
            let mut sorted = es.clone();
            sorted.sort_by_key(|e| e.0);
            cases.push(case_from("static-sorted-by-source", "static sorted", &sorted, &ops));
        } else {
            cases.push(case_from("static-random", "static", &es, &ops));
        }
    }
}

/// exhaustive dynamic histories of exactly `len` ops from an initial configuration over node ids
/// 0..3: ins s t (s in 0..3, t in {0,2}, data distinct per op), rem of every present edge, node
/// (while n < 3), setd on the oldest present edge
fn dyn_exhaustive(len: usize, header: &str, n0: usize, init: &[E], family: &str, cases: &mut Vec<Case>) {
    fn rec(sh: &Shadow, cur: &mut Vec<Op>, len: usize, header: &str, init: &[E], family: &str, cases: &mut Vec<Case>) {
        if cur.len() == len {
            cases.push(case_from(family, header, init, cur));
            return;
        }
        let d = 10 + cur.len() as i32;
        let mut cands: Vec<Op> = Vec::new();
        for s in 0..3 {
            for t in [0usize, 2] {
                cands.push(Op::Ins(s, t, d));
            }
        }
        if sh.n < 3 {
            cands.push(Op::Node);
        }
        let mut seen: Vec<E> = Vec::new();
        for e in &sh.es {
            if !seen.contains(e) {
                seen.push(*e);
                cands.push(Op::Rem(e.0, e.1, e.2));
            }
        }
        if let Some(e) = sh.es.first() {
            cands.push(Op::SetD(e.0, e.1, e.2, 70 + cur.len() as i32));
        }
        for op in cands {
            let mut s2 = sh.clone();
            s2.apply(&op);
            cur.push(op);
            rec(&s2, cur, len, header, init, family, cases);
            cur.pop();
        }
    }
    rec(&Shadow { n: n0, es: init.to_vec() }, &mut Vec::new(), len, header, init, family, cases);
}

struct DynParams {
    n0: (i64, i64),      // initial node count range
    m0: (i64, i64),      // initial edge count range
    src_nodes: usize,    // how many of the initial nodes carry the initial edges (others: zero degree)
    len: (i64, i64),     // number of ops
    idcap: usize,        // ids used by inserts are below this (may exceed n: implicit node creation)
    mix: [u64; 4],       // ins, rem, node, setd
    hot: usize,          // number of hot source nodes (3/4 of the inserts go there); 0 = uniform
    nd: i64,             // data values 0..=nd (small => identical parallel edges)
}

fn dyn_random(rng: &mut Rng, p: &DynParams, family: &str) -> Case {
    let n0 = rng.range(p.n0.0, p.n0.1) as usize;
    let mut init: Vec<E> = Vec::new();
    if n0 > 0 {
        let m0 = rng.range(p.m0.0, p.m0.1) as usize;
        let srcs: Vec<usize> = {
            let mut all: Vec<usize> = (0..n0).collect();
            rng.shuffle(&mut all);
            all.truncate(p.src_nodes.max(1).min(n0));
            all
        };
        for _ in 0..m0 {
            init.push((*rng.pick(&srcs), rng.below(n0 as u64) as usize, rng.range(0, p.nd) as i32));
        }
    }
    let mut sh = Shadow { n: n0, es: init.clone() };
    let len = rng.range(p.len.0, p.len.1) as usize;
    let hot: Vec<usize> = (0..p.hot).map(|_| rng.below(p.idcap.max(1) as u64) as usize).collect();
    let total: u64 = p.mix.iter().sum();
    let mut ops: Vec<Op> = Vec::new();
    let mut guard = 0;
    while ops.len() < len && guard < len * 20 {
        guard += 1;
        let mut r = rng.below(total);
        let mut kind = 0;
        for (i, m) in p.mix.iter().enumerate() {
            if r < *m {
                kind = i;
                break;
            }
            r -= *m;
        }
        let op = match kind {
            0 => {
                let s = if !hot.is_empty() && rng.chance(3, 4) { *rng.pick(&hot) } else { rng.below(p.idcap as u64) as usize };
                // targets mostly among existing nodes, sometimes beyond (creates nodes)
                let t = if sh.n > 0 && rng.chance(5, 6) { rng.below(sh.n as u64) as usize } else { rng.below(p.idcap as u64) as usize };
                Op::Ins(s, t, rng.range(0, p.nd) as i32)
            }
            1 => {
                if sh.es.is_empty() {
                    continue;
                }
                // biased towards the most recently inserted edges and towards hot nodes' edges
                let e = if rng.chance(1, 3) { *sh.es.last().unwrap() } else { *rng.pick(&sh.es) };
                Op::Rem(e.0, e.1, e.2)
            }
            2 => {
                if sh.n >= p.idcap + 2 {
                    continue;
                }
                Op::Node
            }
            _ => {
                if sh.es.is_empty() {
                    continue;
                }
                let e = *rng.pick(&sh.es);
                Op::SetD(e.0, e.1, e.2, rng.range(0, p.nd) as i32)
            }
        };
        sh.apply(&op);
        ops.push(op);
    }
    let header = if n0 == 0 && init.is_empty() && rng.chance(1, 2) { "dyn default".to_string() } else { format!("dyn {n0}") };
    case_from(family, &header, &init, &ops)
}

fn generate(rng: &mut Rng, tier: Tier, cases: &mut Vec<Case>) {
    let quick = tier == Tier::Quick;
    // ---- corpus: D10 (find_edge(s = number_of_nodes) indexed past the sentinel); the observation
    //      matrix asks find_edge for every s in 0..n+3, so every static case re-tests it
    cases.push(case_from("corpus-d10", "static", &[(0, 1, 5)], &[]));
    cases.push(case_from("corpus-d10", "static", &[(1, 0, 5), (0, 1, 7), (1, 1, 7)], &[Op::SetD(1, 1, 7, 9)]));
    // D19: a default-constructed dynamic graph had an empty node array; every call on it panicked
    cases.push(case_from("corpus-d19", "dyn default", &[], &[Op::Node, Op::Ins(0, 1, 5)]));
    cases.push(case_from("corpus-d19", "dyn default", &[], &[Op::Ins(2, 0, 1), Op::Ins(2, 1, 2), Op::Rem(2, 0, 1)]));
    // hand-written dynamic histories for the three insert branches and hole reuse
    cases.push(case_from(
        "corpus-branches",
        "dyn 3",
        &[(0, 1, 1), (1, 2, 2), (2, 0, 3)],
        &[
            Op::Ins(0, 2, 4),    // relocation (right neighbour occupied, nothing left of slot 0)
            Op::Ins(1, 0, 5),    // left spare (slot 0 vacated by the relocation)
            Op::Rem(2, 0, 3),    // last edge of node 2 removed: hole
            Op::Ins(2, 1, 6),    // hole reused (right spare of an empty slice)
            Op::Node,
            Op::Ins(3, 3, 7),    // zero-degree node created by insert_node
            Op::Ins(5, 4, 8),    // implicit creation of nodes 4 and 5
            Op::SetD(0, 2, 4, 9),
            Op::Rem(0, 1, 1),
        ],
    ));
    // ---- exhaustive scopes
    static_exhaustive(if quick { 3 } else { 4 }, 3, if quick { 2 } else { 1 }, "static-exhaustive", cases);
    if !quick {
        static_exhaustive(3, 3, 2, "static-exhaustive", cases);
    }
    let (l_empty, l_packed) = if quick { (5, 4) } else { (6, 5) };
    dyn_exhaustive(l_empty, "dyn 0", 0, &[], "dyn-exhaustive-empty", cases);
    // Default::default() must behave like new(0, vec![]) (D19)
    dyn_exhaustive(l_packed, "dyn default", 0, &[], "dyn-exhaustive-default", cases);
    dyn_exhaustive(l_packed, "dyn 3", 3, &[(0, 1, 1), (1, 2, 2), (2, 0, 3)], "dyn-exhaustive-packed", cases);
    dyn_exhaustive(l_packed, "dyn 3", 3, &[(0, 1, 1), (0, 2, 2), (2, 0, 3)], "dyn-exhaustive-zero-degree", cases);
    dyn_exhaustive(l_packed, "dyn 2", 2, &[(1, 0, 1)], "dyn-exhaustive-zero-first", cases);
    // ---- random
    static_random(rng, if quick { 400 } else { 4000 }, cases);
    let scale = if quick { 1 } else { 10 };
    let reloc = DynParams { n0: (3, 8), m0: (3, 20), src_nodes: 8, len: (40, 120), idcap: 8, mix: [8, 1, 0, 1], hot: 2, nd: 3 };
    let churn = DynParams { n0: (0, 6), m0: (0, 10), src_nodes: 6, len: (80, 250), idcap: 6, mix: [5, 4, 1, 1], hot: 0, nd: 2 };
    let zero = DynParams { n0: (6, 10), m0: (2, 8), src_nodes: 2, len: (30, 100), idcap: 10, mix: [6, 2, 1, 1], hot: 0, nd: 9 };
    let grow = DynParams { n0: (0, 2), m0: (0, 2), src_nodes: 2, len: (30, 100), idcap: 12, mix: [5, 1, 3, 1], hot: 0, nd: 9 };
    let long = DynParams { n0: (2, 8), m0: (0, 30), src_nodes: 8, len: (800, 2500), idcap: 9, mix: [6, 4, 1, 1], hot: 3, nd: 3 };
    for _ in 0..60 * scale {
        cases.push(dyn_random(rng, &reloc, "dyn-relocation-heavy"));
        cases.push(dyn_random(rng, &churn, "dyn-churn"));
        cases.push(dyn_random(rng, &zero, "dyn-zero-degree"));
        cases.push(dyn_random(rng, &grow, "dyn-new-nodes"));
    }
    for _ in 0..4 * scale {
        cases.push(dyn_random(rng, &long, "dyn-long"));
    }
}

fn main() {
    harness_main(generate, execute);
}
