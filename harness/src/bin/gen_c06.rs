//! C06: chipper's output is independent of thread count and scheduling.
//!
//! Real code: the `chipper` binary of /repo (feature `verif`), run many times per input: `-n 1, 2, 3, 4, 8, 16`
//! and the default pool, repeated, pinned to one or two cores with `taskset -c`, with and without the timing
//! noise of TOOLBOX_RS_VERIF_JITTER; every run logs its jobs through TOOLBOX_RS_VERIF_JOBLOG.
//! Case format: harness/src/chipper_common.rs, lean/Tbx/Drv/C06.lean.
//!
//! obs:
//!   D rc=<exit status of the first run (-n 1)>, then the C05 observations of that run (gsha/csha, pfile, ids, afile,
//!     arows, cfile, crows) and its job log:
//!   D jobs L<level>:<ids of job>|<ids of job>|...      jobs sorted by smallest id, ids ascending
//!   D run <k> <R line> rc=<..> p=<sha256 partition file> j=<sha256 of the canonical job log>     every run
//!   F runcsv <k> a=<sha256 assignment csv> c=<sha256 cut csv>                                     every run (must be equal
//!     across runs: judged; equal to the model's byte layout: drift only)
#[path = "../chipper_common.rs"]
mod chipper_common;
use chipper_common::*;
use tbx_harness::*;

fn add_runs(rng: &mut Rng, case: &mut Case, tier: Tier) {
    // the first run is the reference run of the property: one thread
    case.op("R n=1 pin=- jit=0");
    let reps = match tier {
        Tier::Quick => 2,
        Tier::Thorough => 3,
    };
    for _ in 0..reps {
        for n in [1usize, 2, 3, 4, 8, 16] {
            case.op(format!("R n={n} pin=- jit=0"));
            case.op(format!("R n={n} pin=- jit=1"));
        }
        case.op("R n=- pin=- jit=1");
        // many threads on one or two cores: the OS scheduler decides the interleaving
        let cpu = rng.below(8);
        case.op(format!("R n=4 pin={cpu} jit=1"));
        case.op(format!("R n=8 pin={cpu}-{} jit=0", cpu + 1));
        case.op(format!("R n=16 pin={cpu}-{} jit=1", cpu + 1));
        case.op(format!("R n=2 pin={} jit=1", cpu + 2));
    }
}

/// few runs for the inputs with more than 16384 edges: one thread, then 2, 3, 4, 8, 16 threads, twice each
fn add_runs_big(case: &mut Case, reps: usize) {
    case.op("R n=1 pin=- jit=0");
    for rep in 0..reps {
        for n in [2usize, 3, 4, 8, 16] {
            case.op(format!("R n={n} pin=- jit={}", rep % 2));
        }
    }
    case.op("R n=4 pin=0-1 jit=0");
}

fn generate(rng: &mut Rng, tier: Tier, cases: &mut Vec<Case>) {
    let scale = match tier {
        Tier::Quick => 1,
        Tier::Thorough => 4,
    };
    let mk = |rng: &mut Rng, w: usize, h: usize, nk: u64, ek: u64| -> Graph {
        let s = GridSpec { w, h, node_keep: nk, edge_keep: ek, diag: 0, chord: 0, base: *rng.pick(&BASES), swap: rng.chance(1, 2), rot: rng.chance(1, 4), order: rng.below(3) as u8 };
        gen_grid(rng, &s)
    };
    // many small cells: wide job queues (outer parallelism) and four concurrent axes per job (inner)
    for i in 0..(14 * scale) {
        let (w, h) = (8 + rng.below(10) as usize, 8 + rng.below(10) as usize);
        let g = mk(rng, w, h, 930, 900);
        let r = 4 + rng.below(6) as u32;
        let m = *rng.pick(&[1usize, 2, 3, 5]);
        let b = balance_factor(rng);
        let mut c = make_case(rng, if i % 2 == 0 { "grid-many-cells" } else { "grid-many-cells-b" }, r, m, b, &g, 255);
        add_runs(rng, &mut c, tier);
        cases.push(c);
    }
    // few large cells: long Dinic runs, many yield points, the shared bound matters
    for _ in 0..(6 * scale) {
        let (w, h) = (14 + rng.below(8) as usize, 14 + rng.below(8) as usize);
        let g = mk(rng, w, h, 950, 930);
        let r = 2 + rng.below(4) as u32;
        let m = *rng.pick(&[10usize, 30, 60]);
        let b = *rng.pick(&[0.25, 0.3, 0.49, 0.1]);
        let mut c = make_case(rng, "grid-large-cells", r, m, b, &g, 255);
        add_runs(rng, &mut c, tier);
        cases.push(c);
    }
    // thin and deep
    for _ in 0..(4 * scale) {
        let len = 30 + rng.below(40) as usize;
        let g = mk(rng, len, 2, 1000, 900);
        let r = 20 + rng.below(12) as u32;
        let m = 1 + rng.below(2) as usize;
        let mut c = make_case(rng, "thin-deep", r, m, 0.02, &g, 255);
        add_runs(rng, &mut c, tier);
        cases.push(c);
    }
    // one-way streets: NOT symmetric. Districts that can be entered but not left (the contracted target end of an
    // axis may have no outgoing edge at all), random one-way streets, pure sinks and pure sources. The property is
    // not restricted to symmetric inputs; the level clause is not claimed here (nodes without an edge in their
    // cell keep a short id), everything else is.
    for i in 0..(16 * scale) {
        let (w, h) = (5 + rng.below(10) as usize, 5 + rng.below(10) as usize);
        let g = mk(rng, w, h, 950, 930);
        let n = g.coords.len();
        let districts = rng.below(4) as usize;
        let oneway = *rng.pick(&[0u64, 50, 200, 500]);
        let sinks = rng.below((n / 6 + 2) as u64) as usize;
        let sources = rng.below((n / 10 + 2) as u64) as usize;
        let dir = gen_oneway(rng, &g, districts, oneway, sinks, sources);
        let r = 2 + rng.below(7) as u32;
        let m = *rng.pick(&[1usize, 2, 3, 5]);
        let b = *rng.pick(&[0.25, 0.1, 0.02, 0.3, 0.49]);
        let mut c = make_case_directed(rng, if i % 2 == 0 { "asym-oneway" } else { "asym-oneway-b" }, r, m, b, &g.coords, &dir, i % 3 != 0);
        add_runs(rng, &mut c, tier);
        cases.push(c);
    }
    // more than 16384 edges (the cut file is written in blocks of 2^14 edges): edges shuffled, so that the cut
    // edges are spread over the whole edge list; all three files byte for byte across the thread counts
    {
        let (w, h) = match tier {
            Tier::Quick => (74, 74),
            Tier::Thorough => (104, 104),
        };
        let g = mk(rng, w, h, 990, 985);
        let r = 4 + rng.below(2) as u32;
        let mut c = make_case(rng, "grid-over-16384-edges", r, 40, 0.25, &g, 1);
        add_runs_big(&mut c, 2);
        cases.push(c);
    }
    // denser graphs: bigger cuts, the bound aborts more runs
    for _ in 0..(4 * scale) {
        let (w, h) = (8 + rng.below(6) as usize, 8 + rng.below(6) as usize);
        let s = GridSpec { w, h, node_keep: 950, edge_keep: 950, diag: 700, chord: 300, base: *rng.pick(&BASES), swap: false, rot: false, order: 1 };
        let g = gen_grid(rng, &s);
        let r = 3 + rng.below(5) as u32;
        let b = balance_factor(rng);
        let m = *rng.pick(&[2usize, 4]);
        let mut c = make_case(rng, "dense", r, m, b, &g, 255);
        add_runs(rng, &mut c, tier);
        cases.push(c);
    }
}

fn execute(case: &Case, obs: &mut Vec<String>) {
    let Some(inp) = parse_input(case) else { return };
    if inp.runs.is_empty() {
        return;
    }
    let dir = run_dir();
    let (gb, cb) = write_inputs(&dir, &inp);
    let taskset_ok = have_taskset();
    let rtext: Vec<&String> = case.ops.iter().filter(|o| o.starts_with("R ")).collect();
    let mut run_lines = Vec::new();
    let mut csv_lines = Vec::new();
    for (k, spec) in inp.runs.iter().enumerate() {
        let out = run_chipper(&dir, &inp, spec, true, taskset_ok);
        let jl = canon_joblog(&out.joblog);
        if k == 0 {
            obs.push(format!("D rc={}", out.rc));
            if out.rc != "0" {
                return;
            }
            obs.push(format!("D gsha={} csha={}", sha256_hex(&gb), sha256_hex(&cb)));
            obs.push(format!("D pfile len={} sha={}", out.p.len(), sha256_hex(&out.p)));
            obs.push(format!(
                "D ids={}",
                match decode_pids(&out.p) {
                    Some(ids) => join(ids.iter(), " "),
                    None => "ERR".to_string(),
                }
            ));
            let (ahdr, rows, anl) = canon_assignment(&out.a);
            obs.push(format!("D arows={}", rows.join(",")));
            let (chdr, segs, cnl) = canon_cut(&out.c);
            obs.push(format!("D crows={}", segs.join(",")));
            csv_lines.push(format!("F afile sha={} hdr={} nl={}", sha256_hex(&out.a), ahdr as u8, anl as u8));
            csv_lines.push(format!("F cfile sha={} hdr={} nl={}", sha256_hex(&out.c), chdr as u8, cnl as u8));
            for l in &jl {
                obs.push(format!("D jobs {l}"));
            }
        }
        run_lines.push(format!(
            "D run {k} {} rc={} p={} j={}",
            &rtext[k][2..],
            out.rc,
            sha256_hex(&out.p),
            sha256_hex(jl.join("\n").as_bytes())
        ));
        csv_lines.push(format!("F runcsv {k} a={} c={}", sha256_hex(&out.a), sha256_hex(&out.c)));
    }
    obs.extend(run_lines);
    obs.extend(csv_lines);
}

fn main() {
    harness_main(generate, execute)
}
