//! C12: R-tree nearest-first iteration. Real code: toolbox_rs::r_tree::RTree (+ bounding_box,
//! space_filling_curve::zorder_cmp, geometry::FPCoordinate::distance_to).
//!
//! ops:   Q <lat> <lon>                 query coordinate (fixed point, 1e-6 degrees)
//!        E <id> <lat> <lon>            one element, in the order handed to from_elements
//!        X <id> <lat> <lon> <lat> <lon> ...   an element with several sites (a user-defined RTreeElement with real
//!                                      extent): center() = first site, bbox() = box of all sites, distance_to =
//!                                      minimum over the sites. A case with an X line runs RTree<Multi>, all other
//!                                      cases the stock RTree<(FPCoordinate, PartitionID)>
//! obs:   P dist <id>:<bits> ...        distance_to(query) of every element (f64 bit patterns, decimal), input order
//!        F order <id> ...              ids after the stable sort by the real zorder_cmp (what from_elements does first)
//!        F levels <end> ...            verif_nodes(): level ends
//!        F nodes <kind>:<first> ...    verif_nodes(): kind (0 leaf group, 1 tree node) and first child index
//!        F nbox / F lbox a,b,c,d ...   search node boxes / leaf boxes (min lat, min lon, max lat, max lon)
//!        P nprio / P lprio <bits> ...  min_distance(query) of every search node box / leaf box
//!        D count=<k>                   number of items the iterator yielded
//!        D set <id>:<bits> ...         the yielded (id, distance) pairs, sorted
//!        D sorted=<0|1>                yielded distances nondecreasing
//!        F seq <id>:<bits> ...         the yielded sequence; order among equal distances is free, so ids are
//!                                      sorted inside every maximal run of equal distance
use tbx_harness::*;
use toolbox_rs::bounding_box::BoundingBox;
use toolbox_rs::geometry::FPCoordinate;
use toolbox_rs::partition_id::PartitionID;
use toolbox_rs::r_tree::{RTree, RTreeElement};
use toolbox_rs::space_filling_curve::zorder_cmp;

type Pt = (i32, i32); // lat, lon

const LAT_MAX: i64 = 90_000_000;
const LON_MAX: i64 = 180_000_000;

fn clamp_pt(lat: i64, lon: i64) -> Pt {
    (lat.clamp(-LAT_MAX, LAT_MAX) as i32, lon.clamp(-LON_MAX, LON_MAX) as i32)
}

fn make_case(family: &str, q: Pt, pts: &[Pt]) -> Case {
    let mut c = Case::new(family);
    c.op(format!("Q {} {}", q.0, q.1));
    for (i, p) in pts.iter().enumerate() {
        c.op(format!("E {} {} {}", i, p.0, p.1));
    }
    c
}

#[derive(Clone, Copy)]
struct Region {
    lat0: i64,
    lat1: i64,
    lon0: i64,
    lon1: i64,
}

fn random_region(rng: &mut Rng) -> Region {
    // centre away from the poles / the date line so that queries beside the region stay valid
    let clat = rng.range(-55_000_000, 55_000_000);
    let clon = rng.range(-140_000_000, 140_000_000);
    let h = *rng.pick(&[50i64, 5_000, 200_000, 1_000_000, 5_000_000, 10_000_000]);
    let w = *rng.pick(&[50i64, 5_000, 200_000, 1_000_000, 5_000_000, 15_000_000]);
    Region { lat0: clat - h, lat1: clat + h, lon0: clon - w, lon1: clon + w }
}

#[derive(Clone, Copy, PartialEq, Debug)]
enum Shape {
    Uniform,
    Clustered,
    CollinearLat,
    CollinearLon,
    Diagonal,
    Duplicates,
    Grid,
    AllSame,
}

fn points(rng: &mut Rng, shape: Shape, n: usize, r: Region) -> Vec<Pt> {
    let mut v = Vec::with_capacity(n);
    match shape {
        Shape::Uniform => {
            for _ in 0..n {
                v.push(clamp_pt(rng.range(r.lat0, r.lat1), rng.range(r.lon0, r.lon1)));
            }
        }
        Shape::Clustered => {
            let k = 1 + rng.below(6) as usize;
            let centres: Vec<(i64, i64)> = (0..k).map(|_| (rng.range(r.lat0, r.lat1), rng.range(r.lon0, r.lon1))).collect();
            let spread = *rng.pick(&[3i64, 100, 3_000, 40_000]);
            for _ in 0..n {
                let c = *rng.pick(&centres);
                v.push(clamp_pt(c.0 + rng.range(-spread, spread), c.1 + rng.range(-spread, spread)));
            }
        }
        Shape::CollinearLat => {
            let lat = rng.range(r.lat0, r.lat1);
            for _ in 0..n {
                v.push(clamp_pt(lat, rng.range(r.lon0, r.lon1)));
            }
        }
        Shape::CollinearLon => {
            let lon = rng.range(r.lon0, r.lon1);
            for _ in 0..n {
                v.push(clamp_pt(rng.range(r.lat0, r.lat1), lon));
            }
        }
        Shape::Diagonal => {
            let span = (r.lat1 - r.lat0).min(r.lon1 - r.lon0).max(1);
            for _ in 0..n {
                let t = rng.range(0, span);
                v.push(clamp_pt(r.lat0 + t, r.lon0 + t));
            }
        }
        Shape::Duplicates => {
            let k = 1 + rng.below(5) as usize;
            let distinct: Vec<Pt> = (0..k).map(|_| clamp_pt(rng.range(r.lat0, r.lat1), rng.range(r.lon0, r.lon1))).collect();
            for _ in 0..n {
                v.push(*rng.pick(&distinct));
            }
        }
        Shape::Grid => {
            let side = ((n as f64).sqrt().ceil() as i64).max(1);
            let dlat = ((r.lat1 - r.lat0) / side).max(1);
            let dlon = ((r.lon1 - r.lon0) / side).max(1);
            for i in 0..n as i64 {
                v.push(clamp_pt(r.lat0 + (i / side) * dlat, r.lon0 + (i % side) * dlon));
            }
            rng.shuffle(&mut v);
        }
        Shape::AllSame => {
            let p = clamp_pt(rng.range(r.lat0, r.lat1), rng.range(r.lon0, r.lon1));
            for _ in 0..n {
                v.push(p);
            }
        }
    }
    v
}

#[derive(Clone, Copy, PartialEq, Debug)]
enum QKind {
    Inside,
    OnElement,
    BesideLon, // latitude within the extent, longitude outside
    BesideLat, // longitude within the extent, latitude outside
    Diagonal,  // outside in both directions
    Far,
}

fn extent(pts: &[Pt], r: Region) -> Region {
    if pts.is_empty() {
        return r;
    }
    Region {
        lat0: pts.iter().map(|p| p.0 as i64).min().unwrap(),
        lat1: pts.iter().map(|p| p.0 as i64).max().unwrap(),
        lon0: pts.iter().map(|p| p.1 as i64).min().unwrap(),
        lon1: pts.iter().map(|p| p.1 as i64).max().unwrap(),
    }
}

fn query(rng: &mut Rng, kind: QKind, pts: &[Pt], r: Region) -> Pt {
    let e = extent(pts, r);
    let h = (e.lat1 - e.lat0).max(10);
    let w = (e.lon1 - e.lon0).max(10);
    let margin_lat = *rng.pick(&[1i64, h / 10 + 1, h, 3 * h]);
    let margin_lon = *rng.pick(&[1i64, w / 10 + 1, w, 3 * w]);
    let side = |rng: &mut Rng, lo: i64, hi: i64, m: i64| if rng.chance(1, 2) { lo - m } else { hi + m };
    match kind {
        QKind::Inside => clamp_pt(rng.range(e.lat0, e.lat1), rng.range(e.lon0, e.lon1)),
        QKind::OnElement => {
            if pts.is_empty() {
                clamp_pt(rng.range(e.lat0, e.lat1), rng.range(e.lon0, e.lon1))
            } else {
                *rng.pick(pts)
            }
        }
        QKind::BesideLon => clamp_pt(rng.range(e.lat0, e.lat1), side(rng, e.lon0, e.lon1, margin_lon)),
        QKind::BesideLat => clamp_pt(side(rng, e.lat0, e.lat1, margin_lat), rng.range(e.lon0, e.lon1)),
        QKind::Diagonal => clamp_pt(side(rng, e.lat0, e.lat1, margin_lat), side(rng, e.lon0, e.lon1, margin_lon)),
        QKind::Far => {
            let lat = if (e.lat0 + e.lat1) / 2 > 0 { rng.range(-80_000_000, -30_000_000) } else { rng.range(30_000_000, 80_000_000) };
            let lon = if (e.lon0 + e.lon1) / 2 > 0 { rng.range(-170_000_000, -60_000_000) } else { rng.range(60_000_000, 170_000_000) };
            clamp_pt(lat, lon)
        }
    }
}

const ALL_Q: [QKind; 6] = [QKind::Inside, QKind::OnElement, QKind::BesideLon, QKind::BesideLat, QKind::Diagonal, QKind::Far];
const OUTSIDE_Q: [QKind; 3] = [QKind::Diagonal, QKind::Far, QKind::Diagonal];
const ALL_SHAPES: [Shape; 8] = [
    Shape::Uniform,
    Shape::Clustered,
    Shape::CollinearLat,
    Shape::CollinearLon,
    Shape::Diagonal,
    Shape::Duplicates,
    Shape::Grid,
    Shape::AllSame,
];

/// the D7 family: a long strip just on one side of the equator (or of the zero meridian), a query just
/// on the other side beside the middle of the strip, and a compact cluster a little further away on the
/// query's side. The Z-order sorts by the sign bits first, so strip and cluster fall into different
/// leaf groups; the strip's groups are long thin boxes whose corner minimum is far larger than the
/// distance to the strip, so the cluster is emitted before the strip's nearest elements.
fn d7_case(rng: &mut Rng, n: usize) -> Case {
    let vertical = rng.chance(1, 3); // strip along a meridian instead of along the equator
    let len = *rng.pick(&[20_000_000i64, 50_000_000, 80_000_000]);
    let a0 = rng.range(1_000_000, 8_000_000); // strip runs from a0 to a0+len along the long axis
    let len = if vertical { len.min(70_000_000) } else { len };
    let thick = *rng.pick(&[0i64, 10, 1_000]);
    let off = *rng.pick(&[100_000i64, 20_000, 500_000]);
    let n_cluster = (n / 3).max(1);
    let n_strip = n - n_cluster;
    let mk = |across: i64, along: i64| if vertical { clamp_pt(along, across) } else { clamp_pt(across, along) };
    let mut pts = Vec::with_capacity(n);
    for _ in 0..n_strip {
        pts.push(mk(off / 2 + rng.range(0, thick), a0 + rng.range(0, len)));
    }
    let q_along = a0 + rng.range(len / 2, len - len / 5);
    let q = mk(-off / 2, q_along);
    let spread = off / 2;
    for _ in 0..n_cluster {
        pts.push(mk(-off / 2 - 3 * off - rng.range(0, spread), q_along + rng.range(-spread, spread)));
    }
    rng.shuffle(&mut pts);
    make_case("d7-long-box", q, &pts)
}

/// elements with real extent (two or three sites) mixed among point-like ones; the query lies inside an
/// extended element's box but off its sites, exactly on a site, or anywhere (as for the other families).
/// An iterator that derives a candidate's distance from the element's box instead of `distance_to`
/// reports such an element too near.
fn extended_case(rng: &mut Rng, n: usize) -> Case {
    let r = random_region(rng);
    let shape = *rng.pick(&[Shape::Uniform, Shape::Uniform, Shape::Clustered, Shape::Grid, Shape::CollinearLat]);
    let pts = points(rng, shape, n, r);
    let h = (r.lat1 - r.lat0).max(20);
    let w = (r.lon1 - r.lon0).max(20);
    let every = *rng.pick(&[2u64, 3, 5, 20]); // share of extended elements
    let mut sites: Vec<Vec<Pt>> = Vec::with_capacity(n);
    for p in &pts {
        let mut v = vec![*p];
        if rng.chance(1, every) {
            let k = if rng.chance(1, 3) { 2 } else { 1 };
            let ext_lat = *rng.pick(&[0i64, 7, 1_000, h / 10, h / 2]);
            let ext_lon = *rng.pick(&[0i64, 7, 1_000, w / 10, w / 2]);
            for _ in 0..k {
                let (mut dl, mut dn) = (rng.range(-ext_lat, ext_lat), rng.range(-ext_lon, ext_lon));
                if dl == 0 && dn == 0 {
                    dl = 3;
                    dn = -2;
                }
                v.push(clamp_pt(p.0 as i64 + dl, p.1 as i64 + dn));
            }
        }
        sites.push(v);
    }
    let ext: Vec<usize> = (0..n).filter(|&i| sites[i].len() > 1).collect();
    let kind = rng.below(4);
    let q = if ext.is_empty() || kind == 3 {
        let qk = *rng.pick(&ALL_Q);
        query(rng, qk, &pts, r)
    } else {
        let e = &sites[*rng.pick(&ext)];
        if kind == 0 {
            // exactly on a site (often not the centre)
            *rng.pick(e)
        } else {
            // inside the element's box, off its sites if the box has room
            let (la0, la1) = (e.iter().map(|p| p.0).min().unwrap() as i64, e.iter().map(|p| p.0).max().unwrap() as i64);
            let (lo0, lo1) = (e.iter().map(|p| p.1).min().unwrap() as i64, e.iter().map(|p| p.1).max().unwrap() as i64);
            let mut cand = clamp_pt(rng.range(la0, la1), rng.range(lo0, lo1));
            for _ in 0..8 {
                if !e.contains(&cand) {
                    break;
                }
                cand = clamp_pt(rng.range(la0, la1), rng.range(lo0, lo1));
            }
            cand
        }
    };
    let mut c = Case::new("extended-elements");
    c.op(format!("Q {} {}", q.0, q.1));
    for (i, v) in sites.iter().enumerate() {
        if v.len() == 1 {
            c.op(format!("E {} {} {}", i, v[0].0, v[0].1));
        } else {
            c.op(format!("X {} {}", i, join(v.iter().map(|p| format!("{} {}", p.0, p.1)), " ")));
        }
    }
    c
}

/// the query is a stored element that lies exactly on the border of its leaf group's box: a 30x30 lattice (one
/// group of 900) whose first row / column carries the query, and a compact cluster of 900 (another group) a few
/// lattice steps beyond that border, nearer to the query than the lattice box's corners.  The lattice starts at a
/// 2^24 boundary of the coordinate that separates it from the cluster, the other coordinate stays inside one
/// aligned 2^24 block: the Z-order then puts the whole cluster before the whole lattice, i.e. in different groups.
/// A box distance that is not 0 on the border lets the cluster overtake the query's own element (distance 0).
fn on_border_case(rng: &mut Rng, variant: u64) -> Case {
    let s: i64 = *rng.pick(&[17_000i64, 9_000, 4_000]);
    let a0: i64 = 1 << 24; // separating coordinate of the lattice's first line
    let b0: i64 = 3 * (1 << 24) + 4_000_000 + rng.range(0, 1_000_000); // other coordinate, inside one 2^24 block
    let along_lat = variant % 2 == 0; // true: border is the southern row (separating coordinate = latitude)
    let mk = |a: i64, b: i64| if along_lat { clamp_pt(a, b) } else { clamp_pt(b % (80_000_000), a) };
    let mut pts = Vec::with_capacity(1800);
    for i in 0..30i64 {
        for j in 0..30i64 {
            pts.push(mk(a0 + i * s, b0 + j * s));
        }
    }
    let qj = 10 + rng.range(0, 9);
    let q = mk(a0, b0 + qj * s);
    for _ in 0..900 {
        pts.push(mk(a0 - 4 * s - rng.range(0, 2 * s), b0 + qj * s + rng.range(-s / 20, s / 20)));
    }
    rng.shuffle(&mut pts);
    make_case("query-on-border", q, &pts)
}

fn generate(rng: &mut Rng, tier: Tier, cases: &mut Vec<Case>) {
    let thorough = tier == Tier::Thorough;
    for v in 0..(if thorough { 24 } else { 6 }) {
        cases.push(on_border_case(rng, v));
    }
    // --- structural boundaries of the bulk loader, every query position
    let mut boundary: Vec<usize> = vec![0, 1, 2, 29, 30, 31, 59, 60, 61, 899, 900, 901, 902, 1799, 1800, 1801];
    if thorough {
        boundary.extend([3, 28, 32, 89, 90, 91, 929, 930, 931, 2699, 2700, 2701]);
    }
    for &n in &boundary {
        let reps = if thorough { 3 } else { 1 };
        for _ in 0..reps {
            for qk in ALL_Q {
                let r = random_region(rng);
                let shape = if rng.chance(2, 3) { Shape::Uniform } else { *rng.pick(&ALL_SHAPES) };
                let pts = points(rng, shape, n, r);
                let q = query(rng, qk, &pts, r);
                cases.push(make_case("boundary", q, &pts));
            }
        }
    }
    // --- small trees (a single leaf group): completeness, distances, ordering without priorities
    let n_small = if thorough { 3000 } else { 240 };
    for _ in 0..n_small {
        let n = if rng.chance(1, 4) { rng.below(8) as usize } else { rng.below(130) as usize };
        let r = random_region(rng);
        let shape = *rng.pick(&ALL_SHAPES);
        let pts = points(rng, shape, n, r);
        let qk = *rng.pick(&ALL_Q);
        let q = query(rng, qk, &pts, r);
        cases.push(make_case("small", q, &pts));
    }
    // --- trees with a root above several leaf groups, query outside the data extent: the corner
    //     minimum is (nearly always) a true lower bound, so the ordering clause is tested for real
    let n_med = if thorough { 900 } else { 90 };
    for _ in 0..n_med {
        let span = if rng.chance(1, 5) { 4500 } else { 1900 };
        let n = 901 + rng.below(span) as usize;
        let r = random_region(rng);
        let shape = *rng.pick(&[Shape::Uniform, Shape::Uniform, Shape::Clustered, Shape::Grid, Shape::Diagonal]);
        let pts = points(rng, shape, n, r);
        let qk = *rng.pick(&OUTSIDE_Q);
        let q = query(rng, qk, &pts, r);
        cases.push(make_case("multi-group-outside", q, &pts));
    }
    // --- the same sizes with queries inside / beside the extent (boxes may be inadmissible: D7)
    let n_med2 = if thorough { 400 } else { 40 };
    for _ in 0..n_med2 {
        let n = 901 + rng.below(1900) as usize;
        let r = random_region(rng);
        let shape = *rng.pick(&[Shape::Uniform, Shape::Clustered, Shape::Grid]);
        let pts = points(rng, shape, n, r);
        let qk = *rng.pick(&[QKind::Inside, QKind::OnElement, QKind::BesideLon, QKind::BesideLat]);
        let q = query(rng, qk, &pts, r);
        cases.push(make_case("multi-group-inside-beside", q, &pts));
    }
    // --- degenerate geometry at multi-group sizes
    let n_deg = if thorough { 300 } else { 30 };
    for _ in 0..n_deg {
        let n = *rng.pick(&[899usize, 900, 901, 930, 931, 1234, 1800, 1801, 2000]);
        let r = random_region(rng);
        let shape = *rng.pick(&[Shape::CollinearLat, Shape::CollinearLon, Shape::Duplicates, Shape::AllSame, Shape::Diagonal]);
        let pts = points(rng, shape, n, r);
        let qk = *rng.pick(&ALL_Q);
        let q = query(rng, qk, &pts, r);
        cases.push(make_case("multi-group-degenerate", q, &pts));
    }
    // --- user-defined elements with extent
    let (n_ext_small, n_ext_big) = if thorough { (800, 160) } else { (80, 16) };
    for _ in 0..n_ext_small {
        let n = 1 + rng.below(60) as usize;
        cases.push(extended_case(rng, n));
    }
    for i in 0..n_ext_big {
        let n = if i % 4 == 0 { *rng.pick(&[900usize, 901, 1800, 1801]) } else { 901 + rng.below(1500) as usize };
        cases.push(extended_case(rng, n));
    }
    // --- D7: long boxes with the query beside them
    let n_d7 = if thorough { 80 } else { 10 };
    for _ in 0..n_d7 {
        let n = 1900 + rng.below(2600) as usize;
        cases.push(d7_case(rng, n));
    }
    // --- three levels of tree nodes (27000 = 30 * 900 elements fill one second-level node)
    // (quick: two cases just above the boundary, so that a wrong child index on the second tree level shows)
    // 26101..=27000 elements make 30 leaf groups: the root's level is exactly one full node (C12-r4m3)
    let big: &[usize] = if thorough { &[26100, 26101, 26500, 26999, 27000, 27001, 27030, 27931, 54000, 54001] } else { &[26101, 27000, 27001] };
    let big_q: &[QKind] = if thorough { &[QKind::Diagonal, QKind::Far, QKind::Inside, QKind::BesideLon] } else { &[QKind::Diagonal, QKind::Far] };
    {
        for &n in big {
            for &qk in big_q {
                let r = random_region(rng);
                let shape = if rng.chance(1, 2) { Shape::Uniform } else { Shape::Clustered };
                let pts = points(rng, shape, n, r);
                let q = query(rng, qk, &pts, r);
                cases.push(make_case("three-levels", q, &pts));
            }
        }
    }
}

fn bits(x: f64) -> u64 {
    x.to_bits()
}

fn tagged(tag: &str, items: impl IntoIterator<Item = String>) -> String {
    let mut s = String::from(tag);
    for it in items {
        s.push(' ');
        s.push_str(&it);
    }
    s
}

fn box_of(c: &[i32; 4]) -> BoundingBox {
    BoundingBox::from_coordinates(&[FPCoordinate::new(c[0], c[1]), FPCoordinate::new(c[2], c[3])])
}

/// a user-defined element with extent: several sites, the first one is the centre
#[derive(Clone, Debug)]
struct Multi {
    sites: Vec<FPCoordinate>,
    id: u32,
}

impl RTreeElement for Multi {
    fn bbox(&self) -> BoundingBox {
        BoundingBox::from_coordinates(&self.sites)
    }
    fn distance_to(&self, coordinate: &FPCoordinate) -> f64 {
        self.sites.iter().map(|s| s.distance_to(coordinate)).fold(f64::INFINITY, f64::min)
    }
    fn center(&self) -> &FPCoordinate {
        &self.sites[0]
    }
}

fn execute(c: &Case, obs: &mut Vec<String>) {
    let mut q = FPCoordinate::new(0, 0);
    let mut elems: Vec<Multi> = Vec::new();
    let mut extended = false;
    for l in &c.ops {
        let t: Vec<&str> = l.split_whitespace().collect();
        match t[0] {
            "Q" => q = FPCoordinate::new(t[1].parse().unwrap(), t[2].parse().unwrap()),
            "E" => elems.push(Multi { sites: vec![FPCoordinate::new(t[2].parse().unwrap(), t[3].parse().unwrap())], id: t[1].parse().unwrap() }),
            "X" => {
                extended = true;
                let v: Vec<i32> = t[2..].iter().map(|x| x.parse().unwrap()).collect();
                assert!(v.len() >= 2 && v.len() % 2 == 0);
                elems.push(Multi { sites: v.chunks(2).map(|p| FPCoordinate::new(p[0], p[1])).collect(), id: t[1].parse().unwrap() });
            }
            _ => panic!("unknown op"),
        }
    }
    if extended {
        observe(elems, |e: &Multi| e.id, q, obs);
    } else {
        let stock: Vec<(FPCoordinate, PartitionID)> = elems.iter().map(|e| (e.sites[0], PartitionID(e.id))).collect();
        observe(stock, |e: &(FPCoordinate, PartitionID)| e.1.0, q, obs);
    }
}

fn observe<T: RTreeElement + Clone>(elems: Vec<T>, id: impl Fn(&T) -> u32, q: FPCoordinate, obs: &mut Vec<String>) {
    // the true distance of every element: what distance_to returns
    obs.push(tagged("P dist", elems.iter().map(|e| format!("{}:{}", id(e), bits(e.distance_to(&q))))));
    // the first step of from_elements, repeated here with the real comparator
    let mut sorted = elems.clone();
    sorted.sort_by(|a, b| zorder_cmp(a.center(), b.center()));
    obs.push(tagged("F order", sorted.iter().map(|e| id(e).to_string())));

    let tree = RTree::from_elements(elems.clone());
    let (nodes, ends, leaves) = tree.verif_nodes();
    let bx = |b: &[i32; 4]| format!("{},{},{},{}", b[0], b[1], b[2], b[3]);
    obs.push(tagged("F levels", ends.iter().map(|e| e.to_string())));
    obs.push(tagged("F nodes", nodes.iter().map(|n| format!("{}:{}", n.0, n.2))));
    obs.push(tagged("F nbox", nodes.iter().map(|n| bx(&n.1))));
    obs.push(tagged("F lbox", leaves.iter().map(bx)));
    obs.push(tagged("P nprio", nodes.iter().map(|n| bits(box_of(&n.1).min_distance(&q)).to_string())));
    obs.push(tagged("P lprio", leaves.iter().map(|b| bits(box_of(b).min_distance(&q)).to_string())));

    // history: for every second case an iteration for ANOTHER query is started on the same tree and abandoned
    // after three items before the observed iteration starts (seeded change C12-r4m2: a queue handed back to the
    // tree by an unfinished iterator); what the observed iteration yields does not depend on it
    if elems.len() % 2 == 1 {
        let other = *elems[elems.len() / 2].center();
        let _ = tree.nearest_iter(&other).take(3).count();
    }
    let limit = 2 * elems.len() + 16;
    let mut seq: Vec<(u32, u64)> = Vec::new();
    let mut truncated = false;
    for (el, d) in tree.nearest_iter(&q) {
        if seq.len() >= limit {
            truncated = true;
            break;
        }
        seq.push((id(&el), bits(d)));
    }
    if truncated {
        obs.push("D runaway".to_string());
    }
    obs.push(format!("D count={}", seq.len()));
    let mut set = seq.clone();
    set.sort();
    obs.push(tagged("D set", set.iter().map(|(i, d)| format!("{i}:{d}"))));
    let sorted_flag = seq.windows(2).all(|w| f64::from_bits(w[0].1) <= f64::from_bits(w[1].1));
    obs.push(format!("D sorted={}", if sorted_flag { 1 } else { 0 }));
    // order among equal distances is free: ids are sorted inside every maximal run of equal distance
    let mut canon = seq.clone();
    let mut i = 0;
    while i < canon.len() {
        let mut j = i;
        while j < canon.len() && canon[j].1 == canon[i].1 {
            j += 1;
        }
        canon[i..j].sort();
        i = j;
    }
    obs.push(tagged("F seq", canon.iter().map(|(i, d)| format!("{i}:{d}"))));
    // the iterator through the standard adaptors: `nth(k)`, `skip(k)`, `step_by(s)` and `take(k).last()` must hand
    // out item k of the very sequence that `next()` yields (the iteration is deterministic for a tree and a
    // query), so "the first k items are the k nearest" also holds through them (seeded change C12-r4m1: an
    // `Iterator::nth` override that drops whole leaf groups without unpacking them)
    if !truncated {
        let n = seq.len();
        let mut ks: Vec<usize> = vec![0, 1, 2, 29, 30, 31, n / 3, n / 2, 899, 900, 901, 1800, n.saturating_sub(1), n, n + 1];
        ks.retain(|k| *k <= n + 1);
        ks.sort();
        ks.dedup();
        let mut bad: Option<String> = None;
        let item = |x: Option<(T, f64)>| x.map(|(e, d)| (id(&e), bits(d)));
        for &k in &ks {
            let want = seq.get(k).copied();
            let got_nth = item(tree.nearest_iter(&q).nth(k));
            let got_skip = item(tree.nearest_iter(&q).skip(k).next());
            let got_last = if k >= 1 && k <= n { item(tree.nearest_iter(&q).take(k).last()) } else { None };
            let want_last = if k >= 1 && k <= n { seq.get(k - 1).copied() } else { None };
            if got_nth != want {
                bad = Some(format!("nth({k})={got_nth:?},next-sequence[{k}]={want:?}"));
            } else if got_skip != want {
                bad = Some(format!("skip({k}).next()={got_skip:?},next-sequence[{k}]={want:?}"));
            } else if got_last != want_last {
                bad = Some(format!("take({k}).last()={got_last:?},next-sequence[{}]={want_last:?}", k.wrapping_sub(1)));
            }
            if bad.is_some() {
                break;
            }
        }
        if bad.is_none() && n >= 2 {
            let step = 1 + n / 40;
            let got: Vec<(u32, u64)> = tree.nearest_iter(&q).step_by(step).map(|(e, d)| (id(&e), bits(d))).collect();
            let want: Vec<(u32, u64)> = seq.iter().copied().step_by(step).collect();
            if got != want {
                bad = Some(format!("step_by({step})-differs-from-the-stepped-next-sequence"));
            }
        }
        obs.push(format!("D adapt={}", bad.map(|b| b.replace(' ', "")).unwrap_or_else(|| "ok".to_string())));
    }
}

fn main() {
    harness_main(generate, execute);
}
