//! C08: Dijkstra distances (unidirectional, one-to-many, cell matrices).  Also used as a module by
//! gen_c09.rs (same graph families, path observations instead of reuse-vs-fresh).
//!
//! Real code: toolbox_rs::{unidirectional_dijkstra, one_to_many_dijkstra, cell, static_graph, dynamic_graph}.
//!
//! case ops:
//!   G <n> <static|dyn|dynins>      header: node count and graph representation
//!   E <u> <v> <w>                  edge (shrinkable)
//!   Q uni <s> <t>                  query on THE unidirectional object of the case (reused) and on a fresh one
//!   Q o2m <s> <t1> <t2> ...        query on THE one-to-many object of the case (reused) and on a fresh one
//! or, for cells:
//!   CELL / IN <ids..> / OUT <ids..> / E <u> <v> <w>
//!
//! observations: see lean/Tbx/Drv/C08.lean and lean/Tbx/Drv/C09.lean.
#![allow(dead_code)]
use tbx_harness::*;
use toolbox_rs::cell::BaseCell;
use toolbox_rs::dynamic_graph::DynamicGraph;
use toolbox_rs::edge::InputEdge;
use toolbox_rs::graph::Graph;
use toolbox_rs::one_to_many_dijkstra::OneToManyDijkstra;
use toolbox_rs::static_graph::StaticGraph;
use toolbox_rs::unidirectional_dijkstra::UnidirectionalDijkstra;

#[derive(Clone, Copy, PartialEq, Eq, Debug)]
pub enum Mode {
    C08,
    C09,
}

#[derive(Clone, Debug)]
pub enum Query {
    Uni(usize, usize),
    O2m(usize, Vec<usize>),
}

#[derive(Clone, Debug)]
pub struct GraphCase {
    pub n: usize,
    pub rep: &'static str,
    pub edges: Vec<(usize, usize, usize)>,
    pub queries: Vec<Query>,
    /// large graphs: observe labels/paths only for these nodes, no adjacency line, edges on `EE` lines
    pub sample: Option<Vec<usize>>,
}

/// queries that the reused search objects answer on ANOTHER graph before the case's own queries
#[derive(Clone, Default)]
pub struct PreHistory {
    pub n: usize,
    pub edges: Vec<(usize, usize, usize)>,
    pub queries: Vec<Query>,
}

impl PreHistory {
    pub fn add_to(&self, c: &mut Case) {
        c.op(format!("PG {}", self.n));
        for chunk in self.edges.chunks(400) {
            c.op(format!("PE {}", join(chunk.iter().map(|e| format!("{}:{}:{}", e.0, e.1, e.2)), " ")));
        }
        for q in &self.queries {
            match q {
                Query::Uni(s, t) => c.op(format!("PQ uni {s} {t}")),
                Query::O2m(s, ts) => c.op(format!("PQ o2m {s} {}", join(ts.iter(), " ")).trim_end().to_string()),
            };
        }
    }
}

impl GraphCase {
    pub fn to_case(&self, family: &str) -> Case {
        let mut c = Case::new(family);
        c.op(format!("G {} {}", self.n, self.rep));
        match &self.sample {
            None => {
                for (u, v, w) in &self.edges {
                    c.op(format!("E {u} {v} {w}"));
                }
            }
            Some(sm) => {
                c.op(format!("S {}", join(sm.iter(), " ")).trim_end().to_string());
                for chunk in self.edges.chunks(400) {
                    c.op(format!("EE {}", join(chunk.iter().map(|e| format!("{}:{}:{}", e.0, e.1, e.2)), " ")));
                }
            }
        }
        for q in &self.queries {
            match q {
                Query::Uni(s, t) => c.op(format!("Q uni {s} {t}")),
                Query::O2m(s, ts) => {
                    if ts.is_empty() {
                        c.op(format!("Q o2m {s}"))
                    } else {
                        c.op(format!("Q o2m {s} {}", join(ts.iter(), " ")))
                    }
                }
            };
        }
        c
    }
}

pub fn cell_case(family: &str, inc: &[usize], out: &[usize], edges: &[(usize, usize, usize)]) -> Case {
    let mut c = Case::new(family);
    c.op("CELL");
    c.op(format!("IN {}", join(inc.iter(), " ")).trim_end().to_string());
    c.op(format!("OUT {}", join(out.iter(), " ")).trim_end().to_string());
    for (u, v, w) in edges {
        c.op(format!("E {u} {v} {w}"));
    }
    c
}

// ------------------------------------------------------------------------------------------------
// generators

const REPS: [&str; 3] = ["static", "dyn", "dynins"];

/// make sure the largest node id is an endpoint, so that StaticGraph::new (which derives the node
/// count from the edges) knows all `n` nodes
fn anchor(rng: &mut Rng, n: usize, edges: &mut Vec<(usize, usize, usize)>, wmax: i64) {
    if n == 0 {
        return;
    }
    if !edges.iter().any(|e| e.0 == n - 1 || e.1 == n - 1) {
        let other = rng.below(n as u64) as usize;
        let w = rng.range(0, wmax) as usize;
        if rng.chance(1, 2) {
            edges.push((n - 1, other, w));
        } else {
            edges.push((other, n - 1, w));
        }
    }
}

fn random_queries(rng: &mut Rng, n: usize, count: usize) -> Vec<Query> {
    let mut qs = Vec::new();
    for _ in 0..count {
        let s = rng.below(n as u64) as usize;
        if rng.chance(1, 2) {
            qs.push(Query::Uni(s, rng.below(n as u64) as usize));
        } else {
            // distinct targets (the property's quantifier), possibly none, possibly including s
            let mut all: Vec<usize> = (0..n).collect();
            rng.shuffle(&mut all);
            let k = match rng.below(6) {
                0 => 0,
                1 => 1,
                2 => n,
                _ => 1 + rng.below(n as u64) as usize,
            }
            .min(n);
            all.truncate(k);
            qs.push(Query::O2m(s, all));
        }
    }
    qs
}

fn random_graph(rng: &mut Rng, nmax: usize) -> GraphCase {
    let n = 1 + rng.below(nmax as u64) as usize;
    let wmax = *rng.pick(&[1i64, 2, 3, 10, 10, 1000, 1_000_000_000_000]);
    let density = *rng.pick(&[1usize, 2, 2, 3, 5]);
    let m = rng.below((n * density + 1) as u64) as usize;
    let mut edges = Vec::new();
    for _ in 0..m {
        let u = rng.below(n as u64) as usize;
        let v = if rng.chance(1, 12) { u } else { rng.below(n as u64) as usize };
        let w = if rng.chance(1, 6) { 0 } else { rng.range(0, wmax) as usize };
        edges.push((u, v, w));
        if rng.chance(1, 6) {
            // parallel edge with another weight
            edges.push((u, v, rng.range(0, wmax) as usize));
        }
    }
    anchor(rng, n, &mut edges, wmax);
    let nq = 1 + rng.below(5) as usize;
    GraphCase { n, rep: *rng.pick(&REPS), edges, queries: random_queries(rng, n, nq), sample: None }
}

/// the shape of the property's why_tests_cant: a node is first reached by an expensive edge,
/// then by a cheaper multi-hop route while still queued, and a competing path has a length
/// strictly between the old and the new label
fn lowered_label(rng: &mut Rng) -> GraphCase {
    let extra = rng.below(5) as usize;
    let hops = 1 + rng.below(3) as usize; // intermediate nodes on the cheap route
    let with_z = rng.chance(1, 2);
    // roles: s, x, t, [z], y_1..y_hops, extras
    let n = 3 + with_z as usize + hops + extra;
    let mut ids: Vec<usize> = (0..n).collect();
    rng.shuffle(&mut ids);
    let (s, x, t) = (ids[0], ids[1], ids[2]);
    let z = if with_z { Some(ids[3]) } else { None };
    let ys: Vec<usize> = ids[3 + with_z as usize..3 + with_z as usize + hops].to_vec();
    let mut edges = Vec::new();
    // cheap route s -> y1 -> ... -> x of total weight `new`
    let mut new = 0usize;
    let mut prev = s;
    for y in &ys {
        let c = rng.range(0, 3) as usize;
        edges.push((prev, *y, c));
        new += c;
        prev = *y;
    }
    let c = rng.range(0, 3) as usize;
    edges.push((prev, x, c));
    new += c;
    let gap = rng.range(2, 6) as usize;
    let b = new + gap; // the competitor's length
    let old = b + rng.range(1, 5) as usize; // the expensive first label of x
    edges.push((s, x, old));
    let e = rng.range(0, gap as i64 - 1) as usize; // new + e < b
    edges.push((x, t, e));
    match z {
        Some(z) => {
            let f = rng.range(0, 2) as usize;
            edges.push((s, z, b));
            edges.push((z, t, f));
        }
        None => edges.push((s, t, b)),
    }
    if rng.chance(1, 3) {
        // a parallel, more expensive copy of the cheap last hop and of the tail
        edges.push((prev, x, c + rng.range(1, 4) as usize));
        edges.push((x, t, e + rng.range(1, 4) as usize));
    }
    // noise
    for i in 0..extra {
        let a = ids[n - 1 - i];
        let o = *rng.pick(&ids);
        let w = rng.range(0, (old + 3) as i64) as usize;
        if rng.chance(1, 2) { edges.push((a, o, w)) } else { edges.push((o, a, w)) }
    }
    rng.shuffle(&mut edges);
    let mut e2 = edges.clone();
    anchor(rng, n, &mut e2, 5);
    let mut queries = vec![Query::Uni(s, t)];
    let mut ts = vec![t];
    if rng.chance(1, 2) {
        ts.push(x)
    }
    if let Some(z) = z {
        if rng.chance(1, 2) {
            ts.push(z)
        }
    }
    rng.shuffle(&mut ts);
    queries.push(Query::O2m(s, ts));
    if rng.chance(1, 2) {
        queries.push(Query::Uni(s, x));
    }
    if rng.chance(1, 3) {
        queries.extend(random_queries(rng, n, 2));
    }
    rng.shuffle(&mut queries);
    GraphCase { n, rep: *rng.pick(&REPS), edges: e2, queries, sample: None }
}

/// edges i -> j (i < j) with convex weights: the route through all intermediate nodes is the
/// cheapest, so labels are lowered again and again
fn convex(rng: &mut Rng) -> GraphCase {
    let n = 4 + rng.below(12) as usize;
    let mut ids: Vec<usize> = (0..n).collect();
    rng.shuffle(&mut ids);
    let mut edges = Vec::new();
    for i in 0..n {
        for j in i + 1..n {
            if j == i + 1 || rng.chance(2, 3) {
                let d = j - i;
                edges.push((ids[i], ids[j], d * d + rng.below(2) as usize));
            }
        }
        if rng.chance(1, 5) {
            // back edge, zero weight
            edges.push((ids[i], ids[rng.below(i as u64 + 1) as usize], 0));
        }
    }
    rng.shuffle(&mut edges);
    let mut queries = vec![Query::Uni(ids[0], ids[n - 1])];
    queries.push(Query::O2m(ids[0], vec![ids[n - 1], ids[n / 2]]));
    queries.extend(random_queries(rng, n, 2));
    GraphCase { n, rep: *rng.pick(&REPS), edges, queries, sample: None }
}

/// many consecutive queries on one object: reachable after unreachable, shrinking and growing
/// target sets, different sources
fn reuse(rng: &mut Rng) -> GraphCase {
    let mut g = random_graph(rng, 10);
    let n = g.n;
    let mut qs = Vec::new();
    // an isolated-ish target first when possible: the queue is drained, then a short query
    for _ in 0..(6 + rng.below(8)) {
        qs.extend(random_queries(rng, n, 1));
    }
    // same query twice in a row and interleaved
    if let Some(q) = qs.first().cloned() {
        qs.push(q.clone());
        qs.insert(qs.len() / 2, q);
    }
    g.queries = qs;
    g
}

/// weights in {0,1}: many ties, zero-weight cycles
fn ties(rng: &mut Rng) -> GraphCase {
    let n = 2 + rng.below(9) as usize;
    let m = n + rng.below((3 * n) as u64) as usize;
    let mut edges = Vec::new();
    for _ in 0..m {
        edges.push((rng.below(n as u64) as usize, rng.below(n as u64) as usize, rng.below(2) as usize));
    }
    anchor(rng, n, &mut edges, 1);
    GraphCase { n, rep: *rng.pick(&REPS), edges, queries: random_queries(rng, n, 3), sample: None }
}

/// exhaustive tiny graphs: all edge subsets over `n` nodes with weights from `ws`
fn exhaustive_small(n: usize, ws: &[usize], max_edges: usize, out: &mut Vec<GraphCase>) {
    let mut slots = Vec::new();
    for u in 0..n {
        for v in 0..n {
            if u != v {
                slots.push((u, v));
            }
        }
    }
    // choose up to max_edges slots (combinations), each with every weight
    fn rec(
        slots: &[(usize, usize)],
        start: usize,
        ws: &[usize],
        cur: &mut Vec<(usize, usize, usize)>,
        max_edges: usize,
        n: usize,
        out: &mut Vec<GraphCase>,
    ) {
        if !cur.is_empty() && cur.iter().any(|e| e.0 == n - 1 || e.1 == n - 1) {
            let mut queries = Vec::new();
            for t in 1..n {
                queries.push(Query::Uni(0, t));
            }
            queries.push(Query::O2m(0, (1..n).collect()));
            out.push(GraphCase { n, rep: "static", edges: cur.clone(), queries, sample: None });
        }
        if cur.len() == max_edges {
            return;
        }
        for i in start..slots.len() {
            for w in ws {
                cur.push((slots[i].0, slots[i].1, *w));
                rec(slots, i + 1, ws, cur, max_edges, n, out);
                cur.pop();
            }
        }
    }
    rec(&slots, 0, ws, &mut Vec::new(), max_edges, n, out);
}

/// large graphs for the reuse clause: the FIRST query on each search object records more than
/// `min_big` nodes, later queries on the same objects start elsewhere (a separate small component,
/// or deep inside the big one) and reach only a few nodes.  Nodes that only the earlier query
/// reached are targets of the later queries and part of the observed sample (<= 16 nodes).
fn large_reuse(rng: &mut Rng, min_big: usize, max_big: usize) -> GraphCase {
    let big = min_big + rng.below((max_big - min_big + 1) as u64) as usize;
    let nb = 3 + rng.below(4) as usize; // small component B: a chain
    let b_first = rng.chance(1, 2); // ids of B before or after the big component
    let (a0, b0) = if b_first { (nb, 0) } else { (0, big) };
    let n = big + nb;
    let a = |i: usize| a0 + i;
    let b = |i: usize| b0 + i;
    let wmax = *rng.pick(&[1i64, 3, 10]);
    let w = |rng: &mut Rng| rng.range(0, wmax) as usize;
    let mut edges = Vec::new();
    // s1 = start of the big query, far = a node whose settling needs (almost) everything recorded,
    // s2 = a start inside A that reaches only a few nodes, near = reachable from s2, early = not reachable from s2
    let (s1, far, s2, near, early): (usize, usize, usize, usize, Vec<usize>);
    match rng.below(3) {
        0 => {
            // star: centre a(0), leaves a(1..big); a few leaf -> leaf edges
            for i in 1..big {
                let wt = 1 + w(rng);
                edges.push((a(0), a(i), wt));
            }
            let l1 = 1 + rng.below((big - 2) as u64) as usize;
            let l2 = l1 + 1;
            edges.push((a(l1), a(l2), 0));
            s1 = a(0);
            far = a(big - 1);
            s2 = a(l1);
            near = a(l2);
            early = vec![a(0), a(1), a(big - 1), a(big / 2)];
        }
        1 => {
            // broom: a backbone chain (ascending or descending ids) whose nodes each carry leaves
            let len = 150 + rng.below(250) as usize;
            let k = big / len; // block size: backbone node + (k-1) leaves
            let asc = rng.chance(1, 2);
            let blocks = big / k;
            let bb = |j: usize| if asc { a(j * k) } else { a((blocks - 1 - j) * k) };
            for j in 0..blocks {
                if j + 1 < blocks {
                    edges.push((bb(j), bb(j + 1), w(rng)));
                    if rng.chance(1, 20) {
                        edges.push((bb(j), bb(j + 1), w(rng) + 1)); // parallel
                    }
                }
                if j + 2 < blocks && rng.chance(1, 15) {
                    edges.push((bb(j), bb(j + 2), 2 * wmax as usize + 1)); // never better than the two hops
                }
                for l in 1..k {
                    edges.push((bb(j), bb(j) + l, w(rng)));
                }
            }
            // the nodes of A beyond the last block hang off the first backbone node
            for i in blocks * k..big {
                edges.push((bb(0), a(i), 1 + w(rng)));
            }
            s1 = bb(0);
            far = bb(blocks - 1) + (k - 1);
            s2 = bb(blocks - 2);
            near = bb(blocks - 1) + 1;
            early = vec![bb(0), bb(0) + 1, bb(blocks / 2), bb(1) + (k - 1)];
        }
        _ => {
            // grid, row-major, right/down edges; from the top-left corner
            let wd = 40 + rng.below(60) as usize;
            let ht = big / wd;
            let cells = wd * ht;
            let id = |r: usize, c: usize| a(r * wd + c);
            for r in 0..ht {
                for c in 0..wd {
                    if c + 1 < wd {
                        edges.push((id(r, c), id(r, c + 1), w(rng)));
                    }
                    if r + 1 < ht {
                        edges.push((id(r, c), id(r + 1, c), w(rng)));
                    }
                }
            }
            // the nodes of A beyond the grid hang off the corner as leaves
            for i in cells..big {
                edges.push((id(0, 0), a(i), 1 + w(rng)));
            }
            s1 = id(0, 0);
            far = id(ht - 1, wd - 1);
            s2 = id(ht - 2, wd - 2);
            near = id(ht - 1, wd - 1);
            early = vec![id(0, 0), id(0, 1), id(ht / 2, wd / 2), id(ht - 1, 0)];
        }
    }
    // component B: chain b(0) -> ... -> b(nb-1); sometimes A reaches B (never the other way round)
    for i in 0..nb - 1 {
        edges.push((b(i), b(i + 1), w(rng)));
    }
    if rng.chance(1, 2) {
        edges.push((s1, b(0), 1 + w(rng)));
    }
    let mut e2 = edges.clone();
    anchor(rng, n, &mut e2, 1);
    // the anchor may only add an edge touching node n-1; drop it again if it connects B to A
    if e2.len() != edges.len() {
        e2.truncate(edges.len());
    }
    rng.shuffle(&mut e2);
    let sb = b(0);
    let bl = b(nb - 1);
    let e0 = early[0];
    let e1 = early[1];
    let queries = vec![
        Query::O2m(s1, vec![far, bl.min(n - 1), e1]),
        Query::O2m(sb, vec![bl, e0, far]),
        Query::O2m(sb, vec![bl]),
        Query::Uni(s1, far),
        Query::Uni(sb, e0),
        Query::Uni(sb, bl),
        Query::O2m(s2, vec![near, e1]),
        Query::Uni(s2, e1),
        Query::Uni(s2, near),
        Query::O2m(sb, vec![e1, b(1)]),
    ];
    let mut sample = early.clone();
    sample.extend([s1, far, s2, near, sb, bl, b(1)]);
    sample.sort();
    sample.dedup();
    sample.truncate(16);
    GraphCase { n, rep: if rng.chance(1, 2) { "static" } else { "dyn" }, edges: e2, queries, sample: Some(sample) }
}

/// random cell.  `overlap`: some boundary nodes are incoming AND outgoing; `isolated`: boundary
/// nodes that no in-cell edge touches are kept (they reach only themselves)
fn random_cell(rng: &mut Rng, overlap: bool, isolated: bool) -> Case {
    // node ids are sparse so that the renumbering does something
    let total = 2 + rng.below(9) as usize;
    let mut pool: Vec<usize> = (0..(total * 3 + 2)).collect();
    rng.shuffle(&mut pool);
    pool.truncate(total);
    let k = 1 + rng.below((total - 1).min(4) as u64) as usize;
    let l = 1 + rng.below((total - k).min(4) as u64) as usize;
    let mut inc: Vec<usize> = pool[0..k].to_vec();
    inc.sort();
    let mut out: Vec<usize> = pool[k..k + l].to_vec(); // any order
    if overlap {
        // replace / add outgoing nodes by incoming ones
        let cnt = 1 + rng.below(k as u64) as usize;
        for _ in 0..cnt {
            let x = *rng.pick(&inc);
            if !out.contains(&x) {
                if rng.chance(1, 2) && !out.is_empty() {
                    let pos = rng.below(out.len() as u64) as usize;
                    out[pos] = x;
                } else {
                    out.push(x);
                }
            }
        }
        rng.shuffle(&mut out);
    }
    let wmax = *rng.pick(&[1i64, 3, 10, 1000]);
    let m = if isolated && rng.chance(1, 4) { rng.below(3) as usize } else { rng.below((total * 3) as u64) as usize };
    let mut edges = Vec::new();
    for _ in 0..m {
        let u = *rng.pick(&pool);
        let v = if rng.chance(1, 10) { u } else { *rng.pick(&pool) };
        edges.push((u, v, if rng.chance(1, 6) { 0 } else { rng.range(0, wmax) as usize }));
        if rng.chance(1, 8) {
            edges.push((u, v, rng.range(0, wmax) as usize));
        }
    }
    if isolated {
        // edges only among the small incoming ids, so that later boundary ids are beyond the subgraph
        if rng.chance(1, 2) {
            let keep = inc[0];
            edges.retain(|e| e.0 == keep && e.1 == keep || rng.chance(1, 6));
        }
    } else if !edges.is_empty() {
        // every boundary node touches an edge
        for b in inc.iter().chain(out.iter()) {
            if !edges.iter().any(|e| e.0 == *b || e.1 == *b) {
                let o = *rng.pick(&pool);
                if inc.contains(b) { edges.push((*b, o, rng.range(0, wmax) as usize)) } else { edges.push((o, *b, rng.range(0, wmax) as usize)) }
            }
        }
    }
    let fam = match (overlap, isolated) {
        (false, false) => "cell",
        (true, false) => "cell-overlap",
        (false, true) => "cell-isolated",
        (true, true) => "cell-overlap-isolated",
    };
    cell_case(fam, &inc, &out, &edges)
}

pub fn generate_mode(rng: &mut Rng, tier: Tier, cases: &mut Vec<Case>, mode: Mode) {
    // ---- witnesses of the defects fixed in /repo (also in corpus/)
    // D2 (heap order after decrease_key), the property's example: 5 instead of 3
    let d2 = GraphCase {
        n: 4,
        rep: "static",
        edges: vec![(0, 1, 1), (0, 2, 10), (1, 2, 1), (2, 3, 1), (0, 3, 5)],
        queries: vec![Query::Uni(0, 3), Query::O2m(0, vec![3, 2]), Query::Uni(0, 2)],
        sample: None,
    };
    cases.push(d2.to_case("witness-d2"));
    // D3 (parent on decrease): path to 2 was [2]
    let d3 = GraphCase {
        n: 3,
        rep: "static",
        edges: vec![(0, 1, 1), (0, 2, 10), (1, 2, 1)],
        queries: vec![Query::Uni(0, 2), Query::O2m(0, vec![2])],
        sample: None,
    };
    cases.push(d3.to_case("witness-d3"));
    for rep in ["dyn", "dynins"] {
        let mut a = d2.clone();
        a.rep = rep;
        cases.push(a.to_case("witness-d2"));
        let mut b = d3.clone();
        b.rep = rep;
        cases.push(b.to_case("witness-d3"));
    }
    if mode == Mode::C08 {
        // D5: 2 incoming x 3 outgoing
        cases.push(cell_case(
            "witness-d5",
            &[0, 1],
            &[2, 3, 4],
            &[(0, 2, 1), (0, 3, 2), (0, 4, 3), (1, 2, 4), (1, 3, 5), (1, 4, 6)],
        ));
        cases.push(cell_case("witness-d5", &[0, 1, 2], &[3, 4], &[(0, 3, 1), (0, 4, 2), (1, 3, 3), (1, 4, 4), (2, 3, 5), (2, 4, 6), (3, 4, 1)]));
        // fixed in /repo (26300e7): boundary node on both sides; boundary node beyond the subgraph
        cases.push(cell_case("witness-cell-overlap", &[1, 2], &[2, 3], &[(1, 2, 4), (2, 3, 5)]));
        cases.push(cell_case("witness-cell-overlap", &[5], &[5], &[(5, 6, 1)]));
        cases.push(cell_case("witness-cell-isolated", &[1, 2], &[3], &[(1, 1, 5)]));
        cases.push(cell_case("witness-cell-isolated", &[1, 2], &[2], &[]));
    }
    let (n_random, n_lowered, n_convex, n_reuse, n_ties, n_cells, ex_scope) = match (tier, mode) {
        (Tier::Quick, Mode::C08) => (4000, 3000, 800, 600, 1500, 3000, (3usize, 4usize)),
        (Tier::Quick, Mode::C09) => (4000, 4000, 1200, 600, 2000, 0, (3, 4)),
        (Tier::Thorough, Mode::C08) => (100000, 60000, 15000, 15000, 30000, 60000, (4, 4)),
        (Tier::Thorough, Mode::C09) => (100000, 80000, 20000, 15000, 40000, 0, (4, 4)),
    };
    // ---- exhaustive tiny scope
    let mut ex = Vec::new();
    exhaustive_small(ex_scope.0, &[0, 1, 3], ex_scope.1, &mut ex);
    for g in ex {
        cases.push(g.to_case("exhaustive"));
    }
    for _ in 0..n_lowered {
        cases.push(lowered_label(rng).to_case("lowered"));
    }
    for _ in 0..n_random {
        cases.push(random_graph(rng, 14).to_case("random"));
    }
    for _ in 0..n_convex {
        cases.push(convex(rng).to_case("convex"));
    }
    for _ in 0..n_reuse {
        cases.push(reuse(rng).to_case("reuse"));
    }
    for _ in 0..n_ties {
        cases.push(ties(rng).to_case("ties"));
    }
    for i in 0..n_cells {
        cases.push(random_cell(rng, i % 4 == 1 || i % 4 == 3, i % 4 >= 2));
    }
    // ---- the same search objects first work on ANOTHER graph (same node ids, other weights / other edges), often
    //      from the same source as the case's first queries: nothing of that earlier graph may survive
    let n_other = match tier {
        Tier::Quick => 600,
        Tier::Thorough => 12000,
    };
    for _ in 0..n_other {
        let g = random_graph(rng, 12);
        let mut h = random_graph(rng, 12);
        // pre-graph over the same ids: same edges with other weights, or an unrelated graph
        let pre_edges: Vec<(usize, usize, usize)> = if rng.chance(1, 2) {
            g.edges.iter().map(|e| (e.0, e.1, e.2 / 2 + rng.below(4) as usize)).collect()
        } else {
            h.edges.retain(|e| e.0 < g.n && e.1 < g.n);
            h.edges.clone()
        };
        let mut pre_edges = pre_edges;
        if pre_edges.is_empty() {
            pre_edges.push((0, 0, 1));
        }
        // every node of the case's graph must exist in the pre-graph's id space
        let pn = g.n;
        pre_edges.push((pn - 1, pn - 1, 0));
        // pre-queries: the sources of the case's queries (so that "same source again" occurs), random targets
        let mut pq = Vec::new();
        for q in &g.queries {
            let s = match q {
                Query::Uni(s, _) => *s,
                Query::O2m(s, _) => *s,
            };
            if rng.chance(2, 3) {
                pq.push(Query::Uni(s, rng.below(pn as u64) as usize));
            } else {
                let mut ts: Vec<usize> = (0..pn).filter(|_| rng.chance(1, 2)).collect();
                rng.shuffle(&mut ts);
                pq.push(Query::O2m(s, ts));
            }
        }
        // StaticGraph::new has max-id+1 nodes: the self-loop above makes that pn
        let pre = PreHistory { n: pn, edges: pre_edges, queries: pq };
        let mut c = g.to_case("other-graph-first");
        pre.add_to(&mut c);
        cases.push(c);
    }
    // ---- one object answering tens of thousands of queries (one heap clear per query): 8/16-bit stamps wrap
    for reps in [250usize, 65_530] {
        // component A = 0->1->2->3, component B = 4->5->6->7 (+ chord): A is searched once, then B `reps` times
        // (unobserved), then eight observed queries in B, one clear each: every clear count from reps+1 to reps+9
        // after A's nodes were recorded is observed (256 resp. 65 536 among them); nodes of A must stay unknown
        let edges = vec![(0, 1, 1), (1, 2, 1), (2, 3, 1), (4, 5, 1), (5, 6, 1), (6, 7, 1), (4, 6, 5)];
        let mut queries = vec![Query::O2m(0, vec![3, 2]), Query::Uni(0, 3), Query::O2m(4, vec![7]), Query::Uni(4, 7)];
        for i in 0..8 {
            queries.push(Query::O2m(4 + i % 2, vec![2, 7]));
            queries.push(Query::Uni(4 + i % 2, if i % 2 == 0 { 2 } else { 7 }));
        }
        let g = GraphCase { n: 8, rep: "static", edges, queries, sample: None };
        let mut c = g.to_case("many-queries");
        let i3 = c.ops.iter().position(|l| l.starts_with("Q o2m 4 7")).unwrap();
        c.ops.insert(i3 + 1, format!("R {reps}"));
        let i4 = c.ops.iter().position(|l| l.starts_with("Q uni 4 7")).unwrap();
        c.ops.insert(i4 + 1, format!("R {reps}"));
        cases.push(c);
    }
    // ---- one-to-many with hundreds of targets (all nodes / every second node; increasing, decreasing, shuffled)
    let n_many = match tier {
        Tier::Quick => 12,
        Tier::Thorough => 120,
    };
    for i in 0..n_many {
        let n = 150 + rng.below(350) as usize;
        let mut edges = Vec::new();
        for u in 0..n {
            edges.push((u, (u + 1) % n, 1 + rng.below(9) as usize));
            if rng.chance(1, 3) {
                edges.push((u, rng.below(n as u64) as usize, 1 + rng.below(30) as usize));
            }
        }
        let mut ts: Vec<usize> = (0..n).filter(|v| i % 2 == 0 || v % 2 == 1).collect();
        match i % 3 {
            0 => ts.reverse(),
            1 => rng.shuffle(&mut ts),
            _ => {}
        }
        let s = rng.below(n as u64) as usize;
        let ts: Vec<usize> = ts.into_iter().filter(|t| *t != s || i % 4 == 0).collect();
        let sample: Vec<usize> = (0..n).step_by(37).collect();
        let g = GraphCase { n, rep: *rng.pick(&REPS), edges, queries: vec![Query::O2m(s, ts.clone()), Query::Uni(s, ts[0]), Query::O2m(s, ts)], sample: Some(sample) };
        cases.push(g.to_case("many-targets"));
    }
    // ---- large graphs, reuse after a search that recorded thousands of nodes
    match tier {
        Tier::Quick => {
            for _ in 0..5 {
                cases.push(large_reuse(rng, 4500, 8000).to_case("large-reuse"));
            }
            cases.push(large_reuse(rng, 12000, 20000).to_case("large-reuse"));
        }
        Tier::Thorough => {
            for _ in 0..30 {
                cases.push(large_reuse(rng, 4500, 12000).to_case("large-reuse"));
            }
            for _ in 0..7 {
                cases.push(large_reuse(rng, 12000, 20000).to_case("large-reuse"));
            }
            for _ in 0..3 {
                cases.push(large_reuse(rng, 66000, 72000).to_case("large-reuse"));
            }
        }
    }
}

// ------------------------------------------------------------------------------------------------
// execution of the real code

fn umax(x: usize) -> String {
    format!("{x}")
}

fn path_str(p: Option<Vec<usize>>) -> String {
    match p {
        None => "-".to_string(),
        Some(v) => join(v.iter(), ">"),
    }
}

fn run_queries<G: Graph<usize>>(g: &G, n: usize, queries: &[Query], repeats: &[usize], sample: &Option<Vec<usize>>, pre: &PreHistory, mode: Mode, obs: &mut Vec<String>) {
    // adjacency as the searches will see it (free: edge order inside a node's range); not for large graphs
    let nn = g.number_of_nodes();
    if sample.is_none() {
        let mut adj = Vec::new();
        for u in 0..n.min(nn) {
            for e in g.edge_range(u) {
                adj.push(format!("{u}:{}:{}", g.target(e), g.data(e)));
            }
        }
        obs.push(format!("F adj {}", join(adj.iter(), " ")).trim_end().to_string());
    }
    // the nodes whose label / path is observed after every query
    let watch: Vec<usize> = match sample {
        Some(sm) => sm.clone(),
        None => (0..n).collect(),
    };
    // `Default` must give the same object as `new` (every second case uses it)
    let (mut uni, mut o2m) = if queries.len() % 2 == 0 {
        (UnidirectionalDijkstra::default(), OneToManyDijkstra::default())
    } else {
        (UnidirectionalDijkstra::new(), OneToManyDijkstra::new())
    };
    if !pre.queries.is_empty() {
        let pg = StaticGraph::new(pre.edges.iter().map(|e| InputEdge::new(e.0, e.1, e.2)).collect::<Vec<InputEdge<usize>>>());
        for q in &pre.queries {
            match q {
                Query::Uni(s, t) => {
                    uni.run(&pg, *s, *t);
                }
                Query::O2m(s, ts) => {
                    o2m.run(&pg, *s, ts);
                }
            }
        }
    }
    for (k, q) in queries.iter().enumerate() {
        // `R k`: the query was already answered k times by the same objects (only the last answer is observed)
        for _ in 0..repeats.get(k).copied().unwrap_or(0) {
            match q {
                Query::Uni(s, t) => {
                    uni.run(g, *s, *t);
                }
                Query::O2m(s, ts) => {
                    o2m.run(g, *s, ts);
                }
            }
        }
        match q {
            Query::Uni(s, t) => {
                let d = uni.run(g, *s, *t);
                match mode {
                    Mode::C08 => {
                        let mut fresh = UnidirectionalDijkstra::new();
                        let d2 = fresh.run(g, *s, *t);
                        obs.push(format!("D {k} uni reuse={} fresh={}", umax(d), umax(d2)));
                    }
                    Mode::C09 => {
                        let p = uni.retrieve_node_path(*t);
                        obs.push(format!("D {k} uni dist={} path={}", umax(d), if p.is_some() { "some" } else { "none" }));
                        obs.push(format!("F {k} paths {}", join(watch.iter().map(|v| path_str(uni.retrieve_node_path(*v))), " ")));
                    }
                }
            }
            Query::O2m(s, ts) => {
                let ok = o2m.run(g, *s, ts);
                let dist = join(ts.iter().map(|t| umax(o2m.distance(*t))), ",");
                match mode {
                    Mode::C08 => {
                        let mut fresh = OneToManyDijkstra::new();
                        let ok2 = fresh.run(g, *s, ts);
                        let dist2 = join(ts.iter().map(|t| umax(fresh.distance(*t))), ",");
                        obs.push(format!("D {k} o2m reuse={}:{dist} fresh={}:{dist2}", ok as u8, ok2 as u8));
                        obs.push(format!("F {k} labels {}", join(watch.iter().map(|v| umax(o2m.distance(*v))), ",")));
                    }
                    Mode::C09 => {
                        obs.push(format!("D {k} o2m ok={} T={dist}", ok as u8));
                        obs.push(format!("F {k} labels {}", join(watch.iter().map(|v| umax(o2m.distance(*v))), ",")));
                        obs.push(format!("F {k} paths {}", join(watch.iter().map(|v| path_str(o2m.retrieve_node_path(*v))), " ")));
                    }
                }
            }
        }
    }
}

pub fn execute_mode(c: &Case, obs: &mut Vec<String>, mode: Mode) {
    let mut n = 0usize;
    let mut rep = String::new();
    let mut edges: Vec<(usize, usize, usize)> = Vec::new();
    let mut queries = Vec::new();
    let mut is_cell = false;
    let mut sample: Option<Vec<usize>> = None;
    let (mut inc, mut out): (Vec<usize>, Vec<usize>) = (Vec::new(), Vec::new());
    let mut pre = PreHistory::default();
    let mut repeats: Vec<usize> = Vec::new();
    for l in &c.ops {
        let t: Vec<&str> = l.split_whitespace().collect();
        let num = |i: usize| t[i].parse::<usize>().unwrap();
        match t[0] {
            "R" => {
                if let Some(last) = repeats.last_mut() {
                    *last = num(1);
                }
            }
            "PG" => pre.n = num(1),
            "PE" => {
                for it in &t[1..] {
                    let p: Vec<usize> = it.split(':').map(|x| x.parse().unwrap()).collect();
                    pre.edges.push((p[0], p[1], p[2]));
                }
            }
            "PQ" => match t[1] {
                "uni" => pre.queries.push(Query::Uni(num(2), num(3))),
                _ => pre.queries.push(Query::O2m(num(2), (3..t.len()).map(num).collect())),
            },
            "G" => {
                n = num(1);
                rep = t[2].to_string();
            }
            "CELL" => is_cell = true,
            "IN" => inc = (1..t.len()).map(num).collect(),
            "OUT" => out = (1..t.len()).map(num).collect(),
            "E" => edges.push((num(1), num(2), num(3))),
            "EE" => {
                for it in &t[1..] {
                    let p: Vec<usize> = it.split(':').map(|x| x.parse().unwrap()).collect();
                    edges.push((p[0], p[1], p[2]));
                }
            }
            "S" => sample = Some((1..t.len()).map(num).collect()),
            "Q" => {
                repeats.push(0);
                match t[1] {
                    "uni" => queries.push(Query::Uni(num(2), num(3))),
                    _ => queries.push(Query::O2m(num(2), (3..t.len()).map(num).collect())),
                }
            }
            _ => panic!("unknown op {l}"),
        }
    }
    let input: Vec<InputEdge<usize>> = edges.iter().map(|e| InputEdge::new(e.0, e.1, e.2)).collect();
    if is_cell {
        let cell = BaseCell { incoming_nodes: inc.clone(), outgoing_nodes: out.clone(), edges: input };
        let mc = cell.process();
        obs.push(format!("D matrix {}", join(mc.matrix.iter(), ",")).trim_end().to_string());
        for u in &inc {
            let row = mc.get_distance_row(*u).to_vec();
            obs.push(format!("D row {u} {}", join(row.iter(), ",")).trim_end().to_string());
        }
        let ov = mc.overlay_edges();
        let mut sorted: Vec<(usize, usize, usize)> = ov.iter().map(|e| (e.source, e.target, e.data)).collect();
        sorted.sort();
        obs.push(format!("D overlay {}", join(sorted.iter().map(|e| format!("{}:{}:{}", e.0, e.1, e.2)), " ")).trim_end().to_string());
        obs.push(format!("F overlayorder {}", join(ov.iter().map(|e| format!("{}:{}:{}", e.source, e.target, e.data)), " ")).trim_end().to_string());
        return;
    }
    match rep.as_str() {
        "static" => {
            let g = StaticGraph::new(input);
            run_queries(&g, n, &queries, &repeats, &sample, &pre, mode, obs);
        }
        "dyn" => {
            let g = DynamicGraph::new(n, input);
            run_queries(&g, n, &queries, &repeats, &sample, &pre, mode, obs);
        }
        _ => {
            let mut g: DynamicGraph<usize> = DynamicGraph::new(n, Vec::<InputEdge<usize>>::new());
            for e in &edges {
                g.insert_edge(e.0, e.1, e.2);
            }
            run_queries(&g, n, &queries, &repeats, &sample, &pre, mode, obs);
        }
    }
}

fn generate(rng: &mut Rng, tier: Tier, cases: &mut Vec<Case>) {
    generate_mode(rng, tier, cases, Mode::C08)
}

fn execute(c: &Case, obs: &mut Vec<String>) {
    execute_mode(c, obs, Mode::C08)
}

fn main() {
    harness_main(generate, execute);
}
