//! C11: LRU cache histories and direct histories of the cursor list underneath.
//! Real code: toolbox_rs::lru::LRU, toolbox_rs::linked_list::LinkedList.
//! Protocol: see /verif/lean/Tbx/Drv/C11.lean.
use std::cell::RefCell;
use std::collections::VecDeque;
use tbx_harness::*;
use toolbox_rs::linked_list::{LinkedList, ListCursor};
use toolbox_rs::lru::LRU;

// ------------------------------------------------------------------------------------------------
// drop-counting values

const MAX_TOK: usize = 1 << 20;
thread_local! {
    /// DROPS[id] = how often the destructor of token `id` ran; the last slot collects ids that
    /// cannot belong to a token (garbage read through a dangling pointer)
    static DROPS: RefCell<Vec<u32>> = const { RefCell::new(Vec::new()) };
    static GARBAGE: RefCell<u32> = const { RefCell::new(0) };
}

struct Token(u32);
impl Drop for Token {
    fn drop(&mut self) {
        let i = self.0 as usize;
        if i >= MAX_TOK {
            GARBAGE.with(|g| *g.borrow_mut() += 1);
            return;
        }
        DROPS.with(|d| {
            let mut d = d.borrow_mut();
            if i >= d.len() {
                d.resize(i + 1, 0);
            }
            d[i] += 1;
        });
    }
}

struct DropLog {
    seen: Vec<u32>,
}
impl DropLog {
    fn new() -> Self {
        DROPS.with(|d| d.borrow_mut().clear());
        GARBAGE.with(|g| *g.borrow_mut() = 0);
        DropLog { seen: Vec::new() }
    }
    /// "3,5*2" = destructor runs since the previous call
    fn delta(&mut self) -> String {
        let cur: Vec<u32> = DROPS.with(|d| d.borrow().clone());
        if self.seen.len() < cur.len() {
            self.seen.resize(cur.len(), 0);
        }
        let mut parts = Vec::new();
        for i in 0..cur.len() {
            let n = cur[i] - self.seen[i];
            if n == 1 {
                parts.push(format!("{i}"));
            } else if n > 1 {
                parts.push(format!("{i}*{n}"));
            }
        }
        let g = GARBAGE.with(|g| *g.borrow());
        if g > 0 {
            parts.push(format!("garbage*{g}"));
        }
        self.seen = cur;
        if parts.is_empty() { "-".into() } else { parts.join(",") }
    }
    fn counts(&self, ntok: usize) -> String {
        let cur: Vec<u32> = DROPS.with(|d| d.borrow().clone());
        let extra = cur.iter().skip(ntok).any(|c| *c > 0) || GARBAGE.with(|g| *g.borrow()) > 0;
        let mut s = format!("D end ntok={ntok} drops={}", join((0..ntok).map(|i| cur.get(i).copied().unwrap_or(0)), ","));
        if extra {
            s.push_str(" unknown-tokens-dropped");
        }
        s
    }
}

// ------------------------------------------------------------------------------------------------
// ops

#[derive(Clone, Copy, Debug, PartialEq)]
enum LOp {
    Push(i64),
    Get(i64),
    Has(i64),
    Front,
    Fset,
    Clear,
    Len,
}
fn render_l(o: &LOp) -> String {
    match o {
        LOp::Push(k) => format!("push {k}"),
        LOp::Get(k) => format!("get {k}"),
        LOp::Has(k) => format!("has {k}"),
        LOp::Front => "front".into(),
        LOp::Fset => "fset".into(),
        LOp::Clear => "clear".into(),
        LOp::Len => "len".into(),
    }
}
fn parse_l(l: &str) -> Option<LOp> {
    let t: Vec<&str> = l.split_whitespace().collect();
    let n = |i: usize| t.get(i).and_then(|x| x.parse::<i64>().ok());
    Some(match *t.first()? {
        "push" => LOp::Push(n(1)?),
        "get" => LOp::Get(n(1)?),
        "has" => LOp::Has(n(1)?),
        "front" => LOp::Front,
        "fset" => LOp::Fset,
        "clear" => LOp::Clear,
        "len" => LOp::Len,
        _ => return None,
    })
}

#[derive(Clone, Copy, Debug, PartialEq)]
enum QOp {
    Pf,
    Mtf(usize),
    Pb,
    Gf,
    Gfm,
    Len,
    Clear,
}
fn render_q(o: &QOp) -> String {
    match o {
        QOp::Pf => "pf".into(),
        QOp::Mtf(i) => format!("mtf {i}"),
        QOp::Pb => "pb".into(),
        QOp::Gf => "gf".into(),
        QOp::Gfm => "gfm".into(),
        QOp::Len => "len".into(),
        QOp::Clear => "clear".into(),
    }
}
fn parse_q(l: &str) -> Option<QOp> {
    let t: Vec<&str> = l.split_whitespace().collect();
    Some(match *t.first()? {
        "pf" => QOp::Pf,
        "mtf" => QOp::Mtf(t.get(1)?.parse().ok()?),
        "pb" => QOp::Pb,
        "gf" => QOp::Gf,
        "gfm" => QOp::Gfm,
        "len" => QOp::Len,
        "clear" => QOp::Clear,
        _ => return None,
    })
}

fn lru_case(family: &str, cap: usize, nkeys: usize, ops: &[LOp]) -> Case {
    let mut c = Case::new(family);
    c.op(format!("L {cap} {nkeys}"));
    for o in ops {
        c.op(render_l(o));
    }
    c
}
fn list_case(family: &str, drain: bool, ops: &[QOp]) -> Case {
    let mut c = Case::new(family);
    c.op(format!("LL {}", if drain { 1 } else { 0 }));
    for o in ops {
        c.op(render_q(o));
    }
    c
}

// ------------------------------------------------------------------------------------------------
// generation

/// all sequences of exactly `len` ops over the alphabet, keys introduced in the order 0,1,2,…
/// (renaming keys is a symmetry of the cache)
fn lru_exhaustive(len: usize, nkeys: i64, with_mut: bool, out: &mut Vec<Vec<LOp>>) {
    fn rec(cur: &mut Vec<LOp>, used: i64, len: usize, nkeys: i64, with_mut: bool, out: &mut Vec<Vec<LOp>>) {
        if cur.len() == len {
            out.push(cur.clone());
            return;
        }
        let top = (used + 1).min(nkeys);
        for k in 0..top {
            for push in [true, false] {
                cur.push(if push { LOp::Push(k) } else { LOp::Get(k) });
                rec(cur, used.max(k + 1), len, nkeys, with_mut, out);
                cur.pop();
            }
        }
        if with_mut {
            for o in [LOp::Fset, LOp::Clear] {
                cur.push(o);
                rec(cur, used, len, nkeys, with_mut, out);
                cur.pop();
            }
        }
    }
    rec(&mut Vec::new(), 0, len, nkeys, with_mut, out);
}

fn lru_random(rng: &mut Rng, len: usize, nkeys: i64, mix: [u64; 7]) -> Vec<LOp> {
    let total: u64 = mix.iter().sum();
    let mut ops = Vec::with_capacity(len);
    // a drifting working set makes hits, reorders and evictions all frequent
    let mut hot = rng.range(0, nkeys - 1);
    for _ in 0..len {
        let mut r = rng.below(total);
        let mut kind = 0;
        for (i, m) in mix.iter().enumerate() {
            if r < *m {
                kind = i;
                break;
            }
            r -= *m;
        }
        if rng.chance(1, 6) {
            hot = rng.range(0, nkeys - 1);
        }
        let k = if rng.chance(1, 2) { hot } else { rng.range(0, nkeys - 1) };
        ops.push(match kind {
            0 => LOp::Push(k),
            1 => LOp::Get(k),
            2 => LOp::Has(k),
            3 => LOp::Front,
            4 => LOp::Fset,
            5 => LOp::Clear,
            _ => LOp::Len,
        });
    }
    ops
}

/// generator-side shadow of the list: cursor ids front-first (only to stay inside the quantifier:
/// move_to_front with cursors of nodes that are in the list, get_front on non-empty lists)
#[derive(Clone, Default)]
struct Shadow {
    ids: VecDeque<usize>,
    created: usize,
}
impl Shadow {
    fn valid(&self, o: &QOp) -> bool {
        match o {
            QOp::Mtf(i) => self.ids.contains(i),
            QOp::Gf | QOp::Gfm => !self.ids.is_empty(),
            _ => true,
        }
    }
    fn apply(&mut self, o: &QOp) {
        match o {
            QOp::Pf => {
                self.ids.push_front(self.created);
                self.created += 1;
            }
            QOp::Mtf(i) => {
                if let Some(p) = self.ids.iter().position(|x| x == i) {
                    self.ids.remove(p);
                    self.ids.push_front(*i);
                }
            }
            QOp::Pb => {
                self.ids.pop_back();
            }
            QOp::Clear => self.ids.clear(),
            _ => {}
        }
    }
}

fn list_exhaustive(len: usize, out: &mut Vec<Vec<QOp>>) {
    fn rec(sh: &Shadow, cur: &mut Vec<QOp>, len: usize, out: &mut Vec<Vec<QOp>>) {
        if cur.len() == len {
            out.push(cur.clone());
            return;
        }
        let mut cands = vec![QOp::Pf, QOp::Pb, QOp::Clear];
        for i in sh.ids.iter() {
            cands.push(QOp::Mtf(*i));
        }
        if !sh.ids.is_empty() {
            cands.push(QOp::Gfm);
        }
        for o in cands {
            let mut s = sh.clone();
            s.apply(&o);
            cur.push(o);
            rec(&s, cur, len, out);
            cur.pop();
        }
    }
    rec(&Shadow::default(), &mut Vec::new(), len, out);
}

fn list_random(rng: &mut Rng, len: usize, mix: [u64; 7]) -> Vec<QOp> {
    let total: u64 = mix.iter().sum();
    let mut sh = Shadow::default();
    let mut ops = Vec::new();
    let mut guard = 0;
    while ops.len() < len && guard < len * 20 {
        guard += 1;
        let mut r = rng.below(total);
        let mut kind = 0;
        for (i, m) in mix.iter().enumerate() {
            if r < *m {
                kind = i;
                break;
            }
            r -= *m;
        }
        let o = match kind {
            0 => QOp::Pf,
            1 => {
                if sh.ids.is_empty() {
                    continue;
                }
                // the back, the front and inner nodes all get their share
                let n = sh.ids.len();
                let p = match rng.below(4) {
                    0 => n - 1,
                    1 => 0,
                    _ => rng.below(n as u64) as usize,
                };
                QOp::Mtf(sh.ids[p])
            }
            2 => QOp::Pb,
            3 => QOp::Gf,
            4 => QOp::Gfm,
            5 => QOp::Len,
            _ => QOp::Clear,
        };
        if !sh.valid(&o) {
            continue;
        }
        sh.apply(&o);
        ops.push(o);
    }
    ops
}

fn generate(rng: &mut Rng, tier: Tier, cases: &mut Vec<Case>) {
    use LOp::*;
    // scripted witnesses: one per mutation listed under DESIGN 7/C11 "Must catch"
    // the tail is moved to the front (get), then two evictions must take 1 and then 2
    cases.push(lru_case("scripted", 3, 4, &[Push(0), Push(1), Push(2), Get(0), Push(3), Has(0), Has(1), Push(1), Get(2)]));
    // contains must not count as a use
    cases.push(lru_case("scripted", 2, 3, &[Push(0), Push(1), Has(0), Has(0), Push(2), Has(0), Has(1)]));
    // a stale cursor left in the map after eviction would be dereferenced by the re-push of key 0
    cases.push(lru_case("scripted", 1, 2, &[Push(0), Push(1), Push(0), Get(0), Push(1), Get(1)]));
    cases.push(lru_case("scripted", 2, 3, &[Push(0), Push(1), Push(2), Push(0), Get(1), Get(0), Push(1), Clear, Push(0), Get(0)]));
    // overwrite, front mutation, clear and reuse
    cases.push(lru_case("scripted", 2, 3, &[Push(0), Push(0), Fset, Get(0), Push(1), Push(2), Front, Clear, Clear, Fset, Push(1), Len]));
    cases.push(list_case("scripted-list", true, &[QOp::Pf, QOp::Pf, QOp::Pf, QOp::Mtf(0), QOp::Pb, QOp::Mtf(2), QOp::Pf, QOp::Mtf(0), QOp::Pb]));
    cases.push(list_case("scripted-list", false, &[QOp::Pf, QOp::Pf, QOp::Mtf(0), QOp::Mtf(1), QOp::Gfm, QOp::Clear, QOp::Pf, QOp::Pf, QOp::Mtf(2)]));
    cases.push(list_case("scripted-list", true, &[QOp::Pf, QOp::Mtf(0), QOp::Pf, QOp::Pf, QOp::Pf, QOp::Pf, QOp::Mtf(0), QOp::Pf]));

    // bulk histories (closed-form judge): capacities and element counts far beyond the step-by-step families
    for (cap, n, clear) in [(100_000usize, 50_000usize, 1), (5_000, 20_000, 0), (1, 5, 1), (1_000_000, 1_000_000, 0), (300_000, 300_000, 1)] {
        let mut c = Case::new("bulk");
        c.op(format!("B {cap} {n} {clear}"));
        cases.push(c);
    }
    for (n, clear) in [(1_000_000usize, 0), (300_000, 1), (3, 1)] {
        let mut c = Case::new("bulk-list");
        c.op(format!("BL {n} {clear}"));
        cases.push(c);
    }
    // exhaustive LRU histories over 3 keys, capacities 1..4
    let mut ex = Vec::new();
    match tier {
        Tier::Quick => lru_exhaustive(5, 3, true, &mut ex),
        Tier::Thorough => {
            lru_exhaustive(6, 3, true, &mut ex);
            lru_exhaustive(7, 3, false, &mut ex);
        }
    }
    for ops in &ex {
        for cap in 1..=4usize {
            cases.push(lru_case("lru-exhaustive", cap, 3, ops));
        }
    }
    // exhaustive direct list histories
    let mut exl = Vec::new();
    list_exhaustive(match tier { Tier::Quick => 6, Tier::Thorough => 8 }, &mut exl);
    for (i, ops) in exl.iter().enumerate() {
        cases.push(list_case("list-exhaustive", i % 2 == 0, ops));
    }
    // long random LRU histories
    let n_random = match tier { Tier::Quick => 1500, Tier::Thorough => 40000 };
    for i in 0..n_random {
        let cap = if i % 8 == 7 { rng.range(5, 16) } else { rng.range(1, 4) } as usize;
        let nkeys = cap as i64 + rng.range(1, 4);
        let len = 10 + rng.below(if i % 10 == 0 { 600 } else { 80 }) as usize;
        // op mix: push get has front fset clear len
        let mix = *rng.pick(&[[10u64, 10, 3, 1, 1, 0, 1], [8, 12, 2, 1, 2, 1, 1], [12, 4, 4, 2, 2, 1, 1], [6, 6, 6, 2, 3, 2, 2]]);
        let ops = lru_random(rng, len, nkeys, mix);
        cases.push(lru_case("lru-random", cap, nkeys as usize, &ops));
    }
    // long random list histories
    let n_lrandom = match tier { Tier::Quick => 600, Tier::Thorough => 15000 };
    for i in 0..n_lrandom {
        let len = 10 + rng.below(if i % 10 == 0 { 500 } else { 70 }) as usize;
        // op mix: pf mtf pb gf gfm len clear
        let mix = *rng.pick(&[[10u64, 12, 6, 1, 1, 1, 0], [8, 10, 8, 2, 2, 1, 1], [12, 12, 3, 1, 1, 1, 0], [6, 8, 7, 2, 2, 2, 2]]);
        let ops = list_random(rng, len, mix);
        cases.push(list_case("list-random", rng.chance(1, 2), &ops));
    }
}

// ------------------------------------------------------------------------------------------------
// execution of the real code

trait KeyOf: Copy + std::fmt::Debug + Eq + std::hash::Hash + std::fmt::Display {
    fn of(k: i64) -> Self;
}
impl KeyOf for i32 {
    fn of(k: i64) -> Self {
        k as i32
    }
}
impl KeyOf for u32 {
    fn of(k: i64) -> Self {
        k as u32
    }
}

fn exec_lru<K: KeyOf>(cap: usize, nkeys: usize, ops: &[LOp], obs: &mut Vec<String>) {
    let mut log = DropLog::new();
    let mut next: u32 = 0;
    let mut all: Vec<(String, LOp)> = ops.iter().enumerate().map(|(i, o)| (i.to_string(), *o)).collect();
    for i in 0..cap {
        all.push((format!("p{i}"), LOp::Push(1000 + i as i64)));
    }
    let mut lru: LRU<K, Token> = LRU::new_with_capacity(cap);
    for (lab, op) in &all {
        let r = match op {
            LOp::Push(k) => {
                let t = Token(next);
                next += 1;
                lru.push(&K::of(*k), t);
                "-".to_string()
            }
            LOp::Get(k) => match lru.get(&K::of(*k)) {
                Some(t) => t.0.to_string(),
                None => "none".into(),
            },
            LOp::Has(k) => (if lru.contains(&K::of(*k)) { "1" } else { "0" }).into(),
            LOp::Front => match lru.get_front() {
                Some((k, v)) => format!("{k}:{}", v.0),
                None => "none".into(),
            },
            LOp::Fset => match lru.get_front_mut() {
                Some((k, v)) => {
                    let old = v.0;
                    let k = *k;
                    let t = Token(next);
                    next += 1;
                    *v = t;
                    format!("{k}:{old}")
                }
                None => "none".into(),
            },
            LOp::Clear => {
                lru.clear();
                "-".into()
            }
            LOp::Len => lru.len().to_string(),
        };
        // observers: none of them may count as a use
        let len = lru.len();
        let empty = lru.is_empty();
        let c: String = (0..nkeys).map(|k| if lru.contains(&K::of(k as i64)) { '1' } else { '0' }).collect();
        let fr = match lru.get_front() {
            Some((k, v)) => format!("{k}:{}", v.0),
            None => "none".into(),
        };
        if empty != (len == 0) {
            obs.push(format!("D {lab} is_empty()={empty} but len()={len}"));
        } else {
            obs.push(format!("D {lab} r={r} len={len} C={c} fr={fr}"));
        }
        obs.push(format!("F {lab} dr={}", log.delta()));
    }
    drop(lru);
    obs.push(format!("F end dr={}", log.delta()));
    obs.push(log.counts(next as usize));
}

fn exec_list(drain: bool, ops: &[QOp], obs: &mut Vec<String>) {
    let mut log = DropLog::new();
    let mut next: u32 = 0;
    let mut sh = Shadow::default();
    let mut list: LinkedList<Token> = if ops.len() % 2 == 0 { LinkedList::default() } else { LinkedList::new() };
    let mut cursors: Vec<ListCursor<Token>> = Vec::new();
    let observe = |list: &LinkedList<Token>, lab: &str, r: String, log: &mut DropLog, obs: &mut Vec<String>| {
        let len = list.len();
        let fr = if len > 0 { list.get_front().0.to_string() } else { "none".into() };
        if list.is_empty() != (len == 0) {
            obs.push(format!("D {lab} is_empty() disagrees with len()={len}"));
        } else {
            obs.push(format!("D {lab} r={r} len={len} fr={fr}"));
        }
        obs.push(format!("F {lab} dr={}", log.delta()));
    };
    for (i, op) in ops.iter().enumerate() {
        // the documented misuses (cursor of a node that left the list, front of an empty list) are
        // outside the property and are not executed at all: the first one is undefined behaviour
        if !sh.valid(op) {
            obs.push(format!("D {i} OUT-OF-DOMAIN"));
            break;
        }
        sh.apply(op);
        let r = match op {
            QOp::Pf => {
                let t = Token(next);
                next += 1;
                cursors.push(list.push_front(t));
                "-".to_string()
            }
            QOp::Mtf(c) => {
                list.move_to_front(&cursors[*c]);
                "-".into()
            }
            QOp::Pb => match list.pop_back() {
                Some(t) => {
                    let id = t.0;
                    drop(t);
                    id.to_string()
                }
                None => "none".into(),
            },
            QOp::Gf => list.get_front().0.to_string(),
            QOp::Gfm => {
                let f = list.get_front_mut();
                let old = f.0;
                let t = Token(next);
                next += 1;
                *f = t;
                old.to_string()
            }
            QOp::Len => list.len().to_string(),
            QOp::Clear => {
                list.clear();
                "-".into()
            }
        };
        observe(&list, &i.to_string(), r, &mut log, obs);
    }
    if drain {
        // pop until the list answers none (bounded, in case it never does)
        for d in 0..(next as usize + 2) {
            let (r, done) = match list.pop_back() {
                Some(t) => (t.0.to_string(), false),
                None => ("none".to_string(), true),
            };
            observe(&list, &format!("d{d}"), r, &mut log, obs);
            if done {
                break;
            }
        }
    }
    drop(list);
    obs.push(format!("F end dr={}", log.delta()));
    obs.push(log.counts(next as usize));
}

fn execute(c: &Case, obs: &mut Vec<String>) {
    let head: Vec<&str> = c.ops.first().map(|l| l.split_whitespace().collect()).unwrap_or_default();
    match head.as_slice() {
        ["L", cap, nkeys] => {
            let cap: usize = cap.parse().expect("cap");
            let nkeys: usize = nkeys.parse().expect("nkeys");
            let ops: Vec<LOp> = c.ops[1..].iter().map(|l| parse_l(l).expect("op")).collect();
            if cap == 0 {
                obs.push("D OUT-OF-DOMAIN capacity 0".into());
            } else if (cap + nkeys) % 2 == 0 {
                exec_lru::<u32>(cap, nkeys, &ops, obs)
            } else {
                exec_lru::<i32>(cap, nkeys, &ops, obs)
            }
        }
        ["LL", d] => {
            let ops: Vec<QOp> = c.ops[1..].iter().map(|l| parse_q(l).expect("op")).collect();
            exec_list(*d == "1", &ops, obs)
        }
        ["B", cap, n, clear] => exec_bulk(cap.parse().expect("cap"), n.parse().expect("n"), *clear == "1", obs),
        ["BL", n, clear] => exec_bulk_list(n.parse().expect("n"), *clear == "1", obs),
        _ => obs.push("D NO-HEADER".into()),
    }
}

/// (sum, min, max) of the destructor counts of tokens 0..n-1, and whether anything else was dropped
fn drop_summary(n: usize) -> String {
    DROPS.with(|d| {
        let d = d.borrow();
        let cnt = |i: usize| d.get(i).copied().unwrap_or(0) as u64;
        let sum: u64 = (0..n).map(cnt).sum();
        let mn = (0..n).map(cnt).min().unwrap_or(0);
        let mx = (0..n).map(cnt).max().unwrap_or(0);
        let extra = d.iter().skip(n).any(|c| *c > 0) || GARBAGE.with(|g| *g.borrow()) > 0;
        format!("sum={sum} min={mn} max={mx}{}", if extra { " unknown-tokens-dropped" } else { "" })
    })
}

/// the keys the bulk cases look at: around both ends and around the eviction boundary n - cap
fn bulk_samples(cap: usize, n: usize) -> Vec<usize> {
    let b = n.saturating_sub(cap);
    let mut v = vec![0, 1, b.saturating_sub(1), b, b + 1, n / 2, n.saturating_sub(2), n.saturating_sub(1), n, n + 1];
    v.sort_unstable();
    v.dedup();
    v
}

/// `B <cap> <n> <clear>`: n distinct keys 0..n-1 (value = token i) pushed into a fresh cache; sizes far beyond
/// what the step-by-step families reach (index growth steps, deep lists); judged against the closed form of the
/// recency-list specification for this history
fn exec_bulk(cap: usize, n: usize, clear: bool, obs: &mut Vec<String>) {
    let _log = DropLog::new();
    let mut lru: LRU<u32, Token> = LRU::new_with_capacity(cap);
    for i in 0..n {
        lru.push(&(i as u32), Token(i as u32));
    }
    obs.push(format!("D bulk len={} empty={}", lru.len(), lru.is_empty() as u8));
    let keys = bulk_samples(cap, n);
    let has: String = keys.iter().map(|k| if lru.contains(&(*k as u32)) { '1' } else { '0' }).collect();
    let fr = match lru.get_front() {
        Some((k, v)) => format!("{k}:{}", v.0),
        None => "none".into(),
    };
    obs.push(format!("D bulk has={has} front={fr}"));
    let gets = join(keys.iter().map(|k| match lru.get(&(*k as u32)) {
        Some(t) => t.0.to_string(),
        None => "none".into(),
    }), ",");
    obs.push(format!("D bulk get={gets} len={}", lru.len()));
    obs.push(format!("F bulk evicted {}", drop_summary(n)));
    if clear {
        lru.clear();
        obs.push(format!("D bulk cleared len={} empty={}", lru.len(), lru.is_empty() as u8));
        obs.push(format!("F bulk cleared {}", drop_summary(n)));
        // fully reusable
        lru.push(&7, Token(n as u32));
        obs.push(format!("D bulk reuse len={} has={}", lru.len(), lru.contains(&7) as u8));
    }
    drop(lru);
    obs.push(format!("D bulk end {}", drop_summary(n + clear as usize)));
}

/// `BL <n> <clear>`: the cursor list with n elements, emptied by `clear` or by dropping it
fn exec_bulk_list(n: usize, clear: bool, obs: &mut Vec<String>) {
    let _log = DropLog::new();
    let mut list: LinkedList<Token> = LinkedList::new();
    for i in 0..n {
        list.push_front(Token(i as u32));
    }
    let fr = if list.len() > 0 { list.get_front().0.to_string() } else { "none".into() };
    obs.push(format!("D bulk len={} front={fr}", list.len()));
    if clear {
        list.clear();
        obs.push(format!("D bulk cleared len={}", list.len()));
    }
    drop(list);
    obs.push(format!("D bulk end {}", drop_summary(n)));
}

fn main() {
    harness_main(generate, execute);
}
