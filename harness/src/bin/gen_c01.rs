//! C01: every max-flow solver returns the true maximum s-t flow value.
//! Real code: toolbox_rs::{dinic::Dinic, edmonds_karp::EdmondsKarp, ford_fulkerson::FordFulkerson}.
use tbx_harness::*;
#[path = "../flow_common.rs"]
mod flow_common;

fn main() {
    harness_main(flow_common::generate, |c, obs| flow_common::execute(c, obs, true, false));
}
