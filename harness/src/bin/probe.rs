use toolbox_rs::{r_tree::RTree, geometry::FPCoordinate, partition_id::PartitionID};
fn main() {
    for n in [0usize,1,29,30,31,899,900,901,1800,1801,26999,27000,27001,27931] {
        let mut els = Vec::new();
        let mut x: u64 = 12345 + n as u64;
        for i in 0..n {
            x = x.wrapping_mul(6364136223846793005).wrapping_add(1442695040888963407);
            let lat = ((x >> 33) % 1_000_000) as i32 - 500_000 + 50_000_000;
            x = x.wrapping_mul(6364136223846793005).wrapping_add(1442695040888963407);
            let lon = ((x >> 33) % 1_000_000) as i32 - 500_000 + 8_000_000;
            els.push((FPCoordinate::new(lat, lon), PartitionID::new(i as u32 + 1)));
        }
        let tree = RTree::from_elements(els.clone());
        let q = FPCoordinate::new(50_000_000, 8_000_000);
        let out: Vec<_> = tree.nearest_iter(&q).collect();
        let mut ids: Vec<u32> = out.iter().map(|(e, _)| { let p: usize = e.1.into(); p as u32 }).collect();
        ids.sort(); ids.dedup();
        let sorted = out.windows(2).all(|w| w[0].1 <= w[1].1);
        println!("n={n} yielded={} distinct={} sorted={}", out.len(), ids.len(), sorted);
    }
}
