use toolbox_rs::top_k::top_k;
fn main() {
    println!("{:?}", top_k(vec![3u32,1,2], 100000000000));
    println!("{:?}", top_k(vec![3u32,1,2], usize::MAX));
    println!("{:?}", top_k(vec![3u32,1,2,9,8,7,0], 2));
}
