use toolbox_rs::{cell::BaseCell, edge::InputEdge};
fn main() {
    let c = BaseCell { incoming_nodes: vec![1,2], outgoing_nodes: vec![2,3], edges: vec![InputEdge::new(1,2,4usize), InputEdge::new(2,3,5)] };
    println!("{:?} expect [4, 9, 0, 5]", c.process().matrix);
    let c = BaseCell { incoming_nodes: vec![5], outgoing_nodes: vec![5], edges: vec![InputEdge::new(5,6,1usize)] };
    println!("{:?} expect [0]", c.process().matrix);
    let c = BaseCell { incoming_nodes: vec![1,2], outgoing_nodes: vec![3], edges: vec![InputEdge::new(1,1,5usize)] };
    println!("{:?} expect [MAX, MAX]", c.process().matrix);
    let c = BaseCell { incoming_nodes: vec![1,2], outgoing_nodes: vec![2], edges: vec![] };
    println!("{:?} expect [MAX, 0]", c.process().matrix);
}
