use std::sync::{Arc, atomic::AtomicI32};
use toolbox_rs::{edge::TrivialEdge, geometry::FPCoordinate, inertial_flow::sub_step};
fn main() {
    let c = |n: usize| (0..n).map(|i| FPCoordinate::new(i as i32, 0)).collect::<Vec<_>>();
    let e = |v: &[(usize,usize)]| v.iter().map(|(s,t)| TrivialEdge{source:*s,target:*t}).collect::<Vec<_>>();
    let b = || Arc::new(AtomicI32::new(100));
    println!("{:?}", sub_step(&e(&[]), &[0,1], &c(3), 0, 0.25, b()));
    println!("{:?}", sub_step(&e(&[(0,1),(1,0),(3,4),(4,3)]), &[0,1,2,3,4], &c(5), 0, 0.49, b()));
    println!("{:?}", sub_step(&e(&[(1,1),(0,2)]), &[0,1,2], &c(3), 0, 0.25, b()));
    println!("{:?}", sub_step(&e(&[(0,1),(1,0),(2,3),(3,2)]), &[0,1,2,3], &c(4), 0, 0.25, b()));
}
