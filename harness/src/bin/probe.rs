// scratch probe (not part of any check)
use toolbox_rs::dinic::Dinic;
use toolbox_rs::edmonds_karp::EdmondsKarp;
use toolbox_rs::ford_fulkerson::FordFulkerson;
use toolbox_rs::edge::InputEdge;
use toolbox_rs::max_flow::{MaxFlow, ResidualEdgeData};
fn go<S: MaxFlow>(name: &str) {
    let e: Vec<InputEdge<ResidualEdgeData>> = [(0, 1, 16), (0, 2, 13), (1, 2, 10), (1, 3, 12), (2, 1, 4), (2, 4, 14), (3, 2, 9), (3, 5, 20), (4, 3, 7), (4, 5, 4)]
        .iter().map(|(u, v, c)| InputEdge::new(*u, *v, ResidualEdgeData::new(*c))).collect();
    let mut s = S::from_edge_list(e, 0, 5);
    s.run();
    let a = s.max_flow();
    let c1 = s.assignment(0).map(|b| b.iter().map(|x| if *x {'1'} else {'0'}).collect::<String>());
    s.run();
    let b = s.max_flow();
    let c2 = s.assignment(0).map(|b| b.iter().map(|x| if *x {'1'} else {'0'}).collect::<String>());
    s.run_with_upper_bound(std::sync::Arc::new(std::sync::atomic::AtomicI32::new(100)));
    println!("{name}: first {a:?} {c1:?} second {b:?} {c2:?} third {:?}", s.max_flow());
}
fn main() {
    go::<Dinic>("dinic");
    go::<EdmondsKarp>("ek");
    go::<FordFulkerson>("ff");
}
