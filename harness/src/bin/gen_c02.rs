//! C02: the returned node assignment is the canonical minimum cut (same case stream as C01).
use tbx_harness::*;
#[path = "../flow_common.rs"]
mod flow_common;

fn main() {
    harness_main(flow_common::generate, |c, obs| flow_common::execute(c, obs, false, true));
}
