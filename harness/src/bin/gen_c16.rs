//! C16: SCC (Tarjan, path-based/Gabow), cycle check, Kruskal, union-find.
//! Real code: toolbox_rs::{tarjan::Tarjan, path_based_scc::PathBasedScc, cycle_check::cycle_check,
//! kruskal::kruskal, union_find::UnionFind} on toolbox_rs::static_graph::StaticGraph.
//! Case format: see lean/Tbx/Drv/C16.lean.
use tbx_harness::*;
use toolbox_rs::cycle_check::cycle_check;
use toolbox_rs::edge::{InputEdge, SimpleEdge};
use toolbox_rs::graph::Graph;
use toolbox_rs::kruskal::kruskal;
use toolbox_rs::path_based_scc::PathBasedScc;
use toolbox_rs::static_graph::StaticGraph;
use toolbox_rs::tarjan::Tarjan;
use toolbox_rs::union_find::UnionFind;

/// label every position by the first position carrying the same label
fn canon(labels: &[usize]) -> Vec<usize> {
    labels.iter().map(|l| labels.iter().position(|x| x == l).unwrap()).collect()
}

// ------------------------------------------------------------------------------------------------
// execution of the real code

const FP_MOD: u128 = 2305843009213693951;

/// fingerprint of one run (same definition as `fingerprint` in lean/Tbx/Drv/C16.lean)
fn fingerprint(a: &[usize], b: &[usize], cyc: bool) -> u128 {
    let mut xs: Vec<u128> = canon(a).iter().map(|x| *x as u128).collect();
    xs.push(9999);
    xs.extend(canon(b).iter().map(|x| *x as u128));
    xs.push(9999);
    xs.push(cyc as u128);
    xs.push(a.iter().filter(|x| **x == usize::MAX).count() as u128);
    xs.push(b.iter().filter(|x| **x == usize::MAX).count() as u128);
    xs.iter().fold(7u128, |h, x| (h * 31 + x + 1) % FP_MOD)
}

fn mask_edges(n: usize, mask: u64) -> Vec<InputEdge<i32>> {
    let mut es = Vec::new();
    for u in 0..n {
        for v in 0..n {
            if (mask >> (u * n + v)) & 1 == 1 {
                es.push(InputEdge::new(u, v, 1));
            }
        }
    }
    es
}

fn exec_scc(c: &Case, obs: &mut Vec<String>) {
    let mut tarjan = Tarjan::new();
    let mut gabow = PathBasedScc::default(); // `Default` = `new`; re-created objects below use `new`
    let mut pending: Vec<InputEdge<i32>> = Vec::new();
    let mut k = 0;
    for l in &c.ops {
        let t: Vec<&str> = l.split_whitespace().collect();
        let mut do_run = false;
        match t[0] {
            "e" => pending.push(InputEdge::new(t[1].parse().unwrap(), t[2].parse().unwrap(), 1)),
            "run" => do_run = true,
            "fresh" => {
                tarjan = Tarjan::new();
                gabow = PathBasedScc::new();
            }
            "gm" => {
                pending = mask_edges(t[1].parse().unwrap(), t[2].parse().unwrap());
                do_run = true;
            }
            "rep" => {
                // N consecutive analyses of one graph by the SAME objects; the first N-1 are only hashed
                let cnt: u64 = t[1].parse().unwrap();
                pending = mask_edges(t[2].parse().unwrap(), t[3].parse().unwrap());
                let mut h: u128 = 0;
                for _ in 1..cnt {
                    let graph = StaticGraph::<i32>::new(pending.clone());
                    let a = tarjan.run(&graph);
                    let b = gabow.run(&graph);
                    let cyc = cycle_check(&graph);
                    h = (h * 1000003 + fingerprint(&a, &b, cyc)) % FP_MOD;
                }
                obs.push(format!("D {k} S silent={} hash={h}", cnt.saturating_sub(1)));
                do_run = true;
            }
            _ => panic!("bad op"),
        }
        if do_run {
            let graph = StaticGraph::<i32>::new(std::mem::take(&mut pending));
            obs.push(format!("D {k} n={}", graph.number_of_nodes()));
            let a = tarjan.run(&graph);
            obs.push(format!("D {k} T {}", join(canon(&a), ",")));
            obs.push(format!("F {k} T {}", join(a.iter(), ",")));
            let b = gabow.run(&graph);
            obs.push(format!("D {k} G {}", join(canon(&b), ",")));
            obs.push(format!("F {k} G {}", join(b.iter(), ",")));
            let cyc = cycle_check(&graph);
            obs.push(format!("D {k} C {}", cyc as u8));
            k += 1;
        }
    }
}

fn exec_mst(c: &Case, obs: &mut Vec<String>) {
    let mut inp: Vec<SimpleEdge> = Vec::new();
    let mut k = 0;
    for l in &c.ops {
        let t: Vec<&str> = l.split_whitespace().collect();
        match t[0] {
            "w" => inp.push(SimpleEdge::new(t[1].parse().unwrap(), t[2].parse().unwrap(), t[3].parse().unwrap())),
            "kruskal" => {
                let cur = std::mem::take(&mut inp);
                let (cost, mst) = kruskal(&cur);
                obs.push(format!("D {k} cost={cost}"));
                // connectivity partition of 0..=max id induced by the returned edges (plain label merging)
                let n = cur.iter().map(|e| e.source.max(e.target)).max().unwrap_or(0) + 1;
                let mut lab: Vec<usize> = (0..n).collect();
                for e in &mst {
                    if e.source < n && e.target < n {
                        let (a, b) = (lab[e.source], lab[e.target]);
                        if a != b {
                            let (lo, hi) = (a.min(b), a.max(b));
                            for x in lab.iter_mut() {
                                if *x == hi {
                                    *x = lo
                                }
                            }
                        }
                    }
                }
                obs.push(format!("D {k} part={}", join(canon(&lab), ",")));
                obs.push(format!(
                    "F {k} mst={}",
                    join(mst.iter().map(|e| format!("{}-{}-{}", e.source, e.target, e.data)), ";")
                ));
                k += 1;
            }
            _ => panic!("bad op"),
        }
    }
}

fn exec_uf(c: &Case, obs: &mut Vec<String>) {
    let mut uf = UnionFind::new(0);
    let mut n = 0usize;
    let mut k = 0;
    for l in &c.ops {
        let t: Vec<&str> = l.split_whitespace().collect();
        let a = |i: usize| t[i].parse::<usize>().unwrap();
        match t[0] {
            "new" => {
                n = a(1);
                uf = UnionFind::new(n);
                continue;
            }
            "union" => {
                uf.union(a(1), a(2));
                obs.push(format!("D {k} nsets={}", uf.number_of_sets()));
            }
            "find" => {
                let r = uf.find(a(1));
                obs.push(format!("F {k} find={r}"));
            }
            "same" => {
                let x = uf.find(a(1));
                let y = uf.find(a(2));
                obs.push(format!("D {k} same={}", (x == y) as u8));
            }
            "nsets" => obs.push(format!("D {k} nsets={}", uf.number_of_sets())),
            "part" => {
                let reps: Vec<usize> = (0..n).map(|i| uf.find(i)).collect();
                obs.push(format!("D {k} part={}", join(canon(&reps), ",")));
                obs.push(format!("F {k} reps={}", join(reps.iter(), ",")));
            }
            _ => panic!("bad op"),
        }
        k += 1;
    }
}

fn execute(c: &Case, obs: &mut Vec<String>) {
    if c.family.starts_with("mst") {
        exec_mst(c, obs)
    } else if c.family.starts_with("uf") {
        exec_uf(c, obs)
    } else {
        exec_scc(c, obs)
    }
}

// ------------------------------------------------------------------------------------------------
// generation

fn push_graph(c: &mut Case, edges: &[(usize, usize)]) {
    for (u, v) in edges {
        c.op(format!("e {u} {v}"));
    }
    c.op("run");
}

/// random digraph with self-loops and parallel edges; `shape` picks the bias
fn random_digraph(rng: &mut Rng, n: usize, shape: u64) -> Vec<(usize, usize)> {
    let mut es = Vec::new();
    let r = |rng: &mut Rng| rng.below(n as u64) as usize;
    match shape {
        // uniform, density around the SCC phase transition
        0 => {
            let m = rng.below(3 * n as u64 + 1) as usize;
            for _ in 0..m {
                es.push((r(rng), r(rng)));
            }
        }
        // DAG (u < v) plus a few back edges: cross/forward edges and isolated back edges
        1 => {
            let m = rng.below(3 * n as u64 + 1) as usize;
            for _ in 0..m {
                let (a, b) = (r(rng), r(rng));
                if a != b {
                    es.push((a.min(b), a.max(b)));
                }
            }
            for _ in 0..rng.below(4) {
                let (a, b) = (r(rng), r(rng));
                es.push((a.max(b), a.min(b)));
            }
        }
        // several directed cycles over a random node order, joined by one-way edges
        2 => {
            let mut order: Vec<usize> = (0..n).collect();
            rng.shuffle(&mut order);
            let mut i = 0;
            let mut heads = Vec::new();
            while i < n {
                let len = 1 + rng.below(5.min((n - i) as u64)) as usize;
                let cyc = &order[i..i + len];
                if len > 1 || rng.chance(1, 3) {
                    for j in 0..len {
                        es.push((cyc[j], cyc[(j + 1) % len]));
                    }
                }
                heads.push(cyc[rng.below(len as u64) as usize]);
                i += len;
            }
            for w in heads.windows(2) {
                if rng.chance(2, 3) {
                    es.push((w[0], w[1]));
                }
            }
            for _ in 0..rng.below(n as u64 / 2 + 1) {
                let (a, b) = (rng.below(heads.len() as u64) as usize, rng.below(heads.len() as u64) as usize);
                if a < b {
                    es.push((heads[a], heads[b]));
                }
            }
            // parallel edges and a self-loop
            if !es.is_empty() && rng.chance(1, 2) {
                let e = *rng.pick(&es);
                es.push(e);
            }
            if rng.chance(1, 3) {
                let a = r(rng);
                es.push((a, a));
            }
        }
        // long chain with back edges of varying span (deep recursion, lowlink propagation over many levels)
        _ => {
            for i in 0..n.saturating_sub(1) {
                es.push((i, i + 1));
            }
            for _ in 0..1 + rng.below(4) {
                let (a, b) = (r(rng), r(rng));
                es.push((a.max(b), a.min(b)));
            }
            for _ in 0..rng.below(3) {
                es.push((r(rng), r(rng)));
            }
        }
    }
    rng.shuffle(&mut es);
    es
}

/// adjacency mask of an edge list on n nodes (bit u*n+v)
fn mask_of(n: usize, es: &[(usize, usize)]) -> u64 {
    es.iter().fold(0u64, |m, (u, v)| m | (1u64 << (u * n + v)))
}

/// a tiny graph whose LAST node has an edge (so that it really has `n` nodes), with a cycle and a tail
fn tiny_graph(rng: &mut Rng, n: usize) -> (usize, u64) {
    let mut es: Vec<(usize, usize)> = Vec::new();
    if n >= 2 {
        es.push((n - 2, n - 1));
        if rng.chance(1, 2) {
            es.push((n - 1, n - 2));
        }
    } else {
        es.push((0, 0));
    }
    for _ in 0..rng.below(n as u64 + 1) {
        es.push((rng.below(n as u64) as usize, rng.below(n as u64) as usize));
    }
    (n, mask_of(n, &es))
}

/// ONE Tarjan and ONE PathBasedScc object driven through long histories of runs on tiny graphs of varying
/// sizes (cycle_check, a pure function, is called along).  `rep N n mask` = N consecutive runs.
fn gen_long_reuse(rng: &mut Rng, tier: Tier, out: &mut Vec<Case>) {
    // two 3-cycles joined one way: components {0,1,2} {3,4,5}
    let big6 = (6usize, mask_of(6, &[(0, 1), (1, 2), (2, 0), (2, 3), (3, 4), (4, 5), (5, 3)]));
    let small2 = (2usize, mask_of(2, &[(0, 1)]));
    let rep = |c: &mut Case, n: u64, g: (usize, u64)| {
        c.op(format!("rep {n} {} {}", g.0, g.1));
    };
    // larger graph, many smaller ones, the larger one again exactly `gap` runs later
    for gap in [255u64, 256, 257, 511, 512, 65535, 65536, 65537] {
        if gap > 600 && tier == Tier::Quick && gap != 65536 {
            continue;
        }
        for first in [1u64, 2, 7] {
            let mut c = Case::new("scc-long-reuse");
            if first > 1 {
                rep(&mut c, first - 1, small2);
            }
            rep(&mut c, 1, big6);
            rep(&mut c, gap - 1, small2);
            rep(&mut c, 1, big6);
            rep(&mut c, 2, small2);
            rep(&mut c, 1, big6);
            out.push(c);
        }
    }
    // a graph larger than every earlier one exactly at history run `at`
    for at in [255u64, 256, 257, 258, 512, 513, 65536, 65537] {
        for variant in 0..2 {
            let mut c = Case::new("scc-long-reuse");
            // varying small sizes 1..3 before
            let mut left = at - 1;
            let mut i = 0;
            while left > 0 {
                let chunk = if variant == 0 { left } else { (1 + rng.below(97)).min(left) };
                let g = tiny_graph(rng, 1 + (i % 3));
                rep(&mut c, chunk, g);
                left -= chunk;
                i += 1;
            }
            rep(&mut c, 1, big6);
            let g = tiny_graph(rng, 4);
            rep(&mut c, 3, g);
            rep(&mut c, 1, big6);
            out.push(c);
        }
    }
    // random long histories: sizes go up and down, every size returns after various gaps
    let ncases = if tier == Tier::Quick { 12 } else { 60 };
    for i in 0..ncases {
        let mut c = Case::new("scc-long-reuse");
        let target: u64 = if i % 6 == 5 { 70_000 } else { 300 + rng.below(700) };
        let mut total = 0u64;
        let mut graphs: Vec<(usize, u64)> = Vec::new();
        for j in 0..5usize {
            let extra = rng.below(2) as usize;
            graphs.push(tiny_graph(rng, 1 + j + extra));
        }
        while total < target {
            let g = *rng.pick(&graphs);
            let big = rng.chance(1, 3);
            let chunk = if big { 1 + rng.below(if target > 10_000 { 30_000 } else { 260 }) } else { 1 + rng.below(4) };
            rep(&mut c, chunk, g);
            total += chunk;
        }
        // every graph once more at the end
        for g in &graphs {
            rep(&mut c, 1, *g);
        }
        out.push(c);
    }
}

fn gen_scc(rng: &mut Rng, tier: Tier, out: &mut Vec<Case>) {
    // D11 / D12 witnesses: two different graphs on one object
    {
        let mut c = Case::new("scc-witness");
        push_graph(&mut c, &[(0, 1), (1, 0), (1, 2)]);
        push_graph(&mut c, &[(0, 1), (1, 2), (2, 1), (2, 3), (3, 4), (4, 3)]);
        push_graph(&mut c, &[(0, 1)]);
        out.push(c);
    }
    // exhaustive: every digraph on <= N nodes incl. self-loops, fresh objects
    let nx: usize = if tier == Tier::Quick { 3 } else { 4 };
    let total: u64 = 1u64 << (nx * nx);
    // quick: one graph per case; thorough: 32 graphs per case, each on FRESH objects (`fresh` op), to
    // keep the number of cases (and the per-case file traffic of the executor) small
    let batch: u64 = if tier == Tier::Quick { 1 } else { 32 };
    let mut c = Case::new(&format!("scc-ex{nx}-fresh"));
    for mask in 0..total {
        if batch > 1 {
            c.op("fresh");
        }
        c.op(format!("gm {nx} {mask}"));
        if (mask + 1) % batch == 0 {
            out.push(std::mem::replace(&mut c, Case::new(&format!("scc-ex{nx}-fresh"))));
        }
    }
    // exhaustive again, on objects that already analysed 1-2 other graphs (bigger and smaller)
    let mut c = Case::new(&format!("scc-ex{nx}-reused"));
    for mask in 0..total {
        if batch > 1 {
            c.op("fresh");
        }
        let pre = 1 + rng.below(2);
        for j in 0..pre {
            // first a bigger one, then (if two) a smaller one; sometimes the other way round
            let bigger = (j == 0) ^ rng.chance(1, 4);
            let n = if bigger { nx + 1 + rng.below(3) as usize } else { 1 + rng.below(nx as u64 - 1) as usize };
            let shape = rng.below(3);
            let es = random_digraph(rng, n, shape);
            push_graph(&mut c, &es);
        }
        c.op(format!("gm {nx} {mask}"));
        if (mask + 1) % batch == 0 {
            out.push(std::mem::replace(&mut c, Case::new(&format!("scc-ex{nx}-reused"))));
        }
    }
    if tier == Tier::Thorough {
        // every digraph on 5 nodes without self-loops (2^20), 64 graphs per object
        let pairs: Vec<(usize, usize)> = (0..5).flat_map(|u| (0..5).filter(move |v| *v != u).map(move |v| (u, v))).collect();
        let mut c = Case::new("scc-ex5-chain");
        for m in 0..(1u64 << 20) {
            let mut mask = 0u64;
            for (i, (u, v)) in pairs.iter().enumerate() {
                if (m >> i) & 1 == 1 {
                    mask |= 1 << (u * 5 + v);
                }
            }
            c.op(format!("gm 5 {mask}"));
            if c.ops.len() == 64 {
                out.push(std::mem::replace(&mut c, Case::new("scc-ex5-chain")));
            }
        }
        if !c.ops.is_empty() {
            out.push(c);
        }
    }
    // random larger graphs, 1-3 runs per object with changing sizes
    let nrand = if tier == Tier::Quick { 400 } else { 6000 };
    for i in 0..nrand {
        let mut c = Case::new("scc-rand");
        let runs = 1 + rng.below(3);
        for _ in 0..runs {
            let n = if rng.chance(1, 5) { 1 + rng.below(5) as usize } else { 5 + rng.below(if i % 10 == 0 { 60 } else { 25 }) as usize };
            let shape = rng.below(4);
            let es = random_digraph(rng, n, shape);
            push_graph(&mut c, &es);
        }
        out.push(c);
    }
}

/// all multisets of size k over `types` (as index vectors, non-decreasing)
fn multisets(types: usize, k: usize, cur: &mut Vec<usize>, start: usize, out: &mut Vec<Vec<usize>>) {
    if cur.len() == k {
        out.push(cur.clone());
        return;
    }
    for t in start..types {
        cur.push(t);
        multisets(types, k, cur, t, out);
        cur.pop();
    }
}

/// append one kruskal input (shuffled, random orientations) to a case
fn mst_input(c: &mut Case, rng: &mut Rng, edges: &[(usize, usize, u32)]) {
    let mut es: Vec<(usize, usize, u32)> = edges.to_vec();
    rng.shuffle(&mut es);
    for (u, v, w) in es {
        if rng.chance(1, 2) { c.op(format!("w {u} {v} {w}")); } else { c.op(format!("w {v} {u} {w}")); }
    }
    c.op("kruskal");
}

fn mst_case(family: &str, rng: &mut Rng, edges: &[(usize, usize, u32)]) -> Case {
    let mut c = Case::new(family);
    let mut es: Vec<(usize, usize, u32)> = edges.to_vec();
    rng.shuffle(&mut es);
    for (u, v, w) in es {
        // orientation of an undirected edge is the caller's choice
        if rng.chance(1, 2) { c.op(format!("w {u} {v} {w}")); } else { c.op(format!("w {v} {u} {w}")); }
    }
    c.op("kruskal");
    c
}

fn gen_mst(rng: &mut Rng, tier: Tier, out: &mut Vec<Case>) {
    // literature examples of the unit tests + degenerate inputs
    out.push(mst_case("mst-witness", rng, &[]));
    out.push(mst_case("mst-witness", rng, &[(0, 0, 2)]));
    out.push(mst_case("mst-witness", rng, &[(0, 1, 1), (2, 3, 2)]));
    out.push(mst_case("mst-witness", rng, &[(0, 1, 7), (0, 3, 5), (1, 3, 9), (1, 2, 8), (1, 4, 7), (2, 4, 5), (3, 4, 15), (3, 5, 6), (5, 4, 8), (6, 4, 9), (5, 6, 11)]));
    // exhaustive: all multigraphs on <= 4 nodes, weights {1,2,3}, up to K edges (self-loops, duplicates, ties, disconnected)
    let mut types: Vec<(usize, usize, u32)> = Vec::new();
    for u in 0..4 {
        for v in u..4 {
            for w in 1..=3 {
                types.push((u, v, w));
            }
        }
    }
    let kmax = if tier == Tier::Quick { 3 } else { 5 };
    // thorough: 32 inputs per case
    let batch = if tier == Tier::Quick { 1 } else { 32 };
    for k in 1..=kmax {
        let mut ms = Vec::new();
        multisets(types.len(), k, &mut Vec::new(), 0, &mut ms);
        let fam = format!("mst-ex4-{k}");
        let mut c = Case::new(&fam);
        let mut inside = 0;
        for m in ms {
            let es: Vec<(usize, usize, u32)> = m.iter().map(|i| types[*i]).collect();
            mst_input(&mut c, rng, &es);
            inside += 1;
            if inside == batch {
                out.push(std::mem::replace(&mut c, Case::new(&fam)));
                inside = 0;
            }
        }
        if inside > 0 {
            out.push(c);
        }
    }
    if tier == Tier::Quick {
        // a sample of the 4- and 5-edge multigraphs
        for _ in 0..1500 {
            let k = 4 + rng.below(2) as usize;
            let es: Vec<(usize, usize, u32)> = (0..k).map(|_| *rng.pick(&types)).collect();
            out.push(mst_case("mst-ex4-sample", rng, &es));
        }
    }
    // random larger ones: few distinct weights (ties), or weights near the top of u32/len
    let nrand = if tier == Tier::Quick { 300 } else { 5000 };
    for i in 0..nrand {
        let n = 2 + rng.below(if i % 8 == 0 { 40 } else { 12 }) as usize;
        let m = rng.below(3 * n as u64 + 1) as usize;
        let big = rng.chance(1, 6);
        let wmax: u64 = if big { (u32::MAX as u64) / (m as u64 + 1) } else { 1 + rng.below(6) };
        let mut es = Vec::new();
        for _ in 0..m {
            let (u, v) = (rng.below(n as u64) as usize, rng.below(n as u64) as usize);
            let w = if big { wmax - rng.below(4) } else { 1 + rng.below(wmax) } as u32;
            es.push((u, v, w));
        }
        // sometimes force several components
        if rng.chance(1, 3) {
            let cut = rng.below(n as u64) as usize;
            es.retain(|e| (e.0 < cut) == (e.1 < cut));
        }
        out.push(mst_case("mst-rand", rng, &es));
    }
    // weights with the top bit set (2^31 ..= u32::MAX) are valid u32 weights: a light spanning tree, heavy edges
    // that close cycles (never part of a minimum forest) and at most one heavy bridge, so that the cost still fits
    // u32 (seeded change C16-r4m3: heap key `edge.data as i32`)
    out.push(mst_case("mst-heavy", rng, &[(0, 1, 1), (1, 2, 2), (0, 2, 2147483648)]));
    let nheavy = if tier == Tier::Quick { 150 } else { 3000 };
    for i in 0..nheavy {
        let n = 3 + rng.below(8) as usize;
        let mut es: Vec<(usize, usize, u32)> = Vec::new();
        let mut light: u64 = 0;
        for v in 1..n {
            let w = 1 + rng.below(100) as u32;
            light += w as u64;
            es.push((rng.below(v as u64) as usize, v, w));
        }
        for _ in 0..1 + rng.below(4) {
            let (u, v) = (rng.below(n as u64) as usize, rng.below(n as u64) as usize);
            let w = *rng.pick(&[2147483648u32, 2147483649, 3000000000, u32::MAX - 1, u32::MAX]);
            es.push((u, v, w));
        }
        if i % 3 == 0 {
            // one heavy bridge to a new node
            let w = 2147483648u64 + rng.below((u32::MAX as u64) - 2147483648 - light);
            es.push((rng.below(n as u64) as usize, n, w as u32));
        }
        out.push(mst_case("mst-heavy", rng, &es));
    }
}

fn gen_uf(rng: &mut Rng, tier: Tier, out: &mut Vec<Case>) {
    // unit-test shapes
    {
        let mut c = Case::new("uf-witness");
        c.op("new 10");
        for i in 0..10 {
            c.op(format!("union 3 {i}"));
        }
        c.op("part");
        c.op("nsets");
        out.push(c);
    }
    let ncases = if tier == Tier::Quick { 600 } else { 20000 };
    for i in 0..ncases {
        let mut c = Case::new(if i % 3 == 0 { "uf-binomial" } else { "uf-rand" });
        let n = if i % 3 == 0 { 4 + rng.below(29) as usize } else { 1 + rng.below(14) as usize };
        c.op(format!("new {n}"));
        let mut nops = 10 + rng.below(50) as usize;
        if i % 3 == 0 {
            // build deep trees first: join blocks of equal size pairwise (ranks grow), in random element order
            let mut perm: Vec<usize> = (0..n).collect();
            rng.shuffle(&mut perm);
            let mut width = 1;
            while width < n {
                let mut b = 0;
                while b + width < n {
                    if rng.chance(7, 8) {
                        // any element of the left block with any element of the right block
                        let x = perm[b + rng.below(width as u64) as usize];
                        let hi = (b + 2 * width).min(n);
                        let y = perm[b + width + rng.below((hi - b - width) as u64) as usize];
                        if rng.chance(1, 2) { c.op(format!("union {x} {y}")); } else { c.op(format!("union {y} {x}")); }
                    }
                    b += 2 * width;
                }
                width *= 2;
            }
            nops = 5 + rng.below(25) as usize;
        }
        for _ in 0..nops {
            let x = rng.below(n as u64);
            let y = rng.below(n as u64);
            match rng.below(10) {
                0..=3 => c.op(format!("union {x} {y}")),
                4..=5 => c.op(format!("find {x}")),
                6..=7 => c.op(format!("same {x} {y}")),
                8 => c.op("nsets"),
                _ => c.op("part"),
            };
        }
        c.op("part");
        c.op("nsets");
        out.push(c);
    }
}

fn generate(rng: &mut Rng, tier: Tier, out: &mut Vec<Case>) {
    let mut r1 = rng.fork();
    let mut r2 = rng.fork();
    let mut r3 = rng.fork();
    gen_scc(&mut r1, tier, out);
    let mut r4 = rng.fork();
    gen_long_reuse(&mut r4, tier, out);
    gen_mst(&mut r2, tier, out);
    gen_uf(&mut r3, tier, out);
}

fn main() {
    harness_main(generate, execute)
}
