//! C04: every interleaving of the bound accesses of 1-4 concurrently running real Dinic solvers.
//!
//! The cargo feature `verif` of /repo puts a yield point immediately before `bound.load` and before
//! `bound.fetch_min` in Dinic::run.  A deterministic scheduler holds a baton: exactly one solver thread
//! advances between two yield points, so an execution is a pure function of the schedule (the list of
//! solver ids that are released, one bound access each).
use std::cell::Cell;
use std::sync::atomic::{AtomicI32, Ordering};
use std::sync::{Arc, Condvar, Mutex, OnceLock};
use tbx_harness::*;
use toolbox_rs::dinic::Dinic;
use toolbox_rs::edge::InputEdge;
use toolbox_rs::max_flow::{MaxFlow, ResidualEdgeData};
use toolbox_rs::verif_hooks::{YieldKind, set_yield_callback};

#[derive(Clone, Debug)]
struct Graph {
    s: usize,
    t: usize,
    edges: Vec<(usize, usize, i32)>,
    /// the solver first completes a plain `run()` and only then joins the shared bound through
    /// `run_with_upper_bound` (family finished-first): a computation with no phase left, whose only event is
    /// the `fetch_min` of its - already known - maximum flow
    pre: bool,
}

#[derive(Default)]
struct State {
    turn: Option<usize>,
    at_yield: Vec<Option<(YieldKind, i32)>>,
    done: Vec<Option<Result<(i32, String), String>>>,
}

struct Sched {
    m: Mutex<State>,
    cv: Condvar,
}

thread_local! { static TID: Cell<Option<usize>> = const { Cell::new(None) }; }

fn current() -> &'static Mutex<Option<Arc<Sched>>> {
    static CUR: OnceLock<Mutex<Option<Arc<Sched>>>> = OnceLock::new();
    CUR.get_or_init(|| Mutex::new(None))
}

fn install_callback() {
    static ONCE: OnceLock<()> = OnceLock::new();
    ONCE.get_or_init(|| {
        set_yield_callback(Some(Arc::new(|kind, flow| {
            let Some(tid) = TID.with(|t| t.get()) else { return };
            let sched = current().lock().unwrap().clone();
            let Some(sched) = sched else { return };
            let mut st = sched.m.lock().unwrap();
            st.at_yield[tid] = Some((kind, flow));
            st.turn = None;
            sched.cv.notify_all();
            while st.turn != Some(tid) {
                st = sched.cv.wait(st).unwrap();
            }
            st.at_yield[tid] = None;
        })));
    });
}

#[derive(Clone, Debug, Default)]
struct Trace {
    /// (index among enabled solvers, number of enabled solvers, solver id)
    choices: Vec<(usize, usize, usize)>,
    obs: Vec<String>,
}

fn kind_name(k: YieldKind) -> &'static str {
    match k {
        YieldKind::BoundLoad => "load",
        YieldKind::BoundFetchMin => "fmin",
    }
}

/// run the real solvers under `schedule` (solver ids); when the schedule is exhausted or names a solver
/// that is already done, the lowest-numbered running solver is released (`auto`), or a noop is recorded
fn run_schedule(graphs: &[Graph], b0: i32, schedule: &[usize], follow_prefix_by_index: Option<&[usize]>) -> Trace {
    install_callback();
    let n = graphs.len();
    let sched = Arc::new(Sched { m: Mutex::new(State { turn: None, at_yield: vec![None; n], done: vec![None; n] }), cv: Condvar::new() });
    *current().lock().unwrap() = Some(sched.clone());
    let bound = Arc::new(AtomicI32::new(b0));
    let mut handles = Vec::new();
    for (tid, g) in graphs.iter().enumerate() {
        let sched = sched.clone();
        let bound = bound.clone();
        let g = g.clone();
        handles.push(std::thread::spawn(move || {
            TID.with(|t| t.set(Some(tid)));
            {
                let mut st = sched.m.lock().unwrap();
                while st.turn != Some(tid) {
                    st = sched.cv.wait(st).unwrap();
                }
            }
            let edges: Vec<InputEdge<ResidualEdgeData>> =
                g.edges.iter().map(|(u, v, c)| InputEdge::new(*u, *v, ResidualEdgeData::new(*c))).collect();
            // a panic inside the solver must not leave the scheduler waiting forever
            let res = std::panic::catch_unwind(std::panic::AssertUnwindSafe(|| {
                // every second computation is built through the provided trait constructor
                // `from_generic_edge_list` (identity closure over the same edges): both constructors must yield
                // the same computation (seeded change C04-r4m1: the generic one dropped identical parallel edges)
                let mut solver = if tid % 2 == 1 {
                    let raw: Vec<InputEdge<i32>> = g.edges.iter().map(|(u, v, c)| InputEdge::new(*u, *v, *c)).collect();
                    Dinic::from_generic_edge_list(&raw, g.s, g.t, |e| ResidualEdgeData::new(e.data))
                } else {
                    Dinic::from_edge_list(edges, g.s, g.t)
                };
                if g.pre {
                    solver.run();
                }
                solver.run_with_upper_bound(bound);
                solver.max_flow().map(|v| {
                    let bits: String = match solver.assignment(g.s) {
                        Ok(a) => a.iter().map(|b| if *b { '1' } else { '0' }).collect(),
                        Err(_) => "ERR".to_string(),
                    };
                    (v, bits)
                })
            }))
            .unwrap_or_else(|_| Err("PANIC".to_string()));
            let mut st = sched.m.lock().unwrap();
            st.done[tid] = Some(res);
            st.turn = None;
            sched.cv.notify_all();
        }));
    }
    let release = |tid: usize| {
        let mut st = sched.m.lock().unwrap();
        st.turn = Some(tid);
        sched.cv.notify_all();
        while !(st.turn.is_none() && (st.at_yield[tid].is_some() || st.done[tid].is_some())) {
            st = sched.cv.wait(st).unwrap();
        }
    };
    // every solver runs (alone) up to its first bound access
    for tid in 0..n {
        release(tid);
    }
    let mut tr = Trace::default();
    let mut k = 0;
    let mut pos = 0;
    loop {
        let enabled: Vec<usize> = {
            let st = sched.m.lock().unwrap();
            (0..n).filter(|i| st.done[*i].is_none()).collect()
        };
        let tid = if let Some(prefix) = follow_prefix_by_index {
            // exploration mode: choice indices among the enabled solvers, then index 0
            if enabled.is_empty() {
                break;
            }
            let idx = if pos < prefix.len() { prefix[pos] } else { 0 };
            pos += 1;
            tr.choices.push((idx, enabled.len(), enabled[idx]));
            enabled[idx]
        } else if pos < schedule.len() {
            let t = schedule[pos];
            pos += 1;
            if t >= n || !enabled.contains(&t) {
                tr.obs.push(format!("D {k} i={t} kind=noop"));
                k += 1;
                continue;
            }
            t
        } else {
            if enabled.is_empty() {
                break;
            }
            enabled[0]
        };
        let (kind, flow) = sched.m.lock().unwrap().at_yield[tid].expect("solver not at a yield point");
        release(tid);
        let st = sched.m.lock().unwrap();
        let status = match &st.done[tid] {
            None => "R",
            Some(Ok(_)) => "F",
            Some(Err(_)) => "A",
        };
        tr.obs.push(format!("D {k} i={tid} kind={} flow={flow} st={status} bound={}", kind_name(kind), bound.load(Ordering::SeqCst)));
        k += 1;
    }
    for h in handles {
        let _ = h.join();
    }
    *current().lock().unwrap() = None;
    let st = sched.m.lock().unwrap();
    for tid in 0..n {
        match &st.done[tid] {
            Some(Ok((v, a))) => tr.obs.push(format!("D out i={tid} st=F value={v} assign={a}")),
            Some(Err(_)) => tr.obs.push(format!("D out i={tid} st=A value=ERR assign=-")),
            None => tr.obs.push(format!("D out i={tid} st=R value=? assign=-")),
        }
    }
    tr.obs.push(format!("D final bound={}", bound.load(Ordering::SeqCst)));
    tr
}

/// accumulated flows after each phase of an unbounded run (bound i32::MAX never aborts)
fn phases(g: &Graph) -> Vec<i32> {
    let tr = run_schedule(std::slice::from_ref(g), i32::MAX, &[], None);
    tr.obs
        .iter()
        .filter(|l| l.contains("kind=load"))
        .map(|l| l.split_whitespace().find_map(|w| w.strip_prefix("flow=")).unwrap().parse().unwrap())
        .collect()
}

fn random_graph(rng: &mut Rng) -> Graph {
    let n = rng.range(4, 7) as usize;
    let m = rng.range(5, 14) as usize;
    let mut edges = Vec::new();
    for _ in 0..m {
        let u = rng.below(n as u64) as usize;
        let v = rng.below(n as u64) as usize;
        edges.push((u, v, rng.range(0, 4) as i32));
    }
    // identical parallel edges (same end points, same capacity), adjacent and apart
    if rng.chance(1, 2) && !edges.is_empty() {
        let e = *rng.pick(&edges);
        edges.push(e);
        let k = rng.below(edges.len() as u64) as usize;
        edges.insert(k, e);
    }
    // make sure the node count covers source and target
    edges.push((0, 1 % n, 1));
    edges.push((n - 2, n - 1, rng.range(1, 3) as i32));
    Graph { s: 0, t: n - 1, edges, pre: false }
}

/// trunk -> hub -> fan of branches -> sink, plus a source-sink shortcut: needs several phases, and in the
/// later phases one DFS augments repeatedly over the shared trunk (stale bottlenecks on the DFS stack)
fn fan_graph(rng: &mut Rng) -> Graph {
    let trunk = rng.range(1, 2) as usize;
    let branches = rng.range(2, 4) as usize;
    let hub = trunk; // nodes 0..=trunk form the trunk, hub = last trunk node
    let sink = hub + branches + 1;
    let mut edges = Vec::new();
    if rng.chance(3, 4) {
        edges.push((0, sink, rng.range(1, 3) as i32));
    }
    for i in 0..trunk {
        edges.push((i, i + 1, rng.range(6, 14) as i32));
    }
    for b in 0..branches {
        let node = hub + 1 + b;
        edges.push((hub, node, rng.range(1, 9) as i32));
        edges.push((node, sink, rng.range(1, 9) as i32));
    }
    if rng.chance(2, 3) {
        edges.push((hub, sink, rng.range(1, 8) as i32));
    }
    if rng.chance(1, 3) {
        // a cross edge between two branches
        edges.push((hub + 1, hub + 2, rng.range(1, 4) as i32));
    }
    if rng.chance(1, 2) {
        rng.shuffle(&mut edges);
    }
    Graph { s: 0, t: sink, edges, pre: false }
}

fn render_case(family: &str, graphs: &[Graph], ph: &[Vec<i32>], b0: i32, sched: &[usize]) -> Case {
    let mut c = Case::new(family);
    c.op(format!("N {}", graphs.len()));
    c.op(format!("B {b0}"));
    for (i, g) in graphs.iter().enumerate() {
        if g.pre {
            // phases of the plain run are over before the bound is joined; F = its last accumulated flow
            c.op(format!("PR {i} {}", ph[i].last().copied().unwrap_or(0)));
        } else {
            c.op(format!("P {i} {}", join(ph[i].iter(), " ")));
        }
        c.op(format!("G {i} {} {} {}", g.s, g.t, join(g.edges.iter().map(|(u, v, w)| format!("{u}:{v}:{w}")), " ")));
    }
    c.op(format!("S {}", join(sched.iter(), " ")));
    c
}

fn explore_all(graphs: &[Graph], ph: &[Vec<i32>], b0: i32, family: &str, cap: usize, cases: &mut Vec<Case>) -> usize {
    let mut prefix: Vec<usize> = Vec::new();
    let mut count = 0;
    loop {
        let tr = run_schedule(graphs, b0, &[], Some(&prefix));
        let sched: Vec<usize> = tr.choices.iter().map(|c| c.2).collect();
        cases.push(render_case(family, graphs, ph, b0, &sched));
        count += 1;
        if count >= cap {
            return count;
        }
        let mut p = tr.choices.len();
        loop {
            if p == 0 {
                return count;
            }
            p -= 1;
            if tr.choices[p].0 + 1 < tr.choices[p].1 {
                prefix = tr.choices[..p].iter().map(|c| c.0).collect();
                prefix.push(tr.choices[p].0 + 1);
                break;
            }
        }
    }
}

fn generate(rng: &mut Rng, tier: Tier, cases: &mut Vec<Case>) {
    // pools of graphs by number of phases of the unbounded run
    let mut pool: Vec<Vec<(Graph, Vec<i32>)>> = vec![Vec::new(); 5];
    let mut tries = 0;
    while tries < 4000 && pool[1..4].iter().any(|p| p.len() < 6) {
        tries += 1;
        let g = random_graph(rng);
        let ph = phases(&g);
        let k = ph.len().min(4);
        if pool[k].len() < 6 {
            pool[k].push((g, ph));
        }
    }
    let pick = |rng: &mut Rng, pool: &Vec<Vec<(Graph, Vec<i32>)>>| -> (Graph, Vec<i32>) {
        loop {
            let k = rng.below(4) as usize;
            if !pool[k].is_empty() {
                return rng.pick(&pool[k]).clone();
            }
        }
    };
    // sequential clause: one solver, every initial bound from 0 to above the flow
    for k in 0..4 {
        for (g, ph) in pool[k].iter().take(3) {
            let f = *ph.last().unwrap_or(&0);
            for b0 in 0..=(f + 1) {
                explore_all(std::slice::from_ref(g), std::slice::from_ref(ph), b0, "sequential", 10, cases);
            }
        }
    }
    // sequential clause on fan-shaped multi-phase instances: every bound from 0 to well above the flow
    let n_fans = match tier {
        Tier::Quick => 60,
        Tier::Thorough => 1200,
    };
    let mut fans: Vec<(Graph, Vec<i32>)> = vec![(
        // witness of a seeded change (stale DFS-stack bottleneck used for an early abort): true flow 11
        Graph { s: 0, t: 5, edges: vec![(0, 5, 1), (0, 1, 10), (1, 2, 10), (2, 3, 8), (2, 4, 2), (2, 5, 6), (3, 5, 8), (4, 5, 2)], pre: false },
        Vec::new(),
    )];
    fans[0].1 = phases(&fans[0].0);
    for _ in 0..n_fans {
        let g = fan_graph(rng);
        let ph = phases(&g);
        if ph.len() >= 2 {
            fans.push((g, ph));
        }
    }
    for (g, ph) in &fans {
        let f = *ph.last().unwrap_or(&0);
        for b0 in 0..=(f + 6) {
            explore_all(std::slice::from_ref(g), std::slice::from_ref(ph), b0, "sequential-fan", 10, cases);
        }
    }
    // two fan instances against each other (all interleavings, bounds around both flows)
    let fan_pairs = match tier {
        Tier::Quick => 6,
        Tier::Thorough => 60,
    };
    for _ in 0..fan_pairs {
        let a = rng.pick(&fans).clone();
        let b = rng.pick(&fans).clone();
        if a.1.len() + b.1.len() > 7 {
            continue;
        }
        let fa = *a.1.last().unwrap_or(&0);
        let fb = *b.1.last().unwrap_or(&0);
        let graphs = vec![a.0.clone(), b.0.clone()];
        let ph = vec![a.1.clone(), b.1.clone()];
        for b0 in [fa.min(fb), fa.max(fb), fa.max(fb) + 2] {
            explore_all(&graphs, &ph, b0, "fan-pairs-2", 2000, cases);
        }
    }
    // finished-first: one or more of the computations complete a plain `run()` before they join the shared bound
    // through `run_with_upper_bound` (seeded change C04-r4m2: a finished solver returned early and never
    // published its flow); alone for every initial bound, and against one or two ordinary computations
    let n_pre = match tier {
        Tier::Quick => 10,
        Tier::Thorough => 120,
    };
    for j in 0..n_pre {
        let (g, ph) = pick(rng, &pool);
        let f = *ph.last().unwrap_or(&0);
        let gp = Graph { pre: true, ..g.clone() };
        for b0 in 0..=(f + 2) {
            explore_all(std::slice::from_ref(&gp), std::slice::from_ref(&ph), b0, "finished-first", 4, cases);
        }
        let others: Vec<(Graph, Vec<i32>)> = (0..1 + j % 2).map(|_| pick(rng, &pool)).collect();
        if others.iter().map(|x| x.1.len() + 1).sum::<usize>() > 7 {
            continue;
        }
        let mut graphs = vec![gp.clone()];
        let mut phs = vec![ph.clone()];
        for (k, (og, oph)) in others.iter().enumerate() {
            graphs.push(Graph { pre: j % 3 == 0 && k == 1, ..og.clone() });
            phs.push(oph.clone());
        }
        if j % 2 == 1 {
            graphs.reverse();
            phs.reverse();
        }
        let maxf = phs.iter().map(|p| *p.last().unwrap_or(&0)).max().unwrap();
        for b0 in [0, f, maxf, maxf + 1] {
            explore_all(&graphs, &phs, b0, "finished-first", 300, cases);
        }
    }
    // concurrent: all interleavings, all initial bounds
    let (combos2, combos3, combos4, cap) = match tier {
        Tier::Quick => (24, 6, 1, 2000),
        Tier::Thorough => (14, 5, 2, 40000),
    };
    for (n, combos) in [(2usize, combos2), (3, combos3), (4, combos4)] {
        for _ in 0..combos {
            let sel: Vec<(Graph, Vec<i32>)> = (0..n).map(|_| pick(rng, &pool)).collect();
            // keep the interleaving count in check for 3-4 solvers
            let events: usize = sel.iter().map(|x| x.1.len() + 1).sum();
            if n >= 3 && events > (if n == 3 { 9 } else { 10 }) {
                continue;
            }
            let graphs: Vec<Graph> = sel.iter().map(|x| x.0.clone()).collect();
            let ph: Vec<Vec<i32>> = sel.iter().map(|x| x.1.clone()).collect();
            let maxf = ph.iter().map(|p| *p.last().unwrap_or(&0)).max().unwrap();
            let bounds: Vec<i32> = if n == 2 || tier == Tier::Thorough { (0..=maxf + 1).collect() } else { vec![0, maxf / 2, maxf + 1] };
            for b0 in bounds {
                explore_all(&graphs, &ph, b0, &format!("all-interleavings-{n}"), cap, cases);
            }
        }
    }
}

fn execute(c: &Case, obs: &mut Vec<String>) {
    let mut graphs: Vec<Graph> = Vec::new();
    let mut b0 = 0;
    let mut sched: Vec<usize> = Vec::new();
    for l in &c.ops {
        let t: Vec<&str> = l.split_whitespace().collect();
        match t[0] {
            "N" => graphs = vec![Graph { s: 0, t: 0, edges: vec![], pre: false }; t[1].parse().unwrap()],
            "PR" => graphs[t[1].parse::<usize>().unwrap()].pre = true,
            "B" => b0 = t[1].parse().unwrap(),
            "G" => {
                let i: usize = t[1].parse().unwrap();
                graphs[i].s = t[2].parse().unwrap();
                graphs[i].t = t[3].parse().unwrap();
                graphs[i].edges = t[4..]
                    .iter()
                    .map(|e| {
                        let p: Vec<&str> = e.split(':').collect();
                        (p[0].parse().unwrap(), p[1].parse().unwrap(), p[2].parse().unwrap())
                    })
                    .collect();
            }
            "S" => sched = t[1..].iter().map(|x| x.parse().unwrap()).collect(),
            _ => {}
        }
    }
    let tr = run_schedule(&graphs, b0, &sched, None);
    obs.extend(tr.obs);
}

fn main() {
    harness_main(generate, execute);
}
