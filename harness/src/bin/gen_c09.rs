//! C09: retrieved Dijkstra paths.  Same graph families and executor as gen_c08.rs (included as a
//! module), in path mode: after every query the path of EVERY node is retrieved from the reused
//! search object (`F k paths …`), plus the determined facts (`D k … dist/ok/T`, target path some|none).
#[path = "gen_c08.rs"]
mod c08;
use tbx_harness::*;

fn generate(rng: &mut Rng, tier: Tier, cases: &mut Vec<Case>) {
    c08::generate_mode(rng, tier, cases, c08::Mode::C09)
}

fn execute(c: &Case, obs: &mut Vec<String>) {
    c08::execute_mode(c, obs, c08::Mode::C09)
}

fn main() {
    harness_main(generate, execute);
}
