//! C07: graph_plier and the loaders preserve the input graph.
//!
//! Real code: the `graph_plier` binary of /repo (run as a subprocess on generated DIMACS / METIS / DDSG
//! files) and the library loaders `io::read_graph_into_trivial_edges`, `io::read_vec_from_file` (in process,
//! on the files the binary wrote).  Case format: see lean/Tbx/Drv/C07.lean.
//!
//! Every text line travels as `G|C <annotation> ; <text>|`: the annotation is the abstract item (numbers as
//! the format defines them), the text one concrete spelling of it (spacing, signs, leading zeros).  The
//! judge re-derives the expected lists from the annotations alone.
//!
//! Thorough tier only, family `huge`: `HUGE metis-ring <n> <ring> <deg> <ncoords>` stands for a METIS file pair
//! that both this harness and the Lean driver expand from the parameters (lean/Tbx/Drv/C07Huge.lean has the
//! definition); observations are lengths, SHA-256 digests, counts and the first/last three entries.
use std::io::Write as _;
use std::panic::{AssertUnwindSafe, catch_unwind};
use std::process::{Command, Stdio};
use tbx_harness::*;
use toolbox_rs::edge::InputEdge;
use toolbox_rs::geometry::FPCoordinate;
use toolbox_rs::io;

// SHA-256 twin of lean/Tbx/Drv/Sha256.lean (shared with gen_c05 / gen_c06; only `sha256_hex` is used here)
#[path = "../chipper_common.rs"]
mod chipper_common;
use chipper_common::sha256_hex;

// ------------------------------------------------------------------------------------------------
// abstract model the files are rendered from

/// 0-based endpoints, weight, DDSG direction code (0 both, 1 forward, 2 backward, 3 closed)
#[derive(Clone, Copy, Debug)]
struct Arc {
    u: u64,
    v: u64,
    w: u64,
    dir: u8,
}

/// decimal number mant / 10^scale (unit: 1e-5 degree)
#[derive(Clone, Copy, Debug)]
struct Dec {
    mant: i64,
    scale: u32,
}

const WEIGHTS: [u64; 16] = [
    0,
    1,
    2,
    250,
    251,
    252,
    255,
    256,
    65535,
    65536,
    65537,
    (1 << 32) - 1,
    1 << 32,
    (1 << 32) + 1,
    1 << 63,
    u64::MAX,
];

fn rand_bits(rng: &mut Rng, max_bits: u64) -> u64 {
    let bits = 1 + rng.below(max_bits);
    if bits >= 64 { rng.next() } else { rng.next() & ((1u64 << bits) - 1) }
}

fn rand_weight(rng: &mut Rng, wide: bool) -> u64 {
    if !wide {
        return *rng.pick(&[1u64, 2, 3, 7, 10, 100, 250, 251, 300, 1000, 70000]);
    }
    if rng.chance(1, 2) { *rng.pick(&WEIGHTS) } else { rand_bits(rng, 64) }
}

// ------------------------------------------------------------------------------------------------
// spellings

fn sep(rng: &mut Rng, fancy: bool) -> &'static str {
    if !fancy || rng.chance(3, 4) {
        " "
    } else {
        *rng.pick(&["  ", "\t", " \t", "   ", "\t\t"])
    }
}

fn trail(rng: &mut Rng, fancy: bool) -> &'static str {
    if fancy && rng.chance(1, 6) { *rng.pick(&[" ", "  ", "\t", " \t "]) } else { "" }
}

fn lead(rng: &mut Rng, fancy: bool) -> &'static str {
    if fancy && rng.chance(1, 8) { *rng.pick(&[" ", "  ", "\t"]) } else { "" }
}

/// an unsigned number as `usize::from_str` accepts it
fn spell_u(rng: &mut Rng, x: u64, fancy: bool) -> String {
    if fancy && rng.chance(1, 12) {
        match rng.below(3) {
            0 => format!("+{x}"),
            1 => format!("0{x}"),
            _ => format!("000{x}"),
        }
    } else {
        format!("{x}")
    }
}

/// a signed number as `i32::from_str` accepts it
fn spell_i(rng: &mut Rng, x: i64, fancy: bool) -> String {
    if fancy && rng.chance(1, 12) {
        if x < 0 {
            format!("-0{}", -x)
        } else if rng.chance(1, 2) {
            format!("+{x}")
        } else if x == 0 && rng.chance(1, 2) {
            "-0".to_string()
        } else {
            format!("00{x}")
        }
    } else {
        format!("{x}")
    }
}

/// a decimal as `f64::from_str` accepts it (no exponent)
fn spell_dec(rng: &mut Rng, d: Dec, fancy: bool) -> String {
    let neg = d.mant < 0;
    let a = d.mant.unsigned_abs();
    let p = 10u64.pow(d.scale);
    let ip = a / p;
    let fp = a % p;
    let mut s = String::new();
    if neg {
        s.push('-');
    } else if fancy && rng.chance(1, 15) {
        s.push('+');
    }
    if fancy && rng.chance(1, 15) {
        s.push_str("00");
    }
    if d.scale == 0 {
        s.push_str(&format!("{ip}"));
        if fancy && rng.chance(1, 20) {
            s.push('.');
        }
    } else {
        if !(ip == 0 && fancy && rng.chance(1, 6)) {
            s.push_str(&format!("{ip}"));
        }
        s.push('.');
        s.push_str(&format!("{:0width$}", fp, width = d.scale as usize));
    }
    s
}

const COMMENTS: [&str; 12] = [
    "c",
    "c ",
    "c 9th DIMACS Implementation Challenge: Shortest Paths",
    "c graph contains 264346 nodes and 733846 arcs",
    "c a 1 2 3",
    "c\ta 4 5 6",
    "c p sp 1 1",
    "c v 1 2 3",
    "c ; | # % weird ; chars |",
    "comment without a blank",
    "c    indented   text   ",
    "c 1 2 3",
];

fn comment(rng: &mut Rng) -> String {
    rng.pick(&COMMENTS).to_string()
}

// ------------------------------------------------------------------------------------------------
// rendering

struct FileOut {
    fmt: &'static str,
    crlf: bool,
    final_nl: bool,
    g: Vec<(String, String)>, // (annotation, text)
    c: Vec<(String, String)>,
}

impl FileOut {
    fn new(fmt: &'static str, rng: &mut Rng, fancy: bool) -> Self {
        FileOut { fmt, crlf: fancy && rng.chance(1, 6), final_nl: !(fancy && rng.chance(1, 4)), g: vec![], c: vec![] }
    }
    fn into_case(mut self, family: &str) -> Case {
        // a file cannot end in an empty line without a terminator
        if self.g.last().map(|l| l.1.is_empty()).unwrap_or(true) || self.c.last().map(|l| l.1.is_empty()).unwrap_or(true) {
            self.final_nl = true;
        }
        let mut case = Case::new(family);
        case.op(format!("F {} eol={} final={}", self.fmt, if self.crlf { "crlf" } else { "lf" }, if self.final_nl { 1 } else { 0 }));
        for (a, t) in &self.g {
            case.op(format!("G {a} ; {t}|"));
        }
        for (a, t) in &self.c {
            case.op(format!("C {a} ; {t}|"));
        }
        case
    }
}

/// DIMACS .gr and .co; `n` nodes announced, arcs 0-based in `arcs`, integer coordinates (lon, lat)
fn render_dimacs(rng: &mut Rng, n: u64, arcs: &[Arc], coords: &[(i64, i64)], fancy: bool, comments: u64) -> FileOut {
    let mut f = FileOut::new("dimacs", rng, fancy);
    let pre = rng.below(comments + 1);
    for _ in 0..pre {
        f.g.push(("c".into(), comment(rng)));
    }
    let m = if fancy && rng.chance(1, 10) { rng.below(1000) } else { arcs.len() as u64 };
    let kind = if fancy && rng.chance(1, 5) { "xyz" } else { "sp" };
    f.g.push((format!("p {n} {m}"), format!("p{}{kind}{}{}{}{}{}", sep(rng, fancy), sep(rng, fancy), spell_u(rng, n, fancy), sep(rng, fancy), spell_u(rng, m, fancy), trail(rng, fancy))));
    for a in arcs {
        if comments > 0 && rng.chance(1, 7) {
            f.g.push(("c".into(), comment(rng)));
        }
        let first = if fancy && rng.chance(1, 6) { "\t" } else { " " };
        let more = if fancy && rng.chance(1, 8) { " " } else { "" };
        f.g.push((
            format!("a {} {} {}", a.u + 1, a.v + 1, a.w),
            format!("a{first}{more}{}{}{}{}{}{}", spell_u(rng, a.u + 1, fancy), sep(rng, fancy), spell_u(rng, a.v + 1, fancy), sep(rng, fancy), spell_u(rng, a.w, fancy), trail(rng, fancy)),
        ));
    }
    if comments > 0 && rng.chance(1, 3) {
        f.g.push(("c".into(), comment(rng)));
    }
    // coordinates
    for _ in 0..rng.below(comments + 1) {
        f.c.push(("c".into(), comment(rng)));
    }
    f.c.push((format!("p {}", coords.len()), format!("p aux sp co {}", coords.len())));
    for (i, (lon, lat)) in coords.iter().enumerate() {
        if comments > 0 && rng.chance(1, 9) {
            f.c.push(("c".into(), comment(rng)));
        }
        let first = if fancy && rng.chance(1, 6) { "\t" } else { " " };
        f.c.push((
            format!("v {} {lon} {lat}", i + 1),
            format!("v{first}{}{}{}{}{}{}", spell_u(rng, i as u64 + 1, fancy), sep(rng, fancy), spell_i(rng, *lon, fancy), sep(rng, fancy), spell_i(rng, *lat, fancy), trail(rng, fancy)),
        ));
    }
    f
}

/// METIS: `adj[i]` = 1-based neighbours of node i (may contain i+1 itself and duplicates)
fn render_metis(rng: &mut Rng, n: u64, adj: &[Vec<u64>], coords: &[(Dec, Dec)], fancy: bool) -> FileOut {
    let mut f = FileOut::new("metis", rng, fancy);
    let m: u64 = adj.iter().map(|a| a.len() as u64).sum::<u64>() / 2;
    let extra = if fancy && rng.chance(1, 6) { " 0" } else { "" };
    f.g.push((format!("h {n} {m}"), format!("{}{}{}{}{extra}{}", lead(rng, fancy), spell_u(rng, n, fancy), sep(rng, fancy), spell_u(rng, m, fancy), trail(rng, fancy))));
    for nb in adj {
        let mut t = String::new();
        if nb.is_empty() {
            if fancy && rng.chance(1, 4) {
                t.push_str(*rng.pick(&[" ", "\t", "  "]));
            }
        } else {
            t.push_str(lead(rng, fancy));
            for (k, x) in nb.iter().enumerate() {
                if k > 0 {
                    t.push_str(sep(rng, fancy));
                }
                t.push_str(&spell_u(rng, *x, fancy));
            }
            t.push_str(trail(rng, fancy));
        }
        f.g.push((format!("adj {}", join(nb.iter(), " ")).trim_end().to_string(), t));
    }
    for (lon, lat) in coords {
        let z = if fancy && rng.chance(1, 5) { format!("{}{}", sep(rng, fancy), rng.below(1000)) } else { String::new() };
        f.c.push((
            format!("xy {} {} {} {}", lon.mant, lon.scale, lat.mant, lat.scale),
            format!("{}{}{}{}{z}{}", lead(rng, fancy), spell_dec(rng, *lon, fancy), sep(rng, fancy), spell_dec(rng, *lat, fancy), trail(rng, fancy)),
        ));
    }
    f
}

/// DDSG: 0-based arcs with direction codes
fn render_ddsg(rng: &mut Rng, n: u64, arcs: &[Arc], coords: &[(Dec, Dec)], fancy: bool) -> FileOut {
    let mut f = FileOut::new("ddsg", rng, fancy);
    f.g.push(("d".into(), "d".into()));
    let m = arcs.len() as u64;
    f.g.push((format!("h {n} {m}"), format!("{}{}{}{}{}", lead(rng, fancy), spell_u(rng, n, fancy), sep(rng, fancy), spell_u(rng, m, fancy), trail(rng, fancy))));
    for a in arcs {
        f.g.push((
            format!("e {} {} {} {}", a.u, a.v, a.w, a.dir),
            format!(
                "{}{}{}{}{}{}{}{}{}",
                lead(rng, fancy),
                spell_u(rng, a.u, fancy),
                sep(rng, fancy),
                spell_u(rng, a.v, fancy),
                sep(rng, fancy),
                spell_u(rng, a.w, fancy),
                sep(rng, fancy),
                spell_i(rng, a.dir as i64, fancy),
                trail(rng, fancy)
            ),
        ));
    }
    f.c.push((format!("n {}", coords.len()), format!("{}", coords.len())));
    for (i, (lon, lat)) in coords.iter().enumerate() {
        f.c.push((
            format!("xyi {i} {} {} {} {}", lon.mant, lon.scale, lat.mant, lat.scale),
            format!("{}{}{}{}{}{}{}", lead(rng, fancy), spell_u(rng, i as u64, fancy), sep(rng, fancy), spell_dec(rng, *lon, fancy), sep(rng, fancy), spell_dec(rng, *lat, fancy), trail(rng, fancy)),
        ));
    }
    f
}

// ------------------------------------------------------------------------------------------------
// random abstract graphs and coordinates

fn rand_arcs(rng: &mut Rng, n: u64, m: usize, wide_w: bool, loops_pm: u64, dirs: &[u8]) -> Vec<Arc> {
    let mut arcs = Vec::with_capacity(m);
    for _ in 0..m {
        let u = rng.below(n);
        let v = if rng.chance(loops_pm, 1000) { u } else { rng.below(n) };
        arcs.push(Arc { u, v, w: rand_weight(rng, wide_w), dir: *rng.pick(dirs) });
    }
    arcs
}

/// node ids biased to the varint boundaries, below n
fn boundary_id(rng: &mut Rng, n: u64) -> u64 {
    let c = [0u64, 1, 249, 250, 251, 252, 255, 256, 65534, 65535, 65536, 65537, (1 << 32) - 1, 1 << 32, (1 << 32) + 1, u64::MAX - 1, u64::MAX];
    for _ in 0..8 {
        let x = *rng.pick(&c);
        if x < n {
            return x;
        }
    }
    rng.below(n)
}

fn rand_i32_coord(rng: &mut Rng, wide: bool) -> (i64, i64) {
    let one = |rng: &mut Rng, lim: i64| -> i64 {
        if wide && rng.chance(1, 4) {
            *rng.pick(&[0i64, 1, -1, 63, 64, -64, -65, 125, 126, -126, -127, 32767, 32768, -32768, -32769, 2147483647, -2147483648, 2147483646, -2147483647])
        } else if wide && rng.chance(1, 3) {
            rng.range(-2147483648, 2147483647)
        } else {
            rng.range(-lim, lim)
        }
    };
    (one(rng, 180_000_000), one(rng, 90_000_000))
}

fn rand_dec(rng: &mut Rng, lim: i64, fancy: bool) -> Dec {
    let scale = if fancy && rng.chance(1, 3) { 1 + rng.below(3) as u32 } else { 0 };
    let p = 10i64.pow(scale);
    let mant = if rng.chance(1, 6) {
        *rng.pick(&[0i64, 1, -1, 5, -5, 12, -12, 99999, -99999, 100000, -100000]) % (lim * p + 1)
    } else if rng.chance(1, 12) {
        if rng.chance(1, 2) { lim * p } else { -lim * p }
    } else {
        rng.range(-lim * p, lim * p)
    };
    Dec { mant, scale }
}

fn rand_dec_coords(rng: &mut Rng, k: usize, fancy: bool) -> Vec<(Dec, Dec)> {
    (0..k).map(|_| (rand_dec(rng, 18_000_000, fancy), rand_dec(rng, 9_000_000, fancy))).collect()
}

fn metis_adj(rng: &mut Rng, n: u64, lines: usize, deg: u64, iso_pm: u64, loops_pm: u64, big_ids: bool) -> Vec<Vec<u64>> {
    let mut adj = Vec::with_capacity(lines);
    for i in 0..lines as u64 {
        if rng.chance(iso_pm, 1000) {
            adj.push(vec![]);
            continue;
        }
        let d = rng.below(deg + 1);
        let mut nb = Vec::new();
        for _ in 0..d {
            let t = if rng.chance(loops_pm, 1000) {
                i + 1
            } else if big_ids {
                boundary_id(rng, n) + 1
            } else {
                rng.below(n) + 1
            };
            nb.push(t);
            if rng.chance(1, 15) {
                nb.push(t); // duplicate neighbour
            }
        }
        adj.push(nb);
    }
    adj
}

// ------------------------------------------------------------------------------------------------

fn generate(rng: &mut Rng, tier: Tier, cases: &mut Vec<Case>) {
    let scale = match tier {
        Tier::Quick => 3,
        Tier::Thorough => 40,
    };
    // --- small scope, complete: every (u, v, dir) single-arc DDSG file over 3 nodes, every (u, v) DIMACS
    for u in 0..3u64 {
        for v in 0..3u64 {
            for dir in 0..4u8 {
                let arcs = [Arc { u, v, w: 251 + u * 3 + v, dir }];
                let co = [(Dec { mant: 1, scale: 0 }, Dec { mant: -1, scale: 0 })];
                cases.push(render_ddsg(rng, 3, &arcs, &co, false).into_case("ddsg-single-arc"));
            }
            let arcs = [Arc { u, v, w: 300 + u, dir: 1 }];
            cases.push(render_dimacs(rng, 3, &arcs, &[(7, -7)], false, 0).into_case("dimacs-single-arc"));
            let mut adj = vec![vec![], vec![], vec![]];
            adj[u as usize].push(v + 1);
            cases.push(render_metis(rng, 3, &adj, &[(Dec { mant: 250, scale: 0 }, Dec { mant: -3, scale: 1 })], false).into_case("metis-single-arc"));
        }
    }
    // --- DIMACS, small graphs with comments and self-loops
    for i in 0..120 * scale {
        let n = 1 + rng.below(8);
        let m = rng.below(14) as usize;
        let arcs = rand_arcs(rng, n, m, false, 200, &[1]);
        let co: Vec<(i64, i64)> = (0..n).map(|_| rand_i32_coord(rng, i % 2 == 0)).collect();
        cases.push(render_dimacs(rng, n, &arcs, &co, i % 3 != 0, 2).into_case("dimacs-small"));
    }
    // --- DIMACS, large ids / weights / edge counts (multi-byte varints everywhere)
    for _ in 0..50 * scale {
        let n = *rng.pick(&[252u64, 300, 65536, 65537, 70000, 5_000_000]);
        let m = *rng.pick(&[20usize, 60, 249, 250, 251, 252, 320]);
        let mut arcs = rand_arcs(rng, n, m, true, 60, &[1]);
        for a in arcs.iter_mut() {
            if rng.chance(1, 2) {
                a.u = boundary_id(rng, n);
            }
            if rng.chance(1, 2) {
                a.v = boundary_id(rng, n);
            }
        }
        let k = *rng.pick(&[3usize, 40, 250, 251, 300]);
        let co: Vec<(i64, i64)> = (0..k).map(|_| rand_i32_coord(rng, true)).collect();
        cases.push(render_dimacs(rng, n, &arcs, &co, true, 2).into_case("dimacs-wide"));
    }
    // --- METIS, small graphs with isolated nodes, self-loops and duplicates
    for i in 0..100 * scale {
        let n = 1 + rng.below(10);
        let lines = if rng.chance(1, 5) { rng.below(n + 1) as usize } else { n as usize };
        let adj = metis_adj(rng, n, lines, 4, 250, 150, false);
        let co = rand_dec_coords(rng, n as usize, i % 2 == 0);
        cases.push(render_metis(rng, n, &adj, &co, i % 3 != 0).into_case("metis-small"));
    }
    // --- METIS, node ids and edge counts beyond one byte
    for _ in 0..30 * scale {
        let n = *rng.pick(&[251u64, 252, 300, 400, 66000]);
        let lines = if n > 1000 { 40 + rng.below(300) as usize } else { n as usize };
        let deg = *rng.pick(&[1u64, 3, 6]);
        let adj = metis_adj(rng, n, lines, deg, 300, 60, true);
        let co = rand_dec_coords(rng, lines.min(300), true);
        cases.push(render_metis(rng, n, &adj, &co, true).into_case("metis-wide"));
    }
    // --- DDSG, small graphs, all four direction codes
    for i in 0..120 * scale {
        let n = 1 + rng.below(8);
        let m = rng.below(16) as usize;
        let arcs = rand_arcs(rng, n, m, false, 150, &[0, 1, 2, 3]);
        let co = rand_dec_coords(rng, n as usize, i % 2 == 0);
        cases.push(render_ddsg(rng, n, &arcs, &co, i % 3 != 0).into_case("ddsg-small"));
    }
    // --- DDSG, arbitrary 64-bit ids and weights, more than 250 edges
    for _ in 0..50 * scale {
        let n = *rng.pick(&[300u64, 65537, 1 << 33, u64::MAX]);
        let m = *rng.pick(&[30usize, 120, 125, 126, 250, 251, 400]);
        let mut arcs = rand_arcs(rng, n, m, true, 60, &[0, 0, 1, 2, 3]);
        for a in arcs.iter_mut() {
            if rng.chance(1, 2) {
                a.u = boundary_id(rng, n);
            }
            if rng.chance(1, 2) {
                a.v = boundary_id(rng, n);
            }
        }
        let k = *rng.pick(&[1usize, 30, 250, 251, 280]);
        let co = rand_dec_coords(rng, k, true);
        cases.push(render_ddsg(rng, n, &arcs, &co, true).into_case("ddsg-wide"));
    }
    // --- re-run onto existing, longer output files (`PRE k`): every format, small conversions
    for i in 0..20 * scale {
        let k = *rng.pick(&[40usize, 300, 70]);
        let mut case = match i % 3 {
            0 => {
                let m = 2 + rng.below(3) as usize;
                let arcs = rand_arcs(rng, 9, m, true, 20, &[1]);
                let co: Vec<(i64, i64)> = (0..3).map(|_| rand_i32_coord(rng, true)).collect();
                render_dimacs(rng, 9, &arcs, &co, false, 1).into_case("rerun")
            }
            1 => {
                let m = 2 + rng.below(3) as usize;
                let arcs = rand_arcs(rng, 9, m, true, 20, &[0, 1, 2, 3]);
                let co = rand_dec_coords(rng, 3, true);
                render_ddsg(rng, 9, &arcs, &co, false).into_case("rerun")
            }
            _ => {
                let adj = metis_adj(rng, 6, 6, 1, 3, 2, true);
                let co = rand_dec_coords(rng, 4, false);
                render_metis(rng, 6, &adj, &co, false).into_case("rerun")
            }
        };
        case.ops.insert(1, format!("PRE {k}"));
        cases.push(case);
    }
    // --- both tiers: a parametrised METIS pair with more than 65 536 edges and coordinates (84 300 / 70 000), and
    // one whose decoded edge list crosses 64 MiB (3 000 000 edges)
    for params in ["70000 300 140 70000", "4000 3000 500 3000"] {
        let mut c = Case::new("huge");
        c.op("F metis eol=lf final=1");
        c.op(format!("HUGE metis-ring {params}"));
        cases.push(c);
    }
    // --- thorough only: vectors longer than 65535 elements (5-byte length prefix), a METIS file with 66000 lines
    if tier == Tier::Thorough {
        let arcs = rand_arcs(rng, 70000, 66000, true, 20, &[1]);
        let co: Vec<(i64, i64)> = (0..66000).map(|_| rand_i32_coord(rng, true)).collect();
        cases.push(render_dimacs(rng, 70000, &arcs, &co, false, 1).into_case("dimacs-huge"));
        let arcs = rand_arcs(rng, 1 << 40, 40000, true, 20, &[0, 1, 2, 3]);
        let co = rand_dec_coords(rng, 66000, true);
        cases.push(render_ddsg(rng, 1 << 40, &arcs, &co, false).into_case("ddsg-huge"));
        let adj = metis_adj(rng, 66000, 66000, 2, 300, 30, true);
        let co = rand_dec_coords(rng, 66000, false);
        cases.push(render_metis(rng, 66000, &adj, &co, false).into_case("metis-huge"));
        // files whose decoded size crosses 64 MiB (2 796 203 InputEdge<usize> of 24 bytes; 8 388 608 FPCoordinate
        // of 8 bytes): 3 000 000 edges over ids <= 4000; 8 400 000 coordinates
        for params in ["8400000 10 2 8400000"] {
            let mut c = Case::new("huge");
            c.op("F metis eol=lf final=1");
            c.op(format!("HUGE metis-ring {params}"));
            cases.push(c);
        }
    }
}

// ------------------------------------------------------------------------------------------------
// execution of the real code

fn hex(bytes: &[u8]) -> String {
    let mut s = String::with_capacity(bytes.len() * 2);
    for b in bytes {
        s.push_str(&format!("{b:02x}"));
    }
    s
}

/// `G ann ; text|` -> text
fn text_of(op: &str) -> Option<&str> {
    let body = &op[2..];
    let i = body.find(" ; ")?;
    let t = &body[i + 3..];
    t.strip_suffix('|')
}

/// count, digest of the canonical text (one entry per line), first and last three entries
fn digest_line(name: &str, entries: Result<Vec<String>, ()>) -> String {
    match entries {
        Err(()) => format!("D {name} ERR"),
        Ok(es) => {
            let mut text = String::new();
            for e in &es {
                text.push_str(e);
                text.push('\n');
            }
            let first = es.iter().take(3).cloned().collect::<Vec<_>>().join(",");
            let last = es.iter().skip(es.len().saturating_sub(3)).cloned().collect::<Vec<_>>().join(",");
            format!("D {name} n={} sha256={} first={first} last={last}", es.len(), sha256_hex(text.as_bytes()))
        }
    }
}

/// bincode 2 `standard()` varint: < 251 one byte, 251 + u16, 252 + u32, 253 + u64 (little endian)
fn varint(b: &[u8], pos: &mut usize) -> Option<u64> {
    let t = *b.get(*pos)?;
    *pos += 1;
    let n = match t {
        0..=250 => return Some(t as u64),
        251 => 2,
        252 => 4,
        253 => 8,
        _ => return None,
    };
    let sl = b.get(*pos..*pos + n)?;
    *pos += n;
    let mut v = 0u64;
    for (i, x) in sl.iter().enumerate() {
        v |= (*x as u64) << (8 * i);
    }
    Some(v)
}

/// the coordinate file as `Vec<FPCoordinate { lat: i32, lon: i32 }>` (zigzag varints), whole file consumed
fn decode_coord_file(b: &[u8]) -> Option<Vec<(i32, i32)>> {
    let mut pos = 0usize;
    let n = varint(b, &mut pos)? as usize;
    let unzig = |u: u64| -> i32 { ((u >> 1) as i64 ^ -((u & 1) as i64)) as i32 };
    let mut v = Vec::with_capacity(n.min(1 << 24));
    for _ in 0..n {
        let lat = unzig(varint(b, &mut pos)?);
        let lon = unzig(varint(b, &mut pos)?);
        v.push((lat, lon));
    }
    if pos == b.len() { Some(v) } else { None }
}

fn work_dir() -> String {
    let run_dir = std::env::var("TBX_RUN_DIR").unwrap_or_else(|_| "/verif/build/run/C07".to_string());
    let dir = format!("{run_dir}/files-{}", std::process::id());
    std::fs::create_dir_all(&dir).unwrap();
    dir
}

fn run_plier(fmt: &str, gpath: &str, cpath: &str) -> String {
    let bin_dir = std::env::var("TBX_REPO_BIN_DIR").unwrap_or_else(|_| "/verif/build/repo-target/release".to_string());
    let status = Command::new(format!("{bin_dir}/graph_plier"))
        .args(["--input-format", fmt, "--graph", gpath, "--coordinates", cpath])
        .env("RUST_LOG", "off")
        .stdin(Stdio::null())
        .stdout(Stdio::null())
        .stderr(Stdio::null())
        .status();
    match status {
        Ok(st) => match st.code() {
            Some(code) => code.to_string(),
            None => "signal".to_string(),
        },
        Err(e) => format!("spawn-failed:{}", e.kind()).replace(' ', "_"),
    }
}

/// `HUGE metis-ring n ring deg ncoords` (definition: lean/Tbx/Drv/C07Huge.lean)
fn execute_huge(args: &[u64], obs: &mut Vec<String>) {
    let (n, ring, deg, ncoords) = (args[0], args[1], args[2], args[3]);
    if ring == 0 || deg >= ring {
        return;
    }
    let dir = work_dir();
    let gpath = format!("{dir}/huge-graph.txt");
    let cpath = format!("{dir}/huge-coordinates.txt");
    let gout = format!("{gpath}.toolbox");
    let cout = format!("{cpath}.toolbox");
    let _ = std::fs::remove_file(&gout);
    let _ = std::fs::remove_file(&cout);
    {
        let mut w = std::io::BufWriter::new(std::fs::File::create(&gpath).unwrap());
        writeln!(w, "{n} {}", ring * deg).unwrap();
        for i in 0..ring {
            for k in 1..=deg {
                write!(w, "{} {} ", (i + k) % ring + 1, (i + ring - k % ring) % ring + 1).unwrap();
            }
            writeln!(w, "{}", i + 1).unwrap();
        }
        w.flush().unwrap();
        let mut w = std::io::BufWriter::new(std::fs::File::create(&cpath).unwrap());
        for i in 0..ncoords {
            let lon = (7919 * i % 36000001) as i64 - 18000000;
            let lat = (104729 * i % 18000001) as i64 - 9000000;
            writeln!(w, "{lon} {lat}").unwrap();
        }
        w.flush().unwrap();
    }
    let rc = run_plier("metis", &gpath, &cpath);
    obs.push(format!("D rc={rc}"));
    if rc != "0" {
        return;
    }
    let gb = std::fs::read(&gout).unwrap_or_default();
    let cb = std::fs::read(&cout).unwrap_or_default();
    obs.push(format!("D gfile len={} sha256={}", gb.len(), sha256_hex(&gb)));
    obs.push(format!("F cfile len={} sha256={}", cb.len(), sha256_hex(&cb)));
    // decoded content of the coordinate file, for the read-back comparison below
    let file_coords: Option<Vec<(i32, i32)>> = decode_coord_file(&cb);
    drop(gb);
    drop(cb);
    let te = catch_unwind(AssertUnwindSafe(|| io::read_graph_into_trivial_edges(&gout)));
    obs.push(digest_line("tedges", te.map(|es| es.iter().map(|e| format!("{}/{}", e.source, e.target)).collect()).map_err(|_| ())));
    let we = catch_unwind(AssertUnwindSafe(|| io::read_vec_from_file::<InputEdge<usize>>(&gout)));
    obs.push(digest_line("wedges", we.map(|es| es.iter().map(|e| format!("{}/{}/{}", e.source, e.target, e.data)).collect()).map_err(|_| ())));
    let co = catch_unwind(AssertUnwindSafe(|| io::read_vec_from_file::<FPCoordinate>(&cout)));
    // the determined part of the coordinates: count, every value within one unit of the exact 10*lat_i / 10*lon_i
    // (the file gives lat_i, lon_i in 1e-5 degree), read-back equal to the decoded file
    let (ncheck, within, readback) = match &co {
        Ok(cs) => {
            let within = cs.iter().enumerate().all(|(i, c)| {
                let lon = (7919u64 * i as u64 % 36000001) as i64 - 18000000;
                let lat = (104729u64 * i as u64 % 18000001) as i64 - 9000000;
                (c.lat as i64 - 10 * lat).abs() <= 1 && (c.lon as i64 - 10 * lon).abs() <= 1
            });
            let rb = match &file_coords {
                Some(fc) => fc.len() == cs.len() && fc.iter().zip(cs.iter()).all(|(a, b)| a.0 == b.lat && a.1 == b.lon),
                None => false,
            };
            (cs.len(), within, rb)
        }
        Err(_) => (0, false, false),
    };
    obs.push(digest_line("coords", co.map(|cs| cs.iter().map(|c| format!("{}/{}", c.lat, c.lon)).collect()).map_err(|_| ())).replacen("D ", "F ", 1));
    obs.push(format!("D coordcheck n={ncheck} within={} readback={}", within as u8, readback as u8));
    for p in [&gpath, &cpath, &gout, &cout] {
        let _ = std::fs::remove_file(p);
    }
}

fn execute(case: &Case, obs: &mut Vec<String>) {
    for op in &case.ops {
        if let Some(rest) = op.strip_prefix("HUGE metis-ring ") {
            let args: Vec<u64> = rest.split_whitespace().filter_map(|t| t.parse().ok()).collect();
            if args.len() == 4 {
                execute_huge(&args, obs);
            }
            return;
        }
    }
    let mut fmt = "";
    let mut crlf = false;
    let mut final_nl = true;
    let mut g: Vec<&str> = Vec::new();
    let mut c: Vec<&str> = Vec::new();
    for op in &case.ops {
        if let Some(rest) = op.strip_prefix("F ") {
            for (k, t) in rest.split_whitespace().enumerate() {
                if k == 0 {
                    fmt = t;
                } else if t == "eol=crlf" {
                    crlf = true;
                } else if t == "final=0" {
                    final_nl = false;
                }
            }
        } else if op.starts_with("G ") {
            match text_of(op) {
                Some(t) => g.push(t),
                None => return,
            }
        } else if op.starts_with("C ") {
            match text_of(op) {
                Some(t) => c.push(t),
                None => return,
            }
        }
    }
    if !["dimacs", "metis", "ddsg"].contains(&fmt) {
        return;
    }
    let dir = work_dir();
    let gpath = format!("{dir}/graph.txt");
    let cpath = format!("{dir}/coordinates.txt");
    let gout = format!("{gpath}.toolbox");
    let cout = format!("{cpath}.toolbox");
    let _ = std::fs::remove_file(&gout);
    let _ = std::fs::remove_file(&cout);
    // `PRE k`: a previous conversion of an unrelated, larger input left its files at the same output paths
    for op in &case.ops {
        if let Some(k) = op.strip_prefix("PRE ").and_then(|t| t.trim().parse::<usize>().ok()) {
            let mut gs = format!("p sp {} {}\n", k + 1, k);
            for i in 0..k {
                gs.push_str(&format!("a {} {} {}\n", i + 1, (i * 7 + 3) % (k + 1) + 1, 1000 + i));
            }
            let mut cs = format!("p aux sp co {}\n", k);
            for i in 0..k {
                cs.push_str(&format!("v {} {} {}\n", i + 1, 1000000 + 17 * i as i64, 2000000 - 13 * i as i64));
            }
            std::fs::write(&gpath, gs).unwrap();
            std::fs::write(&cpath, cs).unwrap();
            let rc = run_plier("dimacs", &gpath, &cpath);
            if rc != "0" {
                obs.push(format!("D pre-run rc={rc}"));
                return;
            }
        }
    }
    let eol = if crlf { "\r\n" } else { "\n" };
    let write = |path: &str, lines: &[&str]| {
        let mut s = String::new();
        for (i, l) in lines.iter().enumerate() {
            s.push_str(l);
            if i + 1 < lines.len() || final_nl {
                s.push_str(eol);
            }
        }
        std::fs::write(path, s).unwrap();
    };
    write(&gpath, &g);
    write(&cpath, &c);
    // the real graph_plier
    let rc = run_plier(fmt, &gpath, &cpath);
    obs.push(format!("D rc={rc}"));
    if rc != "0" {
        return;
    }
    let gb = std::fs::read(&gout).unwrap_or_default();
    let cb = std::fs::read(&cout).unwrap_or_default();
    // METIS / DDSG coordinates go through floating point: determined only up to the tolerance (class F)
    let ccls = if fmt == "dimacs" { "D" } else { "F" };
    obs.push(format!("D gbytes={}", hex(&gb)));
    obs.push(format!("{ccls} cbytes={}", hex(&cb)));
    // the real loaders (what chipper and scaffold call)
    let te = catch_unwind(AssertUnwindSafe(|| io::read_graph_into_trivial_edges(&gout)));
    obs.push(format!(
        "D tedges={}",
        match te {
            Ok(es) => join(es.iter().map(|e| format!("{}/{}", e.source, e.target)), ","),
            Err(_) => "ERR".to_string(),
        }
    ));
    let we = catch_unwind(AssertUnwindSafe(|| io::read_vec_from_file::<InputEdge<usize>>(&gout)));
    obs.push(format!(
        "D wedges={}",
        match we {
            Ok(es) => join(es.iter().map(|e| format!("{}/{}/{}", e.source, e.target, e.data)), ","),
            Err(_) => "ERR".to_string(),
        }
    ));
    let co = catch_unwind(AssertUnwindSafe(|| io::read_vec_from_file::<FPCoordinate>(&cout)));
    obs.push(format!(
        "{ccls} coords={}",
        match co {
            Ok(cs) => join(cs.iter().map(|c| format!("{}/{}", c.lat, c.lon)), ","),
            Err(_) => "ERR".to_string(),
        }
    ));
}

fn main() {
    harness_main(generate, execute)
}
