//! C13: hash-based containers behave as maps; sketches err only on one side.
//! Real code: toolbox_rs::{medium_size_hash_table, tabulation_hash, fibonacci_hash, tiny_table,
//! bloom_filter, count_min_sketch}.  Case format: see lean/Tbx/Drv/C13.lean.
use std::sync::OnceLock;
use tbx_harness::*;
use toolbox_rs::as_bytes::AsBytes;
use toolbox_rs::bloom_filter::{BloomFilter, BloomResult};
use toolbox_rs::count_min_sketch::CountMinSketch;
use toolbox_rs::fibonacci_hash::FibonacciHash;
use toolbox_rs::medium_size_hash_table::{FastHash, MAX_ELEMENTS, MediumSizeHashTable};
use toolbox_rs::tabulation_hash::TabulationHash;
use toolbox_rs::tiny_table::TinyTable;
use xxhash_rust::xxh3::{xxh3_64_with_seed, xxh3_128_with_seed};

// the seeds of BloomFilter::fn1 / fn2 (private there); a change only shows up as drift of the free
// false-positive answers
const BLOOM_SEED1: u64 = 0xdeadbeef;
const BLOOM_SEED2: u64 = 123;

/// arbitrary byte strings as sketch keys
#[derive(PartialEq, Eq, Clone)]
struct Bytes(Vec<u8>);
impl AsBytes for Bytes {
    fn as_bytes(&self) -> &[u8] {
        &self.0
    }
}

fn hex(b: &[u8]) -> String {
    if b.is_empty() {
        return "-".to_string();
    }
    b.iter().map(|x| format!("{x:02x}")).collect()
}
fn unhex(s: &str) -> Vec<u8> {
    if s == "-" {
        return Vec::new();
    }
    (0..s.len() / 2).map(|i| u8::from_str_radix(&s[2 * i..2 * i + 2], 16).unwrap()).collect()
}

// ------------------------------------------------------------------------------------------------
// hash table

const SEARCH_KEYS: u32 = 1 << 21;

/// keys 0..2^21 bucketed by their real 16-bit hash (computed once per process and hasher)
fn buckets<H: FastHash + Default>() -> Vec<Vec<u32>> {
    let h = H::default();
    let mut b: Vec<Vec<u32>> = vec![Vec::new(); MAX_ELEMENTS];
    for k in 0..SEARCH_KEYS {
        b[h.hash(k) as usize].push(k);
    }
    b
}
fn tab_buckets() -> &'static Vec<Vec<u32>> {
    static B: OnceLock<Vec<Vec<u32>>> = OnceLock::new();
    B.get_or_init(buckets::<TabulationHash>)
}
fn fib_buckets() -> &'static Vec<Vec<u32>> {
    static B: OnceLock<Vec<Vec<u32>>> = OnceLock::new();
    B.get_or_init(buckets::<FibonacciHash>)
}
fn tab_hasher() -> &'static TabulationHash {
    static H: OnceLock<TabulationHash> = OnceLock::new();
    H.get_or_init(TabulationHash::new)
}
fn real_hash(kind: &str, key: u32) -> u16 {
    if kind == "fib" { FibonacciHash::new().hash(key) } else { tab_hasher().hash(key) }
}
fn bucket_of(kind: &str, hash: usize) -> &'static Vec<u32> {
    if kind == "fib" { &fib_buckets()[hash % MAX_ELEMENTS] } else { &tab_buckets()[hash % MAX_ELEMENTS] }
}

#[derive(Clone, Debug)]
enum TOp {
    Ins(u32, i64),
    Gm(u32),
    Clear,
    SetGen(u32),
    Clears(u64),
}
fn render_top(o: &TOp) -> String {
    match o {
        TOp::Ins(k, v) => format!("ins {k} {v}"),
        TOp::Gm(k) => format!("gm {k}"),
        TOp::Clear => "clear".into(),
        TOp::SetGen(g) => format!("setgen {g}"),
        TOp::Clears(n) => format!("clears {n}"),
    }
}
fn parse_top(l: &str) -> Option<TOp> {
    let t: Vec<&str> = l.split_whitespace().collect();
    match t[0] {
        "ins" => Some(TOp::Ins(t[1].parse().ok()?, t[2].parse().ok()?)),
        "gm" => Some(TOp::Gm(t[1].parse().ok()?)),
        "clear" => Some(TOp::Clear),
        "setgen" => Some(TOp::SetGen(t[1].parse().ok()?)),
        "clears" => Some(TOp::Clears(t[1].parse().ok()?)),
        _ => None,
    }
}

/// case = K line, H lines (universe = keys of the ops + `extra`, hashes from the REAL hasher), ops
fn table_case(family: &str, kind: &str, ops: &[TOp], extra: &[u32]) -> Case {
    let mut c = Case::new(family);
    c.op(format!("K {kind}"));
    let mut keys: Vec<u32> = Vec::new();
    for o in ops {
        if let TOp::Ins(k, _) | TOp::Gm(k) = o {
            if !keys.contains(k) {
                keys.push(*k)
            }
        }
    }
    for k in extra {
        if !keys.contains(k) {
            keys.push(*k)
        }
    }
    keys.sort();
    for k in keys {
        c.op(format!("H {k} {}", real_hash(kind, k)));
    }
    for o in ops {
        c.op(render_top(o));
    }
    c
}

fn rand_value(rng: &mut Rng) -> i64 {
    match rng.below(10) {
        0 => 0,
        1 => i64::MAX,
        2 => i64::MIN,
        3 => -(rng.below(1000) as i64),
        _ => 1 + rng.below(1000) as i64,
    }
}

/// key set engineered to collide: several keys per home slot on a run of consecutive home slots
/// starting at `start` (so chains merge and, for start near 65535, wrap to slot 0)
fn colliding_keys(rng: &mut Rng, kind: &str, start: usize, slots: usize, per_slot: usize) -> Vec<u32> {
    let mut ks = Vec::new();
    for s in 0..slots {
        let b = bucket_of(kind, start + s);
        let mut idx: Vec<usize> = (0..b.len()).collect();
        rng.shuffle(&mut idx);
        for i in idx.into_iter().take(per_slot) {
            ks.push(b[i]);
        }
    }
    ks
}

fn random_table_history(rng: &mut Rng, keys: &[u32], len: usize, clear_every: u64, pre: Vec<TOp>) -> Vec<TOp> {
    let mut ops = pre;
    for _ in 0..len {
        let r = rng.below(100);
        if rng.below(clear_every) == 0 {
            ops.push(TOp::Clear);
        } else if r < 60 {
            ops.push(TOp::Ins(*rng.pick(keys), rand_value(rng)));
        } else {
            ops.push(TOp::Gm(*rng.pick(keys)));
        }
    }
    ops
}

/// Long runs of clears (the honest 2^32 cycle) take seconds inside ONE case: keep check.py's hang
/// watchdog informed.  It watches `<out>.progress` for changes; the first two tokens stay as lib.rs wrote them.
fn progress_tick(n: u64) {
    let args: Vec<String> = std::env::args().collect();
    if let Some(out) = args.iter().position(|a| a == "--out").and_then(|i| args.get(i + 1)) {
        let p = format!("{out}.progress");
        if let Ok(cur) = std::fs::read_to_string(&p) {
            let mut t = cur.split_whitespace();
            if let (Some(a), Some(b)) = (t.next(), t.next()) {
                let _ = std::fs::write(&p, format!("{a} {b} tick{n}\n"));
            }
        }
    }
}

fn exec_table<H: FastHash + Default>(ops: &[TOp], uni: &[u32], obs: &mut Vec<String>) {
    let mut t: MediumSizeHashTable<u32, i64, H> = if ops.len() % 2 == 0 { MediumSizeHashTable::default() } else { MediumSizeHashTable::new() };
    let hasher = H::default();
    obs.push(format!("D cap={}", t.capacity()));
    for k in uni {
        obs.push(format!("F h {k} {}", hasher.hash(*k)));
    }
    for (j, o) in ops.iter().enumerate() {
        let mut ret = "-".to_string();
        match o {
            TOp::Ins(k, v) => t.insert(*k, *v),
            TOp::Gm(k) => ret = format!("{}", *t.get_mut(*k)),
            TOp::Clear => t.clear(),
            TOp::SetGen(g) => t.verif_set_generation(*g),
            TOp::Clears(n) => {
                for i in 0..*n {
                    t.clear();
                    if i & ((1 << 27) - 1) == 0 && i > 0 {
                        progress_tick(i);
                    }
                }
            }
        }
        let p = join(uni.iter().map(|k| t.peek_value(*k).map(|v| v.to_string()).unwrap_or("x".into())), ",");
        let c: String = uni.iter().map(|k| if t.contains_key(*k) { '1' } else { '0' }).collect();
        obs.push(format!("D {j} ret={ret} len={} empty={} P={p} C={c}", t.len(), if t.is_empty() { 1 } else { 0 }));
    }
}

// ------------------------------------------------------------------------------------------------
// tiny table

fn exec_tiny(lines: &[&String], obs: &mut Vec<String>) {
    let mut uni: Vec<u32> = Vec::new();
    let mut t: TinyTable<u32, i64> = if lines.len() % 2 == 0 { TinyTable::default() } else { TinyTable::new() };
    let mut j = 0;
    for l in lines {
        let w: Vec<&str> = l.split_whitespace().collect();
        let mut ret = "-".to_string();
        match w[0] {
            "U" => {
                uni = w[1..].iter().map(|x| x.parse().unwrap()).collect();
                continue;
            }
            "ins" => ret = (t.insert(w[1].parse().unwrap(), w[2].parse().unwrap()) as u8).to_string(),
            "rem" => ret = (t.remove(&w[1].parse().unwrap()) as u8).to_string(),
            "set" => {
                let v: i64 = w[2].parse().unwrap();
                ret = match t.find_mut(&w[1].parse().unwrap()) {
                    Some(e) => {
                        e.1 = v;
                        "1".into()
                    }
                    None => "0".into(),
                }
            }
            "clear" => t.clear(),
            _ => panic!("op"),
        }
        let p = join(uni.iter().map(|k| t.find(k).map(|v| v.to_string()).unwrap_or("x".into())), ",");
        let c: String = uni.iter().map(|k| if t.contains(k) { '1' } else { '0' }).collect();
        obs.push(format!("D {j} ret={ret} len={} empty={} P={p} C={c}", t.len(), if t.is_empty() { 1 } else { 0 }));
        j += 1;
    }
}

fn tiny_case(rng: &mut Rng, nkeys: u64, len: usize) -> Case {
    let mut c = Case::new("tiny");
    c.op("K tiny");
    let big = rng.chance(1, 4);
    let keys: Vec<u32> = (0..nkeys).map(|i| if big { rng.next() as u32 } else { i as u32 }).collect();
    let mut uni = keys.clone();
    uni.push(4_000_000_007u32.wrapping_add(nkeys as u32));
    uni.sort();
    uni.dedup();
    c.op(format!("U {}", join(uni.iter(), " ")));
    for _ in 0..len {
        let k = *rng.pick(&keys);
        match rng.below(20) {
            0 => c.op("clear"),
            1..=9 => c.op(format!("ins {k} {}", rand_value(rng))),
            10..=15 => c.op(format!("rem {k}")),
            _ => c.op(format!("set {k} {}", rand_value(rng))),
        };
    }
    c
}

// ------------------------------------------------------------------------------------------------
// sketches

fn random_bytes(rng: &mut Rng) -> Vec<u8> {
    match rng.below(6) {
        0 => Vec::new(),
        1 => (rng.next()).to_le_bytes().to_vec(),
        2 => format!("word{}", rng.below(50)).into_bytes(),
        3 => {
            let n = rng.below(200) as usize;
            (0..n).map(|_| rng.next() as u8).collect()
        }
        4 => vec![rng.below(4) as u8; rng.below(5) as usize],
        _ => {
            let n = 1 + rng.below(17) as usize;
            (0..n).map(|_| rng.next() as u8).collect()
        }
    }
}
fn distinct_values(rng: &mut Rng, n: usize) -> Vec<Vec<u8>> {
    let mut vs: Vec<Vec<u8>> = Vec::new();
    let mut guard = 0;
    while vs.len() < n && guard < 100 * n {
        guard += 1;
        let v = random_bytes(rng);
        if !vs.contains(&v) {
            vs.push(v)
        }
    }
    vs
}

/// the sizing formulas of BloomFilter::new_from_size_and_probabilty, copied (the fields are private)
fn bloom_sizes(n: usize, p: f64) -> (usize, usize) {
    let ln_pfp = p.log(std::f64::consts::E);
    let ln_2 = 1. / std::f64::consts::LOG2_E;
    let len = (-(n as f64 * ln_pfp / ln_2.powi(2)).ceil()) as usize;
    let k = (-(ln_pfp / ln_2).ceil()) as usize;
    (len, k)
}

fn bloom_case(rng: &mut Rng, from_list: bool) -> Option<Case> {
    let n = *rng.pick(&[1usize, 1, 2, 3, 5, 8, 20, 100, 300]);
    let p = match rng.below(8) {
        0 => 0.5,
        1 => 0.3,
        2 => 0.1,
        3 => 0.01,
        4 => 0.001,
        5 => 1e-9,
        _ => (1 + rng.below(4999)) as f64 / 10000.0,
    };
    let nv = 4 + rng.below(14) as usize;
    let vals = distinct_values(rng, nv);
    let nadd = 1 + rng.below(vals.len() as u64 - 1) as usize;
    let mut c = Case::new(if from_list { "bloom-list" } else { "bloom" });
    c.op("K bloom");
    if from_list {
        let (len, k) = bloom_sizes(nadd, p);
        if len == 0 || k == 0 {
            return None;
        }
        c.op(format!("L {} {len} {k} {}", p.to_bits(), join(0..nadd, " ")));
    } else {
        let (len, k) = bloom_sizes(n, p);
        if len == 0 || k == 0 {
            return None;
        }
        c.op(format!("B {n} {} {len} {k}", p.to_bits()));
    }
    for (i, v) in vals.iter().enumerate() {
        c.op(format!("V {i} {} {} {}", xxh3_64_with_seed(v, BLOOM_SEED1), xxh3_64_with_seed(v, BLOOM_SEED2), hex(v)));
    }
    let nops = if from_list { rng.below(4) as usize } else { nadd + rng.below(4) as usize };
    for _ in 0..nops {
        let i = rng.below(nadd as u64);
        c.op(format!("{} {i}", if rng.chance(1, 3) { "addg" } else { "add" }));
    }
    Some(c)
}

fn exec_bloom(lines: &[&String], obs: &mut Vec<String>) {
    let mut vals: Vec<Bytes> = Vec::new();
    let mut filter: Option<BloomFilter> = None;
    let mut list_hdr: Option<(f64, Vec<usize>)> = None;
    let mut ops: Vec<(bool, usize)> = Vec::new();
    let mut size_hdr: Option<(usize, f64)> = None;
    for l in lines {
        let w: Vec<&str> = l.split_whitespace().collect();
        match w[0] {
            "B" => size_hdr = Some((w[1].parse().unwrap(), f64::from_bits(w[2].parse().unwrap()))),
            "L" => list_hdr = Some((f64::from_bits(w[1].parse().unwrap()), w[4..].iter().map(|x| x.parse().unwrap()).collect())),
            "V" => vals.push(Bytes(unhex(w[4]))),
            "add" => ops.push((false, w[1].parse().unwrap())),
            "addg" => ops.push((true, w[1].parse().unwrap())),
            _ => panic!("op"),
        }
    }
    let mut added = vec![false; vals.len()];
    if let Some((n, p)) = size_hdr {
        filter = Some(BloomFilter::new_from_size_and_probabilty(n, p));
    }
    if let Some((p, idx)) = list_hdr {
        let list: Vec<Bytes> = idx.iter().map(|i| vals[*i].clone()).collect();
        filter = Some(BloomFilter::new_from_list(&list, p));
        for i in idx {
            added[i] = true;
        }
    }
    let mut filter = filter.expect("header");
    let observe = |f: &BloomFilter, added: &[bool], j: usize, obs: &mut Vec<String>| {
        let ans: Vec<bool> = vals.iter().map(|v| f.contains(&v.0) == BloomResult::YesWhp).collect();
        let a: String = ans.iter().zip(added).map(|(x, ad)| if !*ad { '-' } else if *x { '1' } else { '0' }).collect();
        let q: String = ans.iter().map(|x| if *x { '1' } else { '0' }).collect();
        obs.push(format!("D {j} A={a}"));
        obs.push(format!("F {j} Q={q}"));
    };
    observe(&filter, &added, 0, obs);
    for (j, (generic, i)) in ops.iter().enumerate() {
        if *generic {
            filter.add(&vals[*i]);
        } else {
            filter.add_bytes(&vals[*i].0);
        }
        added[*i] = true;
        observe(&filter, &added, j + 1, obs);
    }
}

fn cms_case(rng: &mut Rng) -> Case {
    // m = ceil(e / delta), k = ceil(ln(1 / epsilon))   (the constructor's two parameters, in its order)
    let delta = *rng.pick(&[100.0f64, 3.0, 1.5, 1.0, 0.5, 0.3, 0.1, 0.01]);
    let eps = *rng.pick(&[0.9f64, 0.5, 0.3, 0.2, 0.05, 0.001, 1.0]);
    let nv = 2 + rng.below(9) as usize;
    let vals = distinct_values(rng, nv);
    let mut c = Case::new("cms");
    c.op("K cms");
    c.op(format!("C {} {}", delta.to_bits(), eps.to_bits()));
    for (i, v) in vals.iter().enumerate() {
        c.op(format!("V {i} {}", hex(v)));
    }
    let cap = if rng.chance(1, 8) { 300 } else { 40 };
    let nops = 1 + rng.below(cap) as usize;
    let hot = rng.below(vals.len() as u64);
    for _ in 0..nops {
        let i = if rng.chance(1, 3) { hot } else { rng.below(vals.len() as u64) };
        c.op(format!("ins {i}"));
    }
    c
}

fn exec_cms(lines: &[&String], obs: &mut Vec<String>) {
    let mut vals: Vec<Bytes> = Vec::new();
    let mut sketch: Option<CountMinSketch> = None;
    let mut ops: Vec<usize> = Vec::new();
    for l in lines {
        let w: Vec<&str> = l.split_whitespace().collect();
        match w[0] {
            "C" => sketch = Some(CountMinSketch::new(f64::from_bits(w[1].parse().unwrap()), f64::from_bits(w[2].parse().unwrap()))),
            "V" => vals.push(Bytes(unhex(w[2]))),
            "ins" => ops.push(w[1].parse().unwrap()),
            _ => panic!("op"),
        }
    }
    let mut sketch = sketch.expect("header");
    let (seed, k, m) = sketch.verif_params();
    obs.push(format!("F P {seed} {k} {m}"));
    for (i, v) in vals.iter().enumerate() {
        let h = xxh3_128_with_seed(&v.0, seed);
        obs.push(format!("F V {i} {} {}", h as u64, (h >> 64) as u64));
    }
    let observe = |s: &CountMinSketch, j: usize, obs: &mut Vec<String>| {
        obs.push(format!("F {j} E={}", join(vals.iter().map(|v| s.estimate(v)), ",")));
    };
    observe(&sketch, 0, obs);
    for (j, i) in ops.iter().enumerate() {
        sketch.insert(&vals[*i]);
        observe(&sketch, j + 1, obs);
    }
}

// ------------------------------------------------------------------------------------------------

const GEN_MAX: u32 = u32::MAX;

fn generate(rng: &mut Rng, tier: Tier, cases: &mut Vec<Case>) {
    // ---- witnesses of the defects fixed in /repo (also kept as corpus/C13/*.case)
    for kind in ["tab", "fib"] {
        let other = bucket_of(kind, real_hash(kind, 0) as usize).iter().copied().find(|k| *k != 0).unwrap();
        // D8: contains_key(0) on an empty table at generation u32::MAX, reached through real clears
        cases.push(table_case(
            "corpus-d8",
            kind,
            &[TOp::SetGen(GEN_MAX - 2), TOp::Ins(5, 1), TOp::Clear, TOp::Clear, TOp::Gm(1), TOp::Ins(0, 5), TOp::Clear, TOp::Gm(other), TOp::Clear],
            &[0, 1, 5, 65536, other],
        ));
        cases.push(table_case("corpus-d8", kind, &[TOp::SetGen(GEN_MAX), TOp::Ins(1, 1), TOp::Clear, TOp::Ins(2, 2)], &[0, 1, 2]));
        // D9: get_mut on an absent key after clear hands out the default, also in a cell another key used
        let b = bucket_of(kind, real_hash(kind, 7) as usize);
        let twin = b.iter().copied().find(|k| *k != 7).unwrap();
        cases.push(table_case("corpus-d9", kind, &[TOp::Ins(7, 99), TOp::Clear, TOp::Gm(7)], &[0]));
        cases.push(table_case("corpus-d9", kind, &[TOp::Ins(7, 99), TOp::Clear, TOp::Gm(twin), TOp::Gm(7), TOp::Clear, TOp::Gm(7)], &[0]));
    }
    let thorough = tier == Tier::Thorough;
    // ---- exhaustive short histories over three keys whose chain wraps 65535 -> 0 (a,b at 65535; c at 0)
    {
        let kind = "fib";
        let hi = bucket_of(kind, 65535);
        let lo = bucket_of(kind, 0);
        let (a, b, c) = (hi[0], hi[1], lo[0]);
        let alphabet = [TOp::Ins(a, 1), TOp::Ins(b, 2), TOp::Ins(c, 3), TOp::Gm(a), TOp::Gm(b), TOp::Gm(c), TOp::Clear];
        let depth = if thorough { 5 } else { 4 };
        let mut idx = vec![0usize; depth];
        loop {
            let ops: Vec<TOp> = idx.iter().map(|i| alphabet[*i].clone()).collect();
            cases.push(table_case("exhaustive", kind, &ops, &[a, b, c]));
            let mut p = 0;
            while p < depth {
                idx[p] += 1;
                if idx[p] < alphabet.len() {
                    break;
                }
                idx[p] = 0;
                p += 1;
            }
            if p == depth {
                break;
            }
        }
    }
    // ---- random histories over colliding key sets
    let n_coll = if thorough { 30000 } else { 500 };
    for i in 0..n_coll {
        let kind = if i % 2 == 0 { "tab" } else { "fib" };
        let start = match rng.below(3) {
            0 => 65536 - 1 - rng.below(3) as usize, // chains that wrap past the last slot
            _ => rng.below(65536) as usize,
        };
        let slots = 1 + rng.below(3) as usize;
        let per = 2 + rng.below(3) as usize;
        let mut keys = colliding_keys(rng, kind, start, slots, per);
        if rng.chance(1, 2) {
            keys.push(rng.next() as u32); // a key beyond the searched range
        }
        let absent = *rng.pick(bucket_of(kind, start));
        let len = 6 + rng.below(if i % 8 == 0 { 150 } else { 40 }) as usize;
        let ce = 3 + rng.below(8);
        let ops = random_table_history(rng, &keys, len, ce, Vec::new());
        cases.push(table_case(if start + slots + per > 65536 { "collide-wrap" } else { "collide" }, kind, &ops, &[0, absent]));
    }
    // ---- generation fast-forward, then REAL clears across u32::MAX and 0
    let n_gen = if thorough { 10000 } else { 250 };
    for i in 0..n_gen {
        let kind = if i % 2 == 0 { "tab" } else { "fib" };
        let g = GEN_MAX - rng.below(5) as u32;
        let start = if rng.chance(1, 2) { 65535 - rng.below(2) as usize } else { rng.below(65536) as usize };
        let keys = colliding_keys(rng, kind, start, 2, 2);
        let len = 8 + rng.below(30) as usize;
        let ce = 2 + rng.below(3);
        let ops = random_table_history(rng, &keys, len, ce, vec![TOp::SetGen(g)]);
        cases.push(table_case("generation-wrap", kind, &ops, &[0, *rng.pick(bucket_of(kind, start))]));
    }
    // ---- plain random keys (few collisions), long
    let n_rand = if thorough { 5000 } else { 120 };
    for i in 0..n_rand {
        let kind = if i % 2 == 0 { "tab" } else { "fib" };
        let keys: Vec<u32> = (0..(2 + rng.below(12))).map(|_| if rng.chance(1, 2) { rng.below(64) as u32 } else { rng.next() as u32 }).collect();
        let len = 10 + rng.below(120) as usize;
        let ce = 4 + rng.below(20);
        let ops = random_table_history(rng, &keys, len, ce, Vec::new());
        cases.push(table_case("random-keys", kind, &ops, &[0]));
    }
    if thorough {
        // the full 2^32 generation cycle the honest way, with live entries before and after
        for kind in ["tab", "fib"] {
            let keys = colliding_keys(rng, kind, 65535, 2, 2);
            let ops = vec![
                TOp::Ins(keys[0], 1),
                TOp::Ins(keys[1], 2),
                TOp::Clears((GEN_MAX as u64) - 1),
                TOp::Ins(keys[2], 3),
                TOp::Clear,
                TOp::Gm(keys[0]),
                TOp::Ins(keys[3], 4),
                TOp::Clear,
                TOp::Gm(keys[1]),
                TOp::Clear,
                TOp::Gm(keys[2]),
            ];
            cases.push(table_case("full-cycle", kind, &ops, &[0]));
        }
    }
    // ---- tiny table
    let n_tiny = if thorough { 20000 } else { 500 };
    for _ in 0..n_tiny {
        let nkeys = 1 + rng.below(8);
        let len = 4 + rng.below(60) as usize;
        cases.push(tiny_case(rng, nkeys, len));
    }
    // ---- Bloom filter
    let n_bloom = if thorough { 20000 } else { 500 };
    for i in 0..n_bloom {
        if let Some(c) = bloom_case(rng, i % 5 == 0) {
            cases.push(c);
        }
    }
    // ---- count-min sketch
    let n_cms = if thorough { 15000 } else { 400 };
    for _ in 0..n_cms {
        cases.push(cms_case(rng));
    }
}

fn execute(c: &Case, obs: &mut Vec<String>) {
    let kind = c.ops.first().map(|l| l.trim_start_matches("K ").to_string()).unwrap_or_default();
    let rest: Vec<&String> = c.ops.iter().skip(1).collect();
    match kind.as_str() {
        "tab" | "fib" => {
            let mut uni: Vec<u32> = Vec::new();
            let mut ops: Vec<TOp> = Vec::new();
            for l in rest {
                let w: Vec<&str> = l.split_whitespace().collect();
                if w[0] == "H" {
                    uni.push(w[1].parse().unwrap());
                } else {
                    ops.push(parse_top(l).expect("op"));
                }
            }
            if kind == "tab" {
                exec_table::<TabulationHash>(&ops, &uni, obs)
            } else {
                exec_table::<FibonacciHash>(&ops, &uni, obs)
            }
        }
        "tiny" => exec_tiny(&rest, obs),
        "bloom" => exec_bloom(&rest, obs),
        "cms" => exec_cms(&rest, obs),
        _ => panic!("unknown kind"),
    }
}

fn main() {
    harness_main(generate, execute);
}
