//! C18: merging, selection and prefix-sum structures.  Real code: toolbox_rs::{k_way_merge_iterator,
//! loser_tree, merge_tree, merge_entry, top_k, fenwick, single_linked_list, bin_pack}.
//! Case formats: see lean/Tbx/Drv/C18.lean.
use std::collections::BinaryHeap;
use tbx_harness::*;
use toolbox_rs::bin_pack::bin_pack_next_fit;
use toolbox_rs::fenwick::Fenwick;
use toolbox_rs::k_way_merge_iterator::KWayMergeIterator;
use toolbox_rs::loser_tree::LoserTree;
use toolbox_rs::merge_entry::MergeEntry;
use toolbox_rs::merge_tree::MergeTree;
use toolbox_rs::single_linked_list::SingleLinkedList;
use toolbox_rs::top_k::top_k;

// ------------------------------------------------------------------------------------------------
// case builders

fn merge_case(family: &str, loser: Option<usize>, runs: &[Vec<i64>]) -> Case {
    let mut c = Case::new(family);
    match loser {
        Some(cap) => c.op(format!("T merge loser {cap}")),
        None => c.op("T merge heap"),
    };
    for r in runs {
        if r.is_empty() {
            c.op("run");
        } else {
            c.op(format!("run {}", join(r.iter(), " ")));
        }
    }
    c
}

#[derive(Clone, Debug, PartialEq)]
enum LtOp {
    Push(usize, i64),
    Pop,
    Clear,
}

fn lt_case(family: &str, cap: usize, ops: &[LtOp]) -> Case {
    let mut c = Case::new(family);
    c.op(format!("T lt {cap}"));
    for o in ops {
        match o {
            LtOp::Push(s, x) => c.op(format!("push {s} {x}")),
            LtOp::Pop => c.op("pop"),
            LtOp::Clear => c.op("clear"),
        };
    }
    c
}

fn chunked(c: &mut Case, word: &str, xs: &[i64]) {
    if xs.is_empty() {
        c.op(word.to_string());
    }
    for ch in xs.chunks(8) {
        c.op(format!("{word} {}", join(ch.iter(), " ")));
    }
}

fn topk_case(family: &str, k: usize, xs: &[i64]) -> Case {
    let v: Vec<i128> = xs.iter().map(|x| *x as i128).collect();
    topk_case_t(family, k, "i64", &v)
}

/// top_k instantiated for item type `ty` (one of TOPK_TYPES); the Lean side works on Int and ignores the tag
fn topk_case_t(family: &str, k: usize, ty: &str, xs: &[i128]) -> Case {
    let mut c = Case::new(family);
    c.op(format!("T topk {k} {ty}"));
    if xs.is_empty() {
        c.op("in");
    }
    for ch in xs.chunks(8) {
        c.op(format!("in {}", join(ch.iter(), " ")));
    }
    c
}

/// every type that has a `ComparisonValue` impl (`cv!` in src/top_k.rs)
const TOPK_TYPES: [&str; 12] = ["u8", "u16", "u32", "u64", "u128", "usize", "i8", "i16", "i32", "i64", "i128", "isize"];
const TOPK_SIGNED: [&str; 6] = ["i8", "i16", "i32", "i64", "i128", "isize"];

fn ty_bounds(ty: &str) -> (i128, i128) {
    match ty {
        "u8" => (0, u8::MAX as i128),
        "u16" => (0, u16::MAX as i128),
        "u32" => (0, u32::MAX as i128),
        "u64" | "usize" => (0, u64::MAX as i128),
        "u128" => (0, i128::MAX), // the upper half of u128 is not representable in the generator's i128
        "i8" => (i8::MIN as i128, i8::MAX as i128),
        "i16" => (i16::MIN as i128, i16::MAX as i128),
        "i32" => (i32::MIN as i128, i32::MAX as i128),
        "i64" | "isize" => (i64::MIN as i128, i64::MAX as i128),
        "i128" => (i128::MIN, i128::MAX),
        _ => panic!("type"),
    }
}

/// uniform in lo..=hi for any i128 bounds
fn rnd128(rng: &mut Rng, lo: i128, hi: i128) -> i128 {
    let span = (hi as u128).wrapping_sub(lo as u128).wrapping_add(1);
    let r = ((rng.next() as u128) << 64) | rng.next() as u128;
    let off = if span == 0 { r } else { r % span };
    (lo as u128).wrapping_add(off) as i128
}

fn nf_case(family: &str, cap: u32, items: &[u32]) -> Case {
    let mut c = Case::new(family);
    c.op(format!("T nf {cap}"));
    let xs: Vec<i64> = items.iter().map(|x| *x as i64).collect();
    chunked(&mut c, "items", &xs);
    c
}

// ------------------------------------------------------------------------------------------------
// generators

fn sorted_run(rng: &mut Rng, len: usize, lo: i64, hi: i64) -> Vec<i64> {
    let mut r: Vec<i64> = (0..len).map(|_| rng.range(lo, hi)).collect();
    r.sort();
    r
}

fn gen_merge(rng: &mut Rng, tier: Tier, cases: &mut Vec<Case>) {
    // exhaustive: up to 3 runs of length <= 2 over {0,1,2}
    let mut small: Vec<Vec<i64>> = vec![vec![]];
    for a in 0..3 {
        small.push(vec![a]);
        for b in a..3 {
            small.push(vec![a, b]);
        }
    }
    for k in 1..=3usize {
        let mut idx = vec![0usize; k];
        loop {
            let runs: Vec<Vec<i64>> = idx.iter().map(|i| small[*i].clone()).collect();
            cases.push(merge_case("merge-exh", None, &runs));
            cases.push(merge_case("merge-exh", Some(k), &runs));
            let mut p = 0;
            while p < k {
                idx[p] += 1;
                if idx[p] < small.len() {
                    break;
                }
                idx[p] = 0;
                p += 1;
            }
            if p == k {
                break;
            }
        }
    }
    let per = match tier {
        Tier::Quick => 30,
        Tier::Thorough => 700,
    };
    for k in 1..=9usize {
        for rep in 0..per {
            let (lo, hi) = *rng.pick(&[(0i64, 3i64), (0, 10), (-5, 5), (-1000000, 1000000), (7, 7)]);
            let maxlen = *rng.pick(&[1usize, 3, 6, 12]);
            let mut runs: Vec<Vec<i64>> = Vec::new();
            for _ in 0..k {
                let len = if rng.chance(1, 5) { 0 } else { rng.below(maxlen as u64 + 1) as usize };
                runs.push(sorted_run(rng, len, lo, hi));
            }
            if rep == 0 {
                runs.iter_mut().for_each(|r| r.clear()); // all runs empty
            }
            if rep == 1 {
                // only the last run is non-empty: its slot is filled first
                let last = runs.len() - 1;
                runs.iter_mut().take(last).for_each(|r| r.clear());
                if runs[last].is_empty() {
                    runs[last] = vec![lo, hi];
                }
            }
            cases.push(merge_case("merge-heap", None, &runs));
            // the loser tree is created with exactly k slots, sometimes with spare ones
            let cap = if rng.chance(1, 4) { k + rng.below(4) as usize } else { k };
            cases.push(merge_case("merge-loser", Some(cap), &runs));
        }
    }
    // long merges
    let nlong = match tier {
        Tier::Quick => 6,
        Tier::Thorough => 200,
    };
    for _ in 0..nlong {
        let k = 1 + rng.below(9) as usize;
        let runs: Vec<Vec<i64>> = (0..k).map(|_| { let len = rng.below(150) as usize; sorted_run(rng, len, 0, 40) }).collect();
        cases.push(merge_case("merge-heap", None, &runs));
        cases.push(merge_case("merge-loser", Some(k), &runs));
    }
}

/// which slots are occupied after the history.  Which of several equal minima a pop frees is the
/// tree's choice, so the real tree is replayed; should it panic or misbehave the reference choice
/// (smallest item, lowest slot) is used instead - the generated history is then simply another one
fn lt_replay_free(cap: usize, ops: &[LtOp]) -> Vec<bool> {
    let real = std::panic::catch_unwind(|| {
        let mut tree: LoserTree<i64> = LoserTree::with_capacity(cap);
        let mut occupied = vec![false; cap];
        for o in ops {
            match o {
                LtOp::Push(s, x) => {
                    tree.push(MergeEntry { item: *x, index: *s });
                    occupied[*s] = true;
                }
                LtOp::Pop => {
                    if let Some(e) = tree.pop() {
                        if e.index < cap {
                            occupied[e.index] = false;
                        }
                    }
                }
                LtOp::Clear => {
                    tree.clear();
                    occupied.iter_mut().for_each(|b| *b = false);
                }
            }
        }
        occupied
    });
    if let Ok(o) = real {
        return o;
    }
    let mut slots: Vec<Option<i64>> = vec![None; cap];
    for o in ops {
        match o {
            LtOp::Push(s, x) => slots[*s] = Some(*x),
            LtOp::Pop => {
                let best = (0..cap).filter(|s| slots[*s].is_some()).min_by_key(|s| (slots[*s].unwrap(), *s));
                if let Some(b) = best {
                    slots[b] = None;
                }
            }
            LtOp::Clear => slots.iter_mut().for_each(|b| *b = None),
        }
    }
    slots.iter().map(|s| s.is_some()).collect()
}

fn lt_exhaustive(cap: usize, len: usize, nitems: i64, out: &mut Vec<Vec<LtOp>>) {
    fn rec(cap: usize, len: usize, nitems: i64, cur: &mut Vec<LtOp>, out: &mut Vec<Vec<LtOp>>) {
        if cur.len() == len {
            out.push(cur.clone());
            return;
        }
        // a panic of the real tree while replaying is caught by the caller
        let occ = lt_replay_free(cap, cur);
        let mut cands = Vec::new();
        for s in 0..cap {
            if !occ[s] {
                for x in 0..nitems {
                    cands.push(LtOp::Push(s, x));
                }
            }
        }
        cands.push(LtOp::Pop);
        cands.push(LtOp::Clear);
        for o in cands {
            cur.push(o);
            rec(cap, len, nitems, cur, out);
            cur.pop();
        }
    }
    rec(cap, len, nitems, &mut Vec::new(), out);
}

fn permutations(n: usize) -> Vec<Vec<usize>> {
    fn rec(n: usize, cur: &mut Vec<usize>, used: &mut Vec<bool>, out: &mut Vec<Vec<usize>>) {
        if cur.len() == n {
            out.push(cur.clone());
            return;
        }
        for i in 0..n {
            if !used[i] {
                used[i] = true;
                cur.push(i);
                rec(n, cur, used, out);
                cur.pop();
                used[i] = false;
            }
        }
    }
    let mut out = Vec::new();
    rec(n, &mut Vec::new(), &mut vec![false; n], &mut out);
    out
}

fn gen_lt(rng: &mut Rng, tier: Tier, cases: &mut Vec<Case>) {
    // exhaustive histories on capacities 1..4
    let (len, nitems) = match tier {
        Tier::Quick => (5, 2),
        Tier::Thorough => (6, 2),
    };
    for cap in 1..=4usize {
        let mut hs = Vec::new();
        lt_exhaustive(cap, len, nitems, &mut hs);
        for h in hs {
            cases.push(lt_case("lt-exh", cap, &h));
        }
    }
    // three distinct items on shorter histories (all relative orders of three live entries)
    for cap in 1..=3usize {
        let mut hs = Vec::new();
        lt_exhaustive(cap, len - 1, 3, &mut hs);
        for h in hs {
            cases.push(lt_case("lt-exh3", cap, &h));
        }
    }
    // a tree with three levels (capacity 5 -> 8 leaves): the smallest tree in which an internal node
    // can point outside its own subtree for more than one level (the D16 pattern needs slot 0 and slot 4)
    {
        let mut hs = Vec::new();
        lt_exhaustive(5, len - 1, 2, &mut hs);
        for h in hs {
            cases.push(lt_case("lt-exh8", 5, &h));
        }
    }
    // slots filled in every order, then emptied; a partial fill too
    let maxcap = match tier {
        Tier::Quick => 5,
        Tier::Thorough => 7,
    };
    for cap in 1..=maxcap {
        for perm in permutations(cap) {
            for pat in 0..4 {
                let item = |slot: usize, rng: &mut Rng| -> i64 {
                    match pat {
                        0 => slot as i64,
                        1 => (cap - slot) as i64,
                        2 => 4,
                        _ => rng.range(0, 3),
                    }
                };
                let fill = if pat == 3 { 1 + rng.below(cap as u64) as usize } else { cap };
                let mut ops: Vec<LtOp> = Vec::new();
                for s in perm.iter().take(fill) {
                    let x = item(*s, rng);
                    ops.push(LtOp::Push(*s, x));
                }
                for _ in 0..=fill {
                    ops.push(LtOp::Pop);
                }
                cases.push(lt_case("lt-fill-order", cap, &ops));
            }
        }
    }
    // random histories on capacities up to 9, merge-like refills of the freed slot, clears
    let nrand = match tier {
        Tier::Quick => 400,
        Tier::Thorough => 12000,
    };
    for _ in 0..nrand {
        let cap = 1 + rng.below(9) as usize;
        let len = 4 + rng.below(60) as usize;
        let hi = *rng.pick(&[1i64, 3, 20, 1000000]);
        let mut ops: Vec<LtOp> = Vec::new();
        let mut last_freed: Option<usize> = None;
        let p_clear = *rng.pick(&[0u64, 1, 3]);
        while ops.len() < len {
            let occ = lt_replay_free(cap, &ops);
            let free: Vec<usize> = (0..cap).filter(|s| !occ[*s]).collect();
            let r = rng.below(20);
            if r < p_clear {
                last_freed = None;
                ops.push(LtOp::Clear);
            } else if r < 11 && !free.is_empty() {
                let s = match last_freed {
                    Some(s) if rng.chance(2, 3) && !occ[s] => s,
                    _ => *rng.pick(&free),
                };
                ops.push(LtOp::Push(s, rng.range(0, hi)));
            } else {
                ops.push(LtOp::Pop);
                let occ2 = lt_replay_free(cap, &ops);
                last_freed = (0..cap).find(|s| occ[*s] && !occ2[*s]);
            }
        }
        cases.push(lt_case("lt-random", cap, &ops));
    }
}

fn gen_topk(rng: &mut Rng, tier: Tier, cases: &mut Vec<Case>) {
    let mut rot = 0usize; // rotates the item type over the cases of a family
    // all (input, k) for inputs over {0,1,2} up to a length, every item type in turn
    let maxlen = match tier {
        Tier::Quick => 5,
        Tier::Thorough => 7,
    };
    for len in 0..=maxlen {
        let mut xs = vec![0i128; len];
        loop {
            for k in 0..=len + 2 {
                rot += 1;
                cases.push(topk_case_t("topk-exh", k, TOPK_TYPES[rot % TOPK_TYPES.len()], &xs));
            }
            let mut p = 0;
            while p < len {
                xs[p] += 1;
                if xs[p] < 3 {
                    break;
                }
                xs[p] = 0;
                p += 1;
            }
            if p == len {
                break;
            }
        }
    }
    // all (input, k) for inputs over {-2,-1,0,1,2}: negatives and the default value 0 on both sides of
    // the threshold, signed item types in turn
    let maxlen_s = match tier {
        Tier::Quick => 4,
        Tier::Thorough => 5,
    };
    for len in 0..=maxlen_s {
        let mut xs = vec![-2i128; len];
        loop {
            for k in 0..=len + 1 {
                rot += 1;
                cases.push(topk_case_t("topk-exh-signed", k, TOPK_SIGNED[rot % TOPK_SIGNED.len()], &xs));
            }
            let mut p = 0;
            while p < len {
                xs[p] += 1;
                if xs[p] <= 2 {
                    break;
                }
                xs[p] = -2;
                p += 1;
            }
            if p == len {
                break;
            }
        }
    }
    // all permutations of six distinct items with every k (every arrival order); -3..2 for signed types
    for perm in permutations(6) {
        let ks: Vec<usize> = match tier {
            Tier::Quick => vec![1 + (perm[0] % 3)],
            Tier::Thorough => (0..=7).collect(),
        };
        for k in ks {
            rot += 1;
            let ty = TOPK_TYPES[rot % TOPK_TYPES.len()];
            let shift = if ty.starts_with('i') { 3 } else { 0 };
            let xs: Vec<i128> = perm.iter().map(|x| *x as i128 - shift).collect();
            cases.push(topk_case_t("topk-perm", k, ty, &xs));
        }
    }
    // directed: the k-th smallest of the first 2k items (the threshold after the first compaction) is
    // exactly a boundary value of the type - 0 = Integral::default(), MIN, MIN+1, -1, 1, MAX-1, MAX - and
    // smaller / equal / larger items follow (some cases reach a second compaction)
    let reps = match tier {
        Tier::Quick => 2,
        Tier::Thorough => 25,
    };
    for ty in TOPK_TYPES {
        let (lo, hi) = ty_bounds(ty);
        let mut bounds: Vec<i128> = vec![0, 1, lo, lo + 1, hi - 1, hi];
        if lo < 0 {
            bounds.push(-1);
        }
        bounds.sort();
        bounds.dedup();
        for b in bounds {
            for k in 1..=4usize {
                for _ in 0..reps {
                    // near: values close to b, clipped to the type
                    let near_lo = if b.checked_sub(lo).map_or(true, |d| d > 6) { b - 6 } else { lo };
                    let near_hi = if hi.checked_sub(b).map_or(true, |d| d > 6) { b + 6 } else { hi };
                    let mut xs: Vec<i128> = Vec::new();
                    for _ in 0..k - 1 {
                        xs.push(rnd128(rng, near_lo, b)); // at most b
                    }
                    xs.push(b);
                    for _ in 0..k {
                        xs.push(rnd128(rng, b, near_hi)); // at least b
                    }
                    rng.shuffle(&mut xs);
                    let tail = 1 + rng.below(3 * k as u64 + 2) as usize;
                    for i in 0..tail {
                        let x = match rng.below(6) {
                            0 | 1 | 2 => rnd128(rng, near_lo, if b > lo { b - 1 } else { b }), // below the threshold
                            3 => b,
                            4 => rnd128(rng, near_lo, near_hi),
                            _ => rnd128(rng, lo, hi),
                        };
                        // the first follower is below the threshold whenever the type has room
                        xs.push(if i == 0 && b > lo { rnd128(rng, near_lo, b - 1) } else { x });
                    }
                    cases.push(topk_case_t("topk-threshold-default", k, ty, &xs));
                }
            }
        }
    }
    // k far beyond the input (2k must neither be reserved nor overflow): fixed in b35eb01
    let huge: [usize; 8] = [1 << 31, 100_000_000_000, 1 << 60, (1 << 63) - 1, 1 << 63, (1 << 63) + 1, usize::MAX - 1, usize::MAX];
    let nhuge = match tier {
        Tier::Quick => 5,
        Tier::Thorough => 60,
    };
    for k in huge {
        cases.push(topk_case("topk-huge-k", k, &[]));
        for _ in 0..nhuge {
            let n = 1 + rng.below(40) as usize;
            rot += 1;
            let ty = TOPK_TYPES[rot % TOPK_TYPES.len()];
            let lo = if ty.starts_with('i') { -20 } else { 0 };
            let xs: Vec<i128> = (0..n).map(|_| rnd128(rng, lo, 20)).collect();
            cases.push(topk_case_t("topk-huge-k", k, ty, &xs));
        }
    }
    // large k (2k beyond 4096 / 8192 / 65 536: buffer caps and compaction boundaries), inputs longer than 2k
    for (k, n, shape) in [(4097usize, 20_000usize, 0u8), (2049, 9_000, 1), (5000, 20_000, 2), (33_000, 70_000, 1)] {
        if tier == Tier::Quick && k > 6000 {
            continue;
        }
        let mut xs: Vec<i128> = (0..n as i128).collect();
        match shape {
            0 => {}
            1 => rng.shuffle(&mut xs),
            _ => {
                for x in xs.iter_mut() {
                    *x = rnd128(rng, -1000, 1000);
                }
            }
        }
        cases.push(topk_case_t("topk-large-k", k, "i64", &xs));
    }
    let nrand = match tier {
        Tier::Quick => 400,
        Tier::Thorough => 10000,
    };
    for i in 0..nrand {
        let n = rng.below(if i % 7 == 0 { 400 } else { 60 }) as usize;
        let ty = *rng.pick(&TOPK_TYPES);
        let (tlo, thi) = ty_bounds(ty);
        let (lo, hi) = *rng.pick(&[(0i128, 3i128), (0, 20), (-3, 3), (-50, 50), (-100000, 100000), (i128::MIN, i128::MAX)]);
        let (lo, hi) = (lo.max(tlo), hi.min(thi));
        let mut xs: Vec<i128> = (0..n).map(|_| rnd128(rng, lo, hi)).collect();
        match rng.below(5) {
            0 => xs.sort(),
            1 => {
                xs.sort();
                xs.reverse()
            }
            _ => {}
        }
        let k = match rng.below(6) {
            0 => 0,
            1 => 1,
            2 => n,
            3 => n + 1 + rng.below(50) as usize,
            _ => rng.below(n as u64 / 2 + 2) as usize,
        };
        cases.push(topk_case_t("topk-random", k, ty, &xs));
    }
}

fn gen_fw(rng: &mut Rng, tier: Tier, cases: &mut Vec<Case>) {
    let reps = match tier {
        Tier::Quick => 1,
        Tier::Thorough => 12,
    };
    for n in 0..=40usize {
        for rep in 0..2 * reps {
            let nonneg = rep % 2 == 0;
            let (lo, hi) = if nonneg { *rng.pick(&[(0i64, 1i64), (0, 4), (0, 100)]) } else { *rng.pick(&[(-5i64, 5i64), (-1000000000, 1000000000)]) };
            let mut c = Case::new(if nonneg { "fw-nonneg" } else { "fw-signed" });
            c.op("T fw");
            let mut vals: Vec<i64>;
            if rng.chance(1, 3) {
                vals = vec![0; n];
                c.op(format!("size {n}"));
            } else {
                vals = (0..n).map(|_| rng.range(lo, hi)).collect();
                c.op(format!("vals {}", join(vals.iter(), " ")));
            }
            c.op("all");
            let nupd = 2 + rng.below(6);
            for _ in 0..nupd {
                // an update (sometimes out of range), then point queries, then everything
                let i = if n == 0 || rng.chance(1, 8) { n + rng.below(3) as usize } else { rng.below(n as u64) as usize };
                let x = if nonneg { rng.range(0, hi) } else { rng.range(lo, hi) };
                c.op(format!("upd {i} {x}"));
                if i < n {
                    vals[i] += x;
                }
                c.op(format!("rank {}", rng.below(n as u64 + 2)));
                if n > 0 {
                    let a = rng.below(n as u64);
                    let b = rng.below(n as u64);
                    c.op(format!("range {a} {b}"));
                    c.op(format!("srange {a} {b}"));
                }
                if nonneg {
                    let total: i64 = vals.iter().sum();
                    c.op(format!("sel {}", rng.range(-1, total + 1)));
                }
                if rng.chance(1, 3) {
                    c.op("all");
                }
            }
            c.op("all");
            cases.push(c);
        }
    }
    // select: every threshold on small non-negative arrays (plateaus from zeros)
    let nsel = match tier {
        Tier::Quick => 60,
        Tier::Thorough => 1500,
    };
    for _ in 0..nsel {
        let n = rng.below(18) as usize;
        let hi = *rng.pick(&[1i64, 2, 5]);
        let vals: Vec<i64> = (0..n).map(|_| if rng.chance(1, 3) { 0 } else { rng.range(0, hi) }).collect();
        let mut c = Case::new("fw-select");
        c.op("T fw");
        c.op(format!("vals {}", join(vals.iter(), " ")));
        let total: i64 = vals.iter().sum();
        for x in -1..=total + 1 {
            c.op(format!("sel {x}"));
        }
        cases.push(c);
    }
    // update sequences with a query after every update
    let nupd = match tier {
        Tier::Quick => 80,
        Tier::Thorough => 3000,
    };
    for _ in 0..nupd {
        let n = 1 + rng.below(40) as usize;
        let mut c = Case::new("fw-updates");
        c.op("T fw");
        c.op(format!("size {n}"));
        for _ in 0..(5 + rng.below(40)) {
            c.op(format!("upd {} {}", rng.below(n as u64), rng.range(-9, 9)));
            match rng.below(3) {
                0 => c.op(format!("rank {}", rng.below(n as u64))),
                1 => c.op(format!("range {} {}", rng.below(n as u64), rng.below(n as u64))),
                _ => c.op(format!("srange {} {}", rng.below(n as u64), rng.below(n as u64))),
            };
        }
        c.op("all");
        cases.push(c);
    }
}

fn gen_sl(rng: &mut Rng, tier: Tier, cases: &mut Vec<Case>) {
    // all sequences over {ins 0, ins 1, ins 2, pop, clear}
    let len = match tier {
        Tier::Quick => 5,
        Tier::Thorough => 7,
    };
    let alphabet = ["ins 0", "ins 1", "ins 2", "pop", "clear"];
    let mut idx = vec![0usize; len];
    loop {
        let mut c = Case::new("sl-exh");
        c.op("T sl");
        for i in &idx {
            c.op(alphabet[*i]);
        }
        cases.push(c);
        let mut p = 0;
        while p < len {
            idx[p] += 1;
            if idx[p] < alphabet.len() {
                break;
            }
            idx[p] = 0;
            p += 1;
        }
        if p == len {
            break;
        }
    }
    let nrand = match tier {
        Tier::Quick => 300,
        Tier::Thorough => 8000,
    };
    for _ in 0..nrand {
        let mut c = Case::new("sl-random");
        c.op("T sl");
        let (lo, hi) = *rng.pick(&[(0i64, 3i64), (-20, 20), (-1000000, 1000000)]);
        let mut shadow: Vec<i64> = Vec::new();
        for _ in 0..(3 + rng.below(50)) {
            let sorted = shadow.windows(2).all(|w| w[0] <= w[1]);
            let r = rng.below(20);
            if r < 12 && sorted {
                let x = rng.range(lo, hi);
                c.op(format!("ins {x}"));
                let pos = shadow.iter().position(|y| *y >= x).unwrap_or(shadow.len());
                shadow.insert(pos, x);
            } else if r < 15 {
                // push_front: mostly keeps the list sorted, sometimes not
                let x = match shadow.first() {
                    Some(h) if !rng.chance(1, 6) => *h - rng.range(0, 2),
                    _ => rng.range(lo, hi),
                };
                c.op(format!("pf {x}"));
                shadow.insert(0, x);
            } else if r < 19 {
                c.op("pop");
                if !shadow.is_empty() {
                    shadow.remove(0);
                }
            } else {
                c.op("clear");
                shadow.clear();
            }
        }
        cases.push(c);
    }
}

fn gen_nf(rng: &mut Rng, tier: Tier, cases: &mut Vec<Case>) {
    // every instance with items 0..=3, up to a length, capacities 0..=6 (oversized items, exact fits, zero capacity)
    let maxlen = match tier {
        Tier::Quick => 5,
        Tier::Thorough => 6,
    };
    for cap in 0..=6u32 {
        for len in 0..=maxlen {
            let mut xs = vec![0u32; len];
            loop {
                cases.push(nf_case("nf-exh", cap, &xs));
                let mut p = 0;
                while p < len {
                    xs[p] += 1;
                    if xs[p] <= 3 {
                        break;
                    }
                    xs[p] = 0;
                    p += 1;
                }
                if p == len {
                    break;
                }
            }
        }
    }
    let nrand = match tier {
        Tier::Quick => 400,
        Tier::Thorough => 10000,
    };
    for i in 0..nrand {
        let cap: u32 = *rng.pick(&[1u32, 7, 10, 100, 1 << 20, u32::MAX - 1, u32::MAX]);
        let n = rng.below(if i % 9 == 0 { 300 } else { 30 }) as usize;
        let mode = rng.below(5);
        let items: Vec<u32> = (0..n)
            .map(|_| match mode {
                0 => rng.below(cap as u64 + 1) as u32,                         // anything that fits
                1 => (cap / 2).max(1) - if rng.chance(1, 2) { 0 } else { rng.below((cap / 2).max(1) as u64) as u32 }, // halves: exact fits
                2 => if rng.chance(1, 12) { cap.saturating_add(1) } else { rng.below(cap as u64 + 1) as u32 }, // sometimes oversized
                3 => rng.below((cap as u64 / 4).max(1) + 1) as u32,           // small items
                _ => if rng.chance(1, 3) { 0 } else { cap - rng.below((cap as u64).min(3)) as u32 }, // zeros and nearly full
            })
            .collect();
        cases.push(nf_case("nf-random", cap, &items));
    }
}

fn generate(rng: &mut Rng, tier: Tier, cases: &mut Vec<Case>) {
    // witnesses of the defects fixed in /repo (also kept in corpus/C18)
    cases.push(lt_case("corpus-d16", 8, &[LtOp::Push(0, 1), LtOp::Push(4, 5), LtOp::Pop, LtOp::Pop, LtOp::Pop]));
    cases.push(lt_case("corpus-d16", 1, &[LtOp::Push(0, 3), LtOp::Pop, LtOp::Pop, LtOp::Push(0, 1), LtOp::Clear, LtOp::Pop]));
    cases.push(lt_case("corpus-d16", 4, &[LtOp::Push(1, 2), LtOp::Push(3, 1), LtOp::Clear, LtOp::Pop, LtOp::Push(2, 7), LtOp::Pop, LtOp::Pop]));
    cases.push(merge_case("corpus-d16", Some(1), &[vec![1, 2, 3]]));
    cases.push(merge_case("corpus-d16", Some(5), &[vec![], vec![], vec![], vec![], vec![1, 5]]));
    for ops in [vec!["ins 5"], vec!["pf 5", "ins 1"], vec!["ins 5", "ins 1", "ins 3", "ins 9"]] {
        let mut c = Case::new("corpus-d17");
        c.op("T sl");
        for o in ops {
            c.op(o);
        }
        cases.push(c);
    }
    gen_merge(&mut rng.fork(), tier, cases);
    gen_lt(&mut rng.fork(), tier, cases);
    gen_topk(&mut rng.fork(), tier, cases);
    gen_fw(&mut rng.fork(), tier, cases);
    gen_sl(&mut rng.fork(), tier, cases);
    gen_nf(&mut rng.fork(), tier, cases);
}

// ------------------------------------------------------------------------------------------------
// execution of the real code

fn opt<T: std::fmt::Display>(x: Option<T>) -> String {
    match x {
        Some(v) => v.to_string(),
        None => "none".to_string(),
    }
}

fn nums<T: std::str::FromStr>(t: &[&str]) -> Vec<T>
where
    T::Err: std::fmt::Debug,
{
    t.iter().map(|x| x.parse::<T>().unwrap()).collect()
}

fn exec_merge(hdr: &[&str], ops: &[String], obs: &mut Vec<String>) {
    let runs: Vec<Vec<i64>> = ops.iter().map(|l| nums::<i64>(&l.split_whitespace().collect::<Vec<_>>()[1..])).collect();
    let total: usize = runs.iter().map(|r| r.len()).sum();
    let mut list: Vec<std::vec::IntoIter<i64>> = runs.into_iter().map(|r| r.into_iter()).collect();
    // a tree that never runs empty must not hang the batch: two items more than exist are enough to see it
    let out: Vec<i64> = if hdr[2] == "loser" {
        let cap: usize = hdr[3].parse().unwrap();
        KWayMergeIterator::new(&mut list, LoserTree::with_capacity(cap)).take(total + 2).collect()
    } else {
        KWayMergeIterator::new(&mut list, BinaryHeap::new()).take(total + 2).collect()
    };
    obs.push(format!("D out={} n={}", join(out.iter(), ","), out.len()));
}

fn exec_lt(hdr: &[&str], ops: &[String], obs: &mut Vec<String>) {
    let cap: usize = hdr[2].parse().unwrap();
    let mut tree: LoserTree<i64> = LoserTree::with_capacity(cap);
    for (k, l) in ops.iter().enumerate() {
        let t: Vec<&str> = l.split_whitespace().collect();
        let mut item = "-".to_string();
        let mut slot = "-".to_string();
        match t[0] {
            "push" => tree.push(MergeEntry { item: t[2].parse().unwrap(), index: t[1].parse().unwrap() }),
            "pop" => match tree.pop() {
                Some(e) => {
                    item = e.item.to_string();
                    slot = e.index.to_string();
                }
                None => item = "none".to_string(),
            },
            "clear" => tree.clear(),
            _ => panic!("op"),
        }
        obs.push(format!("D {k} len={} empty={} item={item}", tree.len(), if tree.is_empty() { 1 } else { 0 }));
        obs.push(format!("F {k} slot={slot}"));
    }
}

fn exec_topk(hdr: &[&str], ops: &[String], obs: &mut Vec<String>) {
    let k: usize = hdr[2].parse().unwrap();
    let ty = hdr.get(3).copied().unwrap_or("i64");
    let mut words: Vec<&str> = Vec::new();
    for l in ops {
        words.extend(l.split_whitespace().skip(1));
    }
    macro_rules! run {
        ($t:ty) => {{
            let xs: Vec<$t> = nums::<$t>(&words);
            let out = top_k(xs.iter().copied(), k);
            obs.push(format!("D out={} n={}", join(out.iter(), ","), out.len()));
            // the same items through other `IntoIterator` shapes: the result is a function of the item sequence,
            // not of `size_hint` (exact for the slice iterator and the Vec, (0, Some(n)) for `filter`,
            // (0, None) for `from_fn`, (0, Some(..)) for `flat_map`)
            let out = top_k(xs.clone(), k);
            obs.push(format!("D out_vec={} n={}", join(out.iter(), ","), out.len()));
            let out = top_k(xs.iter().copied().filter(|_| true), k);
            obs.push(format!("D out_filter={} n={}", join(out.iter(), ","), out.len()));
            let mut it = xs.iter().copied();
            let out = top_k(std::iter::from_fn(move || it.next()), k);
            obs.push(format!("D out_fromfn={} n={}", join(out.iter(), ","), out.len()));
            let out = top_k(xs.chunks(3).flat_map(|c| c.iter().copied()), k);
            obs.push(format!("D out_flatmap={} n={}", join(out.iter(), ","), out.len()));
        }};
    }
    match ty {
        "u8" => run!(u8),
        "u16" => run!(u16),
        "u32" => run!(u32),
        "u64" => run!(u64),
        "u128" => run!(u128),
        "usize" => run!(usize),
        "i8" => run!(i8),
        "i16" => run!(i16),
        "i32" => run!(i32),
        "i64" => run!(i64),
        "i128" => run!(i128),
        "isize" => run!(isize),
        _ => panic!("unknown item type"),
    }
}

fn exec_fw(ops: &[String], obs: &mut Vec<String>) {
    let first: Vec<&str> = ops[0].split_whitespace().collect();
    let mut fw: Fenwick<i64> = match first[0] {
        "vals" => Fenwick::from_values(&nums::<i64>(&first[1..])),
        "size" => Fenwick::with_size(first[1].parse().unwrap()),
        _ => panic!("no vals/size"),
    };
    for (k, l) in ops[1..].iter().enumerate() {
        let t: Vec<&str> = l.split_whitespace().collect();
        let u = |i: usize| t[i].parse::<usize>().unwrap();
        let line = match t[0] {
            "upd" => format!("upd={}", if fw.update(u(1), t[2].parse().unwrap()).is_ok() { "ok" } else { "err" }),
            "rank" => format!("rank={}", opt(fw.rank(u(1)))),
            "range" => format!("range={}", fw.range(u(1), u(2))),
            "srange" => format!("srange={}", fw.slow_range(u(1), u(2))),
            "sel" => format!("sel={}", opt(fw.select(t[1].parse().unwrap()))),
            "all" => {
                let n = fw.len();
                let ranks = join((0..n).map(|i| opt(fw.rank(i))), ",");
                let mut rg = Vec::with_capacity(n * n);
                let mut sr = Vec::with_capacity(n * n);
                for i in 0..n {
                    for j in 0..n {
                        rg.push(fw.range(i, j));
                        sr.push(fw.slow_range(i, j));
                    }
                }
                format!(
                    "len={n} empty={} ranks={ranks} ranges={} sranges={}",
                    if fw.is_empty() { 1 } else { 0 },
                    join(rg.iter(), ","),
                    join(sr.iter(), ",")
                )
            }
            _ => panic!("op"),
        };
        obs.push(format!("D {k} {line}"));
    }
}

fn sl_apply(list: &mut SingleLinkedList<i64>, l: &str) -> String {
    let t: Vec<&str> = l.split_whitespace().collect();
    match t[0] {
        "pf" => {
            list.push_front(t[1].parse().unwrap());
            "-".into()
        }
        "ins" => {
            list.insert_sorted(t[1].parse().unwrap());
            "-".into()
        }
        "pop" => opt(list.pop_front()),
        "clear" => {
            list.clear();
            "-".into()
        }
        _ => panic!("op"),
    }
}

fn exec_sl(ops: &[String], obs: &mut Vec<String>) {
    let mut list: SingleLinkedList<i64> = if ops.len() % 2 == 0 { SingleLinkedList::default() } else { SingleLinkedList::new() };
    for (k, l) in ops.iter().enumerate() {
        let ret = sl_apply(&mut list, l);
        // the list has no iterator: its content is read off a copy built by replaying the history
        let mut copy: SingleLinkedList<i64> = SingleLinkedList::new();
        for p in &ops[..=k] {
            sl_apply(&mut copy, p);
        }
        let mut content = Vec::new();
        while let Some(x) = copy.pop_front() {
            content.push(x);
        }
        obs.push(format!(
            "D {k} sorted={} empty={} peek={} ret={ret} list={}",
            if list.is_sorted() { 1 } else { 0 },
            if list.is_empty() { 1 } else { 0 },
            opt(list.peek_front().copied()),
            join(content.iter(), ",")
        ));
    }
}

fn exec_nf(hdr: &[&str], ops: &[String], obs: &mut Vec<String>) {
    let cap: u32 = hdr[2].parse().unwrap();
    let mut items: Vec<u32> = Vec::new();
    for l in ops {
        items.extend(nums::<u32>(&l.split_whitespace().collect::<Vec<_>>()[1..]));
    }
    match bin_pack_next_fit(&items, cap) {
        Ok((bins, asg)) => obs.push(format!("D bins={bins} asg={}", join(asg.iter(), ","))),
        Err(_) => obs.push("D err".to_string()),
    }
}

fn execute(c: &Case, obs: &mut Vec<String>) {
    let hdr: Vec<&str> = c.ops[0].split_whitespace().collect();
    let ops = &c.ops[1..];
    match hdr[1] {
        "merge" => exec_merge(&hdr, ops, obs),
        "lt" => exec_lt(&hdr, ops, obs),
        "topk" => exec_topk(&hdr, ops, obs),
        "fw" => exec_fw(ops, obs),
        "sl" => exec_sl(ops, obs),
        "nf" => exec_nf(&hdr, ops, obs),
        _ => panic!("unknown family"),
    }
}

fn main() {
    harness_main(generate, execute);
}
