//! Shared by gen_c01 / gen_c02 (included with `#[path]`): case generation for the three max-flow
//! solvers and in-process execution of the REAL toolbox_rs code.
//!
//! Case format (see lean/Tbx/Drv/FlowCommon.lean):  `st s t` / `e u v cap` lines.
use tbx_harness::*;
use toolbox_rs::dinic::Dinic;
use toolbox_rs::edge::InputEdge;
use toolbox_rs::edmonds_karp::EdmondsKarp;
use toolbox_rs::ford_fulkerson::FordFulkerson;
use toolbox_rs::max_flow::{MaxFlow, ResidualEdgeData};

pub type E = (usize, usize, i32);

/// a (permuted) source or sink that occurs in no edge and carries the largest id would lie outside the
/// graph as the Rust sizes it (largest id + 1): keep it in range with a zero-capacity edge t -> s
fn in_range(s: usize, t: usize, mut edges: Vec<E>) -> Vec<E> {
    let n = num_nodes(&edges);
    if s >= n || t >= n {
        edges.push((t, s, 0));
    }
    edges
}

pub fn case_from(family: &str, s: usize, t: usize, edges: &[E]) -> Case {
    let edges = &in_range(s, t, edges.to_vec());
    let mut c = Case::new(family);
    c.op(format!("st {s} {t}"));
    for (u, v, w) in edges {
        c.op(format!("e {u} {v} {w}"));
    }
    c
}

fn num_nodes(edges: &[E]) -> usize {
    edges.iter().map(|e| e.0.max(e.1)).max().map(|m| m + 1).unwrap_or(0)
}

/// all multisets of `k` edge types (indices non-decreasing)
fn multisets(types: usize, k: usize, from: usize, cur: &mut Vec<usize>, f: &mut dyn FnMut(&[usize])) {
    if cur.len() == k {
        f(cur);
        return;
    }
    for i in from..types {
        cur.push(i);
        multisets(types, k, i, cur, f);
        cur.pop();
    }
}

/// exhaustive small scope: every multiset of 1..=max_edges edges over `nodes` ids and capacities
/// 0..=max_cap (edge order shuffled), every ordered pair s != t of existing nodes
fn exhaustive(rng: &mut Rng, nodes: usize, max_edges: usize, max_cap: i32, family: &str, cases: &mut Vec<Case>) {
    let mut types: Vec<E> = Vec::new();
    for u in 0..nodes {
        for v in 0..nodes {
            for c in 0..=max_cap {
                types.push((u, v, c));
            }
        }
    }
    for k in 1..=max_edges {
        let mut sets: Vec<Vec<usize>> = Vec::new();
        multisets(types.len(), k, 0, &mut Vec::new(), &mut |m| sets.push(m.to_vec()));
        for m in sets {
            let mut edges: Vec<E> = m.iter().map(|i| types[*i]).collect();
            rng.shuffle(&mut edges);
            let n = num_nodes(&edges);
            for s in 0..n {
                for t in 0..n {
                    if s != t {
                        cases.push(case_from(family, s, t, &edges));
                    }
                }
            }
        }
    }
}

fn permute(rng: &mut Rng, n: usize, s: usize, t: usize, edges: &[E]) -> (usize, usize, Vec<E>) {
    let mut p: Vec<usize> = (0..n).collect();
    rng.shuffle(&mut p);
    let mut es: Vec<E> = edges.iter().map(|(u, v, c)| (p[*u], p[*v], *c)).collect();
    rng.shuffle(&mut es);
    (p[s], p[t], es)
}

/// the shape that exposes a stale DFS bottleneck (defect D1): a trunk of capacity >= 2 from the source
/// to an inner node, a fan of >= 2 branches off that node, one of which reaches the sink with a
/// smaller capacity; ids permuted so that the order on the DFS stack varies
fn d1_shaped(rng: &mut Rng) -> (usize, usize, Vec<E>) {
    let mut edges: Vec<E> = Vec::new();
    let mut next = 1usize; // 0 = source
    let trunk_len = 1 + rng.below(3) as usize;
    let trunk_cap = rng.range(2, 12) as i32;
    let mut inner = 0usize;
    for _ in 0..trunk_len {
        edges.push((inner, next, trunk_cap + rng.range(0, 3) as i32));
        inner = next;
        next += 1;
    }
    let sink = next;
    next += 1;
    let branches = 2 + rng.below(4) as usize;
    // the short branch: directly (or through one node) into the sink, with a small capacity
    let small = rng.range(1, (trunk_cap - 1).max(1) as i64) as i32;
    if rng.chance(2, 3) {
        edges.push((inner, sink, small));
    } else {
        edges.push((inner, next, small + rng.range(0, 3) as i32));
        edges.push((next, sink, small));
        next += 1;
    }
    for _ in 0..branches {
        let len = 1 + rng.below(2) as usize;
        let mut cur = inner;
        for _ in 0..len {
            edges.push((cur, next, rng.range(1, 12) as i32));
            cur = next;
            next += 1;
        }
        edges.push((cur, sink, rng.range(1, 12) as i32));
    }
    // some noise: extra edges, duplicates, back edges
    let extra = rng.below(4) as usize;
    for _ in 0..extra {
        let u = rng.below(next as u64) as usize;
        let v = rng.below(next as u64) as usize;
        edges.push((u, v, rng.range(0, 6) as i32));
    }
    permute(rng, next, 0, sink, &edges)
}

/// unit-capacity grid, both directions, with a ragged left region contracted into a super source and
/// a ragged right region into a super sink (what inertial flow builds): an inner cell next to several
/// contracted cells gets parallel unit edges, which the solvers merge to capacities > 1
fn grid(rng: &mut Rng, w: usize, h: usize) -> (usize, usize, Vec<E>) {
    let a = 1 + rng.below((w as u64 / 4).max(1)) as usize;
    let b = 1 + rng.below((w as u64 / 4).max(1)) as usize;
    // role per cell: 0 = source region, 1 = sink region, 2.. = own node
    let mut role = vec![vec![usize::MAX; h]; w];
    let mut next = 2usize;
    for x in 0..w {
        for y in 0..h {
            role[x][y] = if x < a || (x == a && rng.chance(1, 2)) {
                0
            } else if x >= w - b || (x + 1 == w - b && x > a && rng.chance(1, 2)) {
                1
            } else {
                next += 1;
                next - 1
            };
        }
    }
    let mut edges: Vec<E> = Vec::new();
    for x in 0..w {
        for y in 0..h {
            // occasionally drop an edge so that the cut is not simply a column
            if x + 1 < w && !rng.chance(1, 8) {
                let (p, q) = (role[x][y], role[x + 1][y]);
                if p != q {
                    edges.push((p, q, 1));
                    edges.push((q, p, 1));
                }
            }
            if y + 1 < h && !rng.chance(1, 8) {
                let (p, q) = (role[x][y], role[x][y + 1]);
                if p != q {
                    edges.push((p, q, 1));
                    edges.push((q, p, 1));
                }
            }
        }
    }
    if edges.is_empty() {
        edges.push((0, 1, 1));
    }
    let n = num_nodes(&edges).max(2);
    if rng.chance(1, 2) { permute(rng, n, 0, 1, &edges) } else { (0, 1, edges) }
}

/// random multigraph with duplicates, antiparallel pairs, self-loops and zero capacities
fn random_multi(rng: &mut Rng) -> (usize, usize, Vec<E>) {
    let n = 2 + rng.below(*rng.clone().pick(&[2u64, 4, 6, 9])) as usize;
    let m = 1 + rng.below(*rng.clone().pick(&[4u64, 10, 20, 36])) as usize;
    let cap_hi = *rng.pick(&[1i64, 3, 8, 100, 100000]);
    let mut edges: Vec<E> = Vec::new();
    while edges.len() < m {
        let u = rng.below(n as u64) as usize;
        let v = rng.below(n as u64) as usize;
        let c = if rng.chance(1, 8) { 0 } else { rng.range(0, cap_hi) as i32 };
        edges.push((u, v, c));
        if rng.chance(1, 6) {
            edges.push((u, v, rng.range(0, cap_hi) as i32)); // duplicate
        }
        if rng.chance(1, 5) {
            edges.push((v, u, rng.range(0, cap_hi) as i32)); // antiparallel
        }
        if rng.chance(1, 12) {
            edges.push((u, u, rng.range(0, cap_hi) as i32)); // self loop
        }
    }
    let nn = num_nodes(&edges);
    if nn < 2 {
        edges.push((0, 1, rng.range(0, cap_hi) as i32));
    }
    let nn = num_nodes(&edges);
    let s = rng.below(nn as u64) as usize;
    let mut t = rng.below(nn as u64) as usize;
    if t == s {
        t = (s + 1) % nn;
    }
    (s, t, edges)
}

/// layered networks: many phases / long paths for Dinic
fn layered(rng: &mut Rng) -> (usize, usize, Vec<E>) {
    let layers = 2 + rng.below(4) as usize;
    let width = 1 + rng.below(4) as usize;
    let mut edges: Vec<E> = Vec::new();
    let node = |l: usize, i: usize| 1 + l * width + i;
    let sink = 1 + layers * width;
    for i in 0..width {
        edges.push((0, node(0, i), rng.range(1, 9) as i32));
        edges.push((node(layers - 1, i), sink, rng.range(1, 9) as i32));
    }
    for l in 0..layers - 1 {
        for i in 0..width {
            for j in 0..width {
                if rng.chance(2, 3) {
                    edges.push((node(l, i), node(l + 1, j), rng.range(1, 9) as i32));
                }
            }
        }
    }
    // shortcuts and back edges make the BFS levels change between phases
    for _ in 0..rng.below(5) {
        let u = rng.below(sink as u64 + 1) as usize;
        let v = rng.below(sink as u64 + 1) as usize;
        edges.push((u, v, rng.range(0, 9) as i32));
    }
    permute(rng, sink + 1, 0, sink, &edges)
}

pub const D1_WITNESS: [E; 6] = [(0, 1, 10), (1, 2, 10), (1, 3, 10), (1, 4, 3), (2, 4, 10), (3, 4, 10)];

pub fn generate(rng: &mut Rng, tier: Tier, cases: &mut Vec<Case>) {
    // corpus: witness of the fixed defect D1, and the networks of /repo's unit tests
    cases.push(case_from("corpus-d1", 0, 4, &D1_WITNESS));
    cases.push(case_from(
        "corpus-clr",
        0,
        5,
        &[(0, 1, 16), (0, 2, 13), (1, 2, 10), (1, 3, 12), (2, 1, 4), (2, 4, 14), (3, 2, 9), (3, 5, 20), (4, 3, 7), (4, 5, 4)],
    ));
    // the D1 topology with every capacity assignment from {1,2,3}, under id permutations
    let perms = match tier {
        Tier::Quick => 2,
        Tier::Thorough => 24,
    };
    let mut caps = [1i32; 6];
    loop {
        let edges: Vec<E> = D1_WITNESS.iter().zip(caps.iter()).map(|(e, c)| (e.0, e.1, *c)).collect();
        cases.push(case_from("d1-topology", 0, 4, &edges));
        for _ in 0..perms {
            let (s, t, es) = permute(rng, 5, 0, 4, &edges);
            cases.push(case_from("d1-topology", s, t, &es));
        }
        let mut i = 0;
        while i < 6 {
            if caps[i] < 3 {
                caps[i] += 1;
                break;
            }
            caps[i] = 1;
            i += 1;
        }
        if i == 6 {
            break;
        }
    }
    // (i) exhaustive small scope
    match tier {
        Tier::Quick => exhaustive(rng, 3, 4, 2, "exhaustive", cases),
        Tier::Thorough => {
            exhaustive(rng, 3, 4, 3, "exhaustive", cases);
            exhaustive(rng, 4, 3, 3, "exhaustive4", cases);
        }
    }
    let (n_d1, n_grid, n_multi, n_layered) = match tier {
        Tier::Quick => (6000, 400, 5000, 4000),
        Tier::Thorough => (80000, 4000, 80000, 50000),
    };
    // (ii) D1-shaped
    for _ in 0..n_d1 {
        let (s, t, es) = d1_shaped(rng);
        cases.push(case_from("d1-shaped", s, t, &es));
    }
    // (iii) contracted unit grids
    for _ in 0..n_grid {
        let w = 4 + rng.below(5) as usize;
        let h = 2 + rng.below(4) as usize;
        let (s, t, es) = grid(rng, w, h);
        cases.push(case_from("grid", s, t, &es));
    }
    // (iv) random multigraphs
    for _ in 0..n_multi {
        let (s, t, es) = random_multi(rng);
        cases.push(case_from("multigraph", s, t, &es));
    }
    for _ in 0..n_layered {
        let (s, t, es) = layered(rng);
        cases.push(case_from("layered", s, t, &es));
    }
}

fn parse(c: &Case) -> Option<(usize, usize, Vec<E>)> {
    let mut st = None;
    let mut edges = Vec::new();
    for l in &c.ops {
        let t: Vec<&str> = l.split_whitespace().collect();
        match t.first().copied() {
            Some("st") if t.len() == 3 => st = Some((t[1].parse().ok()?, t[2].parse().ok()?)),
            Some("e") if t.len() == 4 => edges.push((t[1].parse().ok()?, t[2].parse().ok()?, t[3].parse().ok()?)),
            _ => return None,
        }
    }
    let (s, t) = st?;
    Some((s, t, edges))
}

fn bits(b: &bitvec::vec::BitVec) -> String {
    b.iter().map(|x| if *x { '1' } else { '0' }).collect()
}

fn triples(r: &[(usize, usize, i32)]) -> String {
    join(r.iter().map(|(u, v, c)| format!("{u}:{v}:{c}")), ",")
}

fn observe<S: MaxFlow>(
    name: &str,
    edges: &[E],
    s: usize,
    t: usize,
    with_pre: bool,
    with_assign: bool,
    residual: impl Fn(&S) -> Vec<(usize, usize, i32)>,
    obs: &mut Vec<String>,
) {
    let list: Vec<InputEdge<ResidualEdgeData>> =
        edges.iter().map(|(u, v, c)| InputEdge::new(*u, *v, ResidualEdgeData::new(*c))).collect();
    let mut solver = S::from_edge_list(list, s, t);
    if with_pre {
        let a = match solver.max_flow() {
            Ok(x) => x.to_string(),
            Err(_) => "ERR".to_string(),
        };
        let b = match solver.assignment(s) {
            Ok(x) => bits(&x),
            Err(_) => "ERR".to_string(),
        };
        obs.push(format!("D {name} pre={a},{b}"));
    }
    solver.run();
    match solver.max_flow() {
        Ok(x) => obs.push(format!("D {name} flow={x}")),
        Err(_) => obs.push(format!("D {name} flow=ERR")),
    }
    if with_assign {
        match solver.assignment(s) {
            Ok(x) => obs.push(format!("D {name} assign={}", bits(&x))),
            Err(_) => obs.push(format!("D {name} assign=ERR")),
        }
    }
    obs.push(format!("F {name} res={}", triples(&residual(&solver))));
}

/// runs the three real solvers; out-of-domain cases (only produced by shrinking) are not executed,
/// the driver answers `J skip` for them from the ops alone
pub fn execute(c: &Case, obs: &mut Vec<String>, with_pre: bool, with_assign: bool) {
    let Some((s, t, edges)) = parse(c) else { return };
    let n = num_nodes(&edges);
    let total: i64 = edges.iter().map(|e| e.2 as i64).sum();
    if edges.is_empty() || s == t || s >= n || t >= n || edges.iter().any(|e| e.2 < 0) || total >= i32::MAX as i64 {
        obs.push("D out-of-domain".to_string());
        return;
    }
    observe::<Dinic>("dinic", &edges, s, t, with_pre, with_assign, |x| x.verif_residual(), obs);
    observe::<EdmondsKarp>("ek", &edges, s, t, with_pre, with_assign, |x| x.verif_residual(), obs);
    observe::<FordFulkerson>("ff", &edges, s, t, with_pre, with_assign, |x| x.verif_residual(), obs);
}
