//! Shared by gen_c01 / gen_c02 (included with `#[path]`): case generation for the three max-flow
//! solvers and in-process execution of the REAL toolbox_rs code.
//!
//! Case format (see lean/Tbx/Drv/FlowCommon.lean):  `st s t` / `e u v cap` lines; with a `gen k` line the
//! numbers on the `e` lines are raw payloads and the solvers are built through
//! `MaxFlow::from_generic_edge_list` with capacity closure number k (`gen_cap`).
use tbx_harness::*;
use toolbox_rs::dinic::Dinic;
use toolbox_rs::edge::InputEdge;
use toolbox_rs::edmonds_karp::EdmondsKarp;
use toolbox_rs::ford_fulkerson::FordFulkerson;
use toolbox_rs::max_flow::{MaxFlow, ResidualEdgeData};

pub type E = (usize, usize, i32);

/// a (permuted) source or sink that occurs in no edge and carries the largest id would lie outside the
/// graph as the Rust sizes it (largest id + 1): keep it in range with a zero-capacity edge t -> s
fn in_range(s: usize, t: usize, mut edges: Vec<E>) -> Vec<E> {
    let n = num_nodes(&edges);
    if s >= n || t >= n {
        edges.push((t, s, 0));
    }
    edges
}

pub fn case_from(family: &str, s: usize, t: usize, edges: &[E]) -> Case {
    let edges = &in_range(s, t, edges.to_vec());
    let mut c = Case::new(family);
    c.op(format!("st {s} {t}"));
    for (u, v, w) in edges {
        c.op(format!("e {u} {v} {w}"));
    }
    c
}

/// a case whose solvers are built with `from_generic_edge_list` and closure `k`; `edges` carry payloads
pub fn case_from_gen(family: &str, k: usize, s: usize, t: usize, edges: &[E]) -> Case {
    let mut edges = edges.to_vec();
    let n = num_nodes(&edges);
    if s >= n || t >= n {
        edges.push((t, s, 0));
    }
    let mut c = Case::new(family);
    c.op(format!("st {s} {t}"));
    c.op(format!("gen {k}"));
    for (u, v, w) in &edges {
        c.op(format!("e {u} {v} {w}"));
    }
    c
}

fn num_nodes(edges: &[E]) -> usize {
    edges.iter().map(|e| e.0.max(e.1)).max().map(|m| m + 1).unwrap_or(0)
}

pub const IMAX: i64 = i32::MAX as i64;

/// capacity closures handed to `from_generic_edge_list` (mirrored by `Tbx.Flow.genCap`)
pub fn gen_cap(k: usize, payload: i32) -> i32 {
    const TABLE: [i32; 5] = [3, 0, 5, 1, 2];
    match k {
        0 => 1,
        1 => payload + 1,
        2 => payload.abs(),
        _ => TABLE[payload.rem_euclid(5) as usize],
    }
}

/// reference maximum flow (BFS augmenting paths on a dense i64 matrix; polynomial whatever the capacities)
pub fn ref_max_flow(n: usize, edges: &[E], s: usize, t: usize) -> i64 {
    let mut r = vec![vec![0i64; n]; n];
    for (u, v, c) in edges {
        if u != v {
            r[*u][*v] += *c as i64;
        }
    }
    let mut flow = 0i64;
    loop {
        let mut par = vec![usize::MAX; n];
        par[s] = s;
        let mut q = std::collections::VecDeque::new();
        q.push_back(s);
        while let Some(u) = q.pop_front() {
            for v in 0..n {
                if par[v] == usize::MAX && r[u][v] > 0 {
                    par[v] = u;
                    q.push_back(v);
                }
            }
        }
        if par[t] == usize::MAX {
            return flow;
        }
        let mut b = i64::MAX;
        let mut v = t;
        while v != s {
            b = b.min(r[par[v]][v]);
            v = par[v];
        }
        let mut v = t;
        while v != s {
            r[par[v]][v] -= b;
            r[v][par[v]] += b;
            v = par[v];
        }
        flow += b;
    }
}

/// the domain in which the solvers' i32 arithmetic cannot overflow: merged capacities of every node pair
/// (both directions together: what `dedup +=` and `rev += flow` can reach) and the maximum flow value
/// (what `max_flow += path_flow` reaches) fit i32; capacities are non-negative; s != t are nodes
pub fn in_domain(edges: &[E], s: usize, t: usize) -> bool {
    let n = num_nodes(edges);
    if edges.is_empty() || s == t || s >= n || t >= n || edges.iter().any(|e| e.2 < 0) {
        return false;
    }
    let mut pair: std::collections::HashMap<(usize, usize), i64> = std::collections::HashMap::new();
    for (u, v, c) in edges {
        let key = if u <= v { (*u, *v) } else { (*v, *u) };
        *pair.entry(key).or_insert(0) += *c as i64;
    }
    if pair.values().any(|x| *x > IMAX) {
        return false;
    }
    ref_max_flow(n, edges, s, t) <= IMAX
}

/// all multisets of `k` edge types (indices non-decreasing)
fn multisets(types: usize, k: usize, from: usize, cur: &mut Vec<usize>, f: &mut dyn FnMut(&[usize])) {
    if cur.len() == k {
        f(cur);
        return;
    }
    for i in from..types {
        cur.push(i);
        multisets(types, k, i, cur, f);
        cur.pop();
    }
}

/// exhaustive small scope: every multiset of 1..=max_edges edges over `nodes` ids and capacities
/// 0..=max_cap (edge order shuffled), every ordered pair s != t of existing nodes
fn exhaustive(rng: &mut Rng, nodes: usize, max_edges: usize, max_cap: i32, family: &str, cases: &mut Vec<Case>) {
    let mut types: Vec<E> = Vec::new();
    for u in 0..nodes {
        for v in 0..nodes {
            for c in 0..=max_cap {
                types.push((u, v, c));
            }
        }
    }
    for k in 1..=max_edges {
        let mut sets: Vec<Vec<usize>> = Vec::new();
        multisets(types.len(), k, 0, &mut Vec::new(), &mut |m| sets.push(m.to_vec()));
        for m in sets {
            let mut edges: Vec<E> = m.iter().map(|i| types[*i]).collect();
            rng.shuffle(&mut edges);
            let n = num_nodes(&edges);
            for s in 0..n {
                for t in 0..n {
                    if s != t {
                        cases.push(case_from(family, s, t, &edges));
                    }
                }
            }
        }
    }
}

fn permute(rng: &mut Rng, n: usize, s: usize, t: usize, edges: &[E]) -> (usize, usize, Vec<E>) {
    let mut p: Vec<usize> = (0..n).collect();
    rng.shuffle(&mut p);
    let mut es: Vec<E> = edges.iter().map(|(u, v, c)| (p[*u], p[*v], *c)).collect();
    rng.shuffle(&mut es);
    (p[s], p[t], es)
}

/// the shape that exposes a stale DFS bottleneck (defect D1): a trunk of capacity >= 2 from the source
/// to an inner node, a fan of >= 2 branches off that node, one of which reaches the sink with a
/// smaller capacity; ids permuted so that the order on the DFS stack varies
fn d1_shaped(rng: &mut Rng) -> (usize, usize, Vec<E>) {
    let mut edges: Vec<E> = Vec::new();
    let mut next = 1usize; // 0 = source
    let trunk_len = 1 + rng.below(3) as usize;
    let trunk_cap = rng.range(2, 12) as i32;
    let mut inner = 0usize;
    for _ in 0..trunk_len {
        edges.push((inner, next, trunk_cap + rng.range(0, 3) as i32));
        inner = next;
        next += 1;
    }
    let sink = next;
    next += 1;
    let branches = 2 + rng.below(4) as usize;
    // the short branch: directly (or through one node) into the sink, with a small capacity
    let small = rng.range(1, (trunk_cap - 1).max(1) as i64) as i32;
    if rng.chance(2, 3) {
        edges.push((inner, sink, small));
    } else {
        edges.push((inner, next, small + rng.range(0, 3) as i32));
        edges.push((next, sink, small));
        next += 1;
    }
    for _ in 0..branches {
        let len = 1 + rng.below(2) as usize;
        let mut cur = inner;
        for _ in 0..len {
            edges.push((cur, next, rng.range(1, 12) as i32));
            cur = next;
            next += 1;
        }
        edges.push((cur, sink, rng.range(1, 12) as i32));
    }
    // some noise: extra edges, duplicates, back edges
    let extra = rng.below(4) as usize;
    for _ in 0..extra {
        let u = rng.below(next as u64) as usize;
        let v = rng.below(next as u64) as usize;
        edges.push((u, v, rng.range(0, 6) as i32));
    }
    permute(rng, next, 0, sink, &edges)
}

/// unit-capacity grid, both directions, with a ragged left region contracted into a super source and
/// a ragged right region into a super sink (what inertial flow builds): an inner cell next to several
/// contracted cells gets parallel unit edges, which the solvers merge to capacities > 1
fn grid(rng: &mut Rng, w: usize, h: usize) -> (usize, usize, Vec<E>) {
    let a = 1 + rng.below((w as u64 / 4).max(1)) as usize;
    let b = 1 + rng.below((w as u64 / 4).max(1)) as usize;
    // role per cell: 0 = source region, 1 = sink region, 2.. = own node
    let mut role = vec![vec![usize::MAX; h]; w];
    let mut next = 2usize;
    for x in 0..w {
        for y in 0..h {
            role[x][y] = if x < a || (x == a && rng.chance(1, 2)) {
                0
            } else if x >= w - b || (x + 1 == w - b && x > a && rng.chance(1, 2)) {
                1
            } else {
                next += 1;
                next - 1
            };
        }
    }
    let mut edges: Vec<E> = Vec::new();
    for x in 0..w {
        for y in 0..h {
            // occasionally drop an edge so that the cut is not simply a column
            if x + 1 < w && !rng.chance(1, 8) {
                let (p, q) = (role[x][y], role[x + 1][y]);
                if p != q {
                    edges.push((p, q, 1));
                    edges.push((q, p, 1));
                }
            }
            if y + 1 < h && !rng.chance(1, 8) {
                let (p, q) = (role[x][y], role[x][y + 1]);
                if p != q {
                    edges.push((p, q, 1));
                    edges.push((q, p, 1));
                }
            }
        }
    }
    if edges.is_empty() {
        edges.push((0, 1, 1));
    }
    let n = num_nodes(&edges).max(2);
    if rng.chance(1, 2) { permute(rng, n, 0, 1, &edges) } else { (0, 1, edges) }
}

/// random multigraph with duplicates, antiparallel pairs, self-loops and zero capacities
fn random_multi(rng: &mut Rng) -> (usize, usize, Vec<E>) {
    let n = 2 + rng.below(*rng.clone().pick(&[2u64, 4, 6, 9])) as usize;
    let m = 1 + rng.below(*rng.clone().pick(&[4u64, 10, 20, 36])) as usize;
    let cap_hi = *rng.pick(&[1i64, 3, 8, 100, 100000]);
    let mut edges: Vec<E> = Vec::new();
    while edges.len() < m {
        let u = rng.below(n as u64) as usize;
        let v = rng.below(n as u64) as usize;
        let c = if rng.chance(1, 8) { 0 } else { rng.range(0, cap_hi) as i32 };
        edges.push((u, v, c));
        if rng.chance(1, 6) {
            edges.push((u, v, rng.range(0, cap_hi) as i32)); // duplicate
        }
        if rng.chance(1, 5) {
            edges.push((v, u, rng.range(0, cap_hi) as i32)); // antiparallel
        }
        if rng.chance(1, 12) {
            edges.push((u, u, rng.range(0, cap_hi) as i32)); // self loop
        }
    }
    let nn = num_nodes(&edges);
    if nn < 2 {
        edges.push((0, 1, rng.range(0, cap_hi) as i32));
    }
    let nn = num_nodes(&edges);
    let s = rng.below(nn as u64) as usize;
    let mut t = rng.below(nn as u64) as usize;
    if t == s {
        t = (s + 1) % nn;
    }
    (s, t, edges)
}

/// layered networks: many phases / long paths for Dinic
fn layered(rng: &mut Rng) -> (usize, usize, Vec<E>) {
    let layers = 2 + rng.below(4) as usize;
    let width = 1 + rng.below(4) as usize;
    let mut edges: Vec<E> = Vec::new();
    let node = |l: usize, i: usize| 1 + l * width + i;
    let sink = 1 + layers * width;
    for i in 0..width {
        edges.push((0, node(0, i), rng.range(1, 9) as i32));
        edges.push((node(layers - 1, i), sink, rng.range(1, 9) as i32));
    }
    for l in 0..layers - 1 {
        for i in 0..width {
            for j in 0..width {
                if rng.chance(2, 3) {
                    edges.push((node(l, i), node(l + 1, j), rng.range(1, 9) as i32));
                }
            }
        }
    }
    // shortcuts and back edges make the BFS levels change between phases
    for _ in 0..rng.below(5) {
        let u = rng.below(sink as u64 + 1) as usize;
        let v = rng.below(sink as u64 + 1) as usize;
        edges.push((u, v, rng.range(0, 9) as i32));
    }
    permute(rng, sink + 1, 0, sink, &edges)
}

const HUGE: [i32; 7] = [i32::MAX, i32::MAX - 1, 1 << 30, (1 << 30) - 1, i32::MAX - 10, i32::MAX / 2, i32::MAX / 2 + 1];

/// few-edge graphs with capacities near i32::MAX on source out-edges / sink in-edges / middle edges and
/// small bottlenecks elsewhere; the sum of all capacities (and of the source's out-capacities) may exceed
/// i32::MAX by far.  Only cases inside `in_domain` whose flow value is small (or whose shape needs a single
/// augmentation per path) are emitted, so that the augmenting-path solvers stay fast.
fn huge_cases(rng: &mut Rng, count: usize, cases: &mut Vec<Case>) {
    let m = i32::MAX;
    // fixed shapes
    let fixed: Vec<(usize, usize, Vec<E>)> = vec![
        (0, 2, vec![(0, 1, m), (1, 2, 9), (0, 2, 1)]),
        (0, 2, vec![(0, 1, m), (1, 2, m)]),
        (0, 2, vec![(0, 1, m), (1, 2, m - 1)]),
        (0, 3, vec![(0, 1, m), (1, 2, m), (2, 3, m)]),
        (0, 3, vec![(0, 1, 1 << 30), (1, 3, 1 << 30), (0, 2, (1 << 30) - 1), (2, 3, (1 << 30) - 1)]),
        (0, 2, vec![(0, 1, 1 << 30), (0, 1, (1 << 30) - 1), (1, 2, 5)]),
        (0, 2, vec![(0, 1, 1 << 30), (0, 1, (1 << 30) - 1), (1, 2, m)]),
        (0, 3, vec![(0, 1, m), (0, 2, m), (1, 3, 4), (2, 3, 7), (1, 2, m)]),
        (0, 3, vec![(0, 1, 3), (0, 2, 8), (1, 3, m), (2, 3, m)]),
        (0, 3, vec![(0, 1, 5), (1, 2, m), (2, 3, 6), (2, 1, 0)]),
        (0, 1, vec![(0, 1, m)]),
        (0, 1, vec![(0, 1, m - 1), (1, 0, 1)]),
        (0, 1, vec![(0, 1, m), (1, 1, m), (0, 0, m)]),
    ];
    for (s, t, es) in &fixed {
        if in_domain(es, *s, *t) {
            cases.push(case_from("huge-capacities", *s, *t, es));
            let n = num_nodes(es);
            let (ps, pt, pes) = permute(rng, n, *s, *t, es);
            if in_domain(&pes, ps, pt) {
                cases.push(case_from("huge-capacities", ps, pt, &pes));
            }
        }
    }
    let mut made = 0;
    let mut guard = 0;
    while made < count && guard < count * 50 {
        guard += 1;
        let n = 3 + rng.below(4) as usize;
        let sink = n - 1;
        let mut es: Vec<E> = Vec::new();
        let shape = rng.below(4);
        let small = |rng: &mut Rng| rng.range(0, 9) as i32;
        let huge = |rng: &mut Rng| *rng.pick(&HUGE);
        match shape {
            0 => {
                // huge source fan, small way out
                for a in 1..sink {
                    es.push((0, a, huge(rng)));
                    es.push((a, sink, small(rng)));
                }
                if rng.chance(1, 2) {
                    es.push((0, sink, small(rng)));
                }
            }
            1 => {
                // small way in, huge sink fan-in
                for a in 1..sink {
                    es.push((0, a, small(rng)));
                    es.push((a, sink, huge(rng)));
                }
            }
            2 => {
                // huge middle edges between small ends
                for a in 1..sink {
                    es.push((0, a, small(rng)));
                }
                for a in 1..sink {
                    for b in 1..sink {
                        if a != b && rng.chance(1, 2) {
                            es.push((a, b, huge(rng)));
                        }
                    }
                }
                for a in 1..sink {
                    es.push((a, sink, small(rng)));
                }
            }
            _ => {
                // anything goes
                let m_edges = 2 + rng.below(7) as usize;
                for _ in 0..m_edges {
                    let u = rng.below(n as u64) as usize;
                    let v = rng.below(n as u64) as usize;
                    let c = if rng.chance(1, 3) { huge(rng) } else { small(rng) };
                    es.push((u, v, c));
                }
            }
        }
        // noise: a few small extra edges
        for _ in 0..rng.below(3) {
            let u = rng.below(n as u64) as usize;
            let v = rng.below(n as u64) as usize;
            es.push((u, v, small(rng)));
        }
        if es.is_empty() {
            continue;
        }
        let (s, t, es) = permute(rng, n, 0, sink, &es);
        let es = in_range(s, t, es);
        if !in_domain(&es, s, t) {
            continue;
        }
        if ref_max_flow(num_nodes(&es), &es, s, t) > 20000 {
            continue;
        }
        cases.push(case_from("huge-capacities", s, t, &es));
        made += 1;
    }
}

/// solvers built through `from_generic_edge_list` with a capacity closure that is not the identity;
/// payloads include 0 and negative numbers
fn generic_cases(rng: &mut Rng, count: usize, cases: &mut Vec<Case>) {
    // payloads 0 / negative on the only path: a constructor that looked at the payload would lose it
    cases.push(case_from_gen("generic-constructor", 0, 0, 2, &[(0, 1, 0), (1, 2, -3)]));
    cases.push(case_from_gen("generic-constructor", 1, 0, 2, &[(0, 1, 0), (1, 2, 4), (0, 2, -1)]));
    cases.push(case_from_gen("generic-constructor", 2, 0, 2, &[(0, 1, -7), (1, 2, -2), (0, 2, 0)]));
    cases.push(case_from_gen("generic-constructor", 3, 0, 2, &[(0, 1, -5), (1, 2, 0), (0, 2, -3)]));
    for i in 0..count {
        let k = i % 4;
        let n = 2 + rng.below(6) as usize;
        let m = 1 + rng.below(14) as usize;
        let mut es: Vec<E> = Vec::new();
        for _ in 0..m {
            let u = rng.below(n as u64) as usize;
            let v = rng.below(n as u64) as usize;
            let p = match k {
                1 => rng.range(-1, 8) as i32,
                _ => rng.range(-6, 8) as i32,
            };
            es.push((u, v, p));
        }
        let nn = num_nodes(&es);
        if nn < 2 {
            es.push((0, 1, 0));
        }
        let nn = num_nodes(&es);
        let s = rng.below(nn as u64) as usize;
        let mut t = rng.below(nn as u64) as usize;
        if t == s {
            t = (s + 1) % nn;
        }
        cases.push(case_from_gen("generic-constructor", k, s, t, &es));
    }
}

pub const D1_WITNESS: [E; 6] = [(0, 1, 10), (1, 2, 10), (1, 3, 10), (1, 4, 3), (2, 4, 10), (3, 4, 10)];

pub fn generate(rng: &mut Rng, tier: Tier, cases: &mut Vec<Case>) {
    // corpus: witness of the fixed defect D1, and the networks of /repo's unit tests
    cases.push(case_from("corpus-d1", 0, 4, &D1_WITNESS));
    cases.push(case_from(
        "corpus-clr",
        0,
        5,
        &[(0, 1, 16), (0, 2, 13), (1, 2, 10), (1, 3, 12), (2, 1, 4), (2, 4, 14), (3, 2, 9), (3, 5, 20), (4, 3, 7), (4, 5, 4)],
    ));
    // the D1 topology with every capacity assignment from {1,2,3}, under id permutations
    let perms = match tier {
        Tier::Quick => 2,
        Tier::Thorough => 24,
    };
    let mut caps = [1i32; 6];
    loop {
        let edges: Vec<E> = D1_WITNESS.iter().zip(caps.iter()).map(|(e, c)| (e.0, e.1, *c)).collect();
        cases.push(case_from("d1-topology", 0, 4, &edges));
        for _ in 0..perms {
            let (s, t, es) = permute(rng, 5, 0, 4, &edges);
            cases.push(case_from("d1-topology", s, t, &es));
        }
        let mut i = 0;
        while i < 6 {
            if caps[i] < 3 {
                caps[i] += 1;
                break;
            }
            caps[i] = 1;
            i += 1;
        }
        if i == 6 {
            break;
        }
    }
    // (i) exhaustive small scope
    match tier {
        Tier::Quick => exhaustive(rng, 3, 4, 2, "exhaustive", cases),
        Tier::Thorough => {
            exhaustive(rng, 3, 4, 3, "exhaustive", cases);
            exhaustive(rng, 4, 3, 3, "exhaustive4", cases);
        }
    }
    let (n_d1, n_grid, n_multi, n_layered) = match tier {
        Tier::Quick => (6000, 400, 5000, 4000),
        Tier::Thorough => (80000, 4000, 80000, 50000),
    };
    // (ii) D1-shaped
    for _ in 0..n_d1 {
        let (s, t, es) = d1_shaped(rng);
        cases.push(case_from("d1-shaped", s, t, &es));
    }
    // (iii) contracted unit grids
    for _ in 0..n_grid {
        let w = 4 + rng.below(5) as usize;
        let h = 2 + rng.below(4) as usize;
        let (s, t, es) = grid(rng, w, h);
        cases.push(case_from("grid", s, t, &es));
    }
    // (iv) random multigraphs
    for _ in 0..n_multi {
        let (s, t, es) = random_multi(rng);
        cases.push(case_from("multigraph", s, t, &es));
    }
    for _ in 0..n_layered {
        let (s, t, es) = layered(rng);
        cases.push(case_from("layered", s, t, &es));
    }
    // (v) capacities near i32::MAX inside the precise no-overflow domain
    let (n_huge, n_generic) = match tier {
        Tier::Quick => (3000, 3000),
        Tier::Thorough => (40000, 40000),
    };
    huge_cases(rng, n_huge, cases);
    // (vi) the generic constructor with non-identity capacity closures
    generic_cases(rng, n_generic, cases);
    // (vii) run_with_upper_bound: bounds around the true flow (F-1, F, F+1), 0, i32::MAX and a random value
    // in [0, F] (Dinic leaves its phase loop after the first phase whose accumulated flow exceeds the bound)
    let n_bounded = match tier {
        Tier::Quick => 2400,
        Tier::Thorough => 30000,
    };
    bounded_cases(rng, n_bounded, cases);
    // (viii) the same solver object run again (run / run_with_upper_bound): reported value and cut stay
    rerun_cases(rng, n_bounded / 2, cases);
    bounded_rerun_cases(rng, n_bounded / 2, cases);
    // (ix) high-degree nodes
    hub_cases(rng, match tier { Tier::Quick => 72, Tier::Thorough => 900 }, cases);
}

fn bounded_cases(rng: &mut Rng, count: usize, cases: &mut Vec<Case>) {
    cases.push(bounded_case("bounded", 0, 4, &D1_WITNESS, 10));
    cases.push(bounded_case("bounded", 0, 4, &D1_WITNESS, 9));
    for i in 0..count {
        let (s, t, es) = match i % 4 {
            0 => d1_shaped(rng),
            1 => layered(rng),
            2 => {
                let w = 4 + rng.below(4) as usize;
                let h = 2 + rng.below(3) as usize;
                grid(rng, w, h)
            }
            _ => random_multi(rng),
        };
        let es = in_range(s, t, es);
        if !in_domain(&es, s, t) {
            continue;
        }
        let f = ref_max_flow(num_nodes(&es), &es, s, t);
        let b: i64 = match rng.below(8) {
            0 => f - 1,
            1 | 2 => f,
            3 => f + 1,
            4 => 0,
            5 => i32::MAX as i64,
            _ => rng.below(f as u64 + 1) as i64,
        };
        let b = b.clamp(0, i32::MAX as i64) as i32;
        cases.push(bounded_case("bounded", s, t, &es, b));
    }
}

/// nodes of high degree (adjacency slices longer than 8 / 16 / 32 / 64 / 128 entries, where lookups in a slice
/// may switch strategy): source -> hub(s) -> k spokes -> sink with random capacities and a few cross edges, ids
/// permuted so that the hub is not node 0
fn hub_cases(rng: &mut Rng, count: usize, cases: &mut Vec<Case>) {
    let ks = [7usize, 8, 9, 15, 16, 17, 31, 32, 33, 63, 64, 65, 66, 100, 127, 128, 129, 200];
    for i in 0..count {
        let k = ks[i % ks.len()];
        let hubs = 1 + rng.below(2) as usize;
        // ids: 0 source, 1..=hubs hubs, then spokes, last = sink
        let n = 2 + hubs + k;
        let sink = n - 1;
        let mut es: Vec<E> = Vec::new();
        for h in 1..=hubs {
            es.push((0, h, rng.range(1, 400) as i32));
            for j in 0..k {
                let sp = 1 + hubs + j;
                if hubs == 1 || rng.chance(2, 3) {
                    es.push((h, sp, rng.range(0, 5) as i32));
                }
            }
        }
        for j in 0..k {
            let sp = 1 + hubs + j;
            es.push((sp, sink, rng.range(0, 4) as i32));
            if rng.chance(1, 6) {
                let other = 1 + hubs + rng.below(k as u64) as usize;
                es.push((sp, other, rng.range(0, 3) as i32));
            }
            if rng.chance(1, 8) {
                es.push((sp, 1, rng.range(0, 3) as i32)); // back to the first hub: it has in- and out-edges
            }
        }
        rng.shuffle(&mut es);
        let (s, t, es) = permute(rng, n, 0, sink, &es);
        if in_domain(&es, s, t) {
            cases.push(case_from("hub", s, t, &es));
        }
    }
}

fn rerun_cases(rng: &mut Rng, count: usize, cases: &mut Vec<Case>) {
    let mut c = case_from("rerun", 0, 4, &D1_WITNESS);
    c.ops.insert(1, "rr 2".to_string());
    cases.push(c);
    for i in 0..count {
        let (s, t, es) = match i % 3 {
            0 => d1_shaped(rng),
            1 => layered(rng),
            _ => random_multi(rng),
        };
        let es = in_range(s, t, es);
        if !in_domain(&es, s, t) {
            continue;
        }
        let mut c = case_from("rerun", s, t, &es);
        c.ops.insert(1, format!("rr {}", 1 + rng.below(3)));
        cases.push(c);
    }
}

/// a bounded run (bound below, at or above the true flow) followed by `rr` further runs of the same object: the
/// first is `run()` under the stored bound, the second `run_with_upper_bound(i32::MAX)`, ... - an aborted object
/// that is later completed must report the maximum flow (seeded change C02-r4m2: the abort stored the flow
/// counter without the phase it had just pushed)
fn bounded_rerun_cases(rng: &mut Rng, count: usize, cases: &mut Vec<Case>) {
    let mut c = bounded_case("bounded-rerun", 0, 4, &D1_WITNESS, 2);
    c.ops.insert(2, "rr 2".to_string());
    cases.push(c);
    for i in 0..count {
        let (s, t, es) = match i % 3 {
            0 => d1_shaped(rng),
            1 => layered(rng),
            _ => random_multi(rng),
        };
        let es = in_range(s, t, es);
        if !in_domain(&es, s, t) {
            continue;
        }
        let f = ref_max_flow(num_nodes(&es), &es, s, t);
        let b: i64 = match rng.below(6) {
            0 => f,
            1 => f + 1,
            2 => 0,
            3 => f - 1,
            _ => rng.below(f as u64 + 1) as i64,
        };
        if b < 0 || b > IMAX {
            continue;
        }
        let mut c = bounded_case("bounded-rerun", s, t, &es, b as i32);
        c.ops.insert(2, format!("rr {}", 2 + rng.below(3)));
        cases.push(c);
    }
}

fn bounded_case(family: &str, s: usize, t: usize, edges: &[E], bound: i32) -> Case {
    let mut c = case_from(family, s, t, edges);
    c.ops.insert(1, format!("ub {bound}"));
    c
}

thread_local! {
    /// number of additional runs of the case being executed (`rr k` header), read by `observe`
    static RERUNS: std::cell::Cell<usize> = const { std::cell::Cell::new(0) };
}

fn parse(c: &Case) -> Option<(usize, usize, Option<usize>, Option<i32>, Vec<E>)> {
    let mut st = None;
    let mut generic = None;
    let mut ub = None;
    RERUNS.with(|r| r.set(0));
    let mut edges = Vec::new();
    for l in &c.ops {
        let t: Vec<&str> = l.split_whitespace().collect();
        match t.first().copied() {
            Some("st") if t.len() == 3 => st = Some((t[1].parse().ok()?, t[2].parse().ok()?)),
            Some("gen") if t.len() == 2 => generic = Some(t[1].parse().ok()?),
            Some("ub") if t.len() == 2 => ub = Some(t[1].parse().ok()?),
            Some("rr") if t.len() == 2 => RERUNS.with(|r| r.set(t[1].parse().unwrap_or(0))),
            Some("e") if t.len() == 4 => edges.push((t[1].parse().ok()?, t[2].parse().ok()?, t[3].parse().ok()?)),
            _ => return None,
        }
    }
    let (s, t) = st?;
    Some((s, t, generic, ub, edges))
}

fn bits(b: &bitvec::vec::BitVec) -> String {
    b.iter().map(|x| if *x { '1' } else { '0' }).collect()
}

fn triples(r: &[(usize, usize, i32)]) -> String {
    join(r.iter().map(|(u, v, c)| format!("{u}:{v}:{c}")), ",")
}

fn observe<S: MaxFlow>(
    name: &str,
    edges: &[E],
    s: usize,
    t: usize,
    with_pre: bool,
    with_assign: bool,
    generic: Option<usize>,
    bounded: Option<(i32, bool)>, // (initial value of the shared bound, flow/assign lines are free)
    residual: impl Fn(&S) -> Vec<(usize, usize, i32)>,
    obs: &mut Vec<String>,
) {
    let mut solver = match generic {
        None => {
            let list: Vec<InputEdge<ResidualEdgeData>> =
                edges.iter().map(|(u, v, c)| InputEdge::new(*u, *v, ResidualEdgeData::new(*c))).collect();
            S::from_edge_list(list, s, t)
        }
        Some(k) => {
            // raw payload edges and a capacity closure, as chipper does
            let raw: Vec<InputEdge<i32>> = edges.iter().map(|(u, v, p)| InputEdge::new(*u, *v, *p)).collect();
            S::from_generic_edge_list(&raw, s, t, |e| ResidualEdgeData::new(gen_cap(k, e.data)))
        }
    };
    if with_pre {
        let a = match solver.max_flow() {
            Ok(x) => x.to_string(),
            Err(_) => "ERR".to_string(),
        };
        let b = match solver.assignment(s) {
            Ok(x) => bits(&x),
            Err(_) => "ERR".to_string(),
        };
        obs.push(format!("D {name} pre={a},{b}"));
    }
    let shared = bounded.map(|(b, _)| std::sync::Arc::new(std::sync::atomic::AtomicI32::new(b)));
    match &shared {
        Some(b) => solver.run_with_upper_bound(b.clone()),
        None => solver.run(),
    }
    let cls = if matches!(bounded, Some((_, true))) { "F" } else { "D" };
    match solver.max_flow() {
        Ok(x) => obs.push(format!("{cls} {name} flow={x}")),
        Err(_) => obs.push(format!("{cls} {name} flow=ERR")),
    }
    if with_assign {
        match solver.assignment(s) {
            Ok(x) => obs.push(format!("{cls} {name} assign={}", bits(&x))),
            Err(_) => obs.push(format!("{cls} {name} assign=ERR")),
        }
    }
    obs.push(format!("F {name} res={}", triples(&residual(&solver))));
    if let Some(b) = &shared {
        obs.push(format!("F {name} bound={}", b.load(std::sync::atomic::Ordering::SeqCst)));
    }
    // `rr k`: the same object is run k more times (run / run_with_upper_bound(i32::MAX) alternating); what it
    // reports afterwards is still determined by the property
    let k = RERUNS.with(|r| r.get());
    if k > 0 {
        for i in 0..k {
            if i % 2 == 0 {
                solver.run();
            } else {
                solver.run_with_upper_bound(std::sync::Arc::new(std::sync::atomic::AtomicI32::new(i32::MAX)));
            }
        }
        match solver.max_flow() {
            Ok(x) => obs.push(format!("D {name} flow2={x}")),
            Err(_) => obs.push(format!("D {name} flow2=ERR")),
        }
        if with_assign {
            match solver.assignment(s) {
                Ok(x) => obs.push(format!("D {name} assign2={}", bits(&x))),
                Err(_) => obs.push(format!("D {name} assign2=ERR")),
            }
        }
    }
}

/// runs the three real solvers; out-of-domain cases (only produced by shrinking) are not executed,
/// the driver answers `J skip` for them from the ops alone
pub fn execute(c: &Case, obs: &mut Vec<String>, with_pre: bool, with_assign: bool) {
    let Some((s, t, generic, ub, edges)) = parse(c) else { return };
    // the capacities the solvers are supposed to work with
    let caps: Vec<E> = match generic {
        None => edges.clone(),
        Some(k) => {
            if k > 3 || edges.iter().any(|e| e.2.checked_add(1).is_none() || e.2 == i32::MIN) {
                obs.push("D out-of-domain".to_string());
                return;
            }
            edges.iter().map(|(u, v, p)| (*u, *v, gen_cap(k, *p))).collect()
        }
    };
    if !in_domain(&caps, s, t) {
        obs.push("D out-of-domain".to_string());
        return;
    }
    // bounded runs: Dinic honours the bound (its lines are free where the bound is below the true maximum
    // flow: C04's clause), EdmondsKarp and FordFulkerson discard it
    let (bd, bo) = match ub {
        Some(b) => {
            let f = ref_max_flow(num_nodes(&caps), &caps, s, t);
            (Some((b, (b as i64) < f)), Some((b, false)))
        }
        None => (None, None),
    };
    observe::<Dinic>("dinic", &edges, s, t, with_pre, with_assign, generic, bd, |x| x.verif_residual(), obs);
    observe::<EdmondsKarp>("ek", &edges, s, t, with_pre, with_assign, generic, bo, |x| x.verif_residual(), obs);
    observe::<FordFulkerson>("ff", &edges, s, t, with_pre, with_assign, generic, bo, |x| x.verif_residual(), obs);
}
