import Tbx.Drv.C14
def main : IO Unit := Tbx.Drv.runDriver Tbx.Drv.C14.handle
