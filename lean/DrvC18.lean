import Tbx.Drv.C18
def main : IO Unit := Tbx.Drv.runDriver Tbx.Drv.C18.handle
