import Tbx.Drv.C05
def main : IO Unit := Tbx.Drv.runDriver Tbx.Drv.C05.handle
