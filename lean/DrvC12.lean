import Tbx.Drv.C12
def main : IO Unit := Tbx.Drv.runDriver Tbx.Drv.C12.handle
