import Tbx.Drv.C19
def main : IO Unit := Tbx.Drv.runDriver Tbx.Drv.C19.handle
