import Tbx.Drv.C11
def main : IO Unit := Tbx.Drv.runDriver Tbx.Drv.C11.handle
