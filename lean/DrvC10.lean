import Tbx.Drv.C10
def main : IO Unit := Tbx.Drv.runDriver Tbx.Drv.C10.handle
