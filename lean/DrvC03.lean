import Tbx.Drv.C03
def main : IO Unit := Tbx.Drv.runDriver Tbx.Drv.C03.handle
