import Tbx.Drv.C01
def main : IO Unit := Tbx.Drv.runDriver Tbx.Drv.C01.handle
