import Tbx.Drv.C07
def main : IO Unit := Tbx.Drv.runDriver Tbx.Drv.C07.handle
