import Tbx.Drv.C20
def main : IO Unit := Tbx.Drv.runDriver Tbx.Drv.C20.handle
