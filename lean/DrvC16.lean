import Tbx.Drv.C16
def main : IO Unit := Tbx.Drv.runDriver Tbx.Drv.C16.handle
