import Tbx.Drv.C15
def main : IO Unit := Tbx.Drv.runDriver Tbx.Drv.C15.handle
