import Mathlib.Analysis.SpecialFunctions.Trigonometric.Arctan
import Mathlib.Analysis.SpecialFunctions.Log.Basic
/-
The Mercator latitude conversions of src/mercator.rs read over the real numbers.

  lat_to_y(lat) = 0.5.to_degrees() * ln((1 + f) / (1 - f)),  f = sin(clamp(lat).to_radians())
  y_to_lat(y)   = 2.0.to_degrees() * atan(exp(clamp(y).to_radians())) - 90

`latToYU` / `yToLatU` are the formulas without the two clamps.  Proved here: they are inverse to each other
for every |φ| < 90 (`yToLatU_latToYU`).  The statement with the clamps (they are inactive on the property's
range |φ| ≤ 85.05, which needs a numeric bound on ln/sin) is `Tbx.Props.C19.mercator_inverse_real_statement`.
-/
namespace Tbx.Merc
open Real

noncomputable def latToYU (φ : ℝ) : ℝ :=
  (1 / 2 * (180 / π)) * Real.log ((1 + sin (φ * (π / 180))) / (1 - sin (φ * (π / 180))))

noncomputable def yToLatU (y : ℝ) : ℝ :=
  (2 * (180 / π)) * arctan (exp (y * (π / 180))) - 90

/-- `f64::clamp` over the reals -/
noncomputable def clampR (x lo hi : ℝ) : ℝ := if x < lo then lo else if x > hi then hi else x

/-- EPSG3857_MAX_LATITUDE -/
noncomputable def maxLat : ℝ := 85.05112877980659

noncomputable def latToYR (φ : ℝ) : ℝ := latToYU (clampR φ (-maxLat) maxLat)
noncomputable def yToLatR (y : ℝ) : ℝ := yToLatU (clampR y (-180) 180)

theorem tan_sq_quarter (θ : ℝ) (h1 : -(π / 2) < θ) (h2 : θ < π / 2) :
    0 < tan (π / 4 + θ / 2) ∧ tan (π / 4 + θ / 2) ^ 2 = (1 + sin θ) / (1 - sin θ) := by
  have hx1 : 0 < π / 4 + θ / 2 := by linarith
  have hx2 : π / 4 + θ / 2 < π / 2 := by linarith
  have hcos : 0 < cos (π / 4 + θ / 2) := cos_pos_of_mem_Ioo ⟨by linarith, hx2⟩
  have hc2 : cos (π / 4 + θ / 2) ^ 2 = (1 - sin θ) / 2 := by
    rw [cos_sq]
    have : 2 * (π / 4 + θ / 2) = θ + π / 2 := by ring
    rw [this, cos_add_pi_div_two]; ring
  have hs2 : sin (π / 4 + θ / 2) ^ 2 = (1 + sin θ) / 2 := by
    rw [sin_sq, hc2]; ring
  have hpos : 0 < 1 - sin θ := by
    have : 0 < cos (π / 4 + θ / 2) ^ 2 := by positivity
    rw [hc2] at this; linarith
  refine ⟨tan_pos_of_pos_of_lt_pi_div_two hx1 hx2, ?_⟩
  rw [tan_eq_sin_div_cos, div_pow, hs2, hc2]
  field_simp

/-- the unclamped formulas are inverse to each other on (-90°, 90°) -/
theorem yToLatU_latToYU (φ : ℝ) (h : |φ| < 90) : yToLatU (latToYU φ) = φ := by
  have hπ : 0 < π := pi_pos
  have hφ := abs_lt.mp h
  have h1 : -(π / 2) < φ * (π / 180) := by nlinarith
  have h2 : φ * (π / 180) < π / 2 := by nlinarith
  obtain ⟨htpos, htsq⟩ := tan_sq_quarter (φ * (π / 180)) h1 h2
  unfold yToLatU latToYU
  rw [← htsq]
  have harg : (1 / 2 * (180 / π)) * Real.log (tan (π / 4 + φ * (π / 180) / 2) ^ 2) * (π / 180) =
      Real.log (tan (π / 4 + φ * (π / 180) / 2)) := by
    rw [Real.log_pow]
    push_cast
    field_simp
  rw [harg, exp_log htpos, arctan_tan (by linarith) (by linarith)]
  field_simp
  ring

/-- on the property's range the latitude clamp is inactive -/
theorem yToLatU_latToYR (φ : ℝ) (h : |φ| ≤ 85.05) : yToLatU (latToYR φ) = φ := by
  have hφ := abs_le.mp h
  have hclamp : clampR φ (-maxLat) maxLat = φ := by
    unfold clampR maxLat
    have h1 : ¬ φ < -85.05112877980659 := by intro hc; norm_num at hc; linarith
    have h2 : ¬ φ > 85.05112877980659 := by intro hc; norm_num at hc; linarith
    rw [if_neg h1, if_neg h2]
  unfold latToYR
  rw [hclamp]
  exact yToLatU_latToYU φ (by rw [abs_lt]; constructor <;> linarith)

end Tbx.Merc
