import Tbx.Proofs.SGraph
import Tbx.Spec.Adj
/-
The static graph built from a list sorted by source represents exactly that list
(bridge between `Tbx.SG` and the adjacency-multiset specification `Tbx.Adj`).
-/
namespace Tbx.SG
open Tbx

/-- the input list as the Spec sees it -/
def toSpec (inp : List InEdge) : List Adj.Edge := inp.map fun e => ⟨e.src, e.tgt, e.data⟩

theorem adjOf_toSpec (inp : List InEdge) (v : Nat) :
    Adj.adjOf (toSpec inp) v = (inp.filter fun e => e.src == v).map fun e => (e.tgt, e.data) := by
  unfold Adj.adjOf toSpec
  rw [List.filter_map, List.map_map]
  rfl

theorem gt_toArray {α : Type} [Inhabited α] (l : List α) (i : Nat) : gt l.toArray i = l.getD i default := by
  simp [gt, List.getD_eq_getElem?_getD]

/-! ### shape of the node array -/

theorem cntLt_zero (inp : List InEdge) : cntLt inp 0 = 0 := by
  simp [cntLt]

theorem nfsl_nodes (inp : List InEdge) (hs : SortedBySrc inp) :
    (newFromSortedList inp).nodes.size = maxIdLoop inp 0 + 2 ∧
    ∀ j, j ≤ maxIdLoop inp 0 + 1 → gt (newFromSortedList inp).nodes j = cntLt inp j := by
  have h := offsetsLoop_spec inp hs (maxIdLoop inp 0) 0 0 #[0] (cntLt_zero inp).symm (by simp)
    (by intro j hj
        have : j = 0 := by omega
        subst this; simp [gt, cntLt_zero])
  simp only [newFromSortedList]
  refine ⟨by simp [h.1]; omega, ?_⟩
  intro j hj
  by_cases e : j = maxIdLoop inp 0 + 1
  · have hsz : j = (offsetsLoop inp (maxIdLoop inp 0) 0 0 #[0]).size := by rw [h.1]; omega
    rw [hsz, gt_push_eq, ← hsz, e]
    exact (cntLt_all inp _ (fun x hx => by have := (maxIdLoop_ge inp 0).2 x hx; omega)).symm
  · rw [gt_push_lt _ _ _ (by rw [h.1]; omega)]
    exact h.2 j (by omega)

theorem nfsl_numberOfNodes (inp : List InEdge) (hs : SortedBySrc inp) :
    numberOfNodes (newFromSortedList inp) = maxIdLoop inp 0 + 1 := by
  unfold numberOfNodes
  rw [(nfsl_nodes inp hs).1]; omega

theorem nfsl_begin (inp : List InEdge) (hs : SortedBySrc inp) (v : Nat) (hv : v < numberOfNodes (newFromSortedList inp)) :
    beginEdges (newFromSortedList inp) v = cntLt inp v ∧ endEdges (newFromSortedList inp) v = cntLt inp (v + 1) := by
  rw [nfsl_numberOfNodes inp hs] at hv
  exact ⟨(nfsl_nodes inp hs).2 v (by omega), (nfsl_nodes inp hs).2 (v + 1) (by omega)⟩

/-- reading the edge array through the index range between two consecutive offsets gives the
    sublist of the input with source `v` (shared by the static and the dynamic constructor) -/
theorem slice_adj (inp : List InEdge) (hs : SortedBySrc inp) (v : Nat) :
    (List.range' (cntLt inp v) (cntLt inp (v + 1) - cntLt inp v)).map
      (fun e => ((gt (inp.map fun x => (⟨x.tgt, x.data⟩ : EEntry)).toArray e).tgt,
                 (gt (inp.map fun x => (⟨x.tgt, x.data⟩ : EEntry)).toArray e).data))
    = (inp.filter fun e => e.src == v).map fun e => (e.tgt, e.data) := by
  have hfun : (fun e => ((gt (inp.map fun x => (⟨x.tgt, x.data⟩ : EEntry)).toArray e).tgt,
                 (gt (inp.map fun x => (⟨x.tgt, x.data⟩ : EEntry)).toArray e).data)) =
      (fun x : EEntry => (x.tgt, x.data)) ∘ (fun i => (inp.map fun e => (⟨e.tgt, e.data⟩ : EEntry)).getD i default) := by
    funext e
    simp only [gt_toArray, Function.comp]
  rw [hfun, ← List.map_map]
  rw [map_range'_getD _ _ _ _ (by
    have := cntLt_mono inp v
    have := cntLt_le_length inp (v + 1)
    simp; omega)]
  rw [← List.map_drop, ← List.map_take, slice_eq_filter inp hs v, List.map_map]
  rfl

/-- `edge_range(v)` read through `target`/`data` is exactly the sublist of the input with source `v`
    (in input order) -/
theorem nfsl_adjList (inp : List InEdge) (hs : SortedBySrc inp) (v : Nat)
    (hv : v < numberOfNodes (newFromSortedList inp)) :
    adjList (newFromSortedList inp) v = (inp.filter fun e => e.src == v).map fun e => (e.tgt, e.data) := by
  have hb := nfsl_begin inp hs v hv
  unfold adjList edgeRange
  rw [hb.1, hb.2]
  exact slice_adj inp hs v

theorem nfsl_outDegree (inp : List InEdge) (hs : SortedBySrc inp) (v : Nat)
    (hv : v < numberOfNodes (newFromSortedList inp)) :
    outDegree (newFromSortedList inp) v = (inp.filter fun e => e.src == v).length := by
  have h := congrArg List.length (nfsl_adjList inp hs v hv)
  simpa [adjList, edgeRange, outDegree] using h

/-! ### the sort -/

theorem edgeLe_trans (a b c : InEdge) : edgeLe a b = true → edgeLe b c = true → edgeLe a c = true := by
  simp only [edgeLe, Bool.or_eq_true, Bool.and_eq_true, decide_eq_true_eq, beq_iff_eq]
  omega

theorem edgeLe_total (a b : InEdge) : (edgeLe a b || edgeLe b a) = true := by
  simp only [edgeLe, Bool.or_eq_true, Bool.and_eq_true, decide_eq_true_eq, beq_iff_eq]
  omega

theorem edgeLe_src (a b : InEdge) : edgeLe a b = true → a.src ≤ b.src := by
  simp only [edgeLe, Bool.or_eq_true, Bool.and_eq_true, decide_eq_true_eq, beq_iff_eq]
  omega

def sorted (inp : List InEdge) : List InEdge := inp.mergeSort fun a b => edgeLe a b

theorem sorted_perm (inp : List InEdge) : (sorted inp).Perm inp := List.mergeSort_perm _ _

theorem sorted_sortedBySrc (inp : List InEdge) : SortedBySrc (sorted inp) := by
  have := List.pairwise_mergeSort (le := fun a b => edgeLe a b) edgeLe_trans edgeLe_total inp
  exact List.Pairwise.imp (fun {a b} h => edgeLe_src a b h) this

theorem new_eq (inp : List InEdge) : SG.new inp = newFromSortedList (sorted inp) := rfl

/-! ### maximum id -/

theorem isMaxId_unique (es : List Adj.Edge) (m m' : Nat) (h : Adj.IsMaxId es m) (h' : Adj.IsMaxId es m') : m = m' := by
  obtain ⟨⟨e, he, h1⟩, h2⟩ := h
  obtain ⟨⟨e', he', h1'⟩, h2'⟩ := h'
  have a := h2 e' he'
  have b := h2' e he
  omega

theorem maxIdOf_isMaxId (es : List Adj.Edge) (hne : es ≠ []) : Adj.IsMaxId es (Adj.maxIdOf es) := by
  induction es with
  | nil => exact absurd rfl hne
  | cons a l ih =>
    by_cases hl : l = []
    · subst hl
      simp only [Adj.maxIdOf, List.foldr]
      refine ⟨⟨a, List.mem_cons_self, by omega⟩, ?_⟩
      intro e he
      simp at he; subst he; omega
    · have := ih hl
      obtain ⟨⟨e, he, h1⟩, h2⟩ := this
      have hm : Adj.maxIdOf (a :: l) = max (max a.src a.tgt) (Adj.maxIdOf l) := rfl
      rw [hm]
      constructor
      · by_cases c : Adj.maxIdOf l ≤ max a.src a.tgt
        · exact ⟨a, List.mem_cons_self, by omega⟩
        · exact ⟨e, List.mem_cons_of_mem _ he, by omega⟩
      · intro x hx
        rcases List.mem_cons.mp hx with rfl | hx
        · omega
        · have := h2 x hx; omega

theorem maxIdLoop_isMaxId (inp l : List InEdge) (hp : l.Perm inp) (hne : inp ≠ []) :
    Adj.IsMaxId (toSpec inp) (maxIdLoop l 0) := by
  have hge := maxIdLoop_ge l 0
  have hmem : ∀ x, x ∈ toSpec inp ↔ ∃ e ∈ l, x = ⟨e.src, e.tgt, e.data⟩ := by
    intro x
    simp only [toSpec, List.mem_map]
    constructor
    · rintro ⟨e, he, rfl⟩; exact ⟨e, hp.mem_iff.mpr he, rfl⟩
    · rintro ⟨e, he, rfl⟩; exact ⟨e, hp.mem_iff.mp he, rfl⟩
  constructor
  · rcases maxIdLoop_attained l 0 with h0 | ⟨e, he, h⟩
    · -- the maximum is 0: any edge attains it
      have hlne : l ≠ [] := fun h => hne (by subst h; exact hp.symm.eq_nil)
      obtain ⟨e, he⟩ := List.exists_mem_of_ne_nil l hlne
      have := hge.2 e he
      exact ⟨⟨e.src, e.tgt, e.data⟩, (hmem _).mpr ⟨e, he, rfl⟩, by simp only; omega⟩
    · exact ⟨⟨e.src, e.tgt, e.data⟩, (hmem _).mpr ⟨e, he, rfl⟩, by simpa using h⟩
  · intro x hx
    obtain ⟨e, he, rfl⟩ := (hmem x).mp hx
    exact hge.2 e he

/-! ### find_edge on any static graph, and on a constructed one -/

theorem findEdge_some (g : Graph) (s t e : Nat) (h : findEdge g s t = some e) :
    s < numberOfNodes g ∧ e ∈ edgeRange g s ∧ target g e = t ∧ ∀ j ∈ edgeRange g s, j < e → target g j ≠ t := by
  unfold findEdge at h
  split at h
  · cases h
  · rename_i hs
    have := findLoop_some g t _ _ e h
    refine ⟨by omega, List.mem_range'_1.mpr ⟨this.1, this.2.1⟩, this.2.2.1, ?_⟩
    intro j hj hlt
    exact this.2.2.2 j (List.mem_range'_1.mp hj).1 hlt

theorem findEdge_none (g : Graph) (s t : Nat) :
    findEdge g s t = none ↔ numberOfNodes g ≤ s ∨ ∀ e ∈ edgeRange g s, target g e ≠ t := by
  unfold findEdge
  split
  · rename_i hs; simp; left; omega
  · rename_i hs
    rw [findLoop_none]
    constructor
    · intro h; right
      intro e he
      have := List.mem_range'_1.mp he
      exact h e this.1 this.2
    · intro h
      rcases h with h | h
      · omega
      · intro j h1 h2
        exact h j (List.mem_range'_1.mpr ⟨h1, h2⟩)

theorem findEdgeUnchecked_eq (g : Graph) (s t : Nat) :
    findEdgeUnchecked g s t = (findEdge g s t).getD maxId := by
  unfold findEdgeUnchecked findEdge
  split
  · rfl
  · split <;> simp_all

/-- on a graph built from a list sorted by source, `find_edge(s,t)` answers iff the list has an edge s→t -/
theorem nfsl_findEdge_isSome (inp : List InEdge) (hs : SortedBySrc inp) (s t : Nat) :
    (findEdge (newFromSortedList inp) s t).isSome ↔ ∃ d, (⟨s, t, d⟩ : InEdge) ∈ inp := by
  constructor
  · intro h
    obtain ⟨e, he⟩ := Option.isSome_iff_exists.mp h
    obtain ⟨hlt, hr, ht, _⟩ := findEdge_some _ s t e he
    have hm : (target (newFromSortedList inp) e, data (newFromSortedList inp) e) ∈ adjList (newFromSortedList inp) s :=
      List.mem_map.mpr ⟨e, hr, rfl⟩
    rw [nfsl_adjList inp hs s hlt] at hm
    obtain ⟨x, hx, hp⟩ := List.mem_map.mp hm
    have hx' := List.mem_filter.mp hx
    refine ⟨x.data, ?_⟩
    have e1 : x.src = s := by simpa using hx'.2
    have e2 : x.tgt = t := by rw [← ht]; exact congrArg Prod.fst hp
    have : x = ⟨s, t, x.data⟩ := by cases x; simp_all
    exact this ▸ hx'.1
  · rintro ⟨d, hd⟩
    have hlt : s < numberOfNodes (newFromSortedList inp) := by
      rw [nfsl_numberOfNodes inp hs]
      have := (maxIdLoop_ge inp 0).2 _ hd
      simp only at this; omega
    cases hf : findEdge (newFromSortedList inp) s t with
    | some e => rfl
    | none =>
      exfalso
      rcases (findEdge_none _ s t).mp hf with h | h
      · omega
      · have hm : (t, d) ∈ adjList (newFromSortedList inp) s := by
          rw [nfsl_adjList inp hs s hlt]
          exact List.mem_map.mpr ⟨_, List.mem_filter.mpr ⟨hd, by simp⟩, rfl⟩
        obtain ⟨e, he, hp⟩ := List.mem_map.mp hm
        exact h e he (congrArg Prod.fst hp)

end Tbx.SG
