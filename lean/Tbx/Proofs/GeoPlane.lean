import Tbx.Model.Hull
import Mathlib.Tactic.Linarith
import Mathlib.Tactic.Ring
/-
Plane geometry on integer vectors used by the enclosure proof of the monotone chain:
four implications between orientation tests of points that are ordered lexicographically by
(lon, lat).  First on raw integers (vectors relative to a chosen origin), then on coordinates.
-/
namespace Tbx.Geo

/-- the vector (x, y) is lexicographically ≥ 0 (x is the longitude difference) -/
def Lex0 (x y : Int) : Prop := 0 < x ∨ (x = 0 ∧ 0 ≤ y)

theorem Lex0.fst {x y : Int} (h : Lex0 x y) : 0 ≤ x := by rcases h with h | ⟨h, _⟩ <;> omega
theorem Lex0.snd {x y : Int} (h : Lex0 x y) (hx : x = 0) : 0 ≤ y := by rcases h with h | ⟨_, h⟩ <;> omega

/-- origin o; o ≼ q ≼ a ≼ p; q left of o→a, p right of o→a  ⟹  q left of o→p -/
theorem geoX1 (a1 a2 p1 p2 q1 q2 : Int)
    (hq : Lex0 q1 q2) (hqa : Lex0 (a1 - q1) (a2 - q2)) (hap : Lex0 (p1 - a1) (p2 - a2))
    (h1 : 0 ≤ a1 * q2 - a2 * q1) (h2 : a1 * p2 - a2 * p1 ≤ 0) : 0 ≤ p1 * q2 - p2 * q1 := by
  have hq1 := hq.fst
  have ha1 := hqa.fst
  have hp1 := hap.fst
  rcases lt_or_ge 0 a1 with hpos | hle
  · have : 0 ≤ a1 * (p1 * q2 - p2 * q1) := by
      nlinarith [mul_nonneg (show (0:Int) ≤ p1 by omega) h1, mul_nonneg hq1 (show (0:Int) ≤ -(a1 * p2 - a2 * p1) by omega)]
    exact nonneg_of_mul_nonneg_right this hpos
  · have hq0 : q1 = 0 := by omega
    have hq2 := hq.snd hq0
    subst hq0
    have : 0 ≤ p1 * q2 := mul_nonneg (by omega) hq2
    omega

/-- origin p; o ≼ a ≼ q ≼ p (all vectors ≼ 0, written with negated components ≥ 0);
p right of o→a, q left of a→p  ⟹  q left of o→p.
Vectors: o = (o1,o2), a = (a1,a2), q = (q1,q2) relative to p. -/
theorem geoX2 (o1 o2 a1 a2 q1 q2 : Int)
    (hoa : Lex0 (a1 - o1) (a2 - o2)) (haq : Lex0 (q1 - a1) (q2 - a2)) (hq : Lex0 (-q1) (-q2))
    (h1 : o1 * a2 - o2 * a1 ≤ 0) (h2 : 0 ≤ q1 * a2 - q2 * a1) : 0 ≤ q1 * o2 - q2 * o1 := by
  have hq1 := hq.fst
  have haq1 := haq.fst
  have hoa1 := hoa.fst
  rcases lt_or_ge a1 0 with hneg | hge
  · have : 0 ≤ (-a1) * (q1 * o2 - q2 * o1) := by
      nlinarith [mul_nonneg (show (0:Int) ≤ -q1 by omega) (show (0:Int) ≤ -(o1 * a2 - o2 * a1) by omega),
        mul_nonneg (show (0:Int) ≤ -o1 by omega) h2]
    exact nonneg_of_mul_nonneg_right this (by omega)
  · have ha0 : a1 = 0 := by omega
    have hq0 : q1 = 0 := by omega
    subst ha0; subst hq0
    have hq2 : q2 ≤ 0 := by have := hq.snd (by omega); omega
    have haq2 : a2 ≤ q2 := by have := haq.snd (by omega); omega
    -- o1 * a2 ≤ 0 with o1 ≤ 0, a2 ≤ 0: one of them is 0
    rcases eq_or_lt_of_le (show o1 ≤ 0 by omega) with ho | ho
    · subst ho; simp
    · have ha2 : a2 = 0 := by
        by_contra hne
        have : 0 < o1 * a2 := mul_pos_of_neg_of_neg ho (by omega)
        omega
      have : q2 = 0 := by omega
      subst this; simp

/-- origin o; u = o' - o ≼ 0, w = p - o ≽ 0, z = q - o ≼ 0; q left of o'→o, strict left turn o'→o→p
⟹ q left of o→p -/
theorem geoP (u1 u2 w1 w2 z1 z2 : Int)
    (hu : Lex0 (-u1) (-u2)) (hw : Lex0 w1 w2) (hz : Lex0 (-z1) (-z2))
    (h1 : 0 ≤ z1 * u2 - z2 * u1) (h2 : 0 < w1 * u2 - w2 * u1) : 0 ≤ w1 * z2 - w2 * z1 := by
  have hu1 := hu.fst
  have hw1 := hw.fst
  have hz1 := hz.fst
  rcases lt_or_ge u1 0 with hneg | hge
  · have : 0 ≤ (-u1) * (w1 * z2 - w2 * z1) := by
      nlinarith [mul_nonneg hw1 h1, mul_nonneg hz1 (le_of_lt h2)]
    exact nonneg_of_mul_nonneg_right this (by omega)
  · have hu0 : u1 = 0 := by omega
    subst hu0
    have hu2 : u2 ≤ 0 := by have := hu.snd (by omega); omega
    have : w1 * u2 ≤ 0 := mul_nonpos_of_nonneg_of_nonpos hw1 hu2
    omega

/-- origin s1; u = s0 - s1 ≼ 0, w = s2 - s1 ≽ 0, z = p - s1 ≽ 0; p left of s1→s2, strict left turn
s0→s1→s2 ⟹ p left of s0→s1 -/
theorem geoP' (u1 u2 w1 w2 z1 z2 : Int)
    (hu : Lex0 (-u1) (-u2)) (hw : Lex0 w1 w2) (hz : Lex0 z1 z2)
    (h1 : 0 ≤ w1 * z2 - w2 * z1) (h2 : 0 < w1 * u2 - w2 * u1) : 0 ≤ z1 * u2 - z2 * u1 := by
  have hu1 := hu.fst
  have hw1 := hw.fst
  have hz1 := hz.fst
  rcases lt_or_ge 0 w1 with hpos | hle
  · have : 0 ≤ w1 * (z1 * u2 - z2 * u1) := by
      nlinarith [mul_nonneg hz1 (le_of_lt h2), mul_nonneg hu1 h1]
    exact nonneg_of_mul_nonneg_right this hpos
  · have hw0 : w1 = 0 := by omega
    subst hw0
    have hw2 := hw.snd rfl
    simp only [zero_mul, zero_sub] at h1 h2
    -- -(w2 * u1) > 0 and -(w2 * z1) ≥ 0 with w2 ≥ 0, z1 ≥ 0
    have hw2pos : 0 < w2 := by
      rcases eq_or_lt_of_le hw2 with h | h
      · subst h; simp at h2
      · exact h
    have hz0 : z1 = 0 := by
      by_contra hne
      have : 0 < w2 * z1 := mul_pos hw2pos (by omega)
      omega
    subst hz0
    have hz2 := hz.snd rfl
    have hu1neg : u1 < 0 := by
      by_contra hge
      have : u1 = 0 := by omega
      subst this; simp at h2
    have : 0 ≤ z2 * (-u1) := mul_nonneg hz2 (by omega)
    simp only [zero_mul, zero_sub]
    linarith

/-- α = (a1,a2) ≺ 0 and c = (c1,c2) ≻ 0 are non-zero and parallel (hence antiparallel): every vector b is on
opposite sides of them -/
theorem antipar_iff (a1 a2 c1 c2 b1 b2 : Int) (ha : Lex0 (-a1) (-a2)) (ha0 : ¬ (a1 = 0 ∧ a2 = 0))
    (hc : Lex0 c1 c2) (hc0 : ¬ (c1 = 0 ∧ c2 = 0)) (hpar : c1 * a2 - c2 * a1 = 0) :
    (0 < b1 * a2 - b2 * a1 ↔ b1 * c2 - b2 * c1 < 0) ∧ (b1 * a2 - b2 * a1 < 0 ↔ 0 < b1 * c2 - b2 * c1) := by
  have ha1 := ha.fst
  have hc1 := hc.fst
  rcases lt_or_ge a1 0 with hneg | hge
  · -- a1 * (b × c) = c1 * (b × α)
    have hid : a1 * (b1 * c2 - b2 * c1) = c1 * (b1 * a2 - b2 * a1) := by
      have : a1 * c2 = c1 * a2 := by linarith
      calc a1 * (b1 * c2 - b2 * c1) = b1 * (a1 * c2) - b2 * a1 * c1 := by ring
        _ = b1 * (c1 * a2) - b2 * a1 * c1 := by rw [this]
        _ = c1 * (b1 * a2 - b2 * a1) := by ring
    have hc1pos : 0 < c1 := by
      rcases lt_or_ge 0 c1 with h | h
      · exact h
      · have h0 : c1 = 0 := by omega
        exfalso
        apply hc0
        refine ⟨h0, ?_⟩
        have : c2 * a1 = 0 := by rw [h0] at hpar; linarith
        rcases mul_eq_zero.mp this with h | h
        · exact h
        · omega
    constructor
    · constructor
      · intro h
        have : 0 < c1 * (b1 * a2 - b2 * a1) := mul_pos hc1pos h
        rw [← hid] at this
        by_contra hn
        have : a1 * (b1 * c2 - b2 * c1) ≤ 0 := mul_nonpos_of_nonpos_of_nonneg (by omega) (by omega)
        omega
      · intro h
        have : 0 < a1 * (b1 * c2 - b2 * c1) := mul_pos_of_neg_of_neg hneg h
        rw [hid] at this
        by_contra hn
        have : c1 * (b1 * a2 - b2 * a1) ≤ 0 := mul_nonpos_of_nonneg_of_nonpos (by omega) (by omega)
        omega
    · constructor
      · intro h
        have : c1 * (b1 * a2 - b2 * a1) < 0 := mul_neg_of_pos_of_neg hc1pos h
        rw [← hid] at this
        by_contra hn
        have : 0 ≤ a1 * (b1 * c2 - b2 * c1) := mul_nonneg_of_nonpos_of_nonpos (by omega) (by omega)
        omega
      · intro h
        have : a1 * (b1 * c2 - b2 * c1) < 0 := mul_neg_of_neg_of_pos hneg h
        rw [hid] at this
        by_contra hn
        have : 0 ≤ c1 * (b1 * a2 - b2 * a1) := mul_nonneg (by omega) (by omega)
        omega
  · have h0 : a1 = 0 := by omega
    subst h0
    have ha2 : a2 < 0 := by
      have := ha.snd (by omega)
      rcases lt_or_ge a2 0 with h | h
      · exact h
      · exfalso; exact ha0 ⟨rfl, by omega⟩
    have hc10 : c1 = 0 := by
      have : c1 * a2 = 0 := by linarith
      rcases mul_eq_zero.mp this with h | h
      · exact h
      · omega
    subst hc10
    have hc2 : 0 < c2 := by
      have := hc.snd rfl
      rcases lt_or_ge 0 c2 with h | h
      · exact h
      · exfalso; exact hc0 ⟨rfl, by omega⟩
    simp only [mul_zero, sub_zero]
    constructor
    · constructor
      · intro h
        have hb1 : b1 < 0 := by
          by_contra hn
          have : b1 * a2 ≤ 0 := mul_nonpos_of_nonneg_of_nonpos (by omega) (by omega)
          omega
        exact mul_neg_of_neg_of_pos hb1 hc2
      · intro h
        have hb1 : b1 < 0 := by
          by_contra hn
          have : 0 ≤ b1 * c2 := mul_nonneg (by omega) (by omega)
          omega
        exact mul_pos_of_neg_of_neg hb1 ha2
    · constructor
      · intro h
        have hb1 : 0 < b1 := by
          by_contra hn
          have : 0 ≤ b1 * a2 := mul_nonneg_of_nonpos_of_nonpos (by omega) (by omega)
          omega
        exact mul_pos hb1 hc2
      · intro h
        have hb1 : 0 < b1 := by
          by_contra hn
          have : b1 * c2 ≤ 0 := mul_nonpos_of_nonpos_of_nonneg (by omega) (by omega)
          omega
        exact mul_neg_of_pos_of_neg hb1 ha2

/-- two vectors parallel to a non-zero vector d are parallel to each other -/
theorem par_par (w1 w2 v1 v2 d1 d2 : Int) (hd : ¬ (d1 = 0 ∧ d2 = 0))
    (h1 : w1 * d2 - w2 * d1 = 0) (h2 : v1 * d2 - v2 * d1 = 0) : w1 * v2 - w2 * v1 = 0 := by
  by_cases hd1 : d1 = 0
  · subst hd1
    have hd2 : d2 ≠ 0 := fun h => hd ⟨rfl, h⟩
    simp only [mul_zero, sub_zero] at h1 h2
    have hw : w1 = 0 := by rcases mul_eq_zero.mp h1 with h | h; exact h; exact absurd h hd2
    have hv : v1 = 0 := by rcases mul_eq_zero.mp h2 with h | h; exact h; exact absurd h hd2
    rw [hw, hv]; ring
  · have : d1 * (w1 * v2 - w2 * v1) = 0 := by
      have e1 : w2 * d1 = w1 * d2 := by linarith
      have e2 : v2 * d1 = v1 * d2 := by linarith
      calc d1 * (w1 * v2 - w2 * v1) = w1 * (v2 * d1) - v1 * (w2 * d1) := by ring
        _ = w1 * (v1 * d2) - v1 * (w1 * d2) := by rw [e1, e2]
        _ = 0 := by ring
    rcases mul_eq_zero.mp this with h | h
    · exact absurd h hd1
    · exact h

/-! ### the same on coordinates -/

/-- a ≼ b in the (lon, lat) order -/
def LexLe (a b : Coord) : Prop := Lex0 (b.lon - a.lon) (b.lat - a.lat)

theorem lexLe_iff (a b : Coord) : lonLatLe a b = true ↔ LexLe a b := by
  simp only [lonLatLe, LexLe, Lex0, Bool.or_eq_true, Bool.and_eq_true, decide_eq_true_eq]
  omega

theorem cross_self_right (o p : Coord) : cross o p p = 0 := by
  unfold cross; ring

theorem cross_self_left (o p : Coord) : cross o o p = 0 := by
  unfold cross; ring

theorem cross_self_base (o p : Coord) : cross o p o = 0 := by
  unfold cross; ring

theorem crossX1 {o a p q : Coord} (hoq : LexLe o q) (hqa : LexLe q a) (hap : LexLe a p)
    (h1 : 0 ≤ cross o a q) (h2 : cross o a p ≤ 0) : 0 ≤ cross o p q := by
  unfold LexLe at hoq hqa hap
  have := geoX1 (a.lon - o.lon) (a.lat - o.lat) (p.lon - o.lon) (p.lat - o.lat) (q.lon - o.lon) (q.lat - o.lat)
    hoq (by convert hqa using 1 <;> ring) (by convert hap using 1 <;> ring) h1 h2
  exact this

theorem crossX2 {o a p q : Coord} (hoa : LexLe o a) (haq : LexLe a q) (hqp : LexLe q p)
    (h1 : cross o a p ≤ 0) (h2 : 0 ≤ cross a p q) : 0 ≤ cross o p q := by
  unfold LexLe at hoa haq hqp
  have := geoX2 (o.lon - p.lon) (o.lat - p.lat) (a.lon - p.lon) (a.lat - p.lat) (q.lon - p.lon) (q.lat - p.lat)
    (by convert hoa using 1 <;> ring) (by convert haq using 1 <;> ring) (by convert hqp using 1 <;> ring)
    (by have : cross o a p = (o.lon - p.lon) * (a.lat - p.lat) - (o.lat - p.lat) * (a.lon - p.lon) := by
          unfold cross; ring
        omega)
    (by have : cross a p q = (q.lon - p.lon) * (a.lat - p.lat) - (q.lat - p.lat) * (a.lon - p.lon) := by
          unfold cross; ring
        omega)
  have e : cross o p q = (q.lon - p.lon) * (o.lat - p.lat) - (q.lat - p.lat) * (o.lon - p.lon) := by
    unfold cross; ring
  omega

theorem crossP {o' o p q : Coord} (ho : LexLe o' o) (hp : LexLe o p) (hq : LexLe q o)
    (h1 : 0 ≤ cross o' o q) (h2 : 0 < cross o' o p) : 0 ≤ cross o p q := by
  unfold LexLe at ho hp hq
  have := geoP (o'.lon - o.lon) (o'.lat - o.lat) (p.lon - o.lon) (p.lat - o.lat) (q.lon - o.lon) (q.lat - o.lat)
    (by convert ho using 1 <;> ring) hp (by convert hq using 1 <;> ring)
    (by have : cross o' o q = (q.lon - o.lon) * (o'.lat - o.lat) - (q.lat - o.lat) * (o'.lon - o.lon) := by
          unfold cross; ring
        omega)
    (by have : cross o' o p = (p.lon - o.lon) * (o'.lat - o.lat) - (p.lat - o.lat) * (o'.lon - o.lon) := by
          unfold cross; ring
        omega)
  exact this

theorem crossP' {s0 s1 s2 p : Coord} (h01 : LexLe s0 s1) (h12 : LexLe s1 s2) (h1p : LexLe s1 p)
    (h1 : 0 ≤ cross s1 s2 p) (h2 : 0 < cross s0 s1 s2) : 0 ≤ cross s0 s1 p := by
  unfold LexLe at h01 h12 h1p
  have := geoP' (s0.lon - s1.lon) (s0.lat - s1.lat) (s2.lon - s1.lon) (s2.lat - s1.lat) (p.lon - s1.lon) (p.lat - s1.lat)
    (by convert h01 using 1 <;> ring) h12 h1p h1
    (by have : cross s0 s1 s2 = (s2.lon - s1.lon) * (s0.lat - s1.lat) - (s2.lat - s1.lat) * (s0.lon - s1.lon) := by
          unfold cross; ring
        omega)
  have e : cross s0 s1 p = (p.lon - s1.lon) * (s0.lat - s1.lat) - (p.lat - s1.lat) * (s0.lon - s1.lon) := by
    unfold cross; ring
  omega

theorem LexLe.refl (a : Coord) : LexLe a a := by
  unfold LexLe Lex0; omega

theorem LexLe.trans {a b c : Coord} (h1 : LexLe a b) (h2 : LexLe b c) : LexLe a c := by
  unfold LexLe Lex0 at *; omega

theorem LexLe.total (a b : Coord) : LexLe a b ∨ LexLe b a := by
  unfold LexLe Lex0; omega

theorem LexLe.antisymm {a b : Coord} (h1 : LexLe a b) (h2 : LexLe b a) : a = b := by
  unfold LexLe Lex0 at *
  cases a; cases b
  simp only [Coord.mk.injEq] at *
  omega

end Tbx.Geo
