import Tbx.Proofs.LruL1Seg
/-
Well-formedness of the L1 list and its preservation by every operation of `linked_list.rs`.
Each operation lemma has the shape

    WF s chain  →  ∃ s', op s … = .ok (s', result) ∧ WF s' chain'

i.e. on a well-formed list the operation does NOT reach any error branch (no use after free, no
wild pointer, no failed unwrap / assertion / underflow) and the result is again well-formed, with
the abstract chain transformed as the L0 model says.
-/
namespace Tbx.LruL1
open Tbx

variable {T : Type}

/-- exactly the cells with an address in `A` may be live; `freed` lists exactly the dead cells -/
def MemOK (cells : Array (Option (Node T))) (freed : List Nat) (A : List Nat) : Prop :=
  (∀ a n, gt cells a = some n → a ∈ A) ∧ (∀ a, a ∈ freed ↔ (a < cells.size ∧ gt cells a = none))

/-- a single-field write to a live cell changes neither the set of live cells nor the dead ones -/
theorem memOK_st_some (cells : Array (Option (Node T))) (freed A : List Nat) (a : Nat) (n n' : Node T)
    (hg : gt cells a = some n) (h : MemOK cells freed A) : MemOK (st cells a (some n')) freed A := by
  constructor
  · intro a' m hm
    have h1 := isSome_st_some cells a a' n n' hg
    rw [hm] at h1
    obtain ⟨m0, hm0⟩ := Option.isSome_iff_exists.1 h1.symm
    exact h.1 a' m0 hm0
  · intro a'
    rw [eq_none_st_some cells a a' n n' hg, size_st]
    exact h.2 a'

/-- `s` represents the chain `ch` (front first): the nodes are linked as `Seg` says, addresses are
    distinct, `front`/`back`/`len` describe the chain, exactly the chain cells are live, and the
    `freed` log lists exactly the dead cells, each once. -/
structure WF (s : LL T) (ch : List (Nat × T)) : Prop where
  seg : Seg s.mem.cells none ch none
  nodup : (addrs ch).Nodup
  front : s.front = headOr ch none
  back : s.back = lastOr ch none
  len : s.len = ch.length
  freedNodup : s.mem.freed.Nodup
  mem : MemOK s.mem.cells s.mem.freed (addrs ch)

theorem WF.live {s : LL T} {ch : List (Nat × T)} (h : WF s ch) :
    ∀ a n, gt s.mem.cells a = some n → a ∈ addrs ch := h.mem.1
theorem WF.freed {s : LL T} {ch : List (Nat × T)} (h : WF s ch) :
    ∀ a, a ∈ s.mem.freed ↔ (a < s.mem.cells.size ∧ gt s.mem.cells a = none) := h.mem.2

theorem wf_new : WF (LL.new : LL T) [] := by
  refine ⟨trivial, by simp [addrs], rfl, rfl, rfl, by simp [LL.new, Mem.empty], ?_, ?_⟩
  · intro a n h
    simp [LL.new, Mem.empty, gt] at h
  · intro a; simp [LL.new, Mem.empty]

theorem WF.addr_lt {s : LL T} {ch : List (Nat × T)} (h : WF s ch) (a : Nat) (ha : a ∈ addrs ch) :
    a < s.mem.cells.size := by
  obtain ⟨n, hn⟩ := seg_live _ _ _ _ h.seg a ha
  exact lt_size_of_gt_some _ _ _ hn

theorem gt_push (cells : Array (Option (Node T))) (x : Option (Node T)) (a : Nat) :
    gt (cells.push x) a = if a < cells.size then gt cells a else if a = cells.size then x else none := by
  split
  · rename_i h; exact gt_push_lt cells x a h
  · split
    · rename_i h; subst h; exact gt_push_eq cells x
    · rw [gt_of_ge]; rfl; simp; omega

/-! ### push_front -/

theorem pushFront_wf (s : LL T) (ch : List (Nat × T)) (t : T) (h : WF s ch) :
    ∃ s', LL.pushFront s t = .ok (s', s.mem.cells.size) ∧ WF s' ((s.mem.cells.size, t) :: ch) ∧
      s'.mem.freed = s.mem.freed ∧ s'.mem.cells.size = s.mem.cells.size + 1 := by
  have hfresh : s.mem.cells.size ∉ addrs ch := fun hm => Nat.lt_irrefl _ (h.addr_lt _ hm)
  have hold : ∀ a ∈ addrs ch, gt (s.mem.cells.push (some ⟨none, none, t⟩)) a = gt s.mem.cells a :=
    fun a ha => gt_push_lt _ _ _ (h.addr_lt a ha)
  have hlive0 : ∀ a n, gt (s.mem.cells.push (some ⟨none, none, t⟩)) a = some n →
      a = s.mem.cells.size ∨ a ∈ addrs ch := by
    intro a n hn
    rw [gt_push] at hn
    split at hn
    · exact Or.inr (h.live a n hn)
    · split at hn
      · rename_i e; exact Or.inl e
      · cases hn
  have hfreed0 : ∀ a, a ∈ s.mem.freed ↔
      (a < s.mem.cells.size + 1 ∧ gt (s.mem.cells.push (some ⟨none, none, t⟩)) a = none) := by
    intro a
    rw [h.freed a, gt_push]
    constructor
    · rintro ⟨h1, h2⟩; simp [h1, h2]; omega
    · rintro ⟨h1, h2⟩
      split at h2
      · rename_i hlt; exact ⟨hlt, h2⟩
      · split at h2
        · cases h2
        · omega
  cases ch with
  | nil =>
    have hf : s.front = none := h.front
    refine ⟨{ s with mem := { s.mem with cells := s.mem.cells.push (some ⟨none, none, t⟩) },
                     back := some s.mem.cells.size, front := some s.mem.cells.size, len := s.len + 1 },
      by simp [LL.pushFront, Mem.alloc, hf], ?_, rfl, by simp⟩
    refine ⟨?_, by simp [addrs], rfl, rfl, by simp [h.len], h.freedNodup, ?_, ?_⟩
    · simp only [Seg, headOr, and_true]
      exact gt_push_eq _ _
    · intro a n hn
      rcases hlive0 a n hn with e | e
      · simp [addrs, e]
      · simp [addrs] at e
    · intro a; simpa using hfreed0 a
  | cons p rest =>
    obtain ⟨old, to⟩ := p
    have hf : s.front = some old := h.front
    have hseg := h.seg
    simp only [Seg] at hseg
    have hnd := h.nodup
    simp only [addrs, List.map_cons, List.nodup_cons] at hnd
    have holdlt : old < s.mem.cells.size := h.addr_lt old (by simp [addrs])
    have hne : old ≠ s.mem.cells.size := by omega
    -- memory after the allocation
    let c0 := s.mem.cells.push (some ⟨none, none, t⟩)
    have hg_old : gt c0 old = some ⟨none, headOr rest none, to⟩ := by
      rw [hold old (by simp [addrs])]; exact hseg.1
    let c1 := st c0 old (some ⟨some s.mem.cells.size, headOr rest none, to⟩)
    have hg_new1 : gt c1 s.mem.cells.size = some ⟨none, none, t⟩ := by
      rw [gt_st_ne _ _ _ _ hne]; exact gt_push_eq _ _
    let c2 := st c1 s.mem.cells.size (some ⟨none, some old, t⟩)
    have e1 : ({ s.mem with cells := c0 } : Mem T).setNext old (some s.mem.cells.size)
        = .ok { s.mem with cells := c1 } := by
      rw [setNext_ok _ old _ _ hg_old]
    have e2 : ({ s.mem with cells := c1 } : Mem T).setPrev s.mem.cells.size (some old)
        = .ok { s.mem with cells := c2 } := by
      rw [setPrev_ok _ _ _ _ hg_new1]
    refine ⟨{ s with mem := { s.mem with cells := c2 }, front := some s.mem.cells.size, len := s.len + 1 },
      by simp only [LL.pushFront, Mem.alloc, hf]; rw [e1]; simp only []; rw [e2], ?_, rfl, by simp [c2, c1, c0]⟩
    have hseg0 : Seg c0 none ((old, to) :: rest) none := seg_frame _ _ _ _ _ hold h.seg
    have hseg1 : Seg c1 (some s.mem.cells.size) ((old, to) :: rest) none :=
      seg_set_head_next c0 old to rest none _ none hnd.1 hseg0
    have hseg2 : Seg c2 (some s.mem.cells.size) ((old, to) :: rest) none := by
      apply seg_frame c1 c2 _ _ _ _ hseg1
      intro a ha
      exact gt_st_ne _ _ _ _ (fun e => hfresh (e ▸ ha))
    have hsz1 : s.mem.cells.size < c1.size := by simp [c1, c0]
    refine ⟨?_, ?_, rfl, ?_, by simp [h.len], h.freedNodup, ?_, ?_⟩
    · simp only [Seg, headOr]
      exact ⟨gt_st_eq c1 _ _ hsz1, hseg2⟩
    · simp only [addrs, List.map_cons, List.nodup_cons]
      exact ⟨hfresh, hnd⟩
    · show s.back = lastOr ((s.mem.cells.size, t) :: (old, to) :: rest) none
      rw [h.back]; rfl
    · intro a n hn
      have : (gt c0 a).isSome := by
        have h1 := isSome_st_some c1 s.mem.cells.size a _ ⟨none, some old, t⟩ hg_new1
        have h2 := isSome_st_some c0 old a _ ⟨some s.mem.cells.size, headOr rest none, to⟩ hg_old
        show (gt c0 a).isSome = true
        rw [← h2, ← h1]; show (gt c2 a).isSome = true; rw [hn]; rfl
      obtain ⟨n0, hn0⟩ := Option.isSome_iff_exists.1 this
      rcases hlive0 a n0 hn0 with e | e
      · simp [addrs, e]
      · simp only [addrs, List.map_cons, List.mem_cons] at e ⊢; exact Or.inr e
    · intro a
      have h1 := eq_none_st_some c1 s.mem.cells.size a _ ⟨none, some old, t⟩ hg_new1
      have h2 := eq_none_st_some c0 old a _ ⟨some s.mem.cells.size, headOr rest none, to⟩ hg_old
      show a ∈ s.mem.freed ↔ a < c2.size ∧ gt c2 a = none
      rw [h1, h2, hfreed0 a]
      simp [c2, c1, c0]

/-! ### pop_back -/

theorem eq_nil_or_snoc {α : Type} (l : List α) : l = [] ∨ ∃ l' x, l = l' ++ [x] := by
  by_cases h : l = []
  · exact Or.inl h
  · exact Or.inr ⟨l.dropLast, l.getLast h, (List.dropLast_concat_getLast h).symm⟩

theorem headOr_ne_nil (l : List (Nat × T)) (h : l ≠ []) (pv pv' : Option Nat) : headOr l pv = headOr l pv' := by
  cases l with
  | nil => exact absurd rfl h
  | cons p l => rfl

/-- freeing a live cell -/
theorem memOK_free (cells : Array (Option (Node T))) (freed A : List Nat) (a : Nat) (n : Node T)
    (hg : gt cells a = some n) (h : MemOK cells freed A) :
    (∀ a' m, gt (st cells a none) a' = some m → a' ∈ A ∧ a' ≠ a) ∧
    (∀ a', a' ∈ a :: freed ↔ (a' < (st cells a none).size ∧ gt (st cells a none) a' = none)) ∧
    a ∉ freed := by
  have hlt := lt_size_of_gt_some cells a n hg
  refine ⟨?_, ?_, ?_⟩
  · intro a' m hm
    rw [gt_st] at hm
    split at hm
    · cases hm
    · rename_i hne
      refine ⟨h.1 a' m hm, ?_⟩
      intro e; subst e; exact hne ⟨rfl, hlt⟩
  · intro a'
    rw [size_st, List.mem_cons, gt_st]
    by_cases e : a' = a
    · subst e; simp [hlt]
    · have : ¬ (a = a' ∧ a < cells.size) := fun hc => e hc.1.symm
      simp only [e, false_or, this, if_false]
      exact h.2 a'
  · intro hm
    have := ((h.2 a).1 hm).2
    rw [hg] at this; cases this

theorem popBack_wf_nil (s : LL T) (h : WF s []) : LL.popBack s = .ok (s, none) := by
  have hb : s.back = none := h.back
  simp [LL.popBack, hb]

theorem popBack_wf_concat (s : LL T) (l : List (Nat × T)) (a : Nat) (t : T) (h : WF s (l ++ [(a, t)])) :
    ∃ s', LL.popBack s = .ok (s', some t) ∧ WF s' l ∧ s'.mem.freed = a :: s.mem.freed ∧
      s'.mem.cells.size = s.mem.cells.size := by
  have hb : s.back = some a := by rw [h.back, lastOr_concat]
  obtain ⟨hs1, hs2⟩ := (seg_append _ _ _ _ _).1 h.seg
  simp only [Seg, headOr, and_true] at hs2
  have hnd := h.nodup
  simp only [addrs, List.map_append, List.map_cons, List.map_nil] at hnd
  obtain ⟨hndl, _, hdisj⟩ := List.nodup_append.1 hnd
  have hal : a ∉ addrs l := fun hm => hdisj a hm a (by simp) rfl
  have hlen : ¬ s.len = 0 := by rw [h.len]; simp
  have erd : s.mem.rd a = .ok ⟨lastOr l none, none, t⟩ := rd_ok _ _ _ hs2
  have hsub : ∀ a', a' ∈ addrs (l ++ [(a, t)]) → a' ≠ a → a' ∈ addrs l := by
    intro a' h1 h2
    simp only [addrs, List.map_append, List.map_cons, List.map_nil, List.mem_append, List.mem_singleton] at h1
    rcases h1 with h1 | h1
    · exact h1
    · exact absurd h1 h2
  rcases eq_nil_or_snoc l with e | ⟨l', ⟨nw, tn⟩, e⟩
  · subst e
    obtain ⟨hlive1, hfreed1, hafr⟩ := memOK_free _ _ _ a _ hs2 h.mem
    let c1 := st s.mem.cells a none
    have ef : s.mem.free a = .ok ({ cells := c1, freed := a :: s.mem.freed }, ⟨lastOr [] none, none, t⟩) :=
      free_ok _ _ _ hs2
    refine ⟨{ mem := { cells := c1, freed := a :: s.mem.freed }, front := none, back := none, len := s.len - 1 },
      ?_, ?_, rfl, by simp [c1]⟩
    · simp only [LL.popBack, hb]; rw [erd]; simp only [lastOr, LL.popFixup, if_neg hlen]; rw [ef]
    · refine ⟨trivial, by simp [addrs], rfl, rfl, by simp [h.len], ?_, ?_, hfreed1⟩
      · exact List.nodup_cons.2 ⟨hafr, h.freedNodup⟩
      · intro a' m hm
        obtain ⟨h1, h2⟩ := hlive1 a' m hm
        exact hsub a' h1 h2
  · have hlne : l ≠ [] := by rw [e]; simp
    have hnwa : nw ≠ a := by
      intro e'; apply hal; rw [e]; simp [addrs, e']
    have hnwl' : nw ∉ addrs l' := by
      rw [e] at hndl
      simp only [List.map_append, List.map_cons, List.map_nil] at hndl
      obtain ⟨_, _, hd⟩ := List.nodup_append.1 hndl
      exact fun hm => hd nw hm nw (by simp) rfl
    have hgnw : gt s.mem.cells nw = some ⟨lastOr l' none, some a, tn⟩ := by
      have := hs1
      rw [e, seg_append] at this
      have h2 := this.2
      simp only [Seg, headOr, and_true] at h2
      exact h2
    -- (*new).prev = None, while the popped box is still allocated
    let c1 := st s.mem.cells nw (some ⟨lastOr l' none, none, tn⟩)
    have es : s.mem.setPrev nw none = .ok { cells := c1, freed := s.mem.freed } := by
      rw [setPrev_ok _ _ _ _ hgnw]
    have hga1 : gt c1 a = some ⟨lastOr l none, none, t⟩ := by
      show gt (st _ _ _) a = _
      rw [gt_st_ne _ _ _ _ hnwa]; exact hs2
    have hmem1 : MemOK c1 s.mem.freed (addrs (l ++ [(a, t)])) := memOK_st_some _ _ _ _ _ _ hgnw h.mem
    obtain ⟨hlive2, hfreed2, hafr⟩ := memOK_free _ _ _ a _ hga1 hmem1
    -- the box is freed
    let c2 := st c1 a none
    have ef : ({ cells := c1, freed := s.mem.freed } : Mem T).free a
        = .ok ({ cells := c2, freed := a :: s.mem.freed }, ⟨lastOr l none, none, t⟩) := free_ok _ _ _ hga1
    have hback' : lastOr l none = some nw := by rw [e, lastOr_concat]
    have hseg1 : Seg c1 none l none := by
      have := hs1
      rw [e] at this ⊢
      exact seg_set_last_prev s.mem.cells nw tn l' none (some a) none hnwl' this
    have hseg2 : Seg c2 none l none := by
      apply seg_frame _ _ _ _ _ _ hseg1
      intro a' ha'
      exact gt_st_ne _ _ _ _ (fun e => hal (e ▸ ha'))
    refine ⟨{ mem := { cells := c2, freed := a :: s.mem.freed }, front := s.front, back := some nw, len := s.len - 1 },
      ?_, ?_, rfl, by simp [c2, c1]⟩
    · simp only [LL.popBack, hb]; rw [erd]; simp only [hback', LL.popFixup]; rw [es]
      simp only [if_neg hlen]; rw [ef]
    · refine ⟨hseg2, hndl, ?_, hback'.symm, by simp [h.len], List.nodup_cons.2 ⟨hafr, h.freedNodup⟩, ?_, hfreed2⟩
      · show s.front = headOr l none
        rw [h.front, headOr_append]; exact headOr_ne_nil l hlne _ _
      · intro a' m hm
        obtain ⟨h1, h2⟩ := hlive2 a' m hm
        exact hsub a' h1 h2

/-! ### get_front / get_front_mut -/

theorem getFront_wf (s : LL T) (f : Nat) (t0 : T) (rest : List (Nat × T)) (h : WF s ((f, t0) :: rest)) :
    LL.getFront s = .ok t0 := by
  have hf : s.front = some f := h.front
  have hs := h.seg
  simp only [Seg] at hs
  simp only [LL.getFront, hf]; rw [rd_ok _ _ _ hs.1]

theorem setFront_wf (s : LL T) (f : Nat) (t0 t : T) (rest : List (Nat × T)) (h : WF s ((f, t0) :: rest)) :
    ∃ s', LL.setFront s t = .ok (s', t0) ∧ WF s' ((f, t) :: rest) ∧ s'.mem.freed = s.mem.freed ∧
      s'.mem.cells.size = s.mem.cells.size := by
  have hf : s.front = some f := h.front
  have hs := h.seg
  simp only [Seg] at hs
  have hnd := h.nodup
  simp only [addrs, List.map_cons, List.nodup_cons] at hnd
  let c1 := st s.mem.cells f (some ⟨none, headOr rest none, t⟩)
  refine ⟨{ s with mem := { s.mem with cells := c1 } }, ?_, ?_, rfl, by simp [c1]⟩
  · simp only [LL.setFront, hf]; rw [setElem_ok _ _ _ _ hs.1]
  · refine ⟨?_, h.nodup, h.front, h.back, h.len, h.freedNodup, memOK_st_some _ _ _ _ _ _ hs.1 h.mem⟩
    simp only [Seg]
    refine ⟨gt_st_eq _ _ _ (lt_size_of_gt_some _ _ _ hs.1), ?_⟩
    apply seg_frame _ _ _ _ _ _ hs.2
    intro a ha
    exact gt_st_ne _ _ _ _ (fun e => hnd.1 (e ▸ ha))

/-! ### clear / drop -/

theorem clearLoop_wf (fuel : Nat) (s : LL T) (ch : List (Nat × T)) (acc : List T) (h : WF s ch)
    (hf : ch.length < fuel) :
    ∃ s', LL.clearLoop fuel s acc = .ok (s', acc ++ (ch.map (·.2)).reverse) ∧ WF s' [] ∧
      s'.mem.cells.size = s.mem.cells.size ∧
      (∃ fr, s'.mem.freed = fr ++ s.mem.freed ∧ fr.length = ch.length) := by
  induction fuel generalizing s ch acc with
  | zero => omega
  | succ fuel ih =>
    rcases eq_nil_or_snoc ch with e | ⟨l, ⟨a, t⟩, e⟩
    · subst e
      refine ⟨s, ?_, h, rfl, [], rfl, rfl⟩
      simp [LL.clearLoop, popBack_wf_nil s h]
    · subst e
      obtain ⟨s1, e1, hwf1, hfr1, hsz1⟩ := popBack_wf_concat s l a t h
      obtain ⟨s', e2, hwf2, hsz2, fr, hfr2, hlen2⟩ := ih s1 l (acc ++ [t]) hwf1 (by simp at hf; omega)
      refine ⟨s', ?_, hwf2, by rw [hsz2, hsz1], fr ++ [a], by rw [hfr2, hfr1]; simp, by simp [hlen2]⟩
      simp only [LL.clearLoop]; rw [e1]; simp only []; rw [e2]; simp

/-- `clear` on a well-formed list never runs out of fuel, pops every element (back first), and
    leaves the empty well-formed list -/
theorem clear_wf (s : LL T) (ch : List (Nat × T)) (h : WF s ch) :
    ∃ s', LL.clear s = .ok (s', (ch.map (·.2)).reverse) ∧ WF s' [] ∧
      s'.mem.cells.size = s.mem.cells.size := by
  obtain ⟨s', e, hwf, hsz, _⟩ := clearLoop_wf (s.len + 1) s ch [] h (by rw [h.len]; omega)
  exact ⟨s', by simpa [LL.clear] using e, hwf, hsz⟩

/-- in an empty well-formed list every cell that was ever allocated is in the `freed` log, once -/
theorem freed_once_of_wf_nil (s : LL T) (h : WF s []) :
    s.mem.freed.Nodup ∧ (∀ a, a ∈ s.mem.freed ↔ a < s.mem.cells.size) ∧
    s.mem.freed.length = s.mem.cells.size ∧ (∀ a, gt s.mem.cells a = none) := by
  have hnone : ∀ a, gt s.mem.cells a = none := by
    intro a
    cases hg : gt s.mem.cells a with
    | none => rfl
    | some n => exact absurd (h.live a n hg) (by simp [addrs])
  have hiff : ∀ a, a ∈ s.mem.freed ↔ a < s.mem.cells.size := by
    intro a; rw [h.freed a]; simp [hnone a]
  refine ⟨h.freedNodup, hiff, ?_, hnone⟩
  -- a duplicate-free list with the same members as `range n` has length n
  have h1 : s.mem.freed.Perm (List.range s.mem.cells.size) := by
    rw [List.perm_ext_iff_of_nodup h.freedNodup List.nodup_range]
    intro a; rw [hiff a]; simp
  rw [h1.length_eq]; simp

end Tbx.LruL1
