import Tbx.Proofs.RadixLSD
/-
Floats and `partial_cmp` (C17): the radix-sorted vector is `==`-equal, position by position, to the stable
sort by `partial_cmp` (which keeps −0.0/+0.0 in input order).  Proof: `canon` (−0.0 ↦ +0.0) is monotone for
totalOrder, `partial_cmp` on patterns is totalOrder on representatives, `map canon` commutes with
`mergeSort`, and sorted permutations are unique.
-/
namespace Tbx.Radix
open Tbx Tbx.SortSpec

theorem fmag_zero_iff (t : Ty) (hw : 0 < t.w) (x : Nat) (hx : x < t.card) :
    fmag t x = 0 ↔ x = 0 ∨ x = t.half := by
  have hc := card_eq_two_half t hw
  rw [fmag_eq t hw x hx]
  split <;> omega

theorem canon_lt (t : Ty) (hw : 0 < t.w) (x : Nat) (hx : x < t.card) : canon t x < t.card := by
  unfold canon
  split
  · have := half_pos t; have := card_eq_two_half t hw; omega
  · exact hx

theorem fle_iff (t : Ty) (hw : 0 < t.w) (a b : Nat) (ha : a < t.card) (hb : b < t.card) :
    fle t a b ↔ (t.half ≤ a ∧ t.half ≤ b ∧ b ≤ a) ∨ (t.half ≤ a ∧ b < t.half) ∨ (a < t.half ∧ b < t.half ∧ a ≤ b) := by
  unfold fle
  have ea := fmag_eq t hw a ha
  have eb := fmag_eq t hw b hb
  by_cases h1 : t.half ≤ a <;> by_cases h2 : t.half ≤ b
  · rw [if_pos (show fneg t a from h1), if_pos (show fneg t b from h2), ea, eb, if_pos h1, if_pos h2]; omega
  · rw [if_pos (show fneg t a from h1), if_neg (show ¬ fneg t b from h2)]
    constructor
    · intro _; omega
    · intro _; trivial
  · rw [if_neg (show ¬ fneg t a from h1), if_pos (show fneg t b from h2)]
    constructor
    · intro h; exact h.elim
    · intro h; omega
  · rw [if_neg (show ¬ fneg t a from h1), if_neg (show ¬ fneg t b from h2), ea, eb, if_neg h1, if_neg h2]; omega

theorem canon_eq (t : Ty) (hw : 0 < t.w) (x : Nat) (hx : x < t.card) :
    (x = t.half ∧ canon t x = 0) ∨ (x ≠ t.half ∧ canon t x = x) := by
  unfold canon
  have := fmag_zero_iff t hw x hx
  by_cases h : fmag t x = 0
  · rw [if_pos h]
    rcases this.1 h with h0 | h0
    · by_cases hh : x = t.half
      · left; exact ⟨hh, rfl⟩
      · right; exact ⟨hh, h0.symm⟩
    · left; exact ⟨h0, rfl⟩
  · rw [if_neg h]
    right
    exact ⟨fun e => h (this.2 (Or.inr e)), rfl⟩

/-- `canon` is monotone for totalOrder -/
theorem canon_mono (t : Ty) (hw : 0 < t.w) (a b : Nat) (ha : a < t.card) (hb : b < t.card) (h : fle t a b) :
    fle t (canon t a) (canon t b) := by
  have hp := half_pos t
  have hc := card_eq_two_half t hw
  rw [fle_iff t hw a b ha hb] at h
  rw [fle_iff t hw _ _ (canon_lt t hw a ha) (canon_lt t hw b hb)]
  rcases canon_eq t hw a ha with ⟨e1, e2⟩ | ⟨e1, e2⟩ <;> rcases canon_eq t hw b hb with ⟨e3, e4⟩ | ⟨e3, e4⟩ <;>
    rw [e2, e4] <;> omega

/-- `partial_cmp` on the patterns is totalOrder on the representatives -/
theorem ple_canon (t : Ty) (hw : 0 < t.w) (hf : t.kind = .float) (a b : Nat) (ha : a < t.card) (hb : b < t.card) :
    pleB t a b = leB t (canon t a) (canon t b) := by
  have hp := half_pos t
  have hc := card_eq_two_half t hw
  have hle : ∀ x y, le t x y ↔ fle t x y := by intro x y; unfold le; rw [hf]
  rw [Bool.eq_iff_iff]
  unfold pleB leB isZeroF
  simp only [Bool.or_eq_true, Bool.and_eq_true, decide_eq_true_eq, beq_iff_eq, hle]
  rw [fle_iff t hw a b ha hb, fle_iff t hw _ _ (canon_lt t hw a ha) (canon_lt t hw b hb),
    fmag_zero_iff t hw a ha, fmag_zero_iff t hw b hb]
  rcases canon_eq t hw a ha with ⟨e1, e2⟩ | ⟨e1, e2⟩ <;> rcases canon_eq t hw b hb with ⟨e3, e4⟩ | ⟨e3, e4⟩ <;>
    rw [e2, e4] <;> omega

/-- for floats the radix-sorted vector is `==`-equal, element by element, to the stable sort by `partial_cmp`
    (which leaves −0.0/+0.0 in input order): both have the same `==`-representatives -/
theorem sortB_eq_partial_sort (t : Ty) (hw : 0 < t.w) (hf : t.kind = .float) (xs : List Nat)
    (hx : ∀ x ∈ xs, x < t.card) :
    (sortB t xs).map (canon t) = (xs.mergeSort (pleB t)).map (canon t) := by
  have hle : ∀ x y, le t x y ↔ fle t x y := by intro x y; unfold le; rw [hf]
  rcases sortB_sorted t hw xs hx with ⟨hp, hs⟩
  rw [List.map_mergeSort (s := leB t) (fun a ha b hb => ple_canon t hw hf a b (hx a ha) (hx b hb))]
  have tr : ∀ a b c : Nat, leB t a b = true → leB t b c = true → leB t a c = true := by
    intro a b c; simp only [leB, decide_eq_true_eq]; exact le_trans t
  have tot : ∀ a b : Nat, (leB t a b || leB t b a) = true := by
    intro a b; simp only [leB, Bool.or_eq_true, decide_eq_true_eq]; exact le_total t a b
  have hm : ((xs.map (canon t)).mergeSort (leB t)).Pairwise (le t) := by
    have := List.pairwise_mergeSort tr tot (xs.map (canon t))
    simpa [leB] using this
  have hl : ((sortB t xs).map (canon t)).Pairwise (le t) := by
    rw [List.pairwise_map]
    refine hs.imp_of_mem ?_
    intro a b ha hb hab
    rw [hle] at hab ⊢
    exact canon_mono t hw a b (hx a (hp.subset ha)) (hx b (hp.subset hb)) hab
  have hcx : ∀ y ∈ xs.map (canon t), y < t.card := by
    intro y hy
    rcases List.mem_map.mp hy with ⟨x, hx', rfl⟩
    exact canon_lt t hw x (hx x hx')
  apply List.Perm.eq_of_pairwise (le := le t) _ hl hm
    ((hp.map (canon t)).trans (List.mergeSort_perm _ _).symm)
  intro x y hx' hy' h1 h2
  exact le_antisymm t hw x y (hcx x ((hp.map (canon t)).subset hx'))
    (hcx y ((List.mergeSort_perm _ _).subset hy')) h1 h2

theorem feqB_iff_canon (t : Ty) (hw : 0 < t.w) (a b : Nat) (ha : a < t.card) (hb : b < t.card) :
    feqB t a b = true ↔ canon t a = canon t b := by
  have hp := half_pos t
  unfold feqB isZeroF
  simp only [Bool.or_eq_true, Bool.and_eq_true, beq_iff_eq]
  rw [fmag_zero_iff t hw a ha, fmag_zero_iff t hw b hb]
  rcases canon_eq t hw a ha with ⟨e1, e2⟩ | ⟨e1, e2⟩ <;> rcases canon_eq t hw b hb with ⟨e3, e4⟩ | ⟨e3, e4⟩ <;>
    rw [e2, e4] <;> omega

end Tbx.Radix
