import Tbx.Proofs.SearchBasic
/-
Helper lemmas for C15, part 2: the search is complete for ANY pop discipline (port of DESIGN.md
Appendix A.4 to the array model).  Invariant at the boundaries of the outer loop: every marked node is
still on the worklist or all its unfiltered successors are marked; every marked node is a source or no
target.  Core only.
-/
namespace Tbx.Search
open Tbx

structure CInv (g : Graph) (filt isT : Nat → Bool) (isSrc : Nat → Prop) (s : S) : Prop where
  closed : ∀ v, marked s.par v → v ∈ s.wl ∨ ∀ w, Reach.Edge g filt v w → marked s.par w
  noT    : ∀ v, marked s.par v → isSrc v ∨ isT v = false

theorem Disc.marked_iff {filt : Nat → Bool} {u : Nat} {vs : List (Nat × Nat)} {s s' : S} {news : List Nat}
    (hd : Disc filt u vs s s' news) (x : Nat) : marked s'.par x ↔ x ∈ news ∨ marked s.par x := by
  unfold marked
  rw [hd.par x]
  by_cases hx : x ∈ news <;> simp [hx]

theorem loop_none (g : Graph) (filt isT : Nat → Bool) (isSrc : Nat → Prop)
    (pop : List Nat → Option (Nat × List Nat)) (hp : PopOK pop)
    (fuel : Nat) (s s' : S) (hi : CInv g filt isT isSrc s)
    (h : loop g filt isT pop fuel s = .done none s') :
    (∀ v, marked s.par v → marked s'.par v) ∧
    (∀ v, marked s'.par v → ∀ w, Reach.Edge g filt v w → marked s'.par w) ∧
    (∀ v, marked s'.par v → isSrc v ∨ isT v = false) := by
  induction fuel generalizing s with
  | zero => simp [loop] at h
  | succ fuel ih =>
    simp only [loop] at h
    split at h
    · rename_i hpop
      have hwl : s.wl = [] := hp.1 _ hpop
      simp only [LR.done.injEq, true_and] at h
      subst h
      refine ⟨fun _ h => h, ?_, hi.noT⟩
      intro v hv
      rcases hi.closed v hv with h1 | h1
      · rw [hwl] at h1; cases h1
      · exact h1
    · rename_i u rest hpop
      split at h
      · cases h
      · split at h
        · cases h
        · simp at h
        · rename_i s1 he
          obtain ⟨news, hd, hw, hT, hm⟩ := edges_cont filt isT u _ (g u) _ s1 he
          have mk := hd.marked_iff
          simp only at mk hw
          have hi1 : CInv g filt isT isSrc s1 := by
            constructor
            · intro v hv
              rcases (mk v).mp hv with h1 | h1
              · left; rw [hw]; exact List.mem_append_right _ h1
              · rcases hi.closed v h1 with h2 | h2
                · rcases (hp.2 _ _ _ hpop v).mp h2 with rfl | h3
                  · right
                    rintro w ⟨e, he1, he2⟩
                    exact hm w e he1 he2
                  · left; rw [hw]; exact List.mem_append_left _ h3
                · right; intro w hw'; exact (mk w).mpr (Or.inr (h2 w hw'))
            · intro v hv
              rcases (mk v).mp hv with h1 | h1
              · exact Or.inr (hT v h1)
              · exact hi.noT v h1
          obtain ⟨x, y, z⟩ := ih s1 hi1 h
          exact ⟨fun v hv => x v ((mk v).mpr (Or.inr hv)), y, z⟩

/-- a finished search without early return has marked the whole reachable set, none of it a target -/
theorem loop_none_complete (g : Graph) (filt isT : Nat → Bool) (isSrc : Nat → Prop)
    (pop : List Nat → Option (Nat × List Nat)) (hp : PopOK pop)
    (fuel : Nat) (s s' : S) (hi : CInv g filt isT isSrc s) (hsrc : ∀ v, isSrc v → marked s.par v)
    (hdisj : ∀ v, isSrc v → isT v = false)
    (h : loop g filt isT pop fuel s = .done none s') :
    ∀ v, Reach.Reachable g filt isSrc v → marked s'.par v ∧ isT v = false := by
  obtain ⟨a, b, c⟩ := loop_none g filt isT isSrc pop hp fuel s s' hi h
  have hm : ∀ v, Reach.Reachable g filt isSrc v → marked s'.par v := by
    intro v hv
    induction hv with
    | src v hs => exact a v (hsrc v hs)
    | step u v _ he ih => exact b u ih v he
  intro v hv
  refine ⟨hm v hv, ?_⟩
  rcases c v (hm v hv) with h1 | h1
  · exact hdisj v h1
  · exact h1

/-- the state in which `runWith` enters the loop -/
theorem init_marked (sr : Searcher) (par : Array (Option Nat)) (h : resetParents sr = some par) (x : Nat) :
    marked par x ↔ x ∈ sr.sources := by
  obtain ⟨_, _, h3⟩ := resetParents_spec sr par h
  unfold marked
  rw [h3 x]
  by_cases hx : x ∈ sr.sources <;> simp [hx]

theorem init_CInv (g : Graph) (filt isT : Nat → Bool) (sr : Searcher) (par : Array (Option Nat))
    (h : resetParents sr = some par) :
    CInv g filt isT (· ∈ sr.sources) { par := par, wl := sr.sources } := by
  constructor
  · intro v hv; left; exact (init_marked sr par h v).mp hv
  · intro v hv; left; exact (init_marked sr par h v).mp hv

end Tbx.Search
