import Tbx.Proofs.FenwickBits
import Tbx.Spec.PrefixSum
/-
The Fenwick invariant  tree[p] = Σ values (p − lsb p, p]  and what follows from it:
`rank`, `slow_range` and `range` equal the plain array's sums; `update` and `from_values` preserve /
establish the invariant.
-/
namespace Tbx.Fenwick
open Tbx
open Tbx.PrefixSum (pre)

theorem pre_zero (v : List Int) : pre v 0 = 0 := by simp [pre]

theorem pre_succ (v : List Int) (p : Nat) : pre v (p + 1) = pre v p + v.getD p 0 := by
  unfold pre
  rw [List.take_add_one, List.sum_append, List.getD_eq_getElem?_getD]
  cases v[p]? <;> simp

theorem pre_add (v : List Int) (a b : Nat) : pre v (a + b) = pre v a + ((v.drop a).take b).sum := by
  unfold pre
  rw [List.take_add, List.sum_append]

/-- the half-open range sum of the plain array is a difference of prefix sums -/
theorem range_eq (v : List Int) (i j : Nat) (h : i ≤ j) :
    PrefixSum.range v i j = pre v (j + 1) - pre v (i + 1) := by
  have h1 := pre_add v (i + 1) (j - i)
  have e : i + 1 + (j - i) = j + 1 := by omega
  rw [e] at h1
  unfold PrefixSum.range
  omega

theorem pre_update (v : List Int) (i : Nat) (x : Int) (p : Nat) (hi : i < v.length) :
    pre (PrefixSum.update v i x) p = pre v p + (if i < p then x else 0) := by
  induction p with
  | zero => simp [pre_zero]
  | succ p ih =>
    rw [pre_succ, pre_succ, ih]
    have hg : (PrefixSum.update v i x).getD p 0 = v.getD p 0 + (if i = p then x else 0) := by
      unfold PrefixSum.update
      simp only [List.getD_eq_getElem?_getD, List.getElem?_set]
      by_cases hip : i = p
      · subst hip; simp [hi]
      · simp [hip]
    rw [hg]
    by_cases h1 : i < p
    · have h2 : ¬ (i = p) := by omega
      have h3 : i < p + 1 := by omega
      rw [if_pos h1, if_neg h2, if_pos h3]; omega
    · by_cases h2 : i = p
      · have h3 : i < p + 1 := by omega
        rw [if_neg h1, if_pos h2, if_pos h3]; omega
      · have h3 : ¬ (i < p + 1) := by omega
        rw [if_neg h1, if_neg h2, if_neg h3]; omega

theorem length_update (v : List Int) (i : Nat) (x : Int) : (PrefixSum.update v i x).length = v.length := by
  simp [PrefixSum.update]

/-- tree[p] = Σ values (p − lsb p, p]  for 1 ≤ p ≤ n -/
structure FwInv (t : Array Int) (v : List Int) : Prop where
  size : t.size = v.length + 1
  node : ∀ p, 1 ≤ p → p ≤ v.length → gt t p = pre v p - pre v (p - lsb p)

/-- the downward walk telescopes; it stops at the first index ≤ stop -/
theorem downLoop_spec (t : Array Int) (v : List Int) (hI : FwInv t v) (stop fuel p : Nat) (sum : Int)
    (hp : p ≤ v.length) (hf : p ≤ fuel) :
    (downLoop t stop fuel p sum).2 = sum + pre v p - pre v (downLoop t stop fuel p sum).1 ∧
    (downLoop t stop fuel p sum).1 ≤ p ∧
    (p ≤ stop → (downLoop t stop fuel p sum).1 = p) ∧
    (stop < p → (downLoop t stop fuel p sum).1 ≤ stop ∧
      ∃ y, stop < y ∧ y ≤ p ∧ y - lsb y = (downLoop t stop fuel p sum).1) := by
  induction fuel generalizing p sum with
  | zero =>
    have : p = 0 := by omega
    subst this
    simp [downLoop]
  | succ fuel ih =>
    unfold downLoop
    by_cases hgt : p > stop
    · simp only [hgt, if_true]
      have hl := lsb_pos p (by omega)
      have hl2 := lsb_le p
      obtain ⟨h1, h2, h3, h4⟩ := ih (p - lsb p) (sum + gt t p) (by omega) (by omega)
      have hnode := hI.node p (by omega) hp
      have e1 : (downLoop t stop fuel (p - lsb p) (sum + gt t p)).2 =
          sum + pre v p - pre v (downLoop t stop fuel (p - lsb p) (sum + gt t p)).1 := by
        rw [h1, hnode]; clear h4; omega
      have e2 : (downLoop t stop fuel (p - lsb p) (sum + gt t p)).1 ≤ p := Nat.le_trans h2 (Nat.sub_le _ _)
      refine ⟨e1, e2, (fun h => absurd h (Nat.not_le_of_gt hgt)), fun _ => ?_⟩
      by_cases hle : p - lsb p ≤ stop
      · have := h3 hle
        exact ⟨(by rw [this]; exact hle), p, hgt, Nat.le_refl _, this.symm⟩
      · obtain ⟨h5, y, hy1, hy2, hy3⟩ := h4 (Nat.lt_of_not_le hle)
        exact ⟨h5, y, hy1, Nat.le_trans hy2 (Nat.sub_le _ _), hy3⟩
    · rw [if_neg hgt]
      refine ⟨?_, Nat.le_refl _, fun _ => rfl, fun h => absurd h hgt⟩
      show sum = sum + pre v p - pre v p
      omega

/-- `rank(index)` is the plain prefix sum of the entries 0..=index; `None` iff out of range -/
theorem rank_spec (t : Array Int) (v : List Int) (hI : FwInv t v) (index : Nat) :
    Fenwick.rank ⟨t⟩ index = PrefixSum.rank v index := by
  unfold Fenwick.rank PrefixSum.rank len
  simp only [hI.size, Nat.add_sub_cancel]
  by_cases h : index < v.length
  · have : ¬ (index ≥ v.length) := by omega
    rw [if_neg this, if_pos h]
    obtain ⟨h1, _, h3, _⟩ := downLoop_spec t v hI 0 (index + 1) (index + 1) 0 (by omega) (Nat.le_refl _)
    have h0 : (downLoop t 0 (index + 1) (index + 1) 0).1 = 0 := by
      obtain ⟨_, _, _, h4⟩ := downLoop_spec t v hI 0 (index + 1) (index + 1) 0 (by omega) (Nat.le_refl _)
      have := (h4 (by omega)).1
      omega
    rw [h1, h0, pre_zero]
    simp
  · have : index ≥ v.length := by omega
    rw [if_pos this, if_neg h]

/-- `slow_range(i, j)` = v[i+1] + … + v[j] for i ≤ j < n -/
theorem slowRange_spec (t : Array Int) (v : List Int) (hI : FwInv t v) (i j : Nat) (hij : i ≤ j) (hj : j < v.length) :
    slowRange ⟨t⟩ i j = some (PrefixSum.range v i j) := by
  unfold slowRange
  have : ¬ (i > j) := by omega
  rw [if_neg this, rank_spec t v hI, rank_spec t v hI]
  unfold PrefixSum.rank
  rw [if_pos hj, if_pos (by omega), range_eq v i j hij]

/-! ### `range`: the two-pointer walk -/

/-- q lies on the downward chain a, a − lsb a, … -/
inductive Down : Nat → Nat → Prop
  | refl (a : Nat) : Down a a
  | step {a q : Nat} : 0 < a → Down (a - lsb a) q → Down a q

theorem down_le {a q : Nat} (h : Down a q) : q ≤ a := by
  induction h with
  | refl => exact Nat.le_refl _
  | step _ _ ih => omega

/-- if y covers a, the left end of y lies on the downward chain of a -/
theorem down_of_cover (y a : Nat) (ha : 0 < a) (h1 : y - lsb y < a) (h2 : a ≤ y) : Down a (y - lsb y) := by
  induction a using Nat.strongRecOn with
  | ind a ih =>
    by_cases hay : a = y
    · subst hay; exact Down.step ha (Down.refl _)
    · have hn := cover_nest y a ha h1 (by omega)
      have hl := lsb_pos a ha
      have hl2 := lsb_le a
      by_cases heq : a - lsb a = y - lsb y
      · rw [← heq]; exact Down.step ha (Down.refl _)
      · exact Down.step ha (ih (a - lsb a) (by omega) (by omega) (by omega) (by omega))

theorem downLoop_hits (t : Array Int) (a q : Nat) (h : Down a q) (fuel : Nat) (sum : Int) (hf : a ≤ fuel) :
    (downLoop t q fuel a sum).1 = q := by
  induction h generalizing fuel sum with
  | refl a =>
    cases fuel with
    | zero => rfl
    | succ f => simp [downLoop]
  | @step a q ha hd ih =>
    have hq := down_le hd
    have hl := lsb_pos a ha
    cases fuel with
    | zero => omega
    | succ f =>
      unfold downLoop
      have : a > q := by omega
      simp only [this, if_true]
      exact ih f _ (by omega)

/-- `range(i, j)` = v[i+1] + … + v[j] for i < j < n (the overshoot of the first walk is cancelled by the second) -/
theorem range_spec (t : Array Int) (v : List Int) (hI : FwInv t v) (i j : Nat) (hij : i < j) (hj : j < v.length) :
    Fenwick.range ⟨t⟩ i j = some (PrefixSum.range v i j) := by
  unfold Fenwick.range
  have h1 : ¬ (i ≥ j) := by omega
  have h2 : ¬ (j + 1 ≥ t.size) := by rw [hI.size]; omega
  simp only [h1, h2, if_false]
  obtain ⟨a1, _, _, a4⟩ := downLoop_spec t v hI i (j + 1) (j + 1) 0 (by omega) (Nat.le_refl _)
  obtain ⟨hq, y, hy1, hy2, hy3⟩ := a4 (by omega)
  generalize (downLoop t i (j + 1) (j + 1) 0) = A at a1 hq hy3 ⊢
  have hdown : Down (i + 1) A.1 := by
    rw [← hy3]; exact down_of_cover y (i + 1) (by omega) (by omega) (by omega)
  have hhit := downLoop_hits t (i + 1) A.1 hdown (i + 1) 0 (Nat.le_refl _)
  obtain ⟨b1, _, _, _⟩ := downLoop_spec t v hI A.1 (i + 1) (i + 1) 0 (by omega) (Nat.le_refl _)
  rw [hhit] at b1
  rw [a1, b1, range_eq v i j (by omega)]
  congr 1
  omega

end Tbx.Fenwick
