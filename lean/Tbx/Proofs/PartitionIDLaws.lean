import Tbx.Model.PartitionID
import Tbx.Spec.IdTree
/-
Binary-tree laws of the partition-id arithmetic (model: Tbx.PartitionID, spec: Tbx.Spec.IdTree).
Core Lean only.
-/
namespace Tbx.Proofs.PartitionID
open Tbx Tbx.PartitionID Tbx.Spec.IdTree

/-- `f` applied `k` times -/
def kfold (f : Nat → Nat) : Nat → Nat → Nat
  | 0, x => x
  | k + 1, x => kfold f k (f x)

theorem leftChild_eq (x : Nat) : leftChild x = 2 * x % U32 := by
  simp only [leftChild, Nat.shiftLeft_eq, Nat.pow_one, Nat.mul_comm x 2]

theorem rightChild_eq (x : Nat) : rightChild x = 2 * x % U32 + 1 := by
  simp only [rightChild, Nat.shiftLeft_eq, Nat.pow_one, Nat.mul_comm x 2]

theorem parent_eq (x : Nat) : parent x = max 1 (x / 2) := by
  simp only [parent, Nat.shiftRight_eq_div_pow, Nat.pow_one]

theorem parent_leftChild (x : Nat) (h1 : 1 ≤ x) (h31 : x < 2 ^ 31) : parent (leftChild x) = x := by
  rw [parent_eq, leftChild_eq]; simp only [U32]; omega

theorem parent_rightChild (x : Nat) (h1 : 1 ≤ x) (h31 : x < 2 ^ 31) : parent (rightChild x) = x := by
  rw [parent_eq, rightChild_eq]; simp only [U32]; omega

theorem isLeftChild_leftChild (x : Nat) : isLeftChild (leftChild x) = true := by
  rw [leftChild_eq]; simp only [isLeftChild, U32, beq_iff_eq]; omega

theorem isRightChild_rightChild (x : Nat) : isRightChild (rightChild x) = true := by
  rw [rightChild_eq]; simp only [isRightChild, U32, beq_iff_eq]; omega

theorem isLeft_xor_isRight (x : Nat) : isLeftChild x = !isRightChild x := by
  simp only [isLeftChild, isRightChild]
  rcases Nat.mod_two_eq_zero_or_one x with h | h <;> simp [h]

/-- `level` is the binary logarithm on the non-zero 32-bit ids -/
theorem level_eq (x : Nat) (h1 : 1 ≤ x) (h32 : x < 2 ^ 32) : level x = some (Nat.log2 x) := by
  have hne : x ≠ 0 := by omega
  have hl : Nat.log2 x < 32 := (Nat.log2_lt hne).mpr h32
  simp only [level, leadingZeros, if_neg hne]
  have : 31 - x.log2 ≤ 31 := by omega
  rw [if_pos this]
  congr 1; omega

theorem level_zero : level 0 = none := by decide

theorem level_leftChild (x : Nat) (h1 : 1 ≤ x) (h31 : x < 2 ^ 31) :
    level (leftChild x) = some (Nat.log2 x + 1) := by
  have e : leftChild x = 2 * x := by rw [leftChild_eq]; simp only [U32]; omega
  rw [e, level_eq (2 * x) (by omega) (by omega), Nat.log2_two_mul (by omega)]

theorem log2_two_mul_add_one (x : Nat) (h1 : 1 ≤ x) : Nat.log2 (2 * x + 1) = Nat.log2 x + 1 := by
  rw [Nat.log2_def]
  have : 2 * x + 1 ≥ 2 := by omega
  simp only [this, if_true]
  congr 2
  omega

theorem level_rightChild (x : Nat) (h1 : 1 ≤ x) (h31 : x < 2 ^ 31) :
    level (rightChild x) = some (Nat.log2 x + 1) := by
  have e : rightChild x = 2 * x + 1 := by rw [rightChild_eq]; simp only [U32]; omega
  rw [e, level_eq (2 * x + 1) (by omega) (by omega), log2_two_mul_add_one x h1]

/-! ### k-fold children -/

theorem leftChild_lt (x : Nat) : leftChild x < U32 := by
  rw [leftChild_eq]; exact Nat.mod_lt _ (by decide)

theorem rightChild_lt (x : Nat) : rightChild x < U32 := by
  rw [rightChild_eq]; simp only [U32]; omega

theorem kfold_leftChild (k x : Nat) (hx : x < U32) : kfold leftChild k x = x * 2 ^ k % U32 := by
  induction k generalizing x with
  | zero => simp [kfold, Nat.mod_eq_of_lt hx]
  | succ k ih =>
    simp only [kfold]
    rw [ih _ (leftChild_lt x), leftChild_eq, Nat.mod_mul_mod, Nat.pow_succ]
    congr 1
    rw [Nat.mul_comm (2 ^ k) 2, ← Nat.mul_assoc, Nat.mul_comm x 2]

theorem makeLeftmostDescendant_eq (x k : Nat) (hx : x < U32) (hk : k < 32) :
    makeLeftmostDescendant x k = some (kfold leftChild k x) := by
  simp only [makeLeftmostDescendant, if_pos hk, kfold_leftChild k x hx, Nat.shiftLeft_eq]

/-- a multiple of `2^k` below `2^32` leaves room for `2^k - 1` -/
theorem mul_pow_mod_le (x k : Nat) (hk : k ≤ 32) : x * 2 ^ k % U32 + 2 ^ k ≤ U32 := by
  have hU : U32 = 2 ^ k * 2 ^ (32 - k) := by
    rw [← Nat.pow_add]
    have : k + (32 - k) = 32 := by omega
    rw [this]; rfl
  rw [Nat.mul_comm x, hU, Nat.mul_mod_mul_left]
  have hq : x % 2 ^ (32 - k) < 2 ^ (32 - k) := Nat.mod_lt _ (Nat.two_pow_pos _)
  have : 2 ^ k * (x % 2 ^ (32 - k)) + 2 ^ k * 1 ≤ 2 ^ k * 2 ^ (32 - k) := by
    rw [← Nat.mul_add]; exact Nat.mul_le_mul_left _ hq
  omega

theorem kfold_rightChild (k x : Nat) (hx : x < U32) (hk : k ≤ 32) :
    kfold rightChild k x = x * 2 ^ k % U32 + (2 ^ k - 1) := by
  induction k generalizing x with
  | zero => simp [kfold, Nat.mod_eq_of_lt hx]
  | succ k ih =>
    simp only [kfold]
    rw [ih _ (rightChild_lt x) (by omega), rightChild_eq]
    have hp : 0 < 2 ^ k := Nat.two_pow_pos k
    have hroom := mul_pow_mod_le x (k + 1) hk
    rw [Nat.pow_succ] at hroom ⊢
    -- (2x % U + 1) * 2^k % U = (x * 2^(k+1)) % U + 2^k
    have e1 : (2 * x % U32 + 1) * 2 ^ k % U32 = (x * (2 ^ k * 2) % U32 + 2 ^ k) % U32 := by
      have e : x * (2 ^ k * 2) = 2 * x * 2 ^ k := by
        rw [Nat.mul_comm (2 ^ k) 2, ← Nat.mul_assoc, Nat.mul_comm x 2]
      have hlt : 2 ^ k < U32 := by
        have : (2:Nat) ^ k < 2 ^ 32 := Nat.pow_lt_pow_right (by decide) (by omega)
        simpa [U32] using this
      rw [e, Nat.add_mul, Nat.one_mul, Nat.add_mod, Nat.mod_mul_mod, Nat.add_mod (2 * x * 2 ^ k % U32),
        Nat.mod_mod, Nat.mod_mod, Nat.mod_eq_of_lt hlt]
    rw [e1, Nat.mod_eq_of_lt (by omega)]
    omega

theorem makeRightmostDescendant_eq (x k : Nat) (hx : x < U32) (hk : k < 32) :
    makeRightmostDescendant x k = some (kfold rightChild k x) := by
  have hroom := mul_pow_mod_le x k (by omega)
  have hp : 0 < 2 ^ k := Nat.two_pow_pos k
  have hlt : 2 ^ k < U32 := by
    have : (2:Nat) ^ k < 2 ^ 32 := Nat.pow_lt_pow_right (by decide) hk
    simpa [U32] using this
  simp only [makeRightmostDescendant, makeLeftmostDescendant, if_pos hk, Nat.shiftLeft_eq, Nat.one_mul,
    Nat.mod_eq_of_lt hlt]
  rw [if_pos (by omega), kfold_rightChild k x hx (by omega)]

/-- the k-fold children are the k-fold children of the tree on the naturals, reduced to 32 bits -/
theorem leftK_eq (k x : Nat) : leftK k x = x * 2 ^ k := by
  induction k generalizing x with
  | zero => simp [leftK]
  | succ k ih => simp only [leftK]; rw [ih, Nat.pow_succ, Nat.mul_comm (2 ^ k) 2, ← Nat.mul_assoc, Nat.mul_comm x 2]

theorem rightK_eq (k x : Nat) : rightK k x = x * 2 ^ k + (2 ^ k - 1) := by
  induction k generalizing x with
  | zero => simp [rightK]
  | succ k ih =>
    simp only [rightK]; rw [ih, Nat.pow_succ]
    have hp : 0 < 2 ^ k := Nat.two_pow_pos k
    rw [Nat.add_mul, Nat.one_mul, Nat.mul_comm (2 ^ k) 2, ← Nat.mul_assoc, Nat.mul_comm x 2]
    omega

/-! ### lowest common ancestor -/

/-- `x` has exactly `L + 1` binary digits -/
def Band (L x : Nat) : Prop := 2 ^ L ≤ x ∧ x < 2 ^ (L + 1)

theorem band_log2 (x : Nat) (h : x ≠ 0) : Band (Nat.log2 x) x := ⟨Nat.log2_self_le h, Nat.lt_log2_self⟩

theorem band_unique {a b c : Nat} (ha : Band a c) (hb : Band b c) : a = b := by
  apply Decidable.byContradiction
  intro hne
  rcases Nat.lt_or_gt_of_ne hne with h | h
  · have : (2:Nat) ^ (a + 1) ≤ 2 ^ b := Nat.pow_le_pow_right (by decide) h
    have := ha.2; have := hb.1; omega
  · have : (2:Nat) ^ (b + 1) ≤ 2 ^ a := Nat.pow_le_pow_right (by decide) h
    have := ha.1; have := hb.2; omega

theorem band_div {L x : Nat} (p : Nat) (h : Band L x) (hp : p ≤ L) : Band (L - p) (x / 2 ^ p) := by
  have hpos : 0 < 2 ^ p := Nat.two_pow_pos p
  have e1 : 2 ^ L = 2 ^ (L - p) * 2 ^ p := by rw [← Nat.pow_add]; congr 1; omega
  have e2 : 2 ^ (L + 1) = 2 ^ (L - p + 1) * 2 ^ p := by rw [← Nat.pow_add]; congr 1; omega
  constructor
  · rw [Nat.le_div_iff_mul_le hpos, ← e1]; exact h.1
  · rw [Nat.div_lt_iff_lt_mul hpos, ← e2]; exact h.2

/-- if `x / 2^p ≥ 1` then `p` is at most the bit position of `x` -/
theorem le_of_div_pos {L x p : Nat} (h : Band L x) (hc : 1 ≤ x / 2 ^ p) : p ≤ L := by
  apply Decidable.byContradiction
  intro hn
  have : (2:Nat) ^ (L + 1) ≤ 2 ^ p := Nat.pow_le_pow_right (by decide) (by omega)
  have : x / 2 ^ p = 0 := Nat.div_eq_of_lt (by have := h.2; omega)
  omega

theorem div_div_pow (x a b : Nat) : x / 2 ^ a / 2 ^ b = x / 2 ^ (a + b) := by
  rw [Nat.div_div_eq_div_mul, ← Nat.pow_add]

/-- the `while left != right` loop on two ids of equal bit length -/
theorem lcaLoop_spec (fuel L l r : Nat) (hL : L ≤ fuel) (hl : Band L l) (hr : Band L r) :
    ∃ i, lcaLoop fuel l r = some (l / 2 ^ i) ∧ l / 2 ^ i = r / 2 ^ i ∧ 1 ≤ l / 2 ^ i ∧
      ∀ j, l / 2 ^ j = r / 2 ^ j → 1 ≤ l / 2 ^ j → i ≤ j := by
  induction fuel generalizing L l r with
  | zero =>
    have hL0 : L = 0 := by omega
    subst hL0
    have h1 : l = 1 := by have := hl.1; have := hl.2; omega
    have h2 : r = 1 := by have := hr.1; have := hr.2; omega
    subst h1; subst h2
    exact ⟨0, by simp [lcaLoop], rfl, by simp, fun j _ _ => Nat.zero_le j⟩
  | succ fuel ih =>
    by_cases heq : l = r
    · subst heq
      refine ⟨0, by simp [lcaLoop], rfl, ?_, fun j _ _ => Nat.zero_le j⟩
      have := hl.1; have : 0 < 2 ^ L := Nat.two_pow_pos L
      simp; omega
    · have hLpos : 1 ≤ L := by
        apply Decidable.byContradiction
        intro hn
        have hL0 : L = 0 := by omega
        subst hL0
        have := hl.1; have := hl.2; have := hr.1; have := hr.2
        omega
      have hl2 : 2 ≤ l := by
        have : (2:Nat) ^ 1 ≤ 2 ^ L := Nat.pow_le_pow_right (by decide) hLpos
        have := hl.1; omega
      have hr2 : 2 ≤ r := by
        have : (2:Nat) ^ 1 ≤ 2 ^ L := Nat.pow_le_pow_right (by decide) hLpos
        have := hr.1; omega
      have hpl : parent l = l / 2 ^ 1 := by rw [parent_eq]; omega
      have hpr : parent r = r / 2 ^ 1 := by rw [parent_eq]; omega
      obtain ⟨i, hi1, hi2, hi3, hi4⟩ := ih (L - 1) (parent l) (parent r) (by omega)
        (by rw [hpl]; exact band_div 1 hl hLpos) (by rw [hpr]; exact band_div 1 hr hLpos)
      simp only [hpl, hpr, div_div_pow] at hi1 hi2 hi3 hi4
      refine ⟨1 + i, ?_, hi2, hi3, ?_⟩
      · simp only [lcaLoop, if_pos heq]; rw [hpl, hpr]; exact hi1
      · intro j hj1 hj2
        cases j with
        | zero => simp at hj1; exact absurd hj1 heq
        | succ j =>
          have := hi4 j (by rw [Nat.add_comm 1 j]; exact hj1) (by rw [Nat.add_comm 1 j]; exact hj2)
          omega

/-- `lca_deepest`: on non-zero 32-bit ids `lowest_common_ancestor` does not panic, returns an ancestor of
    both arguments, and every common ancestor is an ancestor of the result -/
theorem lca_isLCA (x y : Nat) (hx1 : 1 ≤ x) (hx : x < 2 ^ 32) (hy1 : 1 ≤ y) (hy : y < 2 ^ 32) :
    ∃ a, lowestCommonAncestor x y = some a ∧ IsLCA a x y := by
  have hxne : x ≠ 0 := by omega
  have hyne : y ≠ 0 := by omega
  have bx := band_log2 x hxne
  have by_ := band_log2 y hyne
  have hlx : Nat.log2 x < 32 := (Nat.log2_lt hxne).mpr hx
  have hly : Nat.log2 y < 32 := (Nat.log2_lt hyne).mpr hy
  simp only [lowestCommonAncestor, level_eq x hx1 hx, level_eq y hy1 hy, Nat.shiftRight_eq_div_pow]
  -- the two equalised ids, written uniformly as x / 2^d and y / 2^e
  let d := Nat.log2 x - Nat.log2 y
  let e := Nat.log2 y - Nat.log2 x
  have hl : (if Nat.log2 x > Nat.log2 y then x / 2 ^ (Nat.log2 x - Nat.log2 y) else x) = x / 2 ^ d := by
    by_cases h : Nat.log2 x > Nat.log2 y
    · rw [if_pos h]
    · rw [if_neg h]; have : d = 0 := by omega
      rw [this]; simp
  have hr : (if Nat.log2 y > Nat.log2 x then y / 2 ^ (Nat.log2 y - Nat.log2 x) else y) = y / 2 ^ e := by
    by_cases h : Nat.log2 y > Nat.log2 x
    · rw [if_pos h]
    · rw [if_neg h]; have : e = 0 := by omega
      rw [this]; simp
  rw [hl, hr]
  let L := min (Nat.log2 x) (Nat.log2 y)
  have hbl : Band L (x / 2 ^ d) := by
    have := band_div d bx (by omega)
    have e1 : Nat.log2 x - d = L := by omega
    rwa [e1] at this
  have hbr : Band L (y / 2 ^ e) := by
    have := band_div e by_ (by omega)
    have e1 : Nat.log2 y - e = L := by omega
    rwa [e1] at this
  obtain ⟨i, h1, h2, h3, h4⟩ := lcaLoop_spec 32 L (x / 2 ^ d) (y / 2 ^ e) (by omega) hbl hbr
  refine ⟨_, h1, ⟨h3, d + i, by rw [← div_div_pow]⟩, ⟨h3, e + i, by rw [← div_div_pow, ← h2]⟩, ?_⟩
  -- every common ancestor c = x / 2^p = y / 2^q lies above the result
  rintro c ⟨hc1, p, hp⟩ ⟨_, q, hq⟩
  have hpL : p ≤ Nat.log2 x := le_of_div_pos bx (by omega)
  have hqL : q ≤ Nat.log2 y := le_of_div_pos by_ (by omega)
  have bc1 := band_div p bx hpL
  have bc2 := band_div q by_ hqL
  rw [hp] at bc1; rw [hq] at bc2
  have hlev := band_unique bc1 bc2
  -- p = d + s and q = e + s for a common s
  have hpd : d ≤ p := by omega
  have hqe : e ≤ q := by omega
  have hs : p - d = q - e := by omega
  have c1 : x / 2 ^ d / 2 ^ (p - d) = c := by rw [div_div_pow]; rw [← hp]; congr 2; omega
  have c2 : y / 2 ^ e / 2 ^ (p - d) = c := by rw [hs, div_div_pow]; rw [← hq]; congr 2; omega
  have hmin := h4 (p - d) (by rw [c1, c2]) (by omega)
  refine ⟨hc1, p - d - i, ?_⟩
  rw [div_div_pow, ← c1]; congr 2; omega

/-! ### masks -/

theorem mask_and (x l : Nat) (hl : l < 32) (hx : x < 2 ^ 32) :
    x &&& (0xffffffff ^^^ ((1 <<< l) % U32 - 1)) = x / 2 ^ l * 2 ^ l := by
  have hlt : 2 ^ l < U32 := by
    have : (2:Nat) ^ l < 2 ^ 32 := Nat.pow_lt_pow_right (by decide) hl
    simpa [U32] using this
  rw [Nat.shiftLeft_eq, Nat.one_mul, Nat.mod_eq_of_lt hlt]
  apply Nat.eq_of_testBit_eq
  intro i
  have h32 : (0xffffffff : Nat) = 2 ^ 32 - 1 := by decide
  rw [Nat.testBit_and, Nat.testBit_xor, h32, Nat.testBit_two_pow_sub_one, Nat.testBit_two_pow_sub_one,
    Nat.testBit_mul_two_pow, Nat.testBit_div_two_pow]
  by_cases hil : l ≤ i
  · have e : i - l + l = i := by omega
    by_cases hi32 : i < 32
    · have : ¬ i < l := by omega
      simp [hil, hi32, this, e]
    · have hx0 : x.testBit i = false := by
        apply Nat.testBit_lt_two_pow
        have : (2:Nat) ^ 32 ≤ 2 ^ i := Nat.pow_le_pow_right (by decide) (by omega)
        omega
      simp [hil, e, hx0]
  · have : i < l := by omega
    have : i < 32 := by omega
    simp [*]

theorem parentAtLevel_eq (x l : Nat) (hl : l < 32) (hx : x < 2 ^ 32) (hpos : 1 ≤ x / 2 ^ l) :
    parentAtLevel x l = some (x / 2 ^ l * 2 ^ l) := by
  simp only [parentAtLevel, if_pos hl, mask_and x l hl hx, new]
  have : 0 < 2 ^ l := Nat.two_pow_pos l
  have : x / 2 ^ l * 2 ^ l ≠ 0 := Nat.mul_ne_zero (by omega) (by omega)
  simp [this]

theorem extractBit_eq (x i : Nat) (hi : i < 32) : extractBit x i = some (x.testBit i) := by
  have hlt : 2 ^ i < U32 := by
    have : (2:Nat) ^ i < 2 ^ 32 := Nat.pow_lt_pow_right (by decide) hi
    simpa [U32] using this
  simp only [extractBit, if_pos hi, Nat.shiftLeft_eq, Nat.one_mul, Nat.mod_eq_of_lt hlt]
  congr 1
  by_cases hb : x.testBit i = true
  · rw [hb]
    have h1 : (2 ^ i &&& x).testBit i = true := by
      rw [Nat.testBit_and, Nat.testBit_two_pow_self, hb]; rfl
    have : 2 ^ i &&& x ≠ 0 := by
      intro h0; rw [h0] at h1; simp at h1
    simp; omega
  · have hb' : x.testBit i = false := by simpa using hb
    rw [hb']
    have : 2 ^ i &&& x = 0 := by
      apply Nat.eq_of_testBit_eq
      intro j
      rw [Nat.testBit_and, Nat.testBit_two_pow, Nat.zero_testBit]
      by_cases hij : i = j
      · subst hij; simp [hb']
      · simp [hij]
    simp [this]

end Tbx.Proofs.PartitionID
