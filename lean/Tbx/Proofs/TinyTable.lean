import Tbx.Model.TinyTable
import Tbx.Spec.FinMap
/-
The tiny table (unsorted vector, linear search, swap_remove) refines the finite-map Spec (core Lean only).
-/
namespace Tbx.TinyTable
open Tbx

def keys (t : T) : List Nat := t.map (·.1)

theorem find_iff_mem (t : T) (hn : (keys t).Nodup) (k : Nat) (v : Int) : find t k = some v ↔ (k, v) ∈ t := by
  induction t with
  | nil => simp [find]
  | cons e t ih =>
    obtain ⟨a, w⟩ := e
    simp only [keys, List.map_cons, List.nodup_cons] at hn
    simp only [find, List.mem_cons, Prod.mk.injEq]
    by_cases h : a = k
    · subst h
      simp only [if_true, Option.some.injEq]
      constructor
      · intro e; left; exact ⟨trivial, e.symm⟩
      · rintro (⟨_, e⟩ | hm)
        · exact e.symm
        · exact absurd (List.mem_map_of_mem (f := (·.1)) hm) hn.1
    · simp only [h, if_false]
      rw [ih hn.2]
      constructor
      · intro hm; right; exact hm
      · rintro (⟨e, _⟩ | hm)
        · exact absurd e.symm h
        · exact hm

theorem nodup_keys_perm {t1 t2 : T} (hp : t1.Perm t2) : (keys t1).Nodup ↔ (keys t2).Nodup :=
  (List.Perm.map (fun e : Nat × Int => e.1) hp).nodup_iff

theorem find_perm (t1 t2 : T) (hp : t1.Perm t2) (hn : (keys t1).Nodup) (k : Nat) : find t1 k = find t2 k := by
  have hn2 : (keys t2).Nodup := (nodup_keys_perm hp).mp hn
  apply Option.ext
  intro v
  rw [find_iff_mem t1 hn, find_iff_mem t2 hn2, hp.mem_iff]

theorem contains_eq_find (t : T) (k : Nat) : contains t k = (find t k).isSome := by
  induction t with
  | nil => rfl
  | cons e t ih =>
    obtain ⟨a, w⟩ := e
    simp only [contains, List.any_cons, find] at ih ⊢
    by_cases h : a = k
    · simp [h]
    · simp [h, ih]

/-- order-preserving removal of the first entry with key `k` (proof device) -/
def eraseFirst : T → Nat → T
  | [], _ => []
  | (k', v) :: t, k => if k' = k then t else (k', v) :: eraseFirst t k

theorem swapRemove_zero_perm (x : Nat × Int) (xs : T) : (swapRemove (x :: xs) 0).Perm xs := by
  simp only [swapRemove]
  cases h : xs.getLast? with
  | none => rw [List.getLast?_eq_none_iff.mp h]
  | some z =>
    obtain ⟨ys, e⟩ := List.getLast?_eq_some_iff.mp h
    subst e
    simp only [List.dropLast_concat]
    exact (List.perm_append_singleton z ys).symm

theorem remove_perm (t : T) (k : Nat) : (remove t k).1.Perm (eraseFirst t k) := by
  induction t with
  | nil => simp [remove, position, eraseFirst]
  | cons e t ih =>
    obtain ⟨a, w⟩ := e
    by_cases h : a = k
    · simp only [remove, position, h, if_true, eraseFirst]
      exact swapRemove_zero_perm _ _
    · simp only [remove, position, h, if_false, eraseFirst] at ih ⊢
      cases hp : position t k with
      | none => simp only [hp, Option.map_none] at ih ⊢; exact List.Perm.cons _ ih
      | some i => simp only [hp, Option.map_some, swapRemove] at ih ⊢; exact List.Perm.cons _ ih

theorem remove_ret (t : T) (k : Nat) : (remove t k).2 = contains t k := by
  rw [contains_eq_find]
  induction t with
  | nil => rfl
  | cons e t ih =>
    obtain ⟨a, w⟩ := e
    by_cases h : a = k
    · simp [remove, position, find, h]
    · simp only [remove, position, find, h, if_false] at ih ⊢
      cases hp : position t k with
      | none => simp only [hp] at ih; simpa using ih
      | some i => simp only [hp] at ih; simpa using ih

theorem keys_eraseFirst_sub (t : T) (k x : Nat) (hx : x ∈ keys (eraseFirst t k)) : x ∈ keys t := by
  induction t with
  | nil => simpa [eraseFirst] using hx
  | cons e t ih =>
    obtain ⟨a, w⟩ := e
    simp only [eraseFirst] at hx
    by_cases h : a = k
    · simp only [h, if_true] at hx; simp only [keys, List.map_cons, List.mem_cons]; right; exact hx
    · simp only [h, if_false, keys, List.map_cons, List.mem_cons] at hx ⊢
      rcases hx with e | hm
      · left; exact e
      · right; exact ih hm

theorem nodup_eraseFirst (t : T) (k : Nat) (hn : (keys t).Nodup) : (keys (eraseFirst t k)).Nodup := by
  induction t with
  | nil => simpa [eraseFirst] using hn
  | cons e t ih =>
    obtain ⟨a, w⟩ := e
    simp only [keys, List.map_cons, List.nodup_cons] at hn
    by_cases h : a = k
    · simp only [eraseFirst, h, if_true]; exact hn.2
    · simp only [eraseFirst, h, if_false, keys, List.map_cons, List.nodup_cons]
      exact ⟨fun hx => hn.1 (keys_eraseFirst_sub t k a hx), ih hn.2⟩

theorem find_none_of_not_mem (t : T) (k : Nat) (h : k ∉ keys t) : find t k = none := by
  induction t with
  | nil => rfl
  | cons e t ih =>
    obtain ⟨a, w⟩ := e
    simp only [keys, List.map_cons, List.mem_cons, not_or] at h
    have : ¬ a = k := fun e => h.1 e.symm
    simp only [find, this, if_false]
    exact ih h.2

theorem find_eraseFirst (t : T) (k k' : Nat) (hn : (keys t).Nodup) :
    find (eraseFirst t k) k' = if k = k' then none else find t k' := by
  induction t with
  | nil => simp [eraseFirst, find]
  | cons e t ih =>
    obtain ⟨a, w⟩ := e
    simp only [keys, List.map_cons, List.nodup_cons] at hn
    by_cases h : a = k
    · subst h
      simp only [eraseFirst, if_true, find]
      by_cases h2 : a = k'
      · subst h2; simp only [if_true]; exact find_none_of_not_mem t a hn.1
      · simp [h2]
    · simp only [eraseFirst, h, if_false, find, ih hn.2]
      by_cases h2 : a = k'
      · subst h2
        have : ¬ k = a := fun e => h e.symm
        simp [this]
      · simp [h2]

theorem length_eraseFirst (t : T) (k : Nat) :
    (eraseFirst t k).length = if (find t k).isSome then t.length - 1 else t.length := by
  induction t with
  | nil => simp [eraseFirst, find]
  | cons e t ih =>
    obtain ⟨a, w⟩ := e
    by_cases h : a = k
    · simp [eraseFirst, find, h]
    · simp only [eraseFirst, h, if_false, find, List.length_cons, ih]
      cases hf : find t k with
      | none => simp
      | some v =>
        have : 0 < t.length := by
          cases t with
          | nil => simp [find] at hf
          | cons _ _ => simp
        simp; omega

theorem find_append (t : T) (k k' : Nat) (v : Int) (hk : k ∉ keys t) :
    find (t ++ [(k, v)]) k' = if k = k' then some v else find t k' := by
  induction t with
  | nil => simp [find]
  | cons e t ih =>
    obtain ⟨a, w⟩ := e
    simp only [keys, List.map_cons, List.mem_cons, not_or] at hk
    simp only [List.cons_append, find, ih hk.2]
    by_cases h : a = k'
    · subst h
      have : ¬ k = a := hk.1
      simp [this]
    · simp [h]

/-- refinement relation -/
structure Rel (t : T) (m : FinMap.M) : Prop where
  nodupT : (keys t).Nodup
  nodupM : FinMap.NoDup m
  find : ∀ k, find t k = FinMap.get? m k
  len : t.length = FinMap.len m

theorem rel_new : Rel new FinMap.clear :=
  ⟨by simp [new, keys], FinMap.noDup_clear, fun _ => rfl, rfl⟩

theorem rel_clear (t : T) : Rel (clear t) FinMap.clear := rel_new

theorem rel_remove {t : T} {m : FinMap.M} (R : Rel t m) (k : Nat) :
    Rel (remove t k).1 (FinMap.remove m k).1 ∧ (remove t k).2 = (FinMap.remove m k).2 := by
  have hp := remove_perm t k
  have hn' : (keys (remove t k).1).Nodup := (nodup_keys_perm hp).mpr (nodup_eraseFirst t k R.nodupT)
  refine ⟨⟨hn', FinMap.noDup_erase m k R.nodupM, ?_, ?_⟩, ?_⟩
  · intro k'
    rw [find_perm _ _ hp hn', find_eraseFirst t k k' R.nodupT]
    simp only [FinMap.remove, FinMap.get?_erase, R.find]
  · rw [hp.length_eq, length_eraseFirst]
    simp only [FinMap.remove]
    rw [FinMap.len_erase m k R.nodupM, R.find, R.len]
    rfl
  · rw [remove_ret, contains_eq_find, R.find]; rfl

theorem not_mem_keys_remove {t : T} (hn : (keys t).Nodup) (k : Nat) : k ∉ keys (remove t k).1 := by
  have hp := remove_perm t k
  have hn' : (keys (remove t k).1).Nodup := (nodup_keys_perm hp).mpr (nodup_eraseFirst t k hn)
  intro hk
  have hf : find (remove t k).1 k = none := by
    rw [find_perm _ _ hp hn', find_eraseFirst t k k hn]; simp
  -- a key in the key list has a value
  obtain ⟨⟨a, w⟩, he, hek⟩ := List.mem_map.mp hk
  simp only at hek
  subst hek
  have : find (remove t a).1 a = some w := (find_iff_mem _ hn' a w).mpr he
  rw [hf] at this; cases this

theorem rel_insert {t : T} {m : FinMap.M} (R : Rel t m) (k : Nat) (v : Int) :
    Rel (insert t k v).1 (FinMap.insert m k v) ∧ (insert t k v).2 = FinMap.contains m k := by
  obtain ⟨R', hret⟩ := rel_remove R k
  have hnk := not_mem_keys_remove R.nodupT k
  refine ⟨⟨?_, FinMap.noDup_insert m k v R.nodupM, ?_, ?_⟩, ?_⟩
  · simp only [insert, keys, List.map_append, List.map_cons, List.map_nil]
    rw [List.nodup_append]
    refine ⟨R'.nodupT, by simp, ?_⟩
    intro a ha b hb
    simp only [List.mem_singleton] at hb
    subst hb
    intro e; subst e; exact hnk ha
  · intro k'
    simp only [insert]
    rw [find_append _ k k' v hnk, R'.find, FinMap.get?_insert]
    simp only [FinMap.remove, FinMap.get?_erase]
    by_cases h : k = k' <;> simp [h]
  · simp only [insert, List.length_append, List.length_cons, List.length_nil]
    rw [R'.len]
    simp only [FinMap.remove, FinMap.insert, FinMap.len, List.length_cons]
  · simp only [insert]; rw [hret]; rfl

theorem setVal_keys (t : T) (k : Nat) (v : Int) : keys (setVal t k v).1 = keys t := by
  induction t with
  | nil => rfl
  | cons e t ih =>
    obtain ⟨a, w⟩ := e
    by_cases h : a = k
    · simp [setVal, h, keys]
    · simp only [setVal, h, if_false, keys, List.map_cons] at ih ⊢; rw [ih]

theorem setVal_find (t : T) (k k' : Nat) (v : Int) :
    find (setVal t k v).1 k' = if k = k' ∧ (find t k).isSome then some v else find t k' := by
  induction t with
  | nil => simp [setVal, find]
  | cons e t ih =>
    obtain ⟨a, w⟩ := e
    by_cases h : a = k
    · subst h
      simp only [setVal, if_true, find]
      by_cases h2 : a = k' <;> simp [h2]
    · simp only [setVal, h, if_false, find, ih]
      by_cases h2 : a = k'
      · subst h2
        have : ¬ k = a := fun e => h e.symm
        simp [this]
      · simp [h2]

theorem setVal_ret (t : T) (k : Nat) (v : Int) : (setVal t k v).2 = (find t k).isSome := by
  induction t with
  | nil => rfl
  | cons e t ih =>
    obtain ⟨a, w⟩ := e
    by_cases h : a = k
    · simp [setVal, find, h]
    · simp only [setVal, h, if_false, find]; exact ih

theorem setVal_length (t : T) (k : Nat) (v : Int) : (setVal t k v).1.length = t.length := by
  have := congrArg List.length (setVal_keys t k v)
  simpa [keys] using this

/-- overwriting through `find_mut`: an insert if the key is present, nothing otherwise -/
theorem rel_setVal {t : T} {m : FinMap.M} (R : Rel t m) (k : Nat) (v : Int) :
    Rel (setVal t k v).1 (if FinMap.contains m k then FinMap.insert m k v else m) ∧
      (setVal t k v).2 = FinMap.contains m k := by
  have hc : (find t k).isSome = FinMap.contains m k := by rw [R.find]; rfl
  refine ⟨?_, by rw [setVal_ret, hc]⟩
  by_cases hcm : FinMap.contains m k = true
  · simp only [hcm, if_true]
    refine ⟨by rw [setVal_keys]; exact R.nodupT, FinMap.noDup_insert m k v R.nodupM, ?_, ?_⟩
    · intro k'
      rw [setVal_find, hc, hcm, FinMap.get?_insert, R.find]
      by_cases h : k = k' <;> simp [h]
    · rw [setVal_length, FinMap.len_insert m k v R.nodupM, hcm]; exact R.len
  · simp only [hcm]
    refine ⟨by rw [setVal_keys]; exact R.nodupT, R.nodupM, ?_, by rw [setVal_length]; exact R.len⟩
    intro k'
    rw [setVal_find, hc]
    simp only [Bool.not_eq_true] at hcm
    simp [hcm, R.find]

end Tbx.TinyTable
