import Tbx.Model.Kruskal
import Tbx.Proofs.C16UF
/-
Kruskal (`Model/Kruskal.lean`): the loop invariant and what it gives at exit — the returned
edges are input edges, cycle-free, connect exactly what the input connects, and the returned
cost is their total weight.  The run never reaches a panic branch and the fuel suffices when
the input's total weight fits `u32`.  Core Lean only.
-/
namespace Tbx.Kruskal
open Tbx Tbx.UF Tbx.Comp

/-! ### the heap model -/

theorem best_mem : ∀ (h : List (Nat × Nat)) (b : Nat × Nat), best h = some b → b ∈ h := by
  intro h
  induction h with
  | nil => intro b hb; simp [best] at hb
  | cons x xs ih =>
    intro b hb
    simp only [best] at hb
    split at hb
    · cases hb; exact List.mem_cons_self
    · rename_i y hy
      split at hb
      · cases hb; exact List.mem_cons_of_mem _ (ih _ hy)
      · cases hb; exact List.mem_cons_self

theorem best_ne_none : ∀ (h : List (Nat × Nat)), h ≠ [] → best h ≠ none := by
  intro h hne
  cases h with
  | nil => exact absurd rfl hne
  | cons x xs =>
    simp only [best]
    split
    · simp
    · split <;> simp

def heapW (h : List (Nat × Nat)) : Nat := (h.map (·.1)).sum

theorem heapW_erase : ∀ (h : List (Nat × Nat)) (b : Nat × Nat), b ∈ h → heapW (h.erase b) + b.1 = heapW h := by
  intro h
  induction h with
  | nil => intro b hb; cases hb
  | cons x xs ih =>
    intro b hb
    by_cases hx : x = b
    · subst hx
      simp [heapW, Nat.add_comm]
    · have hb' : b ∈ xs := by
        rcases List.mem_cons.mp hb with h | h
        · exact absurd h.symm hx
        · exact h
      have := ih b hb'
      rw [List.erase_cons_tail (by simpa using hx)]
      simp only [heapW, List.map_cons, List.sum_cons] at this ⊢
      omega

/-! ### input facts -/

theorem maxNode_ge : ∀ (es : List WEdge) (m : Nat), m ≤ maxNode es m ∧ ∀ e, e ∈ es → e.1 ≤ maxNode es m ∧ e.2.1 ≤ maxNode es m := by
  intro es
  induction es with
  | nil => intro m; exact ⟨Nat.le_refl _, fun e he => by cases he⟩
  | cons x xs ih =>
    intro m
    simp only [maxNode]
    obtain ⟨h1, h2⟩ := ih (max x.2.1 (max x.1 m))
    refine ⟨by omega, ?_⟩
    intro e he
    rcases List.mem_cons.mp he with rfl | he
    · constructor <;> omega
    · exact h2 e he

/-- `Conn` transfers along a pair list whose pairs are all connected in the other list -/
theorem conn_of_pairs {ps qs : Edges} (h : ∀ p, p ∈ ps → Conn qs p.1 p.2) {a b : Nat} (hab : Conn ps a b) : Conn qs a b := by
  unfold Conn at hab
  induction hab with
  | refl => exact Conn.refl _ _
  | @tail v w _ he ih =>
    rcases mem_sym.mp he with h1 | h1
    · exact ih.trans (h _ h1)
    · exact ih.trans (h _ h1).symm

theorem ends_append (F : List WEdge) (e : WEdge) : ends (F ++ [e]) = ends F ++ [(e.1, e.2.1)] := by
  simp [ends]

theorem cost_append (F : List WEdge) (e : WEdge) : cost (F ++ [e]) = cost F + e.2.2 := by
  simp [cost]

/-! ### the loop invariant -/

structure KInv (inp : Array WEdge) (N total : Nat) (l : Loop) : Prop where
  uinv : Inv l.uf
  usz : l.uf.parent.size = N
  cls : ∀ i j, i < N → j < N → (Cls l.uf.parent i j ↔ Conn (ends l.mst.toList) i j)
  acyc : Acyclic (ends l.mst.toList)
  sub : ∀ e, e ∈ l.mst.toList → e ∈ inp.toList
  cost_eq : l.cost = cost l.mst.toList
  hidx : ∀ p, p ∈ l.heap → p.2 < inp.size ∧ p.1 = (gt inp p.2).2.2
  proc : ∀ idx, idx < inp.size → (∀ w, (w, idx) ∉ l.heap) →
    Conn (ends l.mst.toList) (gt inp idx).1 (gt inp idx).2.1
  nsets : l.uf.numSets + l.mst.size = N
  budget : l.cost + heapW l.heap ≤ total

theorem gt_mem_toList {inp : Array WEdge} {i : Nat} (h : i < inp.size) : gt inp i ∈ inp.toList := by
  simp only [gt, Array.getD_eq_getD_getElem?]
  rw [Array.getElem?_eq_getElem h]
  simp

/-- `P` is any further invariant of the accepted edges that survives accepting the best remaining edge
    when it joins two components (used for minimality) -/
theorem loop_spec (inp : Array WEdge) (n total : Nat) (htot : total < 4294967296)
    (hends : ∀ idx, idx < inp.size → (gt inp idx).1 < n + 1 ∧ (gt inp idx).2.1 < n + 1)
    (P : Array WEdge → Prop)
    (hacc : ∀ (l : Loop) (w idx : Nat), KInv inp (n + 1) total l → best l.heap = some (w, idx) → idx < inp.size →
      ¬ Conn (ends l.mst.toList) (gt inp idx).1 (gt inp idx).2.1 → P l.mst → P (l.mst.push (gt inp idx))) :
    ∀ (f : Nat) (l : Loop), KInv inp (n + 1) total l → l.heap.length < f → P l.mst →
      ∃ l', loop inp n f l = some l' ∧ KInv inp (n + 1) total l' ∧ (n ≤ l'.mst.size ∨ l'.heap = []) ∧ P l'.mst := by
  intro f
  induction f with
  | zero => intro l _ h; omega
  | succ f ih =>
    intro l hk hf hP
    unfold loop
    by_cases hc : l.mst.size < n ∧ l.heap ≠ []
    · rw [if_pos hc]
      -- pop
      cases hb : best l.heap with
      | none => exact absurd hb (best_ne_none _ hc.2)
      | some b =>
        have hbm := best_mem _ _ hb
        obtain ⟨w, idx⟩ := b
        simp only [popBest, hb]
        obtain ⟨hidx, hw⟩ := hk.hidx _ hbm
        simp only at hidx hw
        rw [if_neg (by omega)]
        obtain ⟨ha, hbn⟩ := hends idx hidx
        -- the two finds
        obtain ⟨u1, x, hf1, hi1, hs1, hr1, hn1, hx, hiff1⟩ := find_spec hk.uinv (gt inp idx).1 (by rw [hk.usz]; exact ha)
        obtain ⟨u2, y, hf2, hi2, hs2, hr2, hn2, hy1, hiff2⟩ := find_spec hi1 (gt inp idx).2.1 (by rw [hs1, hk.usz]; exact hbn)
        have hiff : ∀ j r, RootOf u2.parent j r ↔ RootOf l.uf.parent j r := fun j r => (hiff2 j r).trans (hiff1 j r)
        have hcls2 : ∀ i j, Cls u2.parent i j ↔ Cls l.uf.parent i j := by
          intro i j
          constructor
          · rintro ⟨r, a, b⟩; exact ⟨r, (hiff _ _).mp a, (hiff _ _).mp b⟩
          · rintro ⟨r, a, b⟩; exact ⟨r, (hiff _ _).mpr a, (hiff _ _).mpr b⟩
        have hy : RootOf l.uf.parent (gt inp idx).2.1 y := (hiff1 _ _).mp hy1
        have hsz2 : u2.parent.size = n + 1 := by rw [hs2, hs1, hk.usz]
        have hns2 : u2.numSets = l.uf.numSets := by rw [hn2, hn1]
        simp only [hf1, hf2]
        have hlen : (l.heap.erase (w, idx)).length < f := by
          rw [List.length_erase_of_mem hbm]
          have : 0 < l.heap.length := List.length_pos_of_mem hbm
          omega
        have hheap : ∀ p, p ∈ l.heap.erase (w, idx) → p ∈ l.heap := fun p hp => List.mem_of_mem_erase hp
        have hprocIdx : ∀ i, (∀ w', (w', i) ∉ l.heap.erase (w, idx)) → i ≠ idx → ∀ w', (w', i) ∉ l.heap := by
          intro i hi hne w' hm
          exact hi w' ((List.mem_erase_of_ne (by intro hh; cases hh; exact hne rfl)).mpr hm)
        have hW := heapW_erase _ _ hbm
        simp only at hW
        by_cases hxy : x = y
        · -- the edge closes a cycle: skipped
          rw [if_pos hxy]
          subst hxy
          have hconn : Conn (ends l.mst.toList) (gt inp idx).1 (gt inp idx).2.1 :=
            (hk.cls _ _ ha hbn).mp ⟨x, hx, hy⟩
          apply ih
          · constructor
            · exact hi2
            · exact hsz2
            · intro i j hi hj; rw [hcls2]; exact hk.cls i j hi hj
            · exact hk.acyc
            · exact hk.sub
            · exact hk.cost_eq
            · intro p hp; exact hk.hidx p (hheap p hp)
            · intro i hi hnot
              by_cases hie : i = idx
              · subst hie; exact hconn
              · exact hk.proc i hi (hprocIdx i hnot hie)
            · simp only; rw [hns2]; exact hk.nsets
            · have := hk.budget; simp only; omega
          · exact hlen
          · exact hP
        · rw [if_neg hxy]
          have hnconn : ¬ Conn (ends l.mst.toList) (gt inp idx).1 (gt inp idx).2.1 := by
            intro hcn
            obtain ⟨r, a, b⟩ := (hk.cls _ _ ha hbn).mpr hcn
            exact hxy ((a.functional hx).symm.trans (b.functional hy))
          have hxl : x < u2.parent.size := ((hiff _ _).mpr hx).is_root.1
          have hyl : y < u2.parent.size := ((hiff _ _).mpr hy).is_root.1
          obtain ⟨u3, hu3, hi3, hs3, hm3, _, hdec⟩ := union_spec hi2 x y hxl hyl
          have hnc2 : ¬ Cls u2.parent x y := by
            rw [hcls2]
            rintro ⟨r, a, b⟩
            have hxx : RootOf l.uf.parent x x := by
              have := hx.is_root; exact .root this.1 this.2
            have hyy : RootOf l.uf.parent y y := by
              have := hy.is_root; exact .root this.1 this.2
            exact hxy ((hxx.functional a).trans (b.functional hyy))
          have hdec' := hdec hnc2
          simp only [hu3]
          have hbud := hk.budget
          rw [if_neg (by rw [← hw]; omega)]
          -- x is in the class of the edge's source, y in that of its target
          have hax : Conn (ends l.mst.toList) (gt inp idx).1 x :=
            (hk.cls _ _ ha (by rw [← hsz2]; exact hxl)).mp ⟨x, hx, by have := hx.is_root; exact .root this.1 this.2⟩
          have hby : Conn (ends l.mst.toList) (gt inp idx).2.1 y :=
            (hk.cls _ _ hbn (by rw [← hsz2]; exact hyl)).mp ⟨y, hy, by have := hy.is_root; exact .root this.1 this.2⟩
          apply ih
          · constructor
            · exact hi3
            · simp only; rw [hs3]; exact hsz2
            · intro i j hi hj
              have hxN : x < n + 1 := by rw [← hsz2]; exact hxl
              have hyN : y < n + 1 := by rw [← hsz2]; exact hyl
              simp only [Array.toList_push, ends_append]
              rw [hm3, conn_snoc, hcls2, hcls2, hcls2, hcls2, hcls2, hk.cls i j hi hj, hk.cls i x hi hxN,
                hk.cls y j hyN hj, hk.cls i y hi hyN, hk.cls x j hxN hj]
              constructor
              · rintro (h | ⟨h1, h2⟩ | ⟨h1, h2⟩)
                · exact Or.inl h
                · exact Or.inr (Or.inl ⟨h1.trans hax.symm, hby.trans h2⟩)
                · exact Or.inr (Or.inr ⟨h1.trans hby.symm, hax.trans h2⟩)
              · rintro (h | ⟨h1, h2⟩ | ⟨h1, h2⟩)
                · exact Or.inl h
                · exact Or.inr (Or.inl ⟨h1.trans hax, hby.symm.trans h2⟩)
                · exact Or.inr (Or.inr ⟨h1.trans hby, hax.symm.trans h2⟩)
            · simp only [Array.toList_push, ends_append]
              exact acyclic_snoc hk.acyc hnconn
            · intro e he
              simp only [Array.toList_push, List.mem_append, List.mem_singleton] at he
              rcases he with he | rfl
              · exact hk.sub e he
              · exact gt_mem_toList hidx
            · simp only [Array.toList_push, cost_append]; rw [hk.cost_eq]
            · intro p hp; exact hk.hidx p (hheap p hp)
            · intro i hi hnot
              simp only [Array.toList_push, ends_append]
              by_cases hie : i = idx
              · subst hie
                exact Conn.of_mem (by simp)
              · exact (hk.proc i hi (hprocIdx i hnot hie)).mono (by intro p hp; simp [hp])
            · have := hk.nsets
              simp only [Array.size_push]
              omega
            · simp only; omega
          · exact hlen
          · exact hacc l w idx hk hb hidx hnconn hP
    · rw [if_neg hc]
      refine ⟨l, rfl, hk, ?_, hP⟩
      by_cases h1 : l.mst.size < n
      · right
        exact Decidable.not_not.mp fun h2 => hc ⟨h1, h2⟩
      · left; omega

theorem heapW_heapOf (inp : List WEdge) : heapW (heapOf inp) = cost inp := by
  simp only [heapW, heapOf, cost, List.map_map]
  have : ((fun x : Nat × Nat => x.1) ∘ fun p : WEdge × Nat => (p.1.2.2, p.2)) = (fun e : WEdge => e.2.2) ∘ Prod.fst := by
    funext p; rfl
  rw [this, ← List.map_map, List.zipIdx_map_fst]

theorem mem_heapOf (inp : List WEdge) (p : Nat × Nat) :
    p ∈ heapOf inp ↔ ∃ e, inp[p.2]? = some e ∧ p.1 = e.2.2 := by
  simp only [heapOf, List.mem_map, List.mem_zipIdx_iff_getElem?]
  constructor
  · rintro ⟨⟨e, i⟩, he, rfl⟩
    exact ⟨e, he, rfl⟩
  · rintro ⟨e, he, hw⟩
    exact ⟨(e, p.2), he, by cases p; simp at hw ⊢; exact hw.symm⟩

theorem gt_toArray (inp : List WEdge) (i : Nat) (e : WEdge) (h : inp[i]? = some e) : gt inp.toArray i = e := by
  simp [gt, h]

/-- `kruskal` on an input whose total weight fits `u32`; `P` is any further invariant of the accepted edges -/
theorem kruskal_spec_gen (inp : List WEdge) (htot : cost inp < 4294967296) (P : Array WEdge → Prop)
    (hacc : ∀ (l : Loop) (w idx : Nat), KInv inp.toArray (maxNode inp 0 + 1) (cost inp) l → best l.heap = some (w, idx) →
      idx < inp.toArray.size → ¬ Conn (ends l.mst.toList) (gt inp.toArray idx).1 (gt inp.toArray idx).2.1 →
      P l.mst → P (l.mst.push (gt inp.toArray idx)))
    (h0 : P #[]) :
    ∃ c mst, kruskal inp = some (c, mst.toList) ∧ (∀ e, e ∈ mst.toList → e ∈ inp) ∧ Acyclic (ends mst.toList) ∧
      (∀ a b, Conn (ends mst.toList) a b ↔ Conn (ends inp) a b) ∧ c = cost mst.toList ∧ P mst := by
  have hmax := (maxNode_ge inp 0).2
  have hends : ∀ idx, idx < inp.toArray.size →
      (gt inp.toArray idx).1 < maxNode inp 0 + 1 ∧ (gt inp.toArray idx).2.1 < maxNode inp 0 + 1 := by
    intro idx hidx
    have hm : gt inp.toArray idx ∈ inp := by simpa using gt_mem_toList hidx
    have := hmax _ hm
    omega
  have hinit : KInv inp.toArray (maxNode inp 0 + 1) (cost inp) ⟨heapOf inp, #[], UF.new (maxNode inp 0 + 1), 0⟩ := by
    constructor
    · exact new_inv _
    · simp [UF.new]
    · intro i j hi _
      simp only [ends, List.map_nil]
      rw [new_cls, conn_nil]
      exact ⟨fun h => h.1, fun h => ⟨h, hi⟩⟩
    · simpa [ends] using acyclic_nil
    · intro e he; simp at he
    · simp [cost]
    · intro p hp
      obtain ⟨e, he, hw⟩ := (mem_heapOf inp p).mp hp
      have hlt : p.2 < inp.length := by
        rcases Nat.lt_or_ge p.2 inp.length with h | h
        · exact h
        · rw [List.getElem?_eq_none h] at he; cases he
      refine ⟨by simpa using hlt, ?_⟩
      rw [gt_toArray inp p.2 e he]; exact hw
    · intro idx hidx hnot
      have hlt : idx < inp.length := by simpa using hidx
      exact absurd ((mem_heapOf inp (inp[idx].2.2, idx)).mpr ⟨inp[idx], by simp [hlt], rfl⟩) (hnot _)
    · simp [UF.new]
    · simp only [Nat.zero_add]; rw [heapW_heapOf]; exact Nat.le_refl _
  obtain ⟨l, hl, hk, hexit, hPl⟩ := loop_spec inp.toArray (maxNode inp 0) (cost inp) htot hends P
    hacc (inp.length + 1) _ hinit (by simp [heapOf]) h0
  refine ⟨l.cost, l.mst, by simp only [kruskal, hl], ?_, hk.acyc, ?_, hk.cost_eq, hPl⟩
  · intro e he; simpa using hk.sub e he
  · intro a b
    constructor
    · apply Conn.mono
      intro p hp
      simp only [ends, List.mem_map] at hp ⊢
      obtain ⟨e, he, rfl⟩ := hp
      exact ⟨e, by simpa using hk.sub e he, rfl⟩
    · apply conn_of_pairs
      intro p hp
      simp only [ends, List.mem_map] at hp
      obtain ⟨e, he, rfl⟩ := hp
      obtain ⟨idx, hidx⟩ := List.mem_iff_getElem?.mp he
      have hlt : idx < inp.length := by
        rcases Nat.lt_or_ge idx inp.length with h | h
        · exact h
        · rw [List.getElem?_eq_none h] at hidx; cases hidx
      have hge := gt_toArray inp idx e hidx
      rcases hexit with hfull | hempty
      · -- n edges accepted: a single class is left
        have hone : l.uf.numSets ≤ 1 := by have := hk.nsets; omega
        obtain ⟨h1, h2⟩ := hends idx (by simpa using hlt)
        rw [hge] at h1 h2
        refine (hk.cls _ _ h1 h2).mp ?_
        obtain ⟨r1, hr1⟩ := hk.uinv.exists_root e.1 (by rw [hk.usz]; exact h1)
        obtain ⟨r2, hr2⟩ := hk.uinv.exists_root e.2.1 (by rw [hk.usz]; exact h2)
        have := countP_range_unique (fun i => gt l.uf.parent i == i) l.uf.parent.size r1 r2 hr1.is_root.1 hr2.is_root.1
          (by simp [hr1.is_root.2]) (by simp [hr2.is_root.2]) (by
            have := hk.uinv.nsets; unfold countRoots at this; omega)
        subst this
        exact ⟨r1, hr1, hr2⟩
      · have := hk.proc idx (by simpa using hlt) (by rw [hempty]; intro w hw; cases hw)
        rw [hge] at this
        exact this

theorem kruskal_spec (inp : List WEdge) (htot : cost inp < 4294967296) :
    ∃ c mst, kruskal inp = some (c, mst) ∧ (∀ e, e ∈ mst → e ∈ inp) ∧ Acyclic (ends mst) ∧
      (∀ a b, Conn (ends mst) a b ↔ Conn (ends inp) a b) ∧ c = cost mst := by
  obtain ⟨c, mst, h1, h2, h3, h4, h5, _⟩ := kruskal_spec_gen inp htot (fun _ => True) (fun _ _ _ _ _ _ _ _ => trivial) trivial
  exact ⟨c, mst.toList, h1, h2, h3, h4, h5⟩

end Tbx.Kruskal
