import Tbx.Proofs.HashTableRefine
import Tbx.Proofs.TinyTable
import Tbx.Proofs.Bloom
import Tbx.Proofs.CountMin
/-
Histories (operation sequences) for the containers of C13: model run, Spec run, domain predicate.
-/
namespace Tbx.HashTable

/-- the mutating operations of the table; observers are applied to the states in between -/
inductive Op where
  | insert (k : Nat) (v : Int)
  | getMut (k : Nat)
  | clear
deriving Repr, DecidableEq

/-- one model step: table afterwards and the value a `get_mut` hands out (`none` = a probe loop would
not terminate) -/
def stepM (N : Nat) (h : Nat → Nat) (t : Table) : Op → Option (Table × Option Int)
  | .insert k v => match insert N h t k v with
    | some t' => some (t', none)
    | none => none
  | .getMut k => match getMut N h t k with
    | some (t', p) => some (t', some (valAt t' p))
    | none => none
  | .clear => some (clear N t, none)

/-- the same step on the reference map -/
def stepS (m : FinMap.M) : Op → FinMap.M × Option Int
  | .insert k v => (FinMap.insert m k v, none)
  | .getMut k => ((FinMap.getOrCreate m k 0).1, some (FinMap.getOrCreate m k 0).2)
  | .clear => (FinMap.clear, none)

/-- the property's quantifier: after the step fewer keys are live than there are slots -/
def InDom (N : Nat) (m : FinMap.M) : Op → Prop
  | .insert k _ => FinMap.contains m k = true ∨ FinMap.len m + 1 < N
  | .getMut k => FinMap.contains m k = true ∨ FinMap.len m + 1 < N
  | .clear => True

def HistOK (N : Nat) : FinMap.M → List Op → Prop
  | _, [] => True
  | m, op :: ops => InDom N m op ∧ HistOK N (stepS m op).1 ops

def runS : FinMap.M → List Op → FinMap.M × List (Option Int)
  | m, [] => (m, [])
  | m, op :: ops => ((runS (stepS m op).1 ops).1, (stepS m op).2 :: (runS (stepS m op).1 ops).2)

def runM (N : Nat) (h : Nat → Nat) : Table → List Op → Option (Table × List (Option Int))
  | t, [] => some (t, [])
  | t, op :: ops =>
    match stepM N h t op with
    | none => none
    | some (t', o) =>
      match runM N h t' ops with
      | none => none
      | some (t'', os) => some (t'', o :: os)

theorem step_rel {N : Nat} {h : Nat → Nat} {t : Table} {m : FinMap.M} (R : Rel N h t m) (hN : 0 < N)
    (hh : ∀ k, h k < N) (op : Op) (hd : InDom N m op) :
    ∃ t', stepM N h t op = some (t', (stepS m op).2) ∧ Rel N h t' (stepS m op).1 := by
  cases op with
  | insert k v =>
    obtain ⟨t', he, R'⟩ := insert_rel R hh k v hd
    exact ⟨t', by simp [stepM, he, stepS], R'⟩
  | getMut k =>
    obtain ⟨t', p, he, R', hv, _⟩ := getMut_rel R hh k hd
    exact ⟨t', by simp [stepM, he, stepS, hv], R'⟩
  | clear => exact ⟨clear N t, rfl, clear_rel R hN⟩

theorem run_rel {N : Nat} {h : Nat → Nat} (hN : 0 < N) (hh : ∀ k, h k < N) (ops : List Op) :
    ∀ (t : Table) (m : FinMap.M), Rel N h t m → HistOK N m ops →
      ∃ t', runM N h t ops = some (t', (runS m ops).2) ∧ Rel N h t' (runS m ops).1 := by
  induction ops with
  | nil => intro t m R _; exact ⟨t, rfl, R⟩
  | cons op ops ih =>
    intro t m R hok
    obtain ⟨t1, he, R1⟩ := step_rel R hN hh op hok.1
    obtain ⟨t2, he2, R2⟩ := ih t1 _ R1 hok.2
    exact ⟨t2, by simp [runM, he, he2, runS], R2⟩

end Tbx.HashTable

namespace Tbx.TinyTable

inductive Op where
  | insert (k : Nat) (v : Int)
  | remove (k : Nat)
  | setVal (k : Nat) (v : Int)
  | clear
deriving Repr, DecidableEq

def stepM (t : T) : Op → T × Option Bool
  | .insert k v => ((insert t k v).1, some (insert t k v).2)
  | .remove k => ((remove t k).1, some (remove t k).2)
  | .setVal k v => ((setVal t k v).1, some (setVal t k v).2)
  | .clear => (clear t, none)

def stepS (m : FinMap.M) : Op → FinMap.M × Option Bool
  | .insert k v => (FinMap.insert m k v, some (FinMap.contains m k))
  | .remove k => ((FinMap.remove m k).1, some (FinMap.remove m k).2)
  | .setVal k v => ((if FinMap.contains m k then FinMap.insert m k v else m), some (FinMap.contains m k))
  | .clear => (FinMap.clear, none)

def runM : T → List Op → T × List (Option Bool)
  | t, [] => (t, [])
  | t, op :: ops => ((runM (stepM t op).1 ops).1, (stepM t op).2 :: (runM (stepM t op).1 ops).2)

def runS : FinMap.M → List Op → FinMap.M × List (Option Bool)
  | m, [] => (m, [])
  | m, op :: ops => ((runS (stepS m op).1 ops).1, (stepS m op).2 :: (runS (stepS m op).1 ops).2)

theorem step_rel {t : T} {m : FinMap.M} (R : Rel t m) (op : Op) :
    Rel (stepM t op).1 (stepS m op).1 ∧ (stepM t op).2 = (stepS m op).2 := by
  cases op with
  | insert k v => obtain ⟨R', hr⟩ := rel_insert R k v; exact ⟨R', by simp [stepM, stepS, hr]⟩
  | remove k => obtain ⟨R', hr⟩ := rel_remove R k; exact ⟨R', by simp [stepM, stepS, hr]⟩
  | setVal k v => obtain ⟨R', hr⟩ := rel_setVal R k v; exact ⟨R', by simp [stepM, stepS, hr]⟩
  | clear => exact ⟨rel_clear t, rfl⟩

theorem run_rel (ops : List Op) : ∀ (t : T) (m : FinMap.M), Rel t m →
    Rel (runM t ops).1 (runS m ops).1 ∧ (runM t ops).2 = (runS m ops).2 := by
  induction ops with
  | nil => intro t m R; exact ⟨R, rfl⟩
  | cons op ops ih =>
    intro t m R
    obtain ⟨R1, h1⟩ := step_rel R op
    obtain ⟨R2, h2⟩ := ih _ _ R1
    exact ⟨R2, by simp only [runM, runS, h1, h2]⟩

end Tbx.TinyTable

namespace Tbx.CountMin

/-- a sequence of `insert`s of keys, each key with its hash pair -/
def insertAll {κ : Type} (hash : κ → Nat × Nat) (s : Sketch) : List κ → Sketch
  | [] => s
  | y :: ys => insertAll hash (insert s (hash y).1 (hash y).2) ys

theorem insertAll_lb {κ : Type} [DecidableEq κ] (hash : κ → Nat × Nat) (k m : Nat) (hm : 0 < m) (x : κ)
    (hist : List κ) : ∀ (s : Sketch) (c : Nat), WF s k m → LB s k m (hash x).1 (hash x).2 (min c u32Max) →
      WF (insertAll hash s hist) k m ∧
      LB (insertAll hash s hist) k m (hash x).1 (hash x).2 (min (c + hist.count x) u32Max) := by
  induction hist with
  | nil => intro s c W L; exact ⟨W, by simpa [insertAll] using L⟩
  | cons y ys ih =>
    intro s c W L
    have W' := wf_insert s k m (hash y).1 (hash y).2 W
    by_cases e : y = x
    · subst e
      have L' := lb_insert_same s k m (hash y).1 (hash y).2 _ W hm L
      have hmin : Nat.min (min c u32Max + 1) u32Max = min (c + 1) u32Max := by
        show min (min c u32Max + 1) u32Max = _
        omega
      rw [hmin] at L'
      obtain ⟨W2, L2⟩ := ih _ (c + 1) W' L'
      refine ⟨W2, ?_⟩
      simp only [insertAll, List.count_cons_self]
      have : c + (List.count y ys + 1) = c + 1 + List.count y ys := by omega
      rw [this]; exact L2
    · have L' := lb_insert_other s k m (hash x).1 (hash x).2 (hash y).1 (hash y).2 _ W hm (Nat.min_le_right _ _) L
      obtain ⟨W2, L2⟩ := ih _ c W' L'
      refine ⟨W2, ?_⟩
      simp only [insertAll]
      rw [List.count_cons_of_ne e]
      exact L2

end Tbx.CountMin
