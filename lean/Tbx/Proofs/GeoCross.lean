import Tbx.Model.Cross
/-
The i64 cross product of `geometry.rs` does not overflow on the valid latitude/longitude range and
equals the integer orientation test of the Spec.
-/
namespace Tbx.Geo

theorem chk64_of_natAbs {x : Int} (h : x.natAbs ≤ 9223372036854775807) : chk64 x = some x := by
  unfold chk64 i64Min i64Max
  have : -9223372036854775808 ≤ x ∧ x ≤ 9223372036854775807 := by omega
  simp [this]

theorem natAbs_mul_le {x y : Int} {a b : Nat} (hx : x.natAbs ≤ a) (hy : y.natAbs ≤ b) :
    (x * y).natAbs ≤ a * b := by
  rw [Int.natAbs_mul]
  exact Nat.mul_le_mul hx hy

/-- bounds of the four differences and two products for valid coordinates -/
theorem valid_bounds {o a b : Coord} (ho : ValidCoord o) (ha : ValidCoord a) (hb : ValidCoord b) :
    (a.lon - o.lon).natAbs ≤ 360000000 ∧ (b.lat - o.lat).natAbs ≤ 180000000 ∧
    (a.lat - o.lat).natAbs ≤ 180000000 ∧ (b.lon - o.lon).natAbs ≤ 360000000 := by
  unfold ValidCoord at ho ha hb
  omega

theorem crossI64_eq {o a b : Coord} (ho : ValidCoord o) (ha : ValidCoord a) (hb : ValidCoord b) :
    crossI64 o a b = some (cross o a b) ∧ isCWI64 o a b = some (isCW o a b) ∧
    (isCW o a b = true ↔ 0 < cross o a b) := by
  obtain ⟨h1, h2, h3, h4⟩ := valid_bounds ho ha hb
  have p1 : ((a.lon - o.lon) * (b.lat - o.lat)).natAbs ≤ 360000000 * 180000000 := natAbs_mul_le h1 h2
  have p2 : ((a.lat - o.lat) * (b.lon - o.lon)).natAbs ≤ 180000000 * 360000000 := natAbs_mul_le h3 h4
  have e1 : chk64 (a.lon - o.lon) = some (a.lon - o.lon) := chk64_of_natAbs (by omega)
  have e2 : chk64 (b.lat - o.lat) = some (b.lat - o.lat) := chk64_of_natAbs (by omega)
  have e3 : chk64 (a.lat - o.lat) = some (a.lat - o.lat) := chk64_of_natAbs (by omega)
  have e4 : chk64 (b.lon - o.lon) = some (b.lon - o.lon) := chk64_of_natAbs (by omega)
  have e5 : chk64 ((a.lon - o.lon) * (b.lat - o.lat)) = some ((a.lon - o.lon) * (b.lat - o.lat)) :=
    chk64_of_natAbs (by omega)
  have e6 : chk64 ((a.lat - o.lat) * (b.lon - o.lon)) = some ((a.lat - o.lat) * (b.lon - o.lon)) :=
    chk64_of_natAbs (by omega)
  have e7 : chk64 ((a.lon - o.lon) * (b.lat - o.lat) - (a.lat - o.lat) * (b.lon - o.lon)) =
      some ((a.lon - o.lon) * (b.lat - o.lat) - (a.lat - o.lat) * (b.lon - o.lon)) :=
    chk64_of_natAbs (by omega)
  refine ⟨?_, ?_, ?_⟩
  · simp only [crossI64, cross, e1, e2, e3, e4, e5, e6, e7, Option.bind_eq_bind, Option.bind_some]
  · simp only [isCWI64, isCW, e1, e2, e3, e4, e5, e6, Option.bind_eq_bind, Option.bind_some, Option.pure_def]
  · simp only [isCW, cross, decide_eq_true_eq]
    omega

theorem isCW_iff (o a b : Coord) : isCW o a b = true ↔ 0 < cross o a b := by
  simp only [isCW, cross, decide_eq_true_eq]
  omega

end Tbx.Geo
