import Tbx.Proofs.FlowDinicTotal
/-
Running a finished Dinic object again (defect D24, fixed in /repo: `run` continues from `self.max_flow`).

  run_eq_runAgain : `Dinic.run` is `Dinic.runAgain` on an object whose flow counter is 0 (a fresh object)
  runAgain_fixed  : in a state whose residual graph admits no s-t path (what every completed run ends in,
                    `dinicLoop_spec`) one more `run()` performs exactly one BFS, which answers `false`, and
                    leaves the residual graph and the flow counter as they are
  runAgainN_fixed : hence any number of further runs
-/
namespace Tbx.Flow
open Tbx Tbx.FlowTheory Tbx.FlowSpec

theorem run_eq_runAgain (d : Dinic) (fuel : Nat) (h0 : d.maxFlow = 0) : d.run fuel = d.runAgain fuel := by
  unfold Dinic.run Dinic.runAgain
  rw [h0]

/-- a quiescent state: the loop invariant holds for the value the object reports and the residual graph has no
    augmenting path -/
structure Quiet {n : Nat} (c : Fin n → Fin n → ℤ) (s t : Fin n) (d : Dinic) : Prop where
  dl : DL c s t d d.maxFlow
  nr : ¬ ReachG d.g s.val t.val
  fin : d.finished = true

theorem runAgain_fixed {n : Nat} {c : Fin n → Fin n → ℤ} {s t : Fin n} (hst : s ≠ t) (hN : n + 2 < INV)
    (d : Dinic) (hq : Quiet c s t d) (k : Nat) :
    ∃ d', d.runAgain (k + 1) = some d' ∧ d'.maxFlow = d.maxFlow ∧ d'.g = d.g ∧ Quiet c s t d' := by
  have hi := hq.dl
  have hgn := hi.fi.hn
  have hs : d.source < d.g.numNodes := by rw [hi.src, hgn]; exact s.isLt
  have ht : d.target < d.g.numNodes := by rw [hi.tgt, hgn]; exact t.isLt
  have hne : d.source ≠ d.target := by rw [hi.src, hi.tgt]; exact fun e => hst (Fin.ext e)
  let d0 : Dinic := { d with parents := Array.replicate d.g.numNodes 0, level := Array.replicate d.g.numNodes INV }
  have hi0 : DL c s t d0 d.maxFlow :=
    ⟨hi.fi, hi.uq, hi.rc, hi.src, hi.tgt, by simp [d0, hgn], by simp [d0, hgn]⟩
  obtain ⟨d1, b, hb, _⟩ := bfs_total d0 hi.fi.wf hi.uq hi.rc (by show d.g.numNodes + 2 < INV; rw [hgn]; exact hN)
    (by simp [d0]) hs ht hne
  have hex := bfs_exact d0 hi.fi.wf hi.uq hi.rc (by show d.g.numNodes + 2 < INV; rw [hgn]; exact hN)
    (by simp [d0]) hs ht hne d1 b hb
  obtain ⟨b1, b2, b3, b4, b5, _⟩ := bfs_spec d0 hi.fi.wf hi.uq hi.rc
    (by show d.g.numNodes + 2 < INV; rw [hgn]; exact hN) (by simp [d0]) ht hne d1 b hb
  have hbf : b = false := by
    cases b with
    | false => rfl
    | true =>
      exfalso
      have := hex.1 rfl
      apply hq.nr
      have h2 : ReachG d.g d.source d.target := this
      rw [hi.src, hi.tgt] at h2; exact h2
  subst hbf
  have hguard : ¬ (d.source ≥ d.g.numNodes ∨ d.target ≥ d.g.numNodes) := by omega
  have hloop : dinicLoop (k + 1) d0 d.maxFlow = some (d1, d.maxFlow) := by
    simp only [dinicLoop, hb]
  refine ⟨{ d1 with maxFlow := d.maxFlow, finished := true }, ?_, rfl, b1, ?_⟩
  · unfold Dinic.runAgain
    simp only
    rw [if_neg hguard]
    show (match dinicLoop (k + 1) d0 d.maxFlow with
      | none => none
      | some (d', flow) => some { d' with maxFlow := flow, finished := true }) = _
    rw [hloop]
  · have hg1 : d1.g = d.g := b1
    refine ⟨⟨?_, ?_, ?_, ?_, ?_, ?_, ?_⟩, ?_, rfl⟩
    · show FInv c s t d1.g d.maxFlow; rw [hg1]; exact hi.fi
    · show Uniq d1.g; rw [hg1]; exact hi.uq
    · show RevClosed d1.g; rw [hg1]; exact hi.rc
    · show d1.source = s.val; rw [b3]; exact hi.src
    · show d1.target = t.val; rw [b4]; exact hi.tgt
    · show d1.parents.size = n; rw [b2]; simp [d0, hgn]
    · show d1.level.size = n; rw [b5]; exact hgn
    · show ¬ ReachG d1.g s.val t.val; rw [hg1]; exact hq.nr

theorem runAgainN_fixed {n : Nat} {c : Fin n → Fin n → ℤ} {s t : Fin n} (hst : s ≠ t) (hN : n + 2 < INV)
    (fuel : Nat) (k : Nat) : ∀ (d : Dinic), Quiet c s t d →
    ∃ d', Dinic.runAgainN (fuel + 1) k d = some d' ∧ d'.maxFlow = d.maxFlow ∧ d'.g = d.g ∧ Quiet c s t d' := by
  induction k with
  | zero => intro d hq; exact ⟨d, rfl, rfl, rfl, hq⟩
  | succ k ih =>
    intro d hq
    obtain ⟨d1, h1, m1, g1, q1⟩ := runAgain_fixed hst hN d hq fuel
    obtain ⟨d2, h2, m2, g2, q2⟩ := ih d1 q1
    refine ⟨d2, ?_, by rw [m2, m1], by rw [g2, g1], q2⟩
    simp only [Dinic.runAgainN, h1]
    exact h2

/-- a completed first run ends in a quiescent state -/
theorem run_quiet (es : List Edge) (s t : Nat) (hnn : ∀ e, e ∈ es → 0 ≤ e.cap) (hst : s ≠ t)
    (hN : nNodes (es.map toE) + 2 < INV) (d : Dinic) (hd : Dinic.fromEdgeList es s t = some d)
    (fuel : Nat) (d' : Dinic) (h : d.run fuel = some d') :
    ∃ (hs : s < nNodes (es.map toE)) (ht : t < nNodes (es.map toE)),
      Quiet (cF (es.map toE) (nNodes (es.map toE))) ⟨s, hs⟩ ⟨t, ht⟩ d' := by
  unfold Dinic.fromEdgeList at hd
  split at hd
  · cases hd
  · simp only [Option.some.injEq] at hd
    subst hd
    have hm := merge_cap_dinic es hnn
    have hnum : (residualDinic es).numNodes = nNodes (es.map toE) := by rw [hm.2.1, maxId_eq_spec]; rfl
    unfold Dinic.run at h
    simp only at h
    split at h
    · cases h
    · rename_i hg
      have hguard : s < nNodes (es.map toE) ∧ t < nNodes (es.map toE) := by
        have : ¬ (s ≥ (residualDinic es).numNodes ∨ t ≥ (residualDinic es).numNodes) := hg
        rw [hnum] at this; omega
      refine ⟨hguard.1, hguard.2, ?_⟩
      have hfi := init_finv (residualDinic es) es ⟨s, hguard.1⟩ ⟨t, hguard.2⟩ hm
      obtain ⟨huq, hrc⟩ := residualDinic_uniq_rev es
      split at h
      · cases h
      · rename_i d1 flow hloop
        simp only [Option.some.injEq] at h
        subst h
        have hdl : DL (cF (es.map toE) (nNodes (es.map toE))) ⟨s, hguard.1⟩ ⟨t, hguard.2⟩
            { g := residualDinic es, maxFlow := 0, finished := false,
              level := Array.replicate (residualDinic es).numNodes INV,
              parents := Array.replicate (residualDinic es).numNodes 0, stack := [], dfsCount := 0,
              bfsCount := 0, source := s, target := t } 0 :=
          ⟨hfi, huq, hrc, rfl, rfl, by simp [hnum], by simp [hnum]⟩
        obtain ⟨a, b⟩ := dinicLoop_spec (fun e => hst (Fin.mk.inj e)) hN fuel _ 0 0 d1 flow hdl hloop
        have : (0 : ℤ) + (flow - 0) = flow := by omega
        rw [this] at a
        exact ⟨⟨a.fi, a.uq, a.rc, a.src, a.tgt, a.psz, a.lsz⟩, b, rfl⟩

end Tbx.Flow
