import Tbx.Proofs.HuffmanOptDefs
import Tbx.Proofs.HuffmanCodes
import Tbx.Proofs.HuffmanFuel
/-
The heap model of C20 (Tbx.Huffman.heapPush / heapPop, std's BinaryHeap algorithm with the hole moves written as
swaps) maintains the binary min-heap order `HeapOrd` on `Tree.freq`, and `heapPop` returns a minimum.

* access lemmas `fr_swp*`, `fr_push_lt`, `fr_pop_lt`, `fr_set_ne` (after them `swp`/`fr` stay folded);
* `UpInv a pos`: every edge holds except possibly the one into `pos`, and the parent of `pos` is below the
  children of `pos`; `siftUp_ord`: sift_up from `pos` restores `HeapOrd`;
* `DownInv a pos`: every edge not touching `pos` holds (+ the same skip edges); `siftDownLoop_inv`: the descent
  of sift_down_to_bottom ends in a childless position with `UpInv`, so the final sift_up restores `HeapOrd`.
Core Lean + omega only.
-/
namespace Tbx.Huffman

theorem swp_size (a : Array Tree) (i j : Nat) : (swp a i j).size = a.size := (swp_perm a i j).size_eq

theorem fr_swp (a : Array Tree) (i j k : Nat) (hi : i < a.size) (hj : j < a.size) :
    fr (swp a i j) k = if k = i then fr a j else if k = j then fr a i else fr a k := by
  unfold swp Array.swapIfInBounds fr
  rw [dif_pos hi, dif_pos hj]
  simp only [Array.getD_eq_getD_getElem?, Array.getElem?_swap]
  by_cases h1 : k = i
  · subst h1; simp [hj]
    split <;> simp_all
  · by_cases h2 : k = j
    · subst h2; simp [h1, hi]
    · have h1' : ¬ i = k := fun h => h1 h.symm
      have h2' : ¬ j = k := fun h => h2 h.symm
      simp [h1, h2, h1', h2']

theorem fr_swp_left (a : Array Tree) (i j : Nat) (hi : i < a.size) (hj : j < a.size) :
    fr (swp a i j) i = fr a j := by rw [fr_swp a i j i hi hj, if_pos rfl]

theorem fr_swp_right (a : Array Tree) (i j : Nat) (hi : i < a.size) (hj : j < a.size) :
    fr (swp a i j) j = fr a i := by
  rw [fr_swp a i j j hi hj, if_pos rfl]
  split
  · next h => rw [h]
  · rfl

theorem fr_swp_other (a : Array Tree) (i j k : Nat) (hi : i < a.size) (hj : j < a.size)
    (h1 : k ≠ i) (h2 : k ≠ j) : fr (swp a i j) k = fr a k := by
  rw [fr_swp a i j k hi hj, if_neg h1, if_neg h2]

theorem fr_push_lt (a : Array Tree) (x : Tree) (i : Nat) (hi : i < a.size) : fr (a.push x) i = fr a i := by
  unfold fr
  have : ¬ i = a.size := by omega
  simp [Array.getD_eq_getD_getElem?, Array.getElem?_push, this]

theorem heapOrd_empty : HeapOrd #[] := by
  intro i _ hi
  simp at hi

/-- in a heap the root is a minimum -/
theorem heapOrd_root_min (a : Array Tree) (h : HeapOrd a) (i : Nat) (hi : i < a.size) : fr a 0 ≤ fr a i := by
  induction i using Nat.strongRecOn with
  | _ i ih =>
    by_cases h0 : i = 0
    · subst h0; exact Int.le_refl _
    · have h1 := h i (by omega) hi
      have h2 := ih ((i - 1) / 2) (by omega) (by omega)
      omega

/-- all edges hold except possibly the one into `pos`; the parent of `pos` is below the children of `pos` -/
def UpInv (a : Array Tree) (pos : Nat) : Prop :=
  (∀ i, 1 ≤ i → i < a.size → i ≠ pos → fr a ((i - 1) / 2) ≤ fr a i) ∧
  (1 ≤ pos → ∀ j, 1 ≤ j → j < a.size → (j - 1) / 2 = pos → fr a ((pos - 1) / 2) ≤ fr a j)

theorem upInv_step (a : Array Tree) (pos : Nat) (h : UpInv a pos) (hp : pos < a.size) (h1 : 1 ≤ pos)
    (hlt : ¬ fr a ((pos - 1) / 2) ≤ fr a pos) : UpInv (swp a pos ((pos - 1) / 2)) ((pos - 1) / 2) := by
  obtain ⟨ha, hb⟩ := h
  have hb := hb h1
  generalize hpdef : (pos - 1) / 2 = p at *
  have hpp : p < pos := by omega
  have hps : p < a.size := by omega
  have eL := fr_swp_left a pos p hp hps
  have eR := fr_swp_right a pos p hp hps
  have eO := fun k => fr_swp_other a pos p k hp hps
  refine ⟨?_, ?_⟩
  · intro i hi1 hi2 hi3
    rw [swp_size] at hi2
    by_cases hip : i = pos
    · subst hip
      rw [hpdef, eL, eR]; omega
    · rw [eO i hip hi3]
      by_cases hq1 : (i - 1) / 2 = pos
      · rw [hq1, eL]; exact hb i hi1 hi2 hq1
      · by_cases hq2 : (i - 1) / 2 = p
        · rw [hq2, eR]
          have := ha i hi1 hi2 hip
          rw [hq2] at this
          omega
        · rw [eO _ hq1 hq2]; exact ha i hi1 hi2 hip
  · intro hp1 j hj1 hj2 hj3
    rw [swp_size] at hj2
    have hg := ha p hp1 hps (by omega)
    rw [eO ((p - 1) / 2) (by omega) (by omega)]
    by_cases hjp : j = pos
    · subst hjp
      rw [eL]; exact hg
    · rw [eO j hjp (by omega)]
      have := ha j hj1 hj2 hjp
      rw [hj3] at this
      omega

theorem siftUp_ord : ∀ (fuel : Nat) (a : Array Tree) (pos : Nat), UpInv a pos → pos < a.size → pos ≤ fuel →
    HeapOrd (siftUp 0 fuel a pos) := by
  intro fuel
  induction fuel with
  | zero =>
    intro a pos h _ hf
    simp only [siftUp]
    intro i hi1 hi2
    exact h.1 i hi1 hi2 (by omega)
  | succ fuel ih =>
    intro a pos h hp hf
    simp only [siftUp]
    split
    · next hpos =>
      split
      · next hle =>
        intro i hi1 hi2
        by_cases hip : i = pos
        · subst hip; exact hle
        · exact h.1 i hi1 hi2 hip
      · next hlt =>
        apply ih
        · exact upInv_step a pos h hp hpos hlt
        · rw [swp_size]; omega
        · omega
    · intro i hi1 hi2
      exact h.1 i hi1 hi2 (by omega)

/-- push keeps the heap order -/
theorem heapPush_ord (a : Array Tree) (x : Tree) (h : HeapOrd a) : HeapOrd (heapPush a x) := by
  unfold heapPush
  apply siftUp_ord
  · refine ⟨?_, ?_⟩
    · intro i hi1 hi2 hi3
      rw [Array.size_push] at hi2
      rw [fr_push_lt a x _ (by omega), fr_push_lt a x i (by omega)]
      exact h i hi1 (by omega)
    · intro _ j hj1 hj2 hj3
      rw [Array.size_push] at hj2
      omega
  · rw [Array.size_push]; omega
  · omega

/-- all edges that do not touch `pos` hold; the parent of `pos` is below the children of `pos` -/
def DownInv (a : Array Tree) (pos : Nat) : Prop :=
  (∀ i, 1 ≤ i → i < a.size → i ≠ pos → (i - 1) / 2 ≠ pos → fr a ((i - 1) / 2) ≤ fr a i) ∧
  (1 ≤ pos → ∀ j, 1 ≤ j → j < a.size → (j - 1) / 2 = pos → fr a ((pos - 1) / 2) ≤ fr a j)

theorem downInv_leaf (a : Array Tree) (pos : Nat) (h : DownInv a pos) (hl : a.size ≤ 2 * pos + 1) :
    UpInv a pos := by
  refine ⟨?_, h.2⟩
  intro i hi1 hi2 hi3
  exact h.1 i hi1 hi2 hi3 (by omega)

theorem downInv_step (a : Array Tree) (pos c : Nat) (h : DownInv a pos) (hc : c < a.size) (hc1 : 1 ≤ c)
    (hcp : (c - 1) / 2 = pos)
    (hmin : ∀ j, 1 ≤ j → j < a.size → (j - 1) / 2 = pos → fr a c ≤ fr a j) :
    DownInv (swp a pos c) c := by
  obtain ⟨ha, hb⟩ := h
  have hp : pos < a.size := by omega
  have hpc : pos < c := by omega
  have eL := fr_swp_left a pos c hp hc
  have eR := fr_swp_right a pos c hp hc
  have eO := fun k => fr_swp_other a pos c k hp hc
  refine ⟨?_, ?_⟩
  · intro i hi1 hi2 hi3 hi4
    rw [swp_size] at hi2
    by_cases hip : i = pos
    · subst hip
      rw [eL, eO _ (by omega) hi4]
      exact hb hi1 c hc1 hc hcp
    · rw [eO i hip hi3]
      by_cases hq : (i - 1) / 2 = pos
      · rw [hq, eL]; exact hmin i hi1 hi2 hq
      · rw [eO _ hq hi4]; exact ha i hi1 hi2 hip hq
  · intro _ j hj1 hj2 hj3
    rw [swp_size] at hj2
    rw [hcp, eL, eO j (by omega) (by omega)]
    have := ha j hj1 hj2 (by omega) (by omega)
    rw [hj3] at this
    exact this

theorem siftDownLoop_inv (n : Nat) : ∀ (fuel : Nat) (a : Array Tree) (pos : Nat), a.size = n → DownInv a pos →
    pos < n → n ≤ pos + fuel →
    (siftDownLoop n fuel a pos).1.size = n ∧ (siftDownLoop n fuel a pos).2 < n ∧
      UpInv (siftDownLoop n fuel a pos).1 (siftDownLoop n fuel a pos).2 := by
  intro fuel
  induction fuel with
  | zero => intro a pos _ _ hp hf; omega
  | succ fuel ih =>
    intro a pos hn h hp hf
    simp only [siftDownLoop]
    split
    · next h2 =>
      by_cases hcmp : fr a (2 * pos + 1 + 1) ≤ fr a (2 * pos + 1)
      · simp only [if_pos hcmp]
        apply ih
        · rw [swp_size]; exact hn
        · apply downInv_step a pos _ h (by omega) (by omega) (by omega)
          intro j hj1 hj2 hj3
          have : j = 2 * pos + 1 ∨ j = 2 * pos + 1 + 1 := by omega
          rcases this with rfl | rfl
          · exact hcmp
          · exact Int.le_refl _
        · omega
        · omega
      · simp only [if_neg hcmp]
        apply ih
        · rw [swp_size]; exact hn
        · apply downInv_step a pos _ h (by omega) (by omega) (by omega)
          intro j hj1 hj2 hj3
          have : j = 2 * pos + 1 ∨ j = 2 * pos + 1 + 1 := by omega
          rcases this with rfl | rfl
          · exact Int.le_refl _
          · omega
        · omega
        · omega
    · next h2 =>
      split
      · next h3 =>
        refine ⟨by rw [swp_size]; exact hn, by omega, ?_⟩
        apply downInv_leaf
        · apply downInv_step a pos _ h (by omega) (by omega) (by omega)
          intro j hj1 hj2 hj3
          have : j = 2 * pos + 1 := by omega
          subst this
          exact Int.le_refl _
        · rw [swp_size]; omega
      · next h3 =>
        exact ⟨hn, hp, downInv_leaf a pos h (by omega)⟩

theorem siftDownToBottom_ord (a : Array Tree) (h : DownInv a 0) (h0 : 0 < a.size) :
    HeapOrd (siftDownToBottom a 0) := by
  unfold siftDownToBottom
  obtain ⟨h1, h2, h3⟩ := siftDownLoop_inv a.size a.size a 0 rfl h h0 (by omega)
  apply siftUp_ord _ _ _ h3
  · rw [h1]; exact h2
  · omega

theorem fr_of_lt (a : Array Tree) (i : Nat) (hi : i < a.size) : fr a i = a[i].freq := by
  unfold fr
  simp [Array.getD_eq_getD_getElem?, hi]

theorem fr_pop_lt (a : Array Tree) (i : Nat) (hi : i < a.size - 1) : fr a.pop i = fr a i := by
  rw [fr_of_lt a i (by omega), fr_of_lt a.pop i (by rw [Array.size_pop]; exact hi)]
  simp

theorem fr_set_ne (a : Array Tree) (x : Tree) (i j : Nat) (hij : i ≠ j) :
    fr (a.setIfInBounds i x) j = fr a j := by
  unfold fr
  simp [Array.getD_eq_getD_getElem?, hij]

theorem heapPop_ord_aux (a : Array Tree) (x : Tree) (a' : Array Tree) (h : HeapOrd a)
    (hp : heapPop a = some (x, a')) : HeapOrd a' ∧ x.freq = fr a 0 := by
  unfold heapPop at hp
  cases hb : a.back? with
  | none => rw [hb] at hp; simp at hp
  | some item =>
    rw [hb] at hp
    simp only at hp
    have hsz : 0 < a.size := by
      rcases Nat.eq_zero_or_pos a.size with h0 | h0
      · have : a = #[] := Array.eq_empty_of_size_eq_zero h0
        subst this; simp at hb
      · exact h0
    by_cases hd : a.pop.size > 0
    · rw [if_pos hd] at hp
      rw [Array.size_pop] at hd
      simp only [Option.some.injEq, Prod.mk.injEq] at hp
      obtain ⟨hx, ha'⟩ := hp
      subst hx ha'
      refine ⟨?_, ?_⟩
      · apply siftDownToBottom_ord
        · refine ⟨?_, fun h0 => by omega⟩
          intro i hi1 hi2 _ hi4
          rw [Array.size_setIfInBounds, Array.size_pop] at hi2
          rw [fr_set_ne _ _ _ _ (by omega), fr_set_ne _ _ _ _ (by omega), fr_pop_lt _ _ (by omega),
            fr_pop_lt _ _ (by omega)]
          exact h i hi1 (by omega)
        · rw [Array.size_setIfInBounds, Array.size_pop]; exact hd
      · exact fr_pop_lt a 0 hd
    · rw [if_neg hd] at hp
      rw [Array.size_pop] at hd
      simp only [Option.some.injEq, Prod.mk.injEq] at hp
      obtain ⟨hx, ha'⟩ := hp
      subst hx ha'
      refine ⟨?_, ?_⟩
      · intro i _ hi2
        rw [Array.size_pop] at hi2; omega
      · rw [fr_of_lt a 0 hsz]
        rw [Array.back?_eq_getElem?] at hb
        have h1 : a.size - 1 = 0 := by omega
        rw [h1, Array.getElem?_eq_getElem hsz] at hb
        simp only [Option.some.injEq] at hb
        rw [hb]

/-- pop returns a minimum-frequency element and keeps the heap order -/
theorem heapPop_ord (a : Array Tree) (x : Tree) (a' : Array Tree) (h : HeapOrd a) (hp : heapPop a = some (x, a')) :
    HeapOrd a' ∧ (∀ i, i < a.size → x.freq ≤ fr a i) ∧ (∀ y ∈ a'.toList, x.freq ≤ y.freq) := by
  obtain ⟨h1, h2⟩ := heapPop_ord_aux a x a' h hp
  have hmin : ∀ i, i < a.size → x.freq ≤ fr a i := by
    intro i hi
    rw [h2]; exact heapOrd_root_min a h i hi
  refine ⟨h1, hmin, ?_⟩
  intro y hy
  have hsz : 1 ≤ a.size := by
    rcases Nat.eq_zero_or_pos a.size with h0 | h0
    · have : a = #[] := Array.eq_empty_of_size_eq_zero h0
      subst this; simp [heapPop] at hp
    · exact h0
  obtain ⟨x', a'', hp', hperm, _⟩ := heapPop_some a hsz
  rw [hp] at hp'
  simp only [Option.some.injEq, Prod.mk.injEq] at hp'
  obtain ⟨rfl, rfl⟩ := hp'
  have hmem : y ∈ a.toList := hperm.subset (List.mem_cons_of_mem _ hy)
  obtain ⟨i, hi, rfl⟩ := List.getElem_of_mem hmem
  have := hmin i (by simpa using hi)
  rw [fr_of_lt a i (by simpa using hi)] at this
  simpa using this

example : HeapOrd (heapPush (heapPush (heapPush (heapPush #[] (.leaf 0 5)) (.leaf 1 3)) (.leaf 2 9)) (.leaf 3 1)) :=
  heapPush_ord _ _ (heapPush_ord _ _ (heapPush_ord _ _ (heapPush_ord _ _ heapOrd_empty)))

end Tbx.Huffman
