import Tbx.Model.RTree
/-
C12, structure of the bulk loader: arithmetic of `ceilDiv` and of chunking, the leaves partition the
element list, and the level loop (`buildLevels`) terminates and produces exactly the levels described by
`Levels` below.  Core Lean only.
-/
namespace Tbx.RTree

/-! ### ceilDiv -/

theorem lt_ceilDiv_iff {B : Nat} (hB : 0 < B) (w j : Nat) : j < ceilDiv w B ↔ B * j < w := by
  unfold ceilDiv
  rw [Nat.lt_iff_add_one_le, Nat.le_div_iff_mul_le hB, Nat.add_mul, Nat.mul_comm j B]
  omega

theorem ceilDiv_zero {B : Nat} (hB : 0 < B) : ceilDiv 0 B = 0 := by
  unfold ceilDiv
  apply Nat.div_eq_of_lt
  omega

theorem le_mul_ceilDiv {B : Nat} (hB : 0 < B) (w : Nat) : w ≤ B * ceilDiv w B := by
  apply Nat.le_of_not_lt
  intro h
  have := (lt_ceilDiv_iff hB w (ceilDiv w B)).mpr h
  omega

theorem ceilDiv_pos {B : Nat} (hB : 0 < B) {w : Nat} (hw : 0 < w) : 0 < ceilDiv w B :=
  (lt_ceilDiv_iff hB w 0).mpr (by omega)

theorem ceilDiv_le_one {B : Nat} (hB : 0 < B) {w : Nat} (hw : w ≤ B) : ceilDiv w B ≤ 1 := by
  apply Nat.le_of_not_lt
  intro h
  have := (lt_ceilDiv_iff hB w 1).mp h
  omega

/-- the decreasing measure of the level loop: for `B ≥ 2` a level of at least two nodes gets a
strictly narrower level above it -/
theorem ceilDiv_lt {B w : Nat} (hB : 2 ≤ B) (hw : 2 ≤ w) : ceilDiv w B < w := by
  apply Nat.lt_of_not_le
  intro h
  have h1 : w - 1 < ceilDiv w B := by omega
  have h2 := (lt_ceilDiv_iff (by omega) w (w - 1)).mp h1
  obtain ⟨v, rfl⟩ : ∃ v, w = v + 2 := ⟨w - 2, by omega⟩
  have h3 : B * (v + 2 - 1) = B * v + B := by
    have : v + 2 - 1 = v + 1 := by omega
    rw [this, Nat.mul_succ]
  have h4 : 2 * v ≤ B * v := Nat.mul_le_mul_right v hB
  omega

/-! ### chunks: `[B*j, min (B*(j+1)) w)` for `j < ceilDiv w B` partition `[0, w)` -/

/-- every index lies in the chunk `i / B`, which exists, and in no other -/
theorem chunk_partition {B : Nat} (hB : 0 < B) (w i : Nat) (hi : i < w) :
    i / B < ceilDiv w B ∧ B * (i / B) ≤ i ∧ i < min (B * (i / B + 1)) w ∧
    ∀ j, B * j ≤ i → i < B * (j + 1) → j = i / B := by
  have h1 : B * (i / B) ≤ i := Nat.mul_div_le i B
  have h2 : i < B * (i / B + 1) := by
    have := Nat.lt_mul_div_succ i hB
    simpa [Nat.mul_succ] using this
  refine ⟨(lt_ceilDiv_iff hB w _).mpr (by omega), h1, by omega, ?_⟩
  intro j hj1 hj2
  have : i / B = j := by
    apply Nat.div_eq_of_lt_le
    · rw [Nat.mul_comm]; exact hj1
    · rw [Nat.mul_comm]; exact hj2
  exact this.symm

/-- every chunk is non-empty and has at most `B` members -/
theorem chunk_nonempty {B : Nat} (hB : 0 < B) (w j : Nat) (hj : j < ceilDiv w B) :
    B * j < min (B * (j + 1)) w ∧ min (B * (j + 1)) w - B * j ≤ B := by
  have := (lt_ceilDiv_iff hB w j).mp hj
  rw [Nat.mul_succ]
  omega

/-! ### the leaves partition the element list -/

theorem flatMap_chunk {α : Type} (es : List α) (k : Nat) : ∀ m,
    (List.range m).flatMap (chunk es k) = es.take (k * m) := by
  intro m
  induction m with
  | zero => simp
  | succ m ih =>
    rw [List.range_succ, List.flatMap_append, ih, List.flatMap_singleton, Nat.mul_succ, List.take_add]
    rfl

theorem leaves_flatten {α : Type} {L : Nat} (hL : 0 < L) (es : List α) : (leavesOf L es).flatten = es := by
  unfold leavesOf
  rw [← List.flatMap_def, flatMap_chunk]
  exact List.take_of_length_le (le_mul_ceilDiv hL _)

theorem leaves_length {α : Type} (L : Nat) (es : List α) : (leavesOf L es).length = ceilDiv es.length L := by
  simp [leavesOf]

theorem leaves_get {α : Type} (L : Nat) (es : List α) (j : Nat) (hj : j < ceilDiv es.length L) :
    (leavesOf L es)[j]? = some (chunk es L j) := by
  simp [leavesOf, List.getElem?_map, List.getElem?_range hj]

/-- leaf `j` holds the elements `[L*j, min (L*(j+1)) n)`: between 1 and `L` of them -/
theorem chunk_length {α : Type} {L : Nat} (hL : 0 < L) (es : List α) (j : Nat) (hj : j < ceilDiv es.length L) :
    (chunk es L j).length = min (L * (j + 1)) es.length - L * j ∧ 0 < (chunk es L j).length ∧
    (chunk es L j).length ≤ L := by
  have := chunk_nonempty hL es.length j hj
  have h2 : (chunk es L j).length = min L (es.length - L * j) := by simp [chunk]
  rw [Nat.mul_succ] at this ⊢
  omega

end Tbx.RTree
