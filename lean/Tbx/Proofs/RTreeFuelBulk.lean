import Tbx.Proofs.RTreeCover
import Tbx.Proofs.RTreeFuel
/-
C12, termination of the iterator on bulk-loaded trees: the tree has a weight function whose root value
is (number of search nodes) + (number of elements), proved as an invariant of the level loop (same
shape as `CoverInv`).  Core Lean only.
-/
namespace Tbx.RTree

/-- regrouping a sum over `[0, w)` into chunks of `B` -/
theorem sum_chunks {B : Nat} (hB : 0 < B) (f : Nat → Nat) (w : Nat) :
    sumRange (ceilDiv w B) (fun j => sumRange (min (B * (j + 1)) w - B * j) fun m => f (B * j + m)) = sumRange w f := by
  have key : ∀ c, c ≤ ceilDiv w B →
      sumRange c (fun j => sumRange (min (B * (j + 1)) w - B * j) fun m => f (B * j + m)) =
      sumRange (min (B * c) w) f := by
    intro c
    induction c with
    | zero => intro _; simp [sumRange_zero]
    | succ c ih =>
      intro hc
      have hlt : B * c < w := (lt_ceilDiv_iff hB w c).mp (by omega)
      rw [sumRange_succ_right, ih (by omega)]
      have h1 : min (B * c) w = B * c := by omega
      have h2 : min (B * (c + 1)) w = B * c + (min (B * (c + 1)) w - B * c) := by
        rw [Nat.mul_succ]; omega
      rw [h1]
      conv => rhs; rw [h2, sumRange_add]
  have := key (ceilDiv w B) (Nat.le_refl _)
  rw [this]
  have : min (B * ceilDiv w B) w = w := by have := le_mul_ceilDiv hB w; omega
  rw [this]

theorem sumRange_const_add (k : Nat) (f : Nat → Nat) : sumRange k (fun i => 1 + f i) = k + sumRange k f := by
  induction k with
  | zero => rfl
  | succ k ih => rw [sumRange_succ_right, sumRange_succ_right, ih]; omega

theorem length_flatMap_range {β : Type} (k : Nat) (f : Nat → List β) :
    ((List.range k).flatMap f).length = sumRange k (fun i => (f i).length) := by
  induction k with
  | zero => rfl
  | succ k ih =>
    rw [List.range_succ, List.flatMap_append, List.length_append, ih, sumRange_succ_right]
    simp

section
variable {α : Type}

structure WeightInv (B : Nat) (leaves : List (List α)) (start end_ : Nat) (nodes : List SNode) (ends : List Nat)
    (W : Nat → Nat) : Prop where
  weight : IsWeight B ⟨leaves, nodes, ends⟩ W
  top : sumRange (end_ - start) (fun i => W (start + i)) = nodes.length + leaves.flatten.length

theorem weightInv_init {B : Nat} (hB : 0 < B) (leaves : List (List α)) :
    WeightInv B leaves 0 (ceilDiv leaves.length B) (level0 B (ceilDiv leaves.length B)) [ceilDiv leaves.length B]
      (fun i => 1 + (leafRange ⟨leaves, [], []⟩ (B * i) (min (B * i + B) leaves.length - B * i)).length) := by
  have hget : ∀ (i : Nat) (nd : SNode), (level0 B (ceilDiv leaves.length B))[i]? = some nd →
      i < ceilDiv leaves.length B ∧ nd = ⟨0, B * i⟩ := by
    intro i nd h
    simp only [level0, List.getElem?_map] at h
    rcases Nat.lt_or_ge i (ceilDiv leaves.length B) with hi | hi
    · rw [List.getElem?_range hi] at h
      simp at h
      exact ⟨hi, h.symm⟩
    · rw [List.getElem?_eq_none (by simpa using hi)] at h
      cases h
  refine ⟨?_, ?_⟩
  · intro i nd h
    obtain ⟨_, rfl⟩ := hget i nd h
    simp [wE, leafRange]
  · simp only [Nat.sub_zero, Nat.zero_add]
    rw [sumRange_const_add]
    have hlen : (level0 B (ceilDiv leaves.length B)).length = ceilDiv leaves.length B := by simp [level0]
    rw [hlen]
    congr 1
    have h1 := flatMap_chunks hB (fun m => leaves[m]?.getD []) leaves.length
    rw [flatMap_getD_range] at h1
    rw [← h1, length_flatMap_range]
    apply sumRange_congr
    intro j _
    simp only [leafRange]
    rw [Nat.mul_succ]

theorem weightInv_step {B nl start end_ : Nat} {leaves : List (List α)} {nodes : List SNode} {ends : List Nat}
    {cov : Nat → List α} {W : Nat → Nat} (hB : 0 < B) (h : LevelsInv B nl start end_ nodes ends)
    (hc : CoverInv B leaves start end_ nodes ends cov) (hwi : WeightInv B leaves start end_ nodes ends W)
    (hlt : start + 1 < end_) :
    ∃ W', WeightInv B leaves end_ (end_ + ceilDiv (end_ - start) B)
      (nodes ++ levelNodes B start (ceilDiv (end_ - start) B)) (ends ++ [end_ + ceilDiv (end_ - start) B]) W' := by
  have hstep := levelsInv_step h hlt
  obtain ⟨K, hK⟩ : ∃ K, ends.length = K + 1 := ⟨ends.length - 1, by have := h.nonempty; omega⟩
  have hL' : Levels B nl (nodes ++ levelNodes B start (ceilDiv (end_ - start) B))
      (ends ++ [end_ + ceilDiv (end_ - start) B]) :=
    ⟨hstep.nonempty, hstep.lvl0, hstep.step, hstep.mono, by rw [hstep.size, hstep.cur_end], hstep.groups, hstep.inner⟩
  have hce : lend ends K = end_ := by have := h.cur_end; rwa [hK] at this
  have hcs : lstart ends K = start := by have := h.cur_start; rwa [hK] at this
  have hsK : lstart (ends ++ [end_ + ceilDiv (end_ - start) B]) K = start := by
    rw [lstart_append_le _ _ _ (by omega)]; exact hcs
  have heK : lend (ends ++ [end_ + ceilDiv (end_ - start) B]) K = end_ := by
    rw [lend_append_lt _ _ _ (by omega)]; exact hce
  have hwK : lwidth (ends ++ [end_ + ceilDiv (end_ - start) B]) K = end_ - start := by
    unfold lwidth; rw [hsK, heK]
  have hwK1 : lwidth (ends ++ [end_ + ceilDiv (end_ - start) B]) (K + 1) = ceilDiv (end_ - start) B := by
    rw [hL'.width_succ K (by simp [hK]), hwK]
  have hcc : ∀ j, j < ceilDiv (end_ - start) B →
      childrenCount B (ends ++ [end_ + ceilDiv (end_ - start) B]) (start + B * j) =
        min (B * (j + 1)) (end_ - start) - B * j ∧
      start + B * j + childrenCount B (ends ++ [end_ + ceilDiv (end_ - start) B]) (start + B * j) ≤ end_ := by
    intro j hj
    have := childrenCount_levels hB hL' K (by simp [hK]) j (by rw [hwK1]; exact hj)
    rw [hsK, hwK, heK] at this
    exact this
  have hendmem : end_ ∈ ends := by
    rw [← hce, lend_eq_getElem ends K (by omega)]
    exact List.getElem_mem _
  let ends' := ends ++ [end_ + ceilDiv (end_ - start) B]
  let W' : Nat → Nat := fun i =>
    if i < end_ then W i
    else 1 + sumRange (childrenCount B ends' (start + B * (i - end_))) fun m => W (start + B * (i - end_) + m)
  have hW_old : ∀ i, i < end_ → W' i = W i := by intro i hi; simp only [W', hi, if_true]
  refine ⟨W', ⟨?_, ?_⟩⟩
  · intro i nd hnd
    rcases Nat.lt_or_ge i nodes.length with hi | hi
    · rw [List.getElem?_append_left hi] at hnd
      have hie : i < end_ := by rw [← h.size]; exact hi
      rw [hW_old i hie, hwi.weight i nd hnd]
      by_cases hk : nd.kind = 0
      · simp [wE, hk, leafRange]
      · have hb := hc.cover.bound i nd hnd hk
        have hcs' := childrenCount_append (B := B) (end_ + ceilDiv (end_ - start) B) hendmem (hc.lt_end i nd hnd hk)
        simp only [wE, hk, if_false]
        show _ = 1 + sumRange (childrenCount B ends' nd.first) fun m => W' (nd.first + m)
        rw [hcs']
        congr 1
        apply sumRange_congr
        intro m hm
        have : nd.first + m < end_ := by
          have hb' : nd.first + childrenCount B ends nd.first ≤ i := hb
          omega
        rw [hW_old _ this]
    · rw [List.getElem?_append_right hi, h.size] at hnd
      have hi' : end_ ≤ i := by rw [← h.size]; exact hi
      have hj : i - end_ < ceilDiv (end_ - start) B := by
        rcases Nat.lt_or_ge (i - end_) (ceilDiv (end_ - start) B) with hh | hh
        · exact hh
        · rw [List.getElem?_eq_none (by rw [levelNodes_length]; exact hh)] at hnd; cases hnd
      rw [levelNodes_get B start _ _ hj] at hnd
      simp only [Option.some.injEq] at hnd
      subst hnd
      have hnot : ¬ i < end_ := by omega
      simp only [W', hnot, if_false, wE]
      show _ = 1 + sumRange (childrenCount B ends' (start + B * (i - end_))) fun m =>
        (if start + B * (i - end_) + m < end_ then W (start + B * (i - end_) + m) else _)
      congr 1
      apply sumRange_congr
      intro m hm
      have := (hcc (i - end_) hj).2
      have hlt' : start + B * (i - end_) + m < end_ := by
        have : childrenCount B ends' (start + B * (i - end_)) =
            childrenCount B (ends ++ [end_ + ceilDiv (end_ - start) B]) (start + B * (i - end_)) := rfl
        omega
      simp only [hlt', if_true]
  · have hw : end_ + ceilDiv (end_ - start) B - end_ = ceilDiv (end_ - start) B := by omega
    rw [hw, List.length_append, levelNodes_length]
    have htop := hwi.top
    have hsum := sum_chunks hB (fun i => W (start + i)) (end_ - start)
    have : sumRange (ceilDiv (end_ - start) B) (fun i => W' (end_ + i)) =
        ceilDiv (end_ - start) B + sumRange (ceilDiv (end_ - start) B)
          (fun j => sumRange (min (B * (j + 1)) (end_ - start) - B * j) fun m => W (start + (B * j + m))) := by
      rw [← sumRange_const_add]
      apply sumRange_congr
      intro j hj
      have hnot : ¬ end_ + j < end_ := by omega
      have hsub : end_ + j - end_ = j := by omega
      simp only [W', hnot, if_false, hsub]
      show 1 + sumRange (childrenCount B (ends ++ [end_ + ceilDiv (end_ - start) B]) (start + B * j)) _ = _
      rw [(hcc j hj).1]
      congr 1
      apply sumRange_congr
      intro m _
      rw [Nat.add_assoc]
    rw [this, hsum, htop]
    omega

/-- the level loop ends with a weight function whose root value is `#search nodes + #elements` -/
theorem buildLevels_weight {B nl : Nat} (hB : 2 ≤ B) (leaves : List (List α)) :
    ∀ (fuel start end_ : Nat) (nodes : List SNode) (ends : List Nat) (cov : Nat → List α) (W : Nat → Nat),
      LevelsInv B nl start end_ nodes ends → CoverInv B leaves start end_ nodes ends cov →
      WeightInv B leaves start end_ nodes ends W → end_ - start ≤ fuel + 1 →
      ∃ nodes' ends' W', buildLevels B fuel start end_ nodes ends = some (nodes', ends') ∧
        IsWeight B ⟨leaves, nodes', ends'⟩ W' ∧
        (match nodes'.length with | 0 => 0 | m + 1 => W' m) ≤ nodes'.length + leaves.flatten.length := by
  intro fuel
  induction fuel with
  | zero =>
    intro start end_ nodes ends cov W h hc hwi hw
    have hnot : ¬ (start + 1 < end_) := by omega
    refine ⟨nodes, ends, W, by simp [buildLevels, hnot], hwi.weight, ?_⟩
    have htop := hwi.top
    rcases hc.pos with hp | hp
    · have he : end_ = start + 1 := by omega
      have hl : nodes.length = start + 1 := by rw [h.size, he]
      have h1 : end_ - start = 1 := by omega
      rw [h1, sumRange_succ_right, sumRange_zero] at htop
      simp only [hl]
      simp only [Nat.add_zero, Nat.zero_add] at htop
      omega
    · have hl : nodes.length = 0 := by rw [h.size, hp]
      simp only [hl]
      omega
  | succ fuel ih =>
    intro start end_ nodes ends cov W h hc hwi hw
    by_cases hlt : start + 1 < end_
    · obtain ⟨cov1, hc1⟩ := coverInv_step (by omega) h hc hlt
      obtain ⟨W1, hw1⟩ := weightInv_step (by omega) h hc hwi hlt
      have hdec : ceilDiv (end_ - start) B < end_ - start := ceilDiv_lt hB (by omega)
      obtain ⟨n', e', W', heq, hwt, hroot⟩ := ih end_ _ _ _ cov1 W1 (levelsInv_step h hlt) hc1 hw1 (by omega)
      exact ⟨n', e', W', by simp only [buildLevels, hlt, if_true]; exact heq, hwt, hroot⟩
    · refine ⟨nodes, ends, W, by simp [buildLevels, hlt], hwi.weight, ?_⟩
      have htop := hwi.top
      rcases hc.pos with hp | hp
      · have he : end_ = start + 1 := by omega
        have hl : nodes.length = start + 1 := by rw [h.size, he]
        have h1 : end_ - start = 1 := by omega
        rw [h1, sumRange_succ_right, sumRange_zero] at htop
        simp only [hl]
        simp only [Nat.add_zero, Nat.zero_add] at htop
        omega
      · have hl : nodes.length = 0 := by rw [h.size, hp]
        simp only [hl]
        omega

/-- bulk-loaded trees have a weight function with root weight at most `#search nodes + #elements` -/
theorem bulkLoad_weight {B L : Nat} (hB : 2 ≤ B) (hL : 1 ≤ L) (es : List α) :
    ∃ t W, bulkLoad B L es = some t ∧ IsWeight B t W ∧
      (match t.nodes.length with | 0 => 0 | m + 1 => W m) ≤ t.nodes.length + es.length := by
  have hcond : ¬ (B = 0 ∨ L = 0) := by omega
  have hnl : (leavesOf L es).length = ceilDiv es.length L := leaves_length L es
  have hci := coverInv_init (B := B) (by omega) (leavesOf L es)
  have hwi := weightInv_init (B := B) (by omega) (leavesOf L es)
  rw [hnl] at hci hwi
  obtain ⟨nodes', ends', W', heq, hwt, hroot⟩ :=
    buildLevels_weight (nl := ceilDiv es.length L) hB (leavesOf L es) (ceilDiv (ceilDiv es.length L) B) 0
      (ceilDiv (ceilDiv es.length L) B) _ _ _ _ (levelsInv_init B _ _ rfl) hci hwi (by omega)
  refine ⟨⟨leavesOf L es, nodes', ends'⟩, W', ?_, hwt, ?_⟩
  · simp only [bulkLoad, bulkShape, hcond, if_false, heq, Option.map_some]
  · rw [leaves_flatten (by omega) es] at hroot
    exact hroot

end
end Tbx.RTree
