import Tbx.Proofs.RTreePack
/-
C12: the level loop of `from_elements` terminates (for `B ≥ 2`) and the arrays it produces are exactly
the levels described by `Levels`.  Core Lean only.
-/
namespace Tbx.RTree

/-- exclusive end of level `k` in the search node array (`level_ends[k]`) -/
def lend (ends : List Nat) (k : Nat) : Nat := ends[k]?.getD 0
/-- first index of level `k` -/
def lstart (ends : List Nat) : Nat → Nat
  | 0 => 0
  | k + 1 => lend ends k
/-- number of search nodes of level `k` -/
def lwidth (ends : List Nat) (k : Nat) : Nat := lend ends k - lstart ends k

/-- What the search node array looks like: level 0 has one leaf group per `B` leaves, group `j` starting at
leaf `B*j`; every further level has one tree node per `B` nodes of the level below, node `j` starting at
child `lstart k + B*j`; a level is built above level `k` iff level `k` has at least two nodes. -/
structure Levels (B nl : Nat) (nodes : List SNode) (ends : List Nat) : Prop where
  nonempty : 0 < ends.length
  lvl0 : lend ends 0 = ceilDiv nl B
  step : ∀ k, k + 1 < ends.length → 2 ≤ lwidth ends k ∧ lend ends (k + 1) = lend ends k + ceilDiv (lwidth ends k) B
  mono : ∀ k, k < ends.length → lstart ends k ≤ lend ends k
  size : nodes.length = lend ends (ends.length - 1)
  groups : ∀ j, j < lend ends 0 → nodes[j]? = some ⟨0, B * j⟩
  inner : ∀ k, k + 1 < ends.length → ∀ j, j < lwidth ends (k + 1) →
    nodes[lend ends k + j]? = some ⟨1, lstart ends k + B * j⟩

theorem lend_append_lt (ends : List Nat) (x k : Nat) (hk : k < ends.length) :
    lend (ends ++ [x]) k = lend ends k := by
  simp [lend, List.getElem?_append_left hk]

theorem lend_append_eq (ends : List Nat) (x : Nat) : lend (ends ++ [x]) ends.length = x := by
  simp [lend]

theorem lstart_append_le (ends : List Nat) (x k : Nat) (hk : k ≤ ends.length) :
    lstart (ends ++ [x]) k = lstart ends k := by
  cases k with
  | zero => rfl
  | succ k => exact lend_append_lt ends x k hk

theorem lwidth_append_lt (ends : List Nat) (x k : Nat) (hk : k < ends.length) :
    lwidth (ends ++ [x]) k = lwidth ends k := by
  unfold lwidth
  rw [lend_append_lt ends x k hk, lstart_append_le ends x k (Nat.le_of_lt hk)]

theorem levelNodes_length (B start cnt : Nat) : (levelNodes B start cnt).length = cnt := by
  simp [levelNodes]

theorem levelNodes_get (B start cnt j : Nat) (hj : j < cnt) :
    (levelNodes B start cnt)[j]? = some ⟨1, start + B * j⟩ := by
  simp [levelNodes, List.getElem?_map, List.getElem?_range hj]

/-- loop invariant of `buildLevels`: the arrays describe correct levels, except that the top level may
still be wider than one node -/
structure LevelsInv (B nl : Nat) (start end_ : Nat) (nodes : List SNode) (ends : List Nat) : Prop where
  nonempty : 0 < ends.length
  cur_end : lend ends (ends.length - 1) = end_
  cur_start : lstart ends (ends.length - 1) = start
  lvl0 : lend ends 0 = ceilDiv nl B
  step : ∀ k, k + 1 < ends.length → 2 ≤ lwidth ends k ∧ lend ends (k + 1) = lend ends k + ceilDiv (lwidth ends k) B
  mono : ∀ k, k < ends.length → lstart ends k ≤ lend ends k
  size : nodes.length = end_
  groups : ∀ j, j < lend ends 0 → nodes[j]? = some ⟨0, B * j⟩
  inner : ∀ k, k + 1 < ends.length → ∀ j, j < lwidth ends (k + 1) →
    nodes[lend ends k + j]? = some ⟨1, lstart ends k + B * j⟩

theorem levelsInv_init (B g0 nl : Nat) (hg : g0 = ceilDiv nl B) : LevelsInv B nl 0 g0 (level0 B g0) [g0] where
  nonempty := by simp
  cur_end := by simp [lend]
  cur_start := by simp [lstart]
  lvl0 := by simp [lend, hg]
  step := by intro k hk; simp at hk
  mono := by intro k hk; simp at hk; subst hk; simp [lstart]
  size := by simp [level0]
  groups := by
    intro j hj
    have : j < g0 := by simpa [lend] using hj
    simp [level0, List.getElem?_map, List.getElem?_range this]
  inner := by intro k hk; simp at hk

theorem levelsInv_step {B nl start end_ : Nat} {nodes : List SNode} {ends : List Nat}
    (h : LevelsInv B nl start end_ nodes ends) (hlt : start + 1 < end_) :
    LevelsInv B nl end_ (end_ + ceilDiv (end_ - start) B) (nodes ++ levelNodes B start (ceilDiv (end_ - start) B))
      (ends ++ [end_ + ceilDiv (end_ - start) B]) := by
  have hne := h.nonempty
  obtain ⟨K, hK⟩ : ∃ K, ends.length = K + 1 := ⟨ends.length - 1, by omega⟩
  have hce : lend ends K = end_ := by have := h.cur_end; rwa [hK] at this
  have hcs : lstart ends K = start := by have := h.cur_start; rwa [hK] at this
  have hwK : lwidth ends K = end_ - start := by unfold lwidth; rw [hce, hcs]
  have hlen : (ends ++ [end_ + ceilDiv (end_ - start) B]).length = K + 2 := by simp [hK]
  have hnewEnd : lend (ends ++ [end_ + ceilDiv (end_ - start) B]) (K + 1) = end_ + ceilDiv (end_ - start) B := by
    rw [← hK]; exact lend_append_eq _ _
  refine
    { nonempty := by rw [hlen]; omega
      cur_end := by rw [hlen]; exact hnewEnd
      cur_start := ?_
      lvl0 := by rw [lend_append_lt _ _ _ hne]; exact h.lvl0
      step := ?_
      mono := ?_
      size := by simp [levelNodes_length, h.size]
      groups := ?_
      inner := ?_ }
  · rw [hlen]
    show lend (ends ++ _) K = end_
    rw [lend_append_lt _ _ _ (by omega)]; exact hce
  · intro k hk
    rw [hlen] at hk
    by_cases hkK : k + 1 < K + 1
    · rw [lwidth_append_lt ends _ k (by omega), lend_append_lt ends _ k (by omega),
        lend_append_lt ends _ (k + 1) (by omega)]
      exact h.step k (by omega)
    · have : k = K := by omega
      subst this
      rw [lwidth_append_lt ends _ k (by omega), lend_append_lt ends _ k (by omega), hnewEnd, hwK, hce]
      exact ⟨by omega, rfl⟩
  · intro k hk
    rw [hlen] at hk
    by_cases hkK : k < K + 1
    · rw [lstart_append_le _ _ _ (by omega), lend_append_lt _ _ _ (by omega)]
      exact h.mono k (by omega)
    · have : k = K + 1 := by omega
      subst this
      rw [hnewEnd]
      show lend (ends ++ _) K ≤ _
      rw [lend_append_lt _ _ _ (by omega), hce]
      omega
  · intro j hj
    rw [lend_append_lt _ _ _ hne] at hj
    have hjn : j < nodes.length := by
      have h0 : lend ends 0 ≤ lend ends K := by
        -- level ends are nondecreasing: induction along `mono`
        have : ∀ m, m ≤ K → lend ends 0 ≤ lend ends m := by
          intro m
          induction m with
          | zero => intro _; exact Nat.le_refl _
          | succ m ih =>
            intro hm
            have := h.mono (m + 1) (by omega)
            exact Nat.le_trans (ih (by omega)) this
        exact this K (Nat.le_refl _)
      rw [h.size, ← hce]; omega
    rw [List.getElem?_append_left hjn]
    exact h.groups j hj
  · intro k hk j hj
    rw [hlen] at hk
    by_cases hkK : k + 1 < K + 1
    · rw [lwidth_append_lt _ _ _ (by omega)] at hj
      rw [lend_append_lt _ _ _ (by omega), lstart_append_le _ _ _ (by omega)]
      have hin := h.inner k (by omega) j hj
      have hjn : lend ends k + j < nodes.length := by
        rcases Nat.lt_or_ge (lend ends k + j) nodes.length with h1 | h1
        · exact h1
        · rw [List.getElem?_eq_none h1] at hin; cases hin
      rw [List.getElem?_append_left hjn]
      exact hin
    · have : k = K := by omega
      subst this
      have hw : lwidth (ends ++ [end_ + ceilDiv (end_ - start) B]) (k + 1) = ceilDiv (end_ - start) B := by
        unfold lwidth
        rw [hnewEnd]
        show _ - lend (ends ++ _) k = _
        rw [lend_append_lt _ _ _ (by omega), hce]
        omega
      rw [hw] at hj
      rw [lend_append_lt _ _ _ (by omega), lstart_append_le _ _ _ (by omega), hce, hcs]
      rw [List.getElem?_append_right (by rw [h.size]; omega), h.size]
      have : end_ + j - end_ = j := by omega
      rw [this]
      exact levelNodes_get B start _ j hj

/-- the loop terminates within `fuel` rounds when the top level has at most `fuel + 1` nodes, and the
result satisfies `Levels` -/
theorem buildLevels_spec {B nl : Nat} (hB : 2 ≤ B) :
    ∀ (fuel start end_ : Nat) (nodes : List SNode) (ends : List Nat),
      LevelsInv B nl start end_ nodes ends → end_ - start ≤ fuel + 1 →
      ∃ nodes' ends', buildLevels B fuel start end_ nodes ends = some (nodes', ends') ∧
        Levels B nl nodes' ends' ∧ lwidth ends' (ends'.length - 1) ≤ 1 := by
  intro fuel
  induction fuel with
  | zero =>
    intro start end_ nodes ends h hw
    have hnot : ¬ (start + 1 < end_) := by omega
    refine ⟨nodes, ends, by simp [buildLevels, hnot], ⟨h.nonempty, h.lvl0, h.step, h.mono, ?_, h.groups, h.inner⟩, ?_⟩
    · rw [h.size, h.cur_end]
    · unfold lwidth; rw [h.cur_end, h.cur_start]; omega
  | succ fuel ih =>
    intro start end_ nodes ends h hw
    by_cases hlt : start + 1 < end_
    · have hstep := levelsInv_step h hlt
      have hdec : ceilDiv (end_ - start) B < end_ - start := ceilDiv_lt hB (by omega)
      obtain ⟨n', e', heq, hl, hw'⟩ := ih end_ (end_ + ceilDiv (end_ - start) B) _ _ hstep (by omega)
      exact ⟨n', e', by simp only [buildLevels, hlt, if_true]; exact heq, hl, hw'⟩
    · refine ⟨nodes, ends, by simp [buildLevels, hlt], ⟨h.nonempty, h.lvl0, h.step, h.mono, ?_, h.groups, h.inner⟩, ?_⟩
      · rw [h.size, h.cur_end]
      · unfold lwidth; rw [h.cur_end, h.cur_start]; omega


/-- `from_elements` builds a structure for every element count (the fuel it passes to the level loop is
enough), and the structure is `Levels` with at most one node on the top level -/
theorem bulkShape_spec {B L : Nat} (hB : 2 ≤ B) (hL : 1 ≤ L) (n : Nat) :
    ∃ s, bulkShape B L n = some s ∧ s.nLeaves = ceilDiv n L ∧ Levels B s.nLeaves s.nodes s.ends ∧
      lwidth s.ends (s.ends.length - 1) ≤ 1 := by
  have hcond : ¬ (B = 0 ∨ L = 0) := by omega
  obtain ⟨nodes', ends', heq, hl, hw⟩ :=
    buildLevels_spec (nl := ceilDiv n L) hB (ceilDiv (ceilDiv n L) B) 0 (ceilDiv (ceilDiv n L) B)
      (level0 B (ceilDiv (ceilDiv n L) B)) [ceilDiv (ceilDiv n L) B] (levelsInv_init B _ _ rfl) (by omega)
  refine ⟨⟨ceilDiv n L, nodes', ends'⟩, ?_, rfl, hl, hw⟩
  simp only [bulkShape, hcond, if_false, heq]

/-! ### level ends are nondecreasing; `children_count` -/

theorem Levels.lstart_succ (ends : List Nat) (k : Nat) : lstart ends (k + 1) = lend ends k := rfl

theorem Levels.lend_mono {B nl : Nat} {nodes : List SNode} {ends : List Nat} (h : Levels B nl nodes ends) :
    ∀ k, k < ends.length → ∀ m, m ≤ k → lend ends m ≤ lend ends k := by
  intro k
  induction k with
  | zero => intro _ m hm; have : m = 0 := by omega
            subst this; exact Nat.le_refl _
  | succ k ih =>
    intro hk m hm
    by_cases hmk : m = k + 1
    · subst hmk; exact Nat.le_refl _
    · have h1 := ih (by omega) m (by omega)
      have h2 := h.mono (k + 1) hk
      exact Nat.le_trans h1 h2

theorem Levels.width_succ {B nl : Nat} {nodes : List SNode} {ends : List Nat} (h : Levels B nl nodes ends)
    (k : Nat) (hk : k + 1 < ends.length) : lwidth ends (k + 1) = ceilDiv (lwidth ends k) B := by
  have := (h.step k hk).2
  unfold lwidth at *
  rw [Levels.lstart_succ]
  omega

theorem lend_eq_getElem (ends : List Nat) (k : Nat) (hk : k < ends.length) : lend ends k = ends[k] := by
  simp [lend, List.getElem?_eq_getElem hk]

/-- `children_count` on the first-child index of tree node `j` of level `k+1` finds the end of level `k` -/
theorem childrenCount_levels {B nl : Nat} {nodes : List SNode} {ends : List Nat} (hB : 0 < B)
    (h : Levels B nl nodes ends) (k : Nat) (hk : k + 1 < ends.length) (j : Nat) (hj : j < lwidth ends (k + 1)) :
    childrenCount B ends (lstart ends k + B * j) = min (B * (j + 1)) (lwidth ends k) - B * j ∧
    lstart ends k + B * j + childrenCount B ends (lstart ends k + B * j) ≤ lend ends k := by
  rw [h.width_succ k hk] at hj
  have hlt : B * j < lwidth ends k := (lt_ceilDiv_iff hB _ _).mp hj
  have hmono := h.mono k (by omega)
  have hc : lstart ends k + B * j < lend ends k := by unfold lwidth at hlt; omega
  have hfind : ends.find? (fun e => decide (lstart ends k + B * j < e)) = some (lend ends k) := by
    rw [List.find?_eq_some_iff_getElem]
    refine ⟨by simpa using hc, k, by omega, (lend_eq_getElem ends k (by omega)).symm, ?_⟩
    intro m hm
    have hm' : m < ends.length := by omega
    rw [← lend_eq_getElem ends m hm']
    have : lend ends m ≤ lstart ends k := by
      cases k with
      | zero => omega
      | succ k' => exact h.lend_mono k' (by omega) m (by omega)
    simp only [Bool.not_eq_eq_eq_not, Bool.not_true, decide_eq_false_iff_not]
    omega
  unfold childrenCount
  rw [hfind]
  simp only [Option.getD_some]
  unfold lwidth at hlt ⊢
  rw [Nat.mul_succ]
  omega

/-- the number of nodes `i` of a level of width `w` with `i / B = j` -/
theorem count_chunk {B : Nat} (hB : 0 < B) (j : Nat) : ∀ w,
    ((List.range w).filter fun i => i / B = j).length = min (B * (j + 1)) w - min (B * j) w := by
  intro w
  induction w with
  | zero => simp
  | succ w ih =>
    rw [List.range_succ, List.filter_append, List.length_append, ih]
    have hiff : w / B = j ↔ B * j ≤ w ∧ w < B * (j + 1) := by
      rw [Nat.div_eq_iff hB, Nat.mul_comm j B, Nat.mul_succ]
      omega
    have hs : B * (j + 1) = B * j + B := Nat.mul_succ B j
    by_cases hw : w / B = j
    · have := hiff.mp hw
      have hf : (List.filter (fun i => decide (i / B = j)) [w]).length = 1 := by simp [hw]
      rw [hf]
      omega
    · have hn : ¬ (B * j ≤ w ∧ w < B * (j + 1)) := fun hh => hw (hiff.mpr hh)
      have hf : (List.filter (fun i => decide (i / B = j)) [w]).length = 0 := by simp [hw]
      rw [hf]
      omega

end Tbx.RTree
