import Tbx.Proofs.DGraphBasic
/-
Invariant preservation and refinement for `insert_node` and the node-creation loops of `insert_edge`.
-/
namespace Tbx.DG
open Tbx
open Tbx.SG (InEdge EEntry maxId)

/-! ### insert_node -/

theorem insertNode_shape (g g' : Graph) (h : insertNode g = some g') :
    g.nodes.size ≠ 0 ∧ g'.nodes = g.nodes.push ⟨(gt g.nodes (g.nodes.size - 1)).first, 0⟩ ∧
    g'.edges = g.edges ∧ g'.numNodes = g.numNodes + 1 ∧ g'.numEdges = g.numEdges := by
  unfold insertNode at h
  split at h
  · cases h
  · cases h; exact ⟨by assumption, rfl, rfl, rfl, rfl⟩

theorem insertNode_isSome (g : Graph) (hI : Inv g) : (insertNode g).isSome := by
  have := hI.size
  unfold insertNode
  rw [if_neg (by omega)]; rfl

theorem gt_push (a : Array NEntry) (x : NEntry) (v : Nat) :
    gt (a.push x) v = if v < a.size then gt a v else if v = a.size then x else default := by
  by_cases h1 : v < a.size
  · rw [if_pos h1, gt_push_lt _ _ _ h1]
  · by_cases h2 : v = a.size
    · subst h2; simp [gt_push_eq]
    · rw [if_neg h1, if_neg h2, gt_of_ge _ _ (by simp; omega)]

theorem insertNode_inv (g g' : Graph) (hI : Inv g) (h : insertNode g = some g') :
    Inv g' ∧ g'.numNodes = g.numNodes + 1 ∧ g'.numEdges = g.numEdges ∧ g'.edges = g.edges ∧
    (∀ v, v < g.nodes.size → gt g'.nodes v = gt g.nodes v) ∧ (∀ v, adjM g' v = adjM g v) := by
  obtain ⟨_, hn, he, hnn, hne⟩ := insertNode_shape g g' h
  have hsz := hI.size
  have hfirst : ∀ v, v < g.nodes.size → gt g'.nodes v = gt g.nodes v := by
    intro v hv; rw [hn]; exact gt_push_lt _ _ _ hv
  have hcnt : ∀ v, (gt g'.nodes v).count = (gt g.nodes v).count := by
    intro v
    by_cases h1 : v < g.nodes.size
    · rw [hfirst v h1]
    · rw [hn, gt_push, if_neg h1, hI.extra v (by omega)]
      split <;> rfl
  have howns : ∀ v e, owns g' v e ↔ owns g v e := by
    intro v e
    unfold owns
    by_cases h1 : v < g.nodes.size
    · rw [hfirst v h1]
    · have c1 := hcnt v
      have c2 := hI.extra v (by omega)
      constructor <;> intro h <;> omega
  refine ⟨⟨?_, ?_, ?_, ?_, ?_, ?_, ?_⟩, hnn, hne, he, hfirst, ?_⟩
  · rw [hn, hnn]; simp; omega
  · intro v hv
    rw [hn] at hv
    simp only [Array.size_push] at hv
    rw [he]
    by_cases h1 : v < g.nodes.size
    · rw [hfirst v h1]; exact hI.bound v h1
    · have : v = g.nodes.size := by omega
      subst this
      rw [hn, gt_push_eq]
      have := hI.bound (g.nodes.size - 1) (by omega)
      simp only; omega
  · intro v hv
    rw [hcnt]; exact hI.extra v (by omega)
  · intro u v e h1 h2
    exact hI.disj u v e ((howns u e).mp h1) ((howns v e).mp h2)
  · intro v e h1
    rw [he]
    exact hI.used v e ((howns v e).mp h1)
  · intro e he' hne'
    rw [he] at he' hne'
    obtain ⟨v, hv, ho⟩ := hI.spare e he' hne'
    exact ⟨v, by omega, (howns v e).mpr ho⟩
  · rw [hnn, hne]
    simp only [sumCounts]
    rw [hcnt, hI.extra g.numNodes (Nat.le_refl _), sumCounts_congr g.nodes _ g.numNodes (fun v _ => hcnt v)]
    exact hI.edges
  · intro v
    unfold adjM
    rw [hnn]
    by_cases h1 : v < g.numNodes
    · have h2 : v < g.numNodes + 1 := by omega
      rw [if_pos h1, if_pos h2]
      exact adjList_congr g _ v (hfirst v (by omega)) (fun _ _ => by rw [he])
    · rw [if_neg h1]
      split
      · exact adjList_nil_of_count_zero _ v (by rw [hcnt]; exact hI.extra v (by omega))
      · rfl

/-! ### `while number_of_nodes <= v { insert_node() }` -/

theorem ensureNode_inv (fuel : Nat) (g : Graph) (v : Nat) (hI : Inv g) (hf : v + 1 - g.numNodes ≤ fuel) :
    ∃ g', ensureNode fuel g v = some g' ∧ Inv g' ∧ g'.numNodes = max g.numNodes (v + 1) ∧
      g'.numEdges = g.numEdges ∧ g'.edges = g.edges ∧
      (∀ u, u < g.nodes.size → gt g'.nodes u = gt g.nodes u) ∧ (∀ u, adjM g' u = adjM g u) := by
  induction fuel generalizing g with
  | zero =>
    refine ⟨g, ?_, hI, by omega, rfl, rfl, fun _ _ => rfl, fun _ => rfl⟩
    simp only [ensureNode]
    rw [if_neg (by omega)]
  | succ fuel ih =>
    simp only [ensureNode]
    by_cases hle : g.numNodes ≤ v
    · rw [if_pos hle]
      have hs := insertNode_isSome g hI
      obtain ⟨g1, hg1⟩ := Option.isSome_iff_exists.mp hs
      rw [hg1]
      obtain ⟨hI1, hn1, hm1, he1, hf1, ha1⟩ := insertNode_inv g g1 hI hg1
      obtain ⟨g', hg', hI', hn', hm', he', hf', ha'⟩ := ih g1 hI1 (by omega)
      refine ⟨g', hg', hI', by omega, by omega, by rw [he', he1], ?_, ?_⟩
      · intro u hu
        have hsz1 := hI1.size
        have hsz := hI.size
        rw [hf' u (by omega), hf1 u hu]
      · intro u; rw [ha' u, ha1 u]
    · rw [if_neg hle]
      exact ⟨g, rfl, hI, by omega, rfl, rfl, fun _ _ => rfl, fun _ => rfl⟩

end Tbx.DG
