import Tbx.Spec.Bisection
/-
C03, the argument shared by the model theorem and by the soundness of the judge's checker:

  a renumbering ρ of the cell's nodes (first end ↦ 0, last end ↦ 1, injective elsewhere) + a side `inA` of
  the contracted graph that is a minimum cut and is contained in every minimum cut
  ⟹ the two sets  { x ∈ cell | inA (ρ x) },  { x ∈ cell | ¬ inA (ρ x) }  satisfy `Bisection.Valid`.

Everything is at the level of lists and Boolean predicates (no Finset, no Mathlib): the cut of a side
`inS` of the contracted graph is `cutE ρ edges inS` = the number of input edges whose renumbered tail is
inside and whose renumbered head is outside (self-loops of the contracted graph never count).
-/
namespace Tbx.BisectionCore
open Tbx Tbx.Bisection

/-- number of input edges that leave the side `inS` of the contracted graph -/
def cutE (ρ : Nat → Nat) (edges : List (Nat × Nat)) (inS : Nat → Bool) : Nat :=
  edges.countP fun e => inS (ρ e.1) && !inS (ρ e.2)

/-- what a renumbering has to satisfy: `dom` = the nodes that have a number -/
structure Contr (edges : List (Nat × Nat)) (cell S T : List Nat) (ρ : Nat → Nat) (dom : Nat → Bool) : Prop where
  rho0 : ∀ x, dom x = true → (ρ x = 0 ↔ x ∈ S)
  rho1 : ∀ x, dom x = true → (ρ x = 1 ↔ x ∈ T)
  inj : ∀ x y, dom x = true → dom y = true → 2 ≤ ρ x → ρ x = ρ y → x = y
  domIff : ∀ x, dom x = true ↔ (x ∈ S ∨ x ∈ T ∨ touched edges x = true)
  srcCell : ∀ e, e ∈ edges → e.1 ∈ cell
  subS : ∀ x, x ∈ S → x ∈ cell
  subT : ∀ x, x ∈ T → x ∈ cell
  disj : ∀ x, x ∈ S → x ∉ T
  neS : S ≠ []

/-- what the solver has to deliver about the side `inA` -/
structure MinCut (edges : List (Nat × Nat)) (cell : List Nat) (ρ : Nat → Nat) (dom : Nat → Bool)
    (flow : Int) (inA : Nat → Bool) : Prop where
  a0 : inA 0 = true
  a1 : inA 1 = false
  val : flow = (cutE ρ edges inA : Int)
  min : ∀ inS : Nat → Bool, inS 0 = true → inS 1 = false → flow ≤ (cutE ρ edges inS : Int)
  canon : ∀ inS : Nat → Bool, inS 0 = true → inS 1 = false → (cutE ρ edges inS : Int) = flow →
    ∀ x, x ∈ cell → dom x = true → inA (ρ x) = true → inS (ρ x) = true

theorem touched_of_mem {edges : List (Nat × Nat)} {e : Nat × Nat} (he : e ∈ edges) :
    touched edges e.1 = true ∧ touched edges e.2 = true := by
  unfold touched
  constructor <;> (rw [List.any_eq_true]; exact ⟨e, he, by simp⟩)

theorem countP_lt {α : Type} (p q : α → Bool) (l : List α) (himp : ∀ x, x ∈ l → p x = true → q x = true)
    (w : α) (hw : w ∈ l) (hq : q w = true) (hp : p w = false) : l.countP p < l.countP q := by
  induction l with
  | nil => cases hw
  | cons a t ih =>
    rw [List.countP_cons, List.countP_cons]
    rcases List.mem_cons.mp hw with rfl | hm
    · have hle : t.countP p ≤ t.countP q :=
        List.countP_mono_left (fun x hx => himp x (List.mem_cons_of_mem _ hx))
      simp [hq, hp]; omega
    · have := ih (fun x hx => himp x (List.mem_cons_of_mem _ hx)) hm
      have ha := himp a List.mem_cons_self
      by_cases hpa : p a = true
      · simp [hpa, ha hpa]; omega
      · have : p a = false := by cases h : p a <;> simp_all
        simp [this]; split <;> omega

section
variable {edges : List (Nat × Nat)} {cell S T : List Nat} {ρ : Nat → Nat} {dom : Nat → Bool}
variable {flow : Int} {inA : Nat → Bool}

theorem dom_of_edge (hc : Contr edges cell S T ρ dom) {e : Nat × Nat} (he : e ∈ edges) :
    dom e.1 = true ∧ dom e.2 = true :=
  ⟨(hc.domIff _).mpr (Or.inr (Or.inr (touched_of_mem he).1)),
   (hc.domIff _).mpr (Or.inr (Or.inr (touched_of_mem he).2))⟩

theorem rho_ge2_of_not_cell (hc : Contr edges cell S T ρ dom) {v : Nat} (hd : dom v = true)
    (hv : v ∉ cell) : 2 ≤ ρ v := by
  have h0 : ρ v ≠ 0 := fun h => hv (hc.subS v ((hc.rho0 v hd).mp h))
  have h1 : ρ v ≠ 1 := fun h => hv (hc.subT v ((hc.rho1 v hd).mp h))
  omega

/-- no cut edge leads to a node outside the cell: outside nodes have no outgoing edge, so adding one to a
    minimum cut's side can only remove cut edges -/
theorem no_cut_to_outside (hc : Contr edges cell S T ρ dom) (hm : MinCut edges cell ρ dom flow inA)
    {e : Nat × Nat} (he : e ∈ edges) (hv : e.2 ∉ cell) (hu : inA (ρ e.1) = true) :
    inA (ρ e.2) = true := by
  cases hvA : inA (ρ e.2) with
  | true => rfl
  | false =>
    exfalso
    have hd2 := (dom_of_edge hc he).2
    have hp2 := rho_ge2_of_not_cell hc hd2 hv
    let p := ρ e.2
    let inS : Nat → Bool := fun q => inA q || q == p
    have hs0 : inS 0 = true := by simp [inS, hm.a0]
    have hs1 : inS 1 = false := by
      have : (1 : Nat) ≠ p := by show 1 ≠ ρ e.2; omega
      simp [inS, hm.a1, this]
    have hlt : cutE ρ edges inS < cutE ρ edges inA := by
      unfold cutE
      apply countP_lt _ _ _ _ e he
      · simp [hu, hvA]
      · simp [inS, p]
      · intro x hx hpx
        have hne : ρ x.1 ≠ p := by
          intro h
          have := hc.inj e.2 x.1 hd2 (dom_of_edge hc hx).1 hp2 h.symm
          exact hv (this ▸ hc.srcCell x hx)
        simp only [inS, Bool.and_eq_true, Bool.or_eq_true, beq_iff_eq, Bool.not_eq_eq_eq_not,
          Bool.not_true, Bool.or_eq_false_iff, beq_eq_false_iff_ne] at hpx ⊢
        rcases hpx with ⟨h1 | h1, h2, _⟩
        · exact ⟨h1, h2⟩
        · exact absurd h1 hne
    have := hm.min inS hs0 hs1
    have := hm.val
    omega

/-- the side of the contracted graph a cell-level side `L` denotes: the numbers of the nodes of `L` and of
    all nodes outside the cell -/
noncomputable def liftSide (cell : List Nat) (ρ : Nat → Nat) (dom : Nat → Bool) (L : Nat → Bool) (q : Nat) : Bool :=
  @decide (∃ x, dom x = true ∧ ρ x = q ∧ (x ∉ cell ∨ L x = true)) (Classical.propDecidable _)

theorem liftSide_iff (L : Nat → Bool) (q : Nat) :
    liftSide cell ρ dom L q = true ↔ ∃ x, dom x = true ∧ ρ x = q ∧ (x ∉ cell ∨ L x = true) := by
  unfold liftSide; simp

theorem liftSide_rho (hc : Contr edges cell S T ρ dom) (L : Nat → Bool)
    (hL0 : ∀ x, x ∈ S → L x = true) (hL1 : ∀ x, x ∈ T → L x = false)
    {x : Nat} (hd : dom x = true) (hx : x ∈ cell) :
    liftSide cell ρ dom L (ρ x) = true ↔ L x = true := by
  rw [liftSide_iff]
  constructor
  · rintro ⟨y, hdy, hy, hor⟩
    by_cases h2 : 2 ≤ ρ x
    · have := hc.inj x y hd hdy h2 hy.symm
      subst this
      rcases hor with h | h
      · exact absurd hx h
      · exact h
    · have : ρ x = 0 ∨ ρ x = 1 := by omega
      rcases this with h | h
      · exact hL0 x ((hc.rho0 x hd).mp h)
      · have hyT := (hc.rho1 y hdy).mp (hy.trans h)
        rcases hor with h' | h'
        · exact absurd (hc.subT y hyT) h'
        · rw [hL1 y hyT] at h'; cases h'
  · intro h; exact ⟨x, hd, rfl, Or.inr h⟩

theorem liftSide_outside (_hc : Contr edges cell S T ρ dom) (L : Nat → Bool) {x : Nat} (hd : dom x = true)
    (hx : x ∉ cell) : liftSide cell ρ dom L (ρ x) = true := by
  rw [liftSide_iff]; exact ⟨x, hd, rfl, Or.inl hx⟩

theorem liftSide_zero (hc : Contr edges cell S T ρ dom) (L : Nat → Bool)
    (hL0 : ∀ x, x ∈ S → L x = true) : liftSide cell ρ dom L 0 = true := by
  rw [liftSide_iff]
  obtain ⟨x, hx⟩ := List.exists_mem_of_ne_nil S hc.neS
  have hd : dom x = true := (hc.domIff x).mpr (Or.inl hx)
  exact ⟨x, hd, (hc.rho0 x hd).mpr hx, Or.inr (hL0 x hx)⟩

theorem liftSide_one (hc : Contr edges cell S T ρ dom) (L : Nat → Bool)
    (hL1 : ∀ x, x ∈ T → L x = false) : liftSide cell ρ dom L 1 = false := by
  cases h : liftSide cell ρ dom L 1 with
  | false => rfl
  | true =>
    exfalso
    obtain ⟨x, hd, hx, hor⟩ := (liftSide_iff L 1).mp h
    have hxT := (hc.rho1 x hd).mp hx
    rcases hor with h' | h'
    · exact h' (hc.subT x hxT)
    · rw [hL1 x hxT] at h'; cases h'

/-- the cut of the lifted side is the number of cell edges leaving `L` -/
theorem cutE_liftSide (hc : Contr edges cell S T ρ dom) (L : Nat → Bool)
    (hL0 : ∀ x, x ∈ S → L x = true) (hL1 : ∀ x, x ∈ T → L x = false) :
    cutE ρ edges (liftSide cell ρ dom L) = crossCell edges cell L := by
  unfold cutE crossCell
  apply List.countP_congr
  intro e he
  obtain ⟨hd1, hd2⟩ := dom_of_edge hc he
  have h1 := liftSide_rho hc L hL0 hL1 hd1 (hc.srcCell e he)
  simp only [Bool.and_eq_true, Bool.not_eq_eq_eq_not, Bool.not_true, List.contains_iff_mem]
  by_cases hv : e.2 ∈ cell
  · have h2 := liftSide_rho hc L hL0 hL1 hd2 hv
    constructor
    · rintro ⟨a, b⟩
      refine ⟨⟨h1.mp a, hv⟩, ?_⟩
      cases hl : L e.2 with
      | false => rfl
      | true => rw [h2.mpr hl] at b; cases b
    · rintro ⟨⟨a, _⟩, b⟩
      refine ⟨h1.mpr a, ?_⟩
      cases hl : liftSide cell ρ dom L (ρ e.2) with
      | false => rfl
      | true => rw [h2.mp hl] at b; cases b
  · have := liftSide_outside hc L hd2 hv
    constructor
    · rintro ⟨_, b⟩; rw [this] at b; cases b
    · rintro ⟨⟨_, b⟩, _⟩; exact absurd b hv

/-- **the core of C03** -/
theorem valid_of_mincut (hc : Contr edges cell S T ρ dom) (hm : MinCut edges cell ρ dom flow inA)
    (k : Nat) (hS : S = firstK cell k) (hT : T = lastK cell k) (left right : List Nat)
    (hl : ∀ x, x ∈ left ↔ (x ∈ cell ∧ dom x = true ∧ inA (ρ x) = true))
    (hr : ∀ x, x ∈ right ↔ (x ∈ cell ∧ dom x = true ∧ inA (ρ x) = false)) :
    Valid edges cell k flow left right := by
  subst hS hT
  refine ⟨?_, ?_, ?_, ?_, ?_, ?_, ?_⟩
  · intro x hxl hxr
    have a := ((hl x).mp hxl).2.2
    have b := ((hr x).mp hxr).2.2
    rw [a] at b; cases b
  · intro x
    rw [hl, hr]
    constructor
    · rintro (⟨a, b, _⟩ | ⟨a, b, _⟩) <;> exact ⟨a, (hc.domIff x).mp b⟩
    · rintro ⟨a, b⟩
      have hd := (hc.domIff x).mpr b
      cases h : inA (ρ x) with
      | true => exact Or.inl ⟨a, hd, rfl⟩
      | false => exact Or.inr ⟨a, hd, rfl⟩
  · intro x hx
    have hd : dom x = true := (hc.domIff x).mpr (Or.inl hx)
    rw [hl]
    exact ⟨hc.subS x hx, hd, by rw [(hc.rho0 x hd).mpr hx]; exact hm.a0⟩
  · intro x hx
    have hd : dom x = true := (hc.domIff x).mpr (Or.inr (Or.inl hx))
    rw [hr]
    exact ⟨hc.subT x hx, hd, by rw [(hc.rho1 x hd).mpr hx]; exact hm.a1⟩
  · rw [hm.val]
    congr 1
    unfold cutE crossLR
    apply List.countP_congr
    intro e he
    obtain ⟨hd1, hd2⟩ := dom_of_edge hc he
    have hu := hc.srcCell e he
    simp only [Bool.and_eq_true, Bool.not_eq_eq_eq_not, Bool.not_true, List.contains_iff_mem]
    rw [hl, hr]
    constructor
    · rintro ⟨a, b⟩
      refine ⟨⟨hu, hd1, a⟩, ?_, hd2, b⟩
      by_cases hv : e.2 ∈ cell
      · exact hv
      · have := no_cut_to_outside hc hm he hv a
        rw [this] at b; cases b
    · rintro ⟨⟨_, _, a⟩, _, _, b⟩; exact ⟨a, b⟩
  · intro L hL0 hL1
    have := hm.min (liftSide cell ρ dom L) (liftSide_zero hc L hL0) (liftSide_one hc L hL1)
    rw [cutE_liftSide hc L hL0 hL1] at this
    exact this
  · intro L hL0 hL1 heq x hx
    obtain ⟨hxc, hd, ha⟩ := (hl x).mp hx
    have := hm.canon (liftSide cell ρ dom L) (liftSide_zero hc L hL0) (liftSide_one hc L hL1)
      (by rw [cutE_liftSide hc L hL0 hL1]; exact heq) x hxc hd ha
    exact (liftSide_rho hc L hL0 hL1 hd hxc).mp this

end
end Tbx.BisectionCore
