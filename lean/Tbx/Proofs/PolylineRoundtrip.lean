import Tbx.Model.Polyline
/-
Integer layer of the polyline codec: `decodeInts (encodeInts xs) = xs` for every sequence in the
lat/lon range at precision ≤ 6, of any length; in particular no i32 operation of the checked build
overflows and the decode loop's fuel suffices.  Core Lean only.

Key invariant of `decode_unsigned` (`decU_encU`): entering a chunk with shift `s`, `result = 2^s + low`
with `low < 2^s` the value of the chunks read so far; a continuation chunk `c` adds `(c + 31)·2^s`
(`= c·2^s + 2^(s+5) - 2^s`), the last chunk `v` adds `(v - 1)·2^s`, so the leading `1` telescopes away.
-/
namespace Tbx.Proofs.Polyline
open Tbx.Polyline

theorem chk32_some {x : Int} (h1 : I32_MIN ≤ x) (h2 : x ≤ I32_MAX) : chk32 x = some x := by
  simp [chk32, h1, h2]

theorem two_pow_le (s : Nat) (h : s ≤ 30) : (2:Int) ^ s ≤ 1073741824 := by
  have : (2:Nat) ^ s ≤ 2 ^ 30 := Nat.pow_le_pow_right (by decide) h
  have e : ((2 ^ s : Nat) : Int) = (2:Int) ^ s := Int.natCast_pow 2 s
  omega

theorem two_pow_pos (s : Nat) : (1:Int) ≤ (2:Int) ^ s := by
  have : 0 < (2:Nat) ^ s := Nat.two_pow_pos s
  have e : ((2 ^ s : Nat) : Int) = (2:Int) ^ s := Int.natCast_pow 2 s
  omega

/-- last chunk -/
theorem step_last (v : Nat) (rest : List Nat) (r : Int) (s : Nat) (hv : v < 32) (hs : s ≤ 30)
    (h1 : (2:Int) ^ s ≤ r) (h3 : r - 2 ^ s + v * 2 ^ s ≤ I32_MAX) :
    decodeUnsigned ((v + 63) :: rest) r s = some (r + ((v:Int) - 1) * 2 ^ s, rest) := by
  have hp := two_pow_pos s
  have hp30 := two_pow_le s hs
  generalize hP : (2:Int) ^ s = p at *
  have hvp : 0 ≤ (v:Int) * p := Int.mul_nonneg (by omega) (by omega)
  have e : ((v:Int) - 1) * p = v * p - p := by rw [Int.sub_mul, Int.one_mul]
  have hb : ((v + 63 : Nat) : Int) - 63 - 1 = (v:Int) - 1 := by omega
  simp only [decodeUnsigned, hb, shl32, show s < 32 by omega, if_true, hP]
  simp only [I32_MAX] at *
  rw [chk32_some (by simp only [I32_MIN]; omega) (by simp only [I32_MAX]; omega)]
  simp only []
  rw [chk32_some (by simp only [I32_MIN]; omega) (by simp only [I32_MAX]; omega)]
  simp only []
  rw [if_pos (by omega)]

/-- continuation chunk -/
theorem step_cont (c : Nat) (tail : List Nat) (r : Int) (s : Nat) (hc : c < 32) (hs : s ≤ 25)
    (h1 : (2:Int) ^ s ≤ r) (h2 : r < 2 * 2 ^ s) :
    decodeUnsigned ((c + 95) :: tail) r s = decodeUnsigned tail (r + ((c:Int) + 31) * 2 ^ s) (s + 5) := by
  have hp := two_pow_pos s
  have hp25 : (2:Int) ^ s ≤ 33554432 := by
    have : (2:Nat) ^ s ≤ 2 ^ 25 := Nat.pow_le_pow_right (by decide) hs
    have e : ((2 ^ s : Nat) : Int) = (2:Int) ^ s := Int.natCast_pow 2 s
    omega
  generalize hP : (2:Int) ^ s = p at *
  have hcp0 : 0 ≤ (c:Int) * p := Int.mul_nonneg (by omega) (by omega)
  have hcp : (c:Int) * p ≤ 31 * p := Int.mul_le_mul_of_nonneg_right (by omega) (by omega)
  have e : ((c:Int) + 31) * p = c * p + 31 * p := by rw [Int.add_mul]
  have hb : ((c + 95 : Nat) : Int) - 63 - 1 = (c:Int) + 31 := by omega
  simp only [decodeUnsigned, hb, shl32, show s < 32 by omega, if_true, hP]
  rw [chk32_some (by simp only [I32_MIN]; omega) (by simp only [I32_MAX]; omega)]
  simp only []
  rw [chk32_some (by simp only [I32_MIN]; omega) (by simp only [I32_MAX]; omega)]
  simp only []
  rw [if_neg (by omega)]

theorem chunk_byte (v : Nat) : (0x20 ||| (v &&& 0x1f)) + 63 = v % 32 + 95 := by
  have h1 : v &&& 0x1f = v % 32 := Nat.and_two_pow_sub_one_eq_mod v 5
  have h2 : v % 32 < 2^5 := Nat.mod_lt _ (by decide)
  have h3 := Nat.two_pow_add_eq_or_of_lt h2 1
  rw [h1]
  have h4 : (0x20 : Nat) = 2^5 * 1 := by decide
  rw [h4, ← h3]; omega

theorem decU_encU (fuel : Nat) : ∀ (v : Nat) (rest : List Nat) (r : Int) (s : Nat),
    v ≤ fuel → s ≤ 30 → (2:Int) ^ s ≤ r → r < 2 * 2 ^ s → r - 2 ^ s + v * 2 ^ s ≤ I32_MAX →
    decodeUnsigned (encU fuel v ++ rest) r s = some (r + ((v:Int) - 1) * 2 ^ s, rest) := by
  induction fuel with
  | zero =>
    intro v rest r s hf hs h1 h2 h3
    have : v = 0 := by omega
    subst this
    simpa [encU] using step_last 0 rest r s (by omega) hs h1 h3
  | succ fuel ih =>
    intro v rest r s hf hs h1 h2 h3
    by_cases hv : v ≥ 0x20
    · simp only [encU, if_pos hv, chunk_byte, List.cons_append, Nat.shiftRight_eq_div_pow]
      have hp := two_pow_pos s
      have hps : (2:Int) ^ (s + 5) = 32 * 2 ^ s := by rw [Int.pow_add]; omega
      -- v = 32 q + c
      have hdm := Nat.div_add_mod v 32
      have hq1 : 1 ≤ v / 2 ^ 5 := by
        have : v / 2^5 = v / 32 := rfl
        omega
      have hvp : (v:Int) * 2 ^ s = 32 * (((v / 2 ^ 5 : Nat) : Int) * 2 ^ s) + ((v % 32 : Nat) : Int) * 2 ^ s := by
        have : (v:Int) = 32 * ((v / 2 ^ 5 : Nat) : Int) + ((v % 32 : Nat) : Int) := by
          have : v / 2^5 = v / 32 := rfl
          omega
        rw [this, Int.add_mul, Int.mul_assoc]
      have hs25 : s ≤ 25 := by
        apply Decidable.byContradiction
        intro hn
        have : (2:Nat) ^ 26 ≤ 2 ^ s := Nat.pow_le_pow_right (by decide) (by omega)
        have e : ((2 ^ s : Nat) : Int) = (2:Int) ^ s := Int.natCast_pow 2 s
        have : (32:Int) * 2 ^ s ≤ (v:Int) * 2 ^ s := Int.mul_le_mul_of_nonneg_right (by omega) (by omega)
        simp only [I32_MAX] at h3
        omega
      rw [step_cont (v % 32) _ r s (Nat.mod_lt _ (by decide)) hs25 h1 h2]
      have hc0 : 0 ≤ ((v % 32 : Nat) : Int) * 2 ^ s := Int.mul_nonneg (by omega) (by omega)
      have hc31 : ((v % 32 : Nat) : Int) * 2 ^ s ≤ 31 * 2 ^ s :=
        Int.mul_le_mul_of_nonneg_right (by omega) (by omega)
      have e1 : (((v % 32 : Nat) : Int) + 31) * 2 ^ s = ((v % 32 : Nat) : Int) * 2 ^ s + 31 * 2 ^ s := by rw [Int.add_mul]
      rw [ih (v / 2 ^ 5) rest _ (s + 5) (by have : v / 2^5 = v / 32 := rfl; omega) (by omega)
        (by rw [hps, e1]; omega) (by rw [hps, e1]; omega)
        (by rw [hps, e1, ← Int.mul_assoc, Int.mul_comm _ 32, Int.mul_assoc]; omega)]
      congr 2
      rw [hps, e1, Int.sub_mul, Int.sub_mul, Int.one_mul, Int.one_mul, ← Int.mul_assoc,
        Int.mul_comm _ 32, Int.mul_assoc]
      omega
    · simp only [encU, if_neg hv, List.cons_append, List.nil_append]
      exact step_last v rest r s (by omega) hs h1 h3

theorem encU_ne_nil (fuel v : Nat) : encU fuel v ≠ [] := by
  cases fuel with
  | zero => simp [encU]
  | succ f => simp only [encU]; split <;> simp

/-- sign layer: what `encodeSigned` emits is read back by `decodeUnsigned` + `unzig` -/
theorem signed_roundtrip (value : Int) (hlo : -1073741823 ≤ value) (hhi : value ≤ 1073741823) :
    ∃ bs, encodeSigned value = some bs ∧ bs ≠ [] ∧
      ∀ rest, ∃ u, decodeUnsigned (bs ++ rest) 1 0 = some (u, rest) ∧ unzig u = value := by
  have hchk : chk32 (value * 2) = some (value * 2) :=
    chk32_some (by simp only [I32_MIN]; omega) (by simp only [I32_MAX]; omega)
  simp only [encodeSigned, hchk]
  refine ⟨_, rfl, encU_ne_nil _ _, ?_⟩
  intro rest
  generalize hu : (if value < 0 then -(value * 2) - 1 else value * 2) = u
  have hu0 : 0 ≤ u := by rw [← hu]; split <;> omega
  have hu31 : u ≤ I32_MAX := by rw [← hu]; simp only [I32_MAX]; split <;> omega
  have hcast : ((u.toNat : Nat) : Int) = u := Int.toNat_of_nonneg hu0
  have := decU_encU u.toNat u.toNat rest 1 0 (Nat.le_refl _) (by omega) (by simp) (by simp)
    (by rw [hcast]; simp; exact hu31)
  refine ⟨u, ?_, ?_⟩
  · simp only [encodeUnsigned]
    rw [this, hcast]; simp; omega
  · simp only [unzig, Int.shiftRight_eq_div_pow]
    rw [← hu]
    by_cases hneg : value < 0
    · simp only [if_pos hneg]
      have : (-(value * 2) - 1) % 2 = 1 := by omega
      simp [this]; omega
    · simp only [if_neg hneg]
      have : (value * 2) % 2 = 0 := by omega
      simp [this]

theorem line_roundtrip (xs : List (Int × Int)) : ∀ (start : Int × Int), InRange start → (∀ p ∈ xs, InRange p) →
    ∃ cs, encodeLine xs start = some cs ∧ xs.length ≤ cs.length ∧
      ∀ fuel, xs.length ≤ fuel → decodeLoop fuel cs start.1 start.2 = some xs := by
  induction xs with
  | nil =>
    intro start _ _
    exact ⟨[], rfl, Nat.le_refl _, fun fuel _ => by cases fuel <;> simp [decodeLoop]⟩
  | cons e rest ih =>
    intro start hs hall
    have he : InRange e := hall e (by simp)
    obtain ⟨c, hc1, hc2, hc3⟩ := ih e he (fun p hp => hall p (by simp [hp]))
    simp only [InRange] at hs he
    have hd0 : chk32 (e.1 - start.1) = some (e.1 - start.1) :=
      chk32_some (by simp only [I32_MIN]; omega) (by simp only [I32_MAX]; omega)
    have hd1 : chk32 (e.2 - start.2) = some (e.2 - start.2) :=
      chk32_some (by simp only [I32_MIN]; omega) (by simp only [I32_MAX]; omega)
    obtain ⟨a, ha1, ha2, ha3⟩ := signed_roundtrip (e.1 - start.1) (by omega) (by omega)
    obtain ⟨b, hb1, hb2, hb3⟩ := signed_roundtrip (e.2 - start.2) (by omega) (by omega)
    refine ⟨a ++ b ++ c, ?_, ?_, ?_⟩
    · simp only [encodeLine, hd0, hd1, ha1, hb1, hc1]
    · simp only [List.length_cons, List.length_append]
      have : 1 ≤ a.length := by cases a with | nil => exact absurd rfl ha2 | cons _ _ => simp
      omega
    · intro fuel hf
      cases fuel with
      | zero => simp at hf
      | succ fuel =>
        obtain ⟨u0, hu0, hz0⟩ := ha3 (b ++ c)
        obtain ⟨u1, hu1, hz1⟩ := hb3 c
        cases a with
        | nil => exact absurd rfl ha2
        | cons hd tl =>
          simp only [List.cons_append, List.append_assoc] at hu0 ⊢
          have hlat : chk32 (start.1 + unzig u0) = some e.1 := by
            rw [hz0]
            have : start.1 + (e.1 - start.1) = e.1 := by omega
            rw [this]; exact chk32_some (by simp only [I32_MIN]; omega) (by simp only [I32_MAX]; omega)
          have hlng : chk32 (start.2 + unzig u1) = some e.2 := by
            rw [hz1]
            have : start.2 + (e.2 - start.2) = e.2 := by omega
            rw [this]; exact chk32_some (by simp only [I32_MIN]; omega) (by simp only [I32_MAX]; omega)
          simp only [decodeLoop, hu0, hlat, hu1, hlng]
          rw [hc3 fuel (by simpa using hf)]

/-- `polyline_int_roundtrip` -/
theorem polyline_int_roundtrip (xs : List (Int × Int)) (h : ∀ p ∈ xs, InRange p) :
    ∃ cs, encodeInts xs = some cs ∧ decodeInts cs = some xs := by
  obtain ⟨cs, h1, h2, h3⟩ := line_roundtrip xs (0, 0) (by simp [InRange]) h
  exact ⟨cs, h1, h3 cs.length h2⟩

end Tbx.Proofs.Polyline
