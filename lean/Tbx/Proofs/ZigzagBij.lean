import Tbx.Model.Zigzag
import Tbx.Spec.Codes
/-
Zigzag: the bit-level encoder of /repo (`Tbx.Zigzag.zigzagEncode`) and the standard decoder are
inverse bijections of the 32-bit words, and the encoder is the arithmetic interleaving
`Tbx.Spec.zigzagNat`.  Core Lean only; bit-by-bit extensionality, no SAT procedure.
-/
namespace Tbx.Proofs.Zigzag
open Tbx Tbx.Zigzag Tbx.Spec

theorem and_one (n : BitVec 32) : n &&& 1#32 = if n[0] then 1#32 else 0#32 := by
  ext i hi
  by_cases h0 : n[0] = true
  · simp only [h0, if_true, BitVec.getElem_and, BitVec.getElem_one]
    by_cases hz : i = 0
    · subst hz; simp [h0]
    · simp [hz]
  · simp only [h0, BitVec.getElem_and, BitVec.getElem_one]
    by_cases hz : i = 0
    · subst hz; simp [h0]
    · simp [hz]

/-- `-(n & 1)` is all ones or all zeros according to bit 0 -/
theorem neg_and_one (n : BitVec 32) : -(n &&& 1#32) = BitVec.fill 32 n[0] := by
  rw [and_one]
  by_cases h0 : n[0] = true
  · simp only [h0, if_true]; decide
  · have : n[0] = false := by simpa using h0
    simp only [this]; decide

/-- the arithmetic shift by 31 replicates the sign bit -/
theorem sshift31 (v : BitVec 32) : v.sshiftRight 31 = BitVec.fill 32 v.msb := by
  ext i hi
  rw [BitVec.getElem_sshiftRight, BitVec.getElem_fill]
  by_cases h0 : i = 0
  · subst h0
    simp [BitVec.msb_eq_getLsbD_last]
  · have : ¬ (31 + i < 32) := by omega
    simp [this]

theorem enc_bit (v : BitVec 32) (i : Nat) (hi : i < 32) :
    (zigzagEncode v)[i] = ((!decide (i < 1) && v[i - 1]) ^^ v.msb) := by
  unfold zigzagEncode
  rw [sshift31, BitVec.getElem_xor, BitVec.getElem_shiftLeft, BitVec.getElem_fill]

theorem dec_bit (n : BitVec 32) (i : Nat) (hi : i < 32) :
    (zigzagDecode n)[i] = (n.getLsbD (1 + i) ^^ n[0]) := by
  unfold zigzagDecode
  rw [neg_and_one, BitVec.getElem_xor, BitVec.getElem_ushiftRight, BitVec.getElem_fill]

theorem decode_encode (v : BitVec 32) : zigzagDecode (zigzagEncode v) = v := by
  ext i hi
  rw [dec_bit _ i hi]
  have h0 : (zigzagEncode v)[0] = v.msb := by rw [enc_bit v 0 (by omega)]; simp
  rw [h0]
  by_cases h31 : i = 31
  · subst h31
    have : (zigzagEncode v).getLsbD (1 + 31) = false := by simp
    rw [this]
    simp [BitVec.msb_eq_getLsbD_last]
  · have hlt : 1 + i < 32 := by omega
    rw [BitVec.getLsbD_eq_getElem hlt, enc_bit v (1 + i) hlt]
    have : ¬ (1 + i < 1) := by omega
    simp [this]

theorem encode_decode (n : BitVec 32) : zigzagEncode (zigzagDecode n) = n := by
  ext i hi
  rw [enc_bit _ i hi]
  have hm : (zigzagDecode n).msb = n[0] := by
    rw [BitVec.msb_eq_getLsbD_last]
    show (zigzagDecode n).getLsbD 31 = n[0]
    rw [BitVec.getLsbD_eq_getElem (by omega : 31 < 32), dec_bit n 31 (by omega)]
    simp
  rw [hm]
  by_cases h0 : i = 0
  · subst h0; simp
  · have h1 : ¬ (i < 1) := by omega
    have hlt : i - 1 < 32 := by omega
    rw [dec_bit n (i - 1) hlt]
    have : 1 + (i - 1) = i := by omega
    rw [this, BitVec.getLsbD_eq_getElem hi]
    simp [h1]

/-- the encoder is the arithmetic interleaving 0, -1, 1, -2, … ↦ 0, 1, 2, 3, … -/
theorem encode_arith (v : BitVec 32) : (zigzagEncode v).toNat = zigzagNat v.toInt := by
  unfold zigzagEncode
  rw [sshift31]
  by_cases hm : v.msb = true
  · have hge : 2 ^ 31 ≤ v.toNat := by
      have := (BitVec.msb_eq_true_iff_two_mul_ge).mp hm
      omega
    have hlt := v.isLt
    have hfill : BitVec.fill 32 true = BitVec.allOnes 32 := by decide
    rw [hm, hfill, BitVec.xor_allOnes, BitVec.toNat_not, BitVec.toNat_shiftLeft]
    have hint : v.toInt = (v.toNat : Int) - 2 ^ 32 := by
      rw [BitVec.toInt_eq_msb_cond]; simp [hm]
    unfold zigzagNat
    rw [hint]
    have e1 : v.toNat <<< 1 % 2 ^ 32 = 2 * v.toNat - 2 ^ 32 := by
      rw [Nat.shiftLeft_eq]; omega
    rw [e1]
    have hneg : ¬ (0 : Int) ≤ (v.toNat : Int) - 2 ^ 32 := by omega
    rw [if_neg hneg]
    omega
  · have hm' : v.msb = false := by simpa using hm
    have hlt : v.toNat < 2 ^ 31 := by
      have := (BitVec.msb_eq_false_iff_two_mul_lt).mp hm'
      omega
    have hfill : BitVec.fill 32 false = 0#32 := by decide
    rw [hm', hfill, BitVec.xor_zero, BitVec.toNat_shiftLeft]
    have hint : v.toInt = (v.toNat : Int) := by
      rw [BitVec.toInt_eq_msb_cond]; simp [hm']
    unfold zigzagNat
    rw [hint, Nat.shiftLeft_eq]
    have hpos : (0 : Int) ≤ (v.toNat : Int) := by omega
    rw [if_pos hpos]
    omega

end Tbx.Proofs.Zigzag
