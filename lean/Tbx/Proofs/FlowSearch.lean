import Tbx.Proofs.FlowGraph
/-
The single-source single-target search of the EdmondsKarp / FordFulkerson models (`relax`, `searchLoop`,
`search`, `pathIter`), for ANY pop discipline (`Vec::pop` for the DFS struct, `pop_front` for the BFS
struct):

  search_found : result `true`  ⇒ the parent pointers form a tree rooted at the source whose edges are
                 residual edges of positive capacity, and the target is in it
  pathIter_spec: the parent chain from a tree node is a simple path to the source along such edges
  search_none  : result `false` ⇒ the target is not reachable through positive residual edges
Core Lean only.
-/
namespace Tbx.Flow
open Tbx

def Marked (ps : Array Nat) (v : Nat) : Prop := gt ps v ≠ INV

/-- parent pointers form a forest rooted at `s` along positive residual edges -/
def Tree (g : Graph) (s : Nat) (ps : Array Nat) : Prop :=
  ∃ rank : Nat → Nat, ∀ v, v < g.numNodes → v ≠ s → Marked ps v →
    gt ps v < g.numNodes ∧ Marked ps (gt ps v) ∧ rank (gt ps v) < rank v ∧ PosEdge g (gt ps v) v

theorem marked_st_mono (ps : Array Nat) (v node x : Nat) (hnode : node ≠ INV) (h : Marked ps x) :
    Marked (st ps v node) x := by
  unfold Marked at *
  rw [gt_st]; split
  · exact hnode
  · exact h

theorem tree_step {g : Graph} {s : Nat} {ps : Array Nat} (hsz : ps.size = g.numNodes) (h : Tree g s ps)
    (node v : Nat) (hnode : node < g.numNodes) (hm : Marked ps node) (hv : v < g.numNodes)
    (hun : gt ps v = INV) (he : PosEdge g node v) : Tree g s (st ps v node) := by
  obtain ⟨rank, hr⟩ := h
  refine ⟨fun x => if x = v then rank node + 1 else rank x, ?_⟩
  intro x hx hxs hmx
  have hnv : node ≠ v := fun e => hm (e ▸ hun)
  by_cases hxv : x = v
  · subst hxv
    rw [gt_st_eq _ _ _ (by omega)]
    refine ⟨hnode, ?_, ?_, he⟩
    · unfold Marked; rw [gt_st_ne _ _ _ _ (fun e => hnv e.symm)]; exact hm
    · simp [hnv]
  · have hold : Marked ps x := by
      unfold Marked at hmx ⊢; rw [gt_st_ne _ _ _ _ (fun e => hxv e.symm)] at hmx; exact hmx
    obtain ⟨a, b, c, d⟩ := hr x hx hxs hold
    rw [gt_st_ne _ _ _ _ (fun e => hxv e.symm)]
    have hpv : gt ps x ≠ v := fun e => b (e ▸ hun)
    refine ⟨a, ?_, ?_, d⟩
    · unfold Marked; rw [gt_st_ne _ _ _ _ (fun e => hpv e.symm)]; exact b
    · simp only [hxv, hpv, if_false]; exact c

/-- invariant of the search state -/
structure SInv (g : Graph) (s t : Nat) (sr : Search) : Prop where
  hsize : sr.parents.size = g.numNodes
  hs    : gt sr.parents s = s
  hsn   : s < g.numNodes
  tree  : Tree g s sr.parents
  wlOK  : ∀ v, v ∈ sr.wl → v < g.numNodes ∧ Marked sr.parents v
  noT   : ∀ v, v < g.numNodes → Marked sr.parents v → v ≠ s → v ≠ t

/-- what holds when the target has been found -/
structure SFound (g : Graph) (s t : Nat) (sr : Search) : Prop where
  hsize : sr.parents.size = g.numNodes
  hs    : gt sr.parents s = s
  hsn   : s < g.numNodes
  tree  : Tree g s sr.parents
  htn   : t < g.numNodes
  ht    : Marked sr.parents t

/-- post-condition of scanning the edges `[e, e+k)` of `node`, starting from the state `sr` -/
def RelaxPost (g : Graph) (s t : Nat) (sr : Search) (e k : Nat) : Relax → Prop
  | .cont sr' =>
      SInv g s t sr' ∧ (∀ v, Marked sr.parents v → Marked sr'.parents v) ∧
      (∀ v, v ∈ sr.wl → v ∈ sr'.wl) ∧
      (∀ e', e ≤ e' → e' < e + k → 0 < gt g.cap e' → Marked sr'.parents (gt g.tgt e')) ∧
      (∀ v, v < g.numNodes → Marked sr'.parents v → Marked sr.parents v ∨ v ∈ sr'.wl)
  | .found sr' => SFound g s t sr'

theorem relax_spec (g : Graph) (s t node : Nat) (b : Bool) (hT : TargetsOK g) (hN : g.numNodes ≤ INV)
    (hnode : node < g.numNodes) (k : Nat) :
    ∀ (e : Nat) (sr : Search), g.beginEdges node ≤ e → e + k ≤ g.beginEdges node + g.deg node →
    SInv g s t sr → Marked sr.parents node → RelaxPost g s t sr e k (relax g t node b e k sr) := by
  induction k with
  | zero =>
    intro e sr _ _ hi _
    simp only [relax, RelaxPost]
    refine ⟨hi, fun _ h => h, fun _ h => h, ?_, fun _ _ h => Or.inl h⟩
    intro e' h1 h2; omega
  | succ k ih =>
    intro e sr hr1 hr2 hi hm
    simp only [relax]
    split
    · -- filtered: capacity <= 0
      rename_i hcap
      have := ih (e + 1) sr (by omega) (by omega) hi hm
      cases hres : relax g t node b (e + 1) k sr with
      | found sr' => rw [hres] at this; exact this
      | cont sr' =>
        rw [hres] at this
        obtain ⟨a, b1, c, d, f⟩ := this
        refine ⟨a, b1, c, ?_, f⟩
        intro e' h1 h2 h3
        by_cases he : e' = e
        · subst he; omega
        · exact d e' (by omega) (by omega) h3
    · rename_i hcap
      have hpos : 0 < gt g.cap e := by omega
      have hvn : gt g.tgt e < g.numNodes := hT e hpos
      split
      · -- already seen
        rename_i hseen
        have hmv : Marked sr.parents (gt g.tgt e) := by
          rcases hseen with h1 | ⟨_, h2⟩
          · exact h1
          · unfold Marked; rw [h2]; omega
        have := ih (e + 1) sr (by omega) (by omega) hi hm
        cases hres : relax g t node b (e + 1) k sr with
        | found sr' => rw [hres] at this; exact this
        | cont sr' =>
          rw [hres] at this
          obtain ⟨a, b1, c, d, f⟩ := this
          refine ⟨a, b1, c, ?_, f⟩
          intro e' h1 h2 h3
          by_cases he : e' = e
          · subst he; exact b1 _ hmv
          · exact d e' (by omega) (by omega) h3
      · rename_i hnew
        have hun : gt sr.parents (gt g.tgt e) = INV := by
          cases Nat.decEq (gt sr.parents (gt g.tgt e)) INV with
          | isTrue h => exact h
          | isFalse h => exact absurd (Or.inl h) hnew
        have hvs : gt g.tgt e ≠ s := by
          intro hh; rw [hh, hi.hs] at hun; have := hi.hsn; omega
        have hedge : PosEdge g node (gt g.tgt e) := ⟨e, hr1, by omega, rfl, hpos⟩
        have hnI : node ≠ INV := by omega
        have htree := tree_step hi.hsize hi.tree node (gt g.tgt e) hnode hm hvn hun hedge
        have hs' : gt (st sr.parents (gt g.tgt e) node) s = s := by
          rw [gt_st_ne _ _ _ _ hvs]; exact hi.hs
        have hmv : Marked (st sr.parents (gt g.tgt e) node) (gt g.tgt e) := by
          unfold Marked; rw [gt_st_eq _ _ _ (by rw [hi.hsize]; exact hvn)]; exact hnI
        split
        · -- target found
          rename_i hvt
          exact ⟨by simp [hi.hsize], hs', hi.hsn, htree, hvt ▸ hvn, hvt ▸ hmv⟩
        · rename_i hvt
          have hi2 : SInv g s t { parents := st sr.parents (gt g.tgt e) node, wl := sr.wl ++ [gt g.tgt e] } := by
            refine ⟨by simp [hi.hsize], hs', hi.hsn, htree, ?_, ?_⟩
            · intro v hv
              rcases List.mem_append.mp hv with h1 | h1
              · exact ⟨(hi.wlOK v h1).1, marked_st_mono _ _ _ _ hnI (hi.wlOK v h1).2⟩
              · rw [List.mem_singleton] at h1; subst h1; exact ⟨hvn, hmv⟩
            · intro v hv hmk hvs'
              by_cases hvv : v = gt g.tgt e
              · rw [hvv]; exact hvt
              · apply hi.noT v hv _ hvs'
                unfold Marked at hmk ⊢
                rw [gt_st_ne _ _ _ _ (fun e => hvv e.symm)] at hmk; exact hmk
          have := ih (e + 1) _ (by omega) (by omega) hi2 (marked_st_mono _ _ _ _ hnI hm)
          cases hres : relax g t node b (e + 1) k
              { parents := st sr.parents (gt g.tgt e) node, wl := sr.wl ++ [gt g.tgt e] } with
          | found sr' => rw [hres] at this; exact this
          | cont sr' =>
            rw [hres] at this
            obtain ⟨a, b1, c, d, f⟩ := this
            refine ⟨a, fun v hv => b1 v (marked_st_mono _ _ _ _ hnI hv),
              fun v hv => c v (List.mem_append_left _ hv), ?_, ?_⟩
            · intro e' h1 h2 h3
              by_cases he : e' = e
              · subst he; exact b1 _ hmv
              · exact d e' (by omega) (by omega) h3
            · intro v hv hmk
              rcases f v hv hmk with h1 | h1
              · by_cases hvv : v = gt g.tgt e
                · right; rw [hvv]; exact c _ (List.mem_append_right _ (List.mem_singleton.mpr rfl))
                · left
                  unfold Marked at h1 ⊢
                  rw [gt_st_ne _ _ _ _ (fun e => hvv e.symm)] at h1; exact h1
              · exact Or.inr h1

/-- a pop discipline only has to return a member and keep the others -/
def PopOK (pop : List Nat → Option (Nat × List Nat)) : Prop :=
  (∀ l, pop l = none → l = []) ∧
  (∀ l u rest, pop l = some (u, rest) → ∀ x, x ∈ l ↔ x = u ∨ x ∈ rest)

theorem popFront_ok : PopOK popFront := by
  constructor
  · intro l h; cases l with
    | nil => rfl
    | cons a r => simp [popFront] at h
  · intro l u rest h x
    cases l with
    | nil => simp [popFront] at h
    | cons a r =>
      simp only [popFront, Option.some.injEq, Prod.mk.injEq] at h
      obtain ⟨rfl, rfl⟩ := h
      exact List.mem_cons

theorem popBack_ok : PopOK popBack := by
  constructor
  · intro l h
    unfold popBack at h
    split at h
    · rename_i hl; exact List.getLast?_eq_none_iff.mp hl
    · cases h
  · intro l u rest h x
    unfold popBack at h
    split at h
    · cases h
    · rename_i y hy
      simp only [Option.some.injEq, Prod.mk.injEq] at h
      obtain ⟨rfl, rfl⟩ := h
      have hl : l = l.dropLast ++ [y] := by
        have hne : l ≠ [] := by intro e; subst e; simp at hy
        have := List.dropLast_concat_getLast hne
        rw [List.getLast?_eq_some_getLast hne] at hy
        simp only [Option.some.injEq] at hy
        rw [hy] at this; exact this.symm
      constructor
      · intro hx
        rw [hl] at hx
        rcases List.mem_append.mp hx with h1 | h1
        · exact Or.inr h1
        · exact Or.inl (List.mem_singleton.mp h1)
      · intro hx
        rw [hl]
        rcases hx with rfl | h1
        · exact List.mem_append_right _ (List.mem_singleton.mpr rfl)
        · exact List.mem_append_left _ h1

/-- marked nodes are on the worklist or have all their positive out-edges marked -/
def SClosed (g : Graph) (sr : Search) : Prop :=
  ∀ v, v < g.numNodes → Marked sr.parents v → v ∈ sr.wl ∨ ∀ w, PosEdge g v w → Marked sr.parents w

theorem searchLoop_spec (g : Graph) (s t : Nat) (pop : List Nat → Option (Nat × List Nat)) (hp : PopOK pop)
    (hT : TargetsOK g) (hN : g.numNodes ≤ INV) (fuel : Nat) :
    ∀ (sr : Search) (res : Bool) (sr' : Search), SInv g s t sr → SClosed g sr →
    searchLoop g t pop fuel sr = some (res, sr') →
    (res = true → SFound g s t sr') ∧
    (res = false → SInv g s t sr' ∧ ∀ v, v < g.numNodes → Marked sr'.parents v →
        ∀ w, PosEdge g v w → Marked sr'.parents w) := by
  induction fuel with
  | zero => intro sr res sr' _ _ h; simp [searchLoop] at h
  | succ fuel ih =>
    intro sr res sr' hi hc h
    simp only [searchLoop] at h
    split at h
    · rename_i hpop
      simp only [Option.some.injEq, Prod.mk.injEq] at h
      obtain ⟨rfl, rfl⟩ := h
      refine ⟨fun hh => (by cases hh), fun _ => ⟨hi, ?_⟩⟩
      intro v hv hm
      rcases hc v hv hm with h1 | h1
      · rw [hp.1 _ hpop] at h1; cases h1
      · exact h1
    · rename_i node rest hpop
      have hnodeIn : node ∈ sr.wl := (hp.2 _ _ _ hpop node).mpr (Or.inl rfl)
      obtain ⟨hnn, hnm⟩ := hi.wlOK node hnodeIn
      have hi1 : SInv g s t { sr with wl := rest } :=
        ⟨hi.hsize, hi.hs, hi.hsn, hi.tree,
          fun v hv => hi.wlOK v ((hp.2 _ _ _ hpop v).mpr (Or.inr hv)), hi.noT⟩
      have hpost := relax_spec g s t node (gt sr.parents node == node) hT hN hnn (g.deg node)
        (g.beginEdges node) { sr with wl := rest } (Nat.le_refl _) (Nat.le_refl _) hi1 hnm
      split at h
      · rename_i srf hres
        rw [hres] at hpost
        simp only [Option.some.injEq, Prod.mk.injEq] at h
        obtain ⟨rfl, rfl⟩ := h
        exact ⟨fun _ => hpost, fun hh => (by cases hh)⟩
      · rename_i src hres
        rw [hres] at hpost
        obtain ⟨a, b1, c, d, f⟩ := hpost
        apply ih src res sr' a _ h
        intro v hv hm
        rcases f v hv hm with h1 | h1
        · rcases hc v hv h1 with h2 | h2
          · rcases (hp.2 _ _ _ hpop v).mp h2 with rfl | h3
            · right
              intro w ⟨e, h4, h5, h6, h7⟩
              rw [← h6]; exact d e h4 h5 h7
            · left; exact c v h3
          · right; intro w hw; exact b1 w (h2 w hw)
        · exact Or.inl h1

theorem replicate_gt (n : Nat) (v : Nat) (hv : v < n) : gt (Array.replicate n INV) v = INV := by
  unfold gt; simp [Array.getD_eq_getD_getElem?, hv]

theorem search_init (g : Graph) (s t : Nat) (hs : s < g.numNodes) (hN : g.numNodes ≤ INV) :
    SInv g s t { parents := st (Array.replicate g.numNodes INV) s s, wl := [s] } ∧
    SClosed g { parents := st (Array.replicate g.numNodes INV) s s, wl := [s] } := by
  have hms : ∀ v, v < g.numNodes → Marked (st (Array.replicate g.numNodes INV) s s) v → v = s := by
    intro v hv hm
    unfold Marked at hm
    rw [gt_st] at hm
    split at hm
    · rename_i hh; exact hh.1.symm
    · exact absurd (replicate_gt _ v hv) hm
  constructor
  · refine ⟨by simp, by rw [gt_st_eq]; simp [hs], hs, ⟨fun _ => 0, ?_⟩, ?_, ?_⟩
    · intro v hv hvs hm; exact absurd (hms v hv hm) hvs
    · intro v hv
      rw [List.mem_singleton] at hv; subst hv
      refine ⟨hs, ?_⟩
      unfold Marked; rw [gt_st_eq _ _ _ (by simp [hs])]; omega
    · intro v hv hm hvs; exact absurd (hms v hv hm) hvs
  · intro v hv hm
    left; rw [hms v hv hm]; exact List.mem_singleton.mpr rfl

/-- result `true`: parent tree along positive edges containing the target -/
theorem search_found (g : Graph) (s t : Nat) (pop : List Nat → Option (Nat × List Nat)) (hp : PopOK pop)
    (hT : TargetsOK g) (hN : g.numNodes ≤ INV) (hs : s < g.numNodes) (sr : Search)
    (h : search g s t pop = some (true, sr)) : SFound g s t sr := by
  obtain ⟨hi, hc⟩ := search_init g s t hs hN
  exact (searchLoop_spec g s t pop hp hT hN _ _ true sr hi hc h).1 rfl

/-- result `false`: the target is not reachable through residual edges of positive capacity -/
theorem search_none (g : Graph) (s t : Nat) (pop : List Nat → Option (Nat × List Nat)) (hp : PopOK pop)
    (hT : TargetsOK g) (hN : g.numNodes ≤ INV) (hs : s < g.numNodes) (hst : s ≠ t) (sr : Search)
    (h : search g s t pop = some (false, sr)) : ¬ ReachG g s t := by
  obtain ⟨hi, hc⟩ := search_init g s t hs hN
  obtain ⟨hi', hcl⟩ := (searchLoop_spec g s t pop hp hT hN _ _ false sr hi hc h).2 rfl
  intro hr
  have hall : ∀ v, ReachG g s v → v < g.numNodes ∧ Marked sr.parents v := by
    intro v hv
    induction hv with
    | refl => exact ⟨hs, by unfold Marked; rw [hi'.hs]; omega⟩
    | step _ he ih =>
      obtain ⟨e, _, _, h3, h4⟩ := he
      exact ⟨h3 ▸ hT e h4, hcl _ ih.1 ih.2 _ ⟨e, by assumption, by assumption, h3, h4⟩⟩
  obtain ⟨a, b⟩ := hall t hr
  exact hi'.noT t a b (fun e => hst e.symm) rfl

/-- the parent chain from a tree node: a simple path to the source along positive edges -/
theorem pathIter_spec (g : Graph) (s : Nat) (ps : Array Nat) (hs : gt ps s = s) (hN : g.numNodes ≤ INV)
    (rank : Nat → Nat)
    (hr : ∀ v, v < g.numNodes → v ≠ s → Marked ps v →
      gt ps v < g.numNodes ∧ Marked ps (gt ps v) ∧ rank (gt ps v) < rank v ∧ PosEdge g (gt ps v) v)
    (fuel : Nat) : ∀ (x : Nat) (path : List Nat), x < g.numNodes → Marked ps x →
    pathIter ps fuel x = some path →
    ∃ tail, path = x :: tail ∧ (∀ y, y ∈ tail → rank y < rank x) ∧ path.Nodup ∧
      path.getLast? = some s ∧ (∀ y, y ∈ path → y < g.numNodes) ∧
      (∀ ab, ab ∈ windows path → PosEdge g ab.2 ab.1) := by
  induction fuel with
  | zero => intro x path _ _ h; simp [pathIter] at h
  | succ fuel ih =>
    intro x path hx hm h
    simp only [pathIter] at h
    split at h
    · omega
    · split at h
      · rename_i hxp
        cases h
        have hxs : x = s := by
          cases Nat.decEq x s with
          | isTrue h => exact h
          | isFalse hne =>
            have := (hr x hx hne hm).2.2.1
            rw [← hxp] at this; omega
        refine ⟨[], rfl, fun _ h => (by cases h), (by simp), (by simp [hxs]), ?_, ?_⟩
        · intro y hy; rw [List.mem_singleton] at hy; omega
        · intro ab hab; simp [windows] at hab
      · rename_i hxp
        have hxs : x ≠ s := fun e => hxp (by rw [e, hs])
        obtain ⟨a, b, c, d⟩ := hr x hx hxs hm
        cases hrec : pathIter ps fuel (gt ps x) with
        | none => rw [hrec] at h; cases h
        | some p' =>
          rw [hrec] at h
          simp only [Option.map_some, Option.some.injEq] at h
          obtain ⟨tail', e1, e2, e3, e4, e5, e6⟩ := ih (gt ps x) p' a b hrec
          subst h
          refine ⟨p', rfl, ?_, ?_, ?_, ?_, ?_⟩
          · intro y hy
            rw [e1] at hy
            rcases List.mem_cons.mp hy with rfl | h1
            · exact c
            · have := e2 y h1; omega
          · rw [List.nodup_cons]
            refine ⟨?_, e3⟩
            intro hin
            rw [e1] at hin
            rcases List.mem_cons.mp hin with h1 | h1
            · rw [← h1] at c; omega
            · have := e2 x h1; omega
          · rw [e1] at e4 ⊢; simpa using e4
          · intro y hy
            rcases List.mem_cons.mp hy with rfl | h1
            · exact hx
            · exact e5 y h1
          · intro ab hab
            rw [e1] at hab
            simp only [windows, List.mem_cons] at hab
            rcases hab with rfl | h1
            · exact d
            · apply e6; rw [e1]; exact h1

end Tbx.Flow
