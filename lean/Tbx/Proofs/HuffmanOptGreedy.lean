import Tbx.Proofs.HuffmanOptDefs
import Tbx.Proofs.HuffmanCodes
/-
Huffman optimality, part "the constructions are greedy": a potential-function argument.
`Phi F = Σ interior weights of the forest F + optCost (root weights of F)` is unchanged when two trees of
minimal root weight are merged (`optCost_merge`); it starts as `optCost (table)` on the leaves and ends as the
interior-weight sum of the single final tree, which is the weighted length of its code book (`Good.final`).
Core Lean only.
-/
namespace Tbx.Huffman
open Tbx.Spec.Huff

def Tree.WF : Tree → Prop
  | .leaf _ _ => True
  | .node f l r => f = l.freq + r.freq ∧ l.WF ∧ r.WF

/-- sum of the weights of the interior nodes -/
def Tree.ic : Tree → Int
  | .leaf _ _ => 0
  | .node f l r => l.ic + r.ic + f

/-- weighted depth of the leaves, counted from depth `d` -/
def Tree.dc : Tree → Int → Int
  | .leaf _ f, d => f * d
  | .node _ l r, d => l.dc (d + 1) + r.dc (d + 1)

/-- leaves as (symbol, frequency) pairs, in code-book order -/
def Tree.entries : Tree → List (Nat × Int)
  | .leaf s f => [(s, f)]
  | .node _ l r => r.entries ++ l.entries

theorem Tree.dc_eq (t : Tree) (h : t.WF) (d : Int) : t.dc d = d * t.freq + t.ic := by
  induction t generalizing d with
  | leaf s f => simp [Tree.dc, Tree.freq, Tree.ic, Int.mul_comm]
  | node f l r ihl ihr =>
    obtain ⟨hf, hl, hr⟩ := h
    simp only [Tree.dc, Tree.freq, Tree.ic, ihl hl, ihr hr, hf]
    rw [Int.add_mul, Int.add_mul, Int.mul_add, Int.one_mul, Int.one_mul]
    omega

theorem cost_append (v : List (Nat × Int)) (b1 b2 : Book) : cost v (b1 ++ b2) = cost v b1 + cost v b2 := by
  simp [cost, List.map_append, List.sum_append]

theorem freqOf_mem (v : List (Nat × Int)) (hnd : (v.map (·.1)).Nodup) (e : Nat × Int) (he : e ∈ v) :
    freqOf v e.1 = e.2 := by
  induction v with
  | nil => cases he
  | cons x xs ih =>
    simp only [List.map_cons, List.nodup_cons] at hnd
    rcases List.mem_cons.mp he with rfl | hmem
    · simp [freqOf, List.find?]
    · have hne : x.1 ≠ e.1 := by
        intro heq
        exact hnd.1 (heq ▸ List.mem_map_of_mem hmem)
      have := ih hnd.2 hmem
      simp only [freqOf, List.find?] at this ⊢
      have hb : (x.1 == e.1) = false := by simpa using hne
      rw [hb]
      exact this

theorem cost_codesRec (v : List (Nat × Int)) (t : Tree) (p : Code)
    (h : ∀ e ∈ t.entries, freqOf v e.1 = e.2) : cost v (codesRec t p) = t.dc p.length := by
  induction t generalizing p with
  | leaf s f =>
    have := h (s, f) (by simp [Tree.entries])
    simp [codesRec, cost, Tree.dc, this]
  | node f l r ihl ihr =>
    simp only [codesRec, cost_append, Tree.dc]
    rw [ihr (p ++ [true]) (fun e he => h e (by simp [Tree.entries, he])),
      ihl (p ++ [false]) (fun e he => h e (by simp [Tree.entries, he]))]
    simp only [List.length_append, List.length_cons, List.length_nil]
    push_cast
    omega

def entriesL (F : List Tree) : List (Nat × Int) := F.flatMap Tree.entries

/-- potential: interior weights so far + the greedy optimum of what is left to merge -/
def Phi (F : List Tree) : Int := (F.map Tree.ic).sum + optCost (F.map Tree.freq)

structure Good (v : List (Nat × Int)) (F : List Tree) : Prop where
  wf : ∀ t ∈ F, t.WF
  phi : Phi F = optCost (v.map (·.2))
  ent : (entriesL F).Perm v

theorem Phi_perm {F F' : List Tree} (h : F.Perm F') : Phi F = Phi F' := by
  unfold Phi
  rw [sum_perm (h.map _), optCost_perm (h.map _)]

theorem Good.perm {v : List (Nat × Int)} {F F' : List Tree} (h : F.Perm F') (g : Good v F) : Good v F' :=
  ⟨fun t ht => g.wf t (h.mem_iff.mpr ht), (Phi_perm h).symm.trans g.phi,
    (List.Perm.flatMap_right _ h.symm).trans g.ent⟩

theorem Good.init (v : List (Nat × Int)) : Good v (Huffman.leaves v) := by
  refine ⟨?_, ?_, ?_⟩
  · intro t ht
    simp only [leaves, List.mem_map] at ht
    obtain ⟨e, _, rfl⟩ := ht
    trivial
  · have h3 : (v.map (fun _ => (0:Int))).sum = 0 := by
      induction v with
      | nil => rfl
      | cons _ _ ih => simp [ih]
    have h1 : (leaves v).map Tree.ic = v.map (fun _ => (0:Int)) := by
      simp [leaves, Tree.ic]
    have h2 : (leaves v).map Tree.freq = v.map (·.2) := by
      simp [leaves, Tree.freq]
    simp only [Phi, h1, h2, h3, Int.zero_add]
  · have : entriesL (leaves v) = v := by
      induction v with
      | nil => rfl
      | cons e v ih =>
        simp only [entriesL, leaves, List.map_cons, List.flatMap_cons] at ih ⊢
        rw [ih]; rfl
    rw [this]

theorem Good.merge {v : List (Nat × Int)} {F : List Tree} (g : Good v F) (x y : Tree) (R : List Tree)
    (hp : F.Perm (x :: y :: R)) (hxy : x.freq ≤ y.freq) (hR : ∀ r ∈ R, y.freq ≤ r.freq) :
    Good v (Tree.node (x.freq + y.freq) x y :: R) := by
  have g' := g.perm hp
  refine ⟨?_, ?_, ?_⟩
  · intro t ht
    rcases List.mem_cons.mp ht with rfl | ht
    · exact ⟨rfl, g'.wf x (by simp), g'.wf y (by simp)⟩
    · exact g'.wf t (by simp [ht])
  · rw [← g'.phi]
    simp only [Phi, List.map_cons, List.sum_cons]
    rw [show (Tree.node (x.freq + y.freq) x y).ic = x.ic + y.ic + (x.freq + y.freq) from rfl,
      show (Tree.node (x.freq + y.freq) x y).freq = x.freq + y.freq from rfl]
    rw [optCost_merge x.freq y.freq (R.map Tree.freq) hxy (by
      intro r hr
      obtain ⟨t, ht, rfl⟩ := List.mem_map.mp hr
      exact hR t ht)]
    omega
  · refine List.Perm.trans ?_ g'.ent
    simp only [entriesL, List.flatMap_cons, Tree.entries]
    rw [← List.append_assoc x.entries]
    exact List.Perm.append_right _ List.perm_append_comm

theorem Good.final {v : List (Nat × Int)} {t : Tree} (g : Good v [t]) (hnd : (v.map (·.1)).Nodup) :
    cost v (codesRec t []) = optCost (v.map (·.2)) := by
  have hent : t.entries.Perm v := by simpa [entriesL] using g.ent
  rw [cost_codesRec v t [] (fun e he => freqOf_mem v hnd e (hent.mem_iff.mp he)),
    Tree.dc_eq t (g.wf t (by simp))]
  have := g.phi
  simp only [Phi, List.map_cons, List.map_nil, List.sum_cons, List.sum_nil, optCost_single] at this
  simp only [List.length_nil]
  omega

end Tbx.Huffman
