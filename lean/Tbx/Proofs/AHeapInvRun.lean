import Tbx.Proofs.AHeapInvOps
import Tbx.Proofs.AHeapInvDel
import Tbx.Proofs.AHeapInvObs
/-
C10: per-operation refinement with the preconditions phrased on the reference state, and the lift
to all histories (`reachable`).
-/
namespace Tbx.AHeap
open Tbx

/-! ### reference-state preconditions, read on the model -/

theorem lookup_none_of_not_inserted (s : Heap) (I : Inv s) (id : Int)
    (h : PQ.inserted (abs s) id = false) : lookup s.idx id = none := by
  rw [← inserted_eq s I] at h
  unfold inserted at h
  cases hl : lookup s.idx id with
  | none => rfl
  | some i =>
    rw [hl] at h
    obtain ⟨_, i2⟩ := (I.idmap id i).1 hl
    simp [i2] at h

theorem lookup_of_inserted (s : Heap) (I : Inv s) (id : Int)
    (h : PQ.inserted (abs s) id = true) : ∃ i, lookup s.idx id = some i := by
  rw [← inserted_eq s I] at h
  unfold inserted at h
  cases hl : lookup s.idx id with
  | none => rw [hl] at h; cases h
  | some i => exact ⟨i, rfl⟩

theorem lookup_of_contains (s : Heap) (I : Inv s) (id : Int) (h : PQ.contains (abs s) id = true) :
    ∃ i, lookup s.idx id = some i ∧ (gt s.nodes i).key ≠ 0 ∧
      PQ.weight (abs s) s.wmax id = (gt s.nodes i).weight := by
  have hw := weight_eq s I id
  rw [← contains_eq s I] at h
  unfold contains at h
  unfold weight at hw
  cases hl : lookup s.idx id with
  | none => rw [hl] at h; cases h
  | some i =>
    rw [hl] at h hw
    refine ⟨i, rfl, ?_, hw.symm⟩
    simpa using h

theorem size_of_len (s : Heap) (I : Inv s) (h : PQ.len (abs s) ≠ 0) : 1 < s.heap.size := by
  rw [← len_eq s I] at h
  unfold len at h; omega

/-! ### per-operation refinement -/

theorem insert_refines (s : Heap) (I : Inv s) (id w d : Int)
    (hfresh : PQ.inserted (abs s) id = false) (hw : s.wmin ≤ w) :
    Inv (insert s id w d) ∧ abs (insert s id w d) = PQ.insert (abs s) id w d ∧
    (insert s id w d).wmin = s.wmin ∧ (insert s id w d).wmax = s.wmax :=
  let r := insert_spec s I id w d (lookup_none_of_not_inserted s I id hfresh) hw
  ⟨r.1, r.2, rfl, rfl⟩

theorem decreaseKey_refines (s : Heap) (I : Inv s) (id w : Int)
    (hc : PQ.contains (abs s) id = true) (hw1 : s.wmin ≤ w) (hw2 : w ≤ PQ.weight (abs s) s.wmax id) :
    ∃ s', decreaseKey s id w = some s' ∧ Inv s' ∧ abs s' = PQ.decreaseKey (abs s) id w ∧
      s'.wmin = s.wmin ∧ s'.wmax = s.wmax := by
  obtain ⟨i, l1, l2, l3⟩ := lookup_of_contains s I id hc
  obtain ⟨s', a, b, c, _, d, e, _⟩ := decreaseKey_spec s I id w i l1 l2 hw1 (by rw [← l3]; exact hw2)
  exact ⟨s', a, b, c, d, e⟩

theorem decreaseKeyData_refines (s : Heap) (I : Inv s) (id w d : Int)
    (hc : PQ.contains (abs s) id = true) (hw1 : s.wmin ≤ w) (hw2 : w ≤ PQ.weight (abs s) s.wmax id) :
    ∃ s', decreaseKeyData s id w d = some s' ∧ Inv s' ∧
      abs s' = PQ.setData (PQ.decreaseKey (abs s) id w) id d ∧
      s'.wmin = s.wmin ∧ s'.wmax = s.wmax := by
  obtain ⟨i, l1, l2, l3⟩ := lookup_of_contains s I id hc
  obtain ⟨s', a, b, c, _, d, e⟩ := decreaseKeyData_spec s I id w d i l1 l2 hw1 (by rw [← l3]; exact hw2)
  exact ⟨s', a, b, c, d, e⟩

theorem setData_refines (s : Heap) (I : Inv s) (id d : Int) (hi : PQ.inserted (abs s) id = true) :
    ∃ s', setData s id d = some s' ∧ Inv s' ∧ abs s' = PQ.setData (abs s) id d ∧
      s'.wmin = s.wmin ∧ s'.wmax = s.wmax := by
  obtain ⟨i, l1⟩ := lookup_of_inserted s I id hi
  obtain ⟨s', a, b, c, _, d, e⟩ := setData_spec s I id d i l1
  exact ⟨s', a, b, c, d, e⟩

theorem deleteMin_refines (s : Heap) (I : Inv s) (hne : PQ.len (abs s) ≠ 0) :
    ∃ s' id, deleteMin s = some (s', id) ∧ Inv s' ∧ PQ.IsMin (abs s) id ∧
      abs s' = PQ.remove (abs s) id ∧ min? s = some id ∧ s'.wmin = s.wmin ∧ s'.wmax = s.wmax := by
  have h := size_of_len s I hne
  obtain ⟨s', a, b, c, _, d, e, _⟩ := deleteMin_spec s I h
  refine ⟨s', _, a, b, root_isMin s I h, c, ?_, d, e⟩
  unfold min?; rw [if_neg (by omega)]

theorem flush_refines (s : Heap) (I : Inv s) :
    Inv (flush s) ∧ abs (flush s) = PQ.flush (abs s) ∧ (flush s).wmin = s.wmin ∧ (flush s).wmax = s.wmax :=
  let r := flush_spec s I
  ⟨r.1, r.2.1, rfl, rfl⟩

theorem clear_refines (s : Heap) :
    Inv (clear s) ∧ abs (clear s) = PQ.clear (abs s) ∧ (clear s).wmin = s.wmin ∧ (clear s).wmax = s.wmax :=
  ⟨init_inv _ _, init_abs _ _, rfl, rfl⟩

/-- after `flush` no id is contained, every id inserted before reports removed, the heap is empty -/
theorem flush_post (s : Heap) (I : Inv s) :
    len (flush s) = 0 ∧
    ∀ id, contains (flush s) id = false ∧ (inserted s id = true → removed (flush s) id = true) ∧
      inserted (flush s) id = inserted s id ∧ weight (flush s) id = weight s id := by
  obtain ⟨I', _, hs⟩ := flush_spec s I
  refine ⟨by unfold len; omega, fun id => ?_⟩
  have hsz : (flush s).nodes.size = s.nodes.size := (flushLoop_spec _ _ _).1
  have hf := fun i => (flushLoop_spec (s.heap.size - 1) s.heap s.nodes).2 i
  have hidx : (flush s).idx = s.idx := rfl
  unfold contains removed inserted weight
  rw [hidx]
  cases hl : lookup s.idx id with
  | none => simp; rfl
  | some i =>
    obtain ⟨i1, i2⟩ := (I.idmap id i).1 hl
    have hz := flush_keys_zero s I i i1
    have hid : (gt (flush s).nodes i).id = (gt s.nodes i).id := (hf i).1
    have hw : (gt (flush s).nodes i).weight = (gt s.nodes i).weight := (hf i).2.1
    simp [hz, hid, hw]

/-! ### histories -/

inductive Op where
  | ins (id w d : Int) | dec (id w : Int) | decd (id w d : Int) | del | flush | clear | setd (id d : Int)
deriving Repr, DecidableEq

/-- one step of the model; `none` where the Rust would panic; the second component is the id
returned by `delete_min` -/
def step (s : Heap) : Op → Option (Heap × Option Int)
  | .ins id w d => some (insert s id w d, none)
  | .dec id w => (decreaseKey s id w).map fun s' => (s', none)
  | .decd id w d => (decreaseKeyData s id w d).map fun s' => (s', none)
  | .del => (deleteMin s).map fun r => (r.1, some r.2)
  | .flush => some (flush s, none)
  | .clear => some (clear s, none)
  | .setd id d => (setData s id d).map fun s' => (s', none)

/-- the precondition of an operation, read in the reference state (the property's quantifier:
fresh ids, decreases of contained ids to a weight not larger, delete_min on a non-empty queue;
weights not below `Weight::min_value()`) -/
def Pre (wmin wmax : Int) (q : PQ.Q) : Op → Prop
  | .ins id w _ => PQ.inserted q id = false ∧ wmin ≤ w
  | .dec id w => PQ.contains q id = true ∧ wmin ≤ w ∧ w ≤ PQ.weight q wmax id
  | .decd id w _ => PQ.contains q id = true ∧ wmin ≤ w ∧ w ≤ PQ.weight q wmax id
  | .del => PQ.len q ≠ 0
  | .flush => True
  | .clear => True
  | .setd id _ => PQ.inserted q id = true

/-- the reference queue's step relation: `delete_min` may return any contained id of minimal weight -/
def SpecStep (q : PQ.Q) : Op → Option Int → PQ.Q → Prop
  | .ins id w d, r, q' => r = none ∧ q' = PQ.insert q id w d
  | .dec id w, r, q' => r = none ∧ q' = PQ.decreaseKey q id w
  | .decd id w d, r, q' => r = none ∧ q' = PQ.setData (PQ.decreaseKey q id w) id d
  | .del, r, q' => ∃ id, r = some id ∧ PQ.IsMin q id ∧ q' = PQ.remove q id
  | .flush, r, q' => r = none ∧ q' = PQ.flush q
  | .clear, r, q' => r = none ∧ q' = PQ.clear q
  | .setd id d, r, q' => r = none ∧ q' = PQ.setData q id d

/-- every in-domain step of the model is a step of the reference queue and keeps the invariant -/
theorem refines_step (s : Heap) (I : Inv s) (op : Op) (hpre : Pre s.wmin s.wmax (abs s) op) :
    ∃ s' r, step s op = some (s', r) ∧ Inv s' ∧ SpecStep (abs s) op r (abs s') ∧
      s'.wmin = s.wmin ∧ s'.wmax = s.wmax := by
  cases op with
  | ins id w d =>
    obtain ⟨a, b, c, d'⟩ := insert_refines s I id w d hpre.1 hpre.2
    exact ⟨_, none, rfl, a, ⟨rfl, b⟩, c, d'⟩
  | dec id w =>
    obtain ⟨s', a, b, c, d, e⟩ := decreaseKey_refines s I id w hpre.1 hpre.2.1 hpre.2.2
    exact ⟨s', none, by simp [step, a], b, ⟨rfl, c⟩, d, e⟩
  | decd id w d =>
    obtain ⟨s', a, b, c, d', e⟩ := decreaseKeyData_refines s I id w d hpre.1 hpre.2.1 hpre.2.2
    exact ⟨s', none, by simp [step, a], b, ⟨rfl, c⟩, d', e⟩
  | del =>
    obtain ⟨s', id, a, b, c, d, _, e, f⟩ := deleteMin_refines s I hpre
    exact ⟨s', some id, by simp [step, a], b, ⟨id, rfl, c, d⟩, e, f⟩
  | flush =>
    obtain ⟨a, b, c, d⟩ := flush_refines s I
    exact ⟨_, none, rfl, a, ⟨rfl, b⟩, c, d⟩
  | clear =>
    obtain ⟨a, b, c, d⟩ := clear_refines s
    exact ⟨_, none, rfl, a, ⟨rfl, b⟩, c, d⟩
  | setd id d =>
    obtain ⟨s', a, b, c, d', e⟩ := setData_refines s I id d hpre
    exact ⟨s', none, by simp [step, a], b, ⟨rfl, c⟩, d', e⟩

/-- run a history on the model: final state and the results of the steps, `none` on a panic branch -/
def run (s : Heap) : List Op → Option (Heap × List (Option Int))
  | [] => some (s, [])
  | op :: ops =>
    match step s op with
    | none => none
    | some (s', r) =>
      match run s' ops with
      | none => none
      | some (t, rs) => some (t, r :: rs)

/-- `ops` with results `rs` is an allowed behaviour of the reference queue from `q` to `q'` -/
def SpecRun : PQ.Q → List Op → List (Option Int) → PQ.Q → Prop
  | q, [], [], q' => q' = q
  | q, op :: ops, r :: rs, q' => ∃ q1, SpecStep q op r q1 ∧ SpecRun q1 ops rs q'
  | _, _ :: _, [], _ => False
  | _, [], _ :: _, _ => False

/-- `ops` is an in-domain history for the model started in `s`: the precondition of every
operation holds in the reference state (`abs`) reached so far -/
def ValidFrom (s : Heap) : List Op → Prop
  | [] => True
  | op :: ops => Pre s.wmin s.wmax (abs s) op ∧ ∀ s' r, step s op = some (s', r) → ValidFrom s' ops

/-- purely reference-level validity: every precondition holds whichever minima are removed -/
def Valid (wmin wmax : Int) : PQ.Q → List Op → Prop
  | _, [] => True
  | q, op :: ops => Pre wmin wmax q op ∧ ∀ r q', SpecStep q op r q' → Valid wmin wmax q' ops

/-- all histories: from any state satisfying the invariant, every in-domain history runs to the
end without reaching a panic branch, ends in a state satisfying the invariant, and is a behaviour
of the reference queue ending in the abstraction of the final state -/
theorem reachable_from (ops : List Op) : ∀ (s : Heap), Inv s → ValidFrom s ops →
    ∃ s' rs, run s ops = some (s', rs) ∧ Inv s' ∧ SpecRun (abs s) ops rs (abs s') ∧
      s'.wmin = s.wmin ∧ s'.wmax = s.wmax := by
  induction ops with
  | nil => intro s I _; exact ⟨s, [], rfl, I, rfl, rfl, rfl⟩
  | cons op ops ih =>
    intro s I V
    obtain ⟨s1, r, h1, I1, S1, m1, M1⟩ := refines_step s I op V.1
    obtain ⟨s2, rs, h2, I2, S2, m2, M2⟩ := ih s1 I1 (V.2 s1 r h1)
    refine ⟨s2, r :: rs, ?_, I2, ⟨abs s1, S1, S2⟩, by rw [m2, m1], by rw [M2, M1]⟩
    simp only [run, h1, h2]

theorem valid_validFrom (ops : List Op) : ∀ (s : Heap), Inv s → Valid s.wmin s.wmax (abs s) ops →
    ValidFrom s ops := by
  induction ops with
  | nil => intro _ _ _; trivial
  | cons op ops ih =>
    intro s I V
    refine ⟨V.1, ?_⟩
    intro s' r hs
    obtain ⟨s1, r1, h1, I1, S1, m1, M1⟩ := refines_step s I op V.1
    rw [hs] at h1
    cases h1
    apply ih s' I1
    rw [m1, M1]
    exact V.2 r (abs s') S1

end Tbx.AHeap
