import Tbx.Model.GraphFiles
import Tbx.Spec.GraphText
import Tbx.Proofs.BincodeRoundtrip
/-
Which token-level lines count as a rendering of an abstract file item (`*LineOf` relations), and the
lemmas `parse (any rendering of F) = the edge list F describes` for the three formats.

The relations constrain only the views the format defines (e.g. a DIMACS comment is any line whose
first character is `c`; an arc line is `a` followed by three tokens that parse to u, v, w); everything
else about the line is arbitrary, so the theorems cover every concrete spelling (spacing, signs,
leading zeros, comment text) whose tokens parse to the stated numbers.
-/
namespace Tbx.PlierRender
open Tbx.Bincode Tbx.GraphFiles Tbx.GraphSpec

/-- element-wise relation of two lists (same length) -/
def Forall2 {α β : Type} (R : α → β → Prop) : List α → List β → Prop
  | [], [] => True
  | a :: as, b :: bs => R a b ∧ Forall2 R as bs
  | _, _ => False

def NatTok (n : Nat) (t : Tok) : Prop := t.nat? = some n

/-! ### DIMACS graph -/

def DimacsLineOf : DimacsItem → Line → Prop
  | .comment, l => l.first = some 'c'
  | .problem n _, l =>
    l.first = some 'p' ∧ ∃ t0 t1 a b rest, l.toks = t0 :: t1 :: a :: b :: rest ∧ a.nat? = some n
  | .arc u v w, l =>
    l.first = some 'a' ∧ ∃ a b d, l.rest2 = [a, b, d] ∧ a.nat? = some u ∧ b.nat? = some v ∧ d.nat? = some w

/-- the arcs that survive the self-loop filter, ids still 1-based -/
def rawArcs : List DimacsItem → List InputEdge
  | [] => []
  | .arc u v w :: r => if u = v then rawArcs r else ⟨u, v, w⟩ :: rawArcs r
  | _ :: r => rawArcs r

theorem dimacsGraphRaw_render (F : List DimacsItem) (ls : List Line) (h : Forall2 DimacsLineOf F ls) :
    dimacsGraphRaw ls = some (rawArcs F) := by
  induction F generalizing ls with
  | nil =>
    cases ls with
    | nil => rfl
    | cons l ls => simp [Forall2] at h
  | cons it F ih =>
    cases ls with
    | nil => simp [Forall2] at h
    | cons l ls =>
      obtain ⟨hl, hr⟩ := h
      have ih' := ih ls hr
      cases it with
      | comment =>
        simp only [DimacsLineOf] at hl
        simp [dimacsGraphRaw, hl, ih', rawArcs]
      | problem n m =>
        obtain ⟨hf, t0, t1, a, b, rest, ht, ha⟩ := hl
        simp [dimacsGraphRaw, hf, ht, ha, ih', rawArcs]
      | arc u v w =>
        obtain ⟨hf, a, b, d, ht, ha, hb, hd⟩ := hl
        by_cases huv : u = v
        · simp [dimacsGraphRaw, hf, ht, ha, hb, huv, ih', rawArcs]
        · simp [dimacsGraphRaw, hf, ht, ha, hb, hd, huv, ih', rawArcs, consO]

theorem shiftAll_rawArcs (F : List DimacsItem) (hwf : DimacsWF F) :
    shiftAll (rawArcs F) = some (dimacsEdges F) := by
  induction F with
  | nil => rfl
  | cons it F ih =>
    have hwf' : DimacsWF F := fun u v w hm => hwf u v w (List.mem_cons_of_mem _ hm)
    have ih' := ih hwf'
    cases it with
    | comment => simpa [rawArcs, dimacsEdges] using ih'
    | problem n m => simpa [rawArcs, dimacsEdges] using ih'
    | arc u v w =>
      have h1 := hwf u v w (by simp)
      by_cases huv : u = v
      · simpa [rawArcs, dimacsEdges, huv] using ih'
      · have hu : ¬ (u = 0 ∨ v = 0) := by omega
        simp [rawArcs, dimacsEdges, huv, shiftAll, hu, ih', consO]

theorem dimacsGraph_render (F : List DimacsItem) (ls : List Line) (h : Forall2 DimacsLineOf F ls)
    (hwf : DimacsWF F) : dimacsGraph ls = some (dimacsEdges F) := by
  simp [dimacsGraph, dimacsGraphRaw_render F ls h, shiftAll_rawArcs F hwf]

/-! ### DIMACS coordinates -/

def DimacsCoLineOf : DimacsCoItem → Line → Prop
  | .comment, l => l.first = some 'c'
  | .problem n, l => l.first = some 'p' ∧ l.tail12 = some n
  | .vertex id lon lat, l =>
    l.first = some 'v' ∧ ∃ a b d rest, l.rest2 = a :: b :: d :: rest ∧
      a.nat? = some id ∧ b.i32? = some lon ∧ d.i32? = some lat

theorem dimacsCoords_render (G : List DimacsCoItem) (ls : List Line) (h : Forall2 DimacsCoLineOf G ls) :
    GraphFiles.dimacsCoords ls = some (GraphSpec.dimacsCoords G) := by
  induction G generalizing ls with
  | nil =>
    cases ls with
    | nil => rfl
    | cons l ls => simp [Forall2] at h
  | cons it G ih =>
    cases ls with
    | nil => simp [Forall2] at h
    | cons l ls =>
      obtain ⟨hl, hr⟩ := h
      have ih' := ih ls hr
      cases it with
      | comment =>
        simp only [DimacsCoLineOf] at hl
        simp [GraphFiles.dimacsCoords, hl, ih', GraphSpec.dimacsCoords]
      | problem n =>
        obtain ⟨hf, ht⟩ := hl
        simp [GraphFiles.dimacsCoords, hf, ht, ih', GraphSpec.dimacsCoords]
      | vertex id lon lat =>
        obtain ⟨hf, a, b, d, rest, ht, ha, hb, hd⟩ := hl
        simp [GraphFiles.dimacsCoords, hf, ht, ha, hb, hd, ih', GraphSpec.dimacsCoords, consO]

/-! ### METIS -/

def MetisHeaderOf (n : Nat) (l : Line) : Prop := ∃ t rest, l.toks = t :: rest ∧ t.nat? = some n

def AdjLineOf (nbrs : List Nat) (l : Line) : Prop := Forall2 NatTok nbrs l.toks

theorem metisLine_render (n i : Nat) (nbrs : List Nat) (toks : List Tok) (h : Forall2 NatTok nbrs toks)
    (hr : ∀ t ∈ nbrs, 1 ≤ t ∧ t ≤ n) :
    metisLine n i toks = some ((nbrs.filter (fun t => t - 1 ≠ i)).map (fun t => ⟨i, t - 1, 1⟩)) := by
  induction nbrs generalizing toks with
  | nil =>
    cases toks with
    | nil => rfl
    | cons t ts => simp [Forall2] at h
  | cons x nbrs ih =>
    cases toks with
    | nil => simp [Forall2] at h
    | cons t ts =>
      obtain ⟨ht, hrest⟩ := h
      have ih' := ih ts hrest (fun t ht => hr t (List.mem_cons_of_mem _ ht))
      have hx := hr x (by simp)
      have hx0 : x ≠ 0 := by omega
      have hxn : x - 1 < n := by omega
      unfold NatTok at ht
      by_cases hs : i = x - 1
      · have : ¬ (x - 1 ≠ i) := by omega
        simp [metisLine, ht, hx0, hxn, hs]
        simpa [hs] using ih'
      · have h2 : x - 1 ≠ i := by omega
        simp [metisLine, ht, hx0, hxn, hs, h2, ih', consO]

theorem metisLoop_render (n i : Nat) (adj : List (List Nat)) (ls : List Line)
    (h : Forall2 AdjLineOf adj ls) (hlen : i + adj.length ≤ n)
    (hr : ∀ nbrs ∈ adj, ∀ t ∈ nbrs, 1 ≤ t ∧ t ≤ n) :
    metisLoop n i ls = some (metisEdgesFrom i adj) := by
  induction adj generalizing ls i with
  | nil =>
    cases ls with
    | nil => rfl
    | cons l ls => simp [Forall2] at h
  | cons nbrs adj ih =>
    cases ls with
    | nil => simp [Forall2] at h
    | cons l ls =>
      obtain ⟨hl, hrest⟩ := h
      simp only [List.length_cons] at hlen
      have hi : i < n := by omega
      have ih' := ih (i + 1) ls hrest (by omega) (fun nb hnb => hr nb (List.mem_cons_of_mem _ hnb))
      have hline := metisLine_render n i nbrs l.toks hl (hr nbrs (by simp))
      simp [metisLoop, hi, hline, ih', appendO, metisEdgesFrom]

theorem metisGraph_render (n : Nat) (adj : List (List Nat)) (l0 : Line) (ls : List Line)
    (h0 : MetisHeaderOf n l0) (h : Forall2 AdjLineOf adj ls) (hwf : MetisWF n adj) :
    metisGraph (l0 :: ls) = some (metisEdges adj) := by
  obtain ⟨t, rest, ht, hn⟩ := h0
  obtain ⟨hlen, hr⟩ := hwf
  simp [metisGraph, ht, hn, metisEdges, metisLoop_render n 0 adj ls h (by omega) hr]

/-! ### DDSG -/

def DdsgArcOf (a : DdsgArc) (l : Line) : Prop :=
  ∃ t1 t2 t3 t4, l.toks = [t1, t2, t3, t4] ∧ t1.nat? = some a.u ∧ t2.nat? = some a.v ∧
    t3.nat? = some a.w ∧ t4.i32? = some (Int.ofNat a.dir)

theorem ddsgExpand_spec (a : DdsgArc) (hd : a.dir ≤ 3) (huv : a.u ≠ a.v) :
    ddsgExpand a.u a.v a.w (Int.ofNat a.dir) = some (ddsgArcEdges a) := by
  unfold ddsgExpand ddsgArcEdges
  simp only [Int.ofNat_eq_natCast, huv, if_false]
  have : a.dir = 0 ∨ a.dir = 1 ∨ a.dir = 2 ∨ a.dir = 3 := by omega
  rcases this with h | h | h | h <;> simp [h]

theorem ddsgLoop_render (arcs : List DdsgArc) (ls : List Line) (h : Forall2 DdsgArcOf arcs ls)
    (hwf : DdsgWF arcs) : ddsgLoop ls = some (ddsgEdges arcs) := by
  induction arcs generalizing ls with
  | nil =>
    cases ls with
    | nil => rfl
    | cons l ls => simp [Forall2] at h
  | cons a arcs ih =>
    cases ls with
    | nil => simp [Forall2] at h
    | cons l ls =>
      obtain ⟨hl, hrest⟩ := h
      have ih' := ih ls hrest (fun b hb => hwf b (List.mem_cons_of_mem _ hb))
      obtain ⟨t1, t2, t3, t4, ht, h1, h2, h3, h4⟩ := hl
      by_cases huv : a.u = a.v
      · simp [ddsgLoop, ht, h1, h2, huv, ih', ddsgEdges, ddsgArcEdges]
      · have hx := ddsgExpand_spec a (hwf a (by simp)) huv
        simp only [ddsgLoop, ht, h1, h2, h3, h4, huv, if_false, hx, ih', appendO, ddsgEdges]

theorem ddsgGraph_render (arcs : List DdsgArc) (l0 l1 : Line) (ls : List Line)
    (hd : l0.isD = true) (h1 : 2 ≤ l1.toks.length) (h : Forall2 DdsgArcOf arcs ls) (hwf : DdsgWF arcs) :
    ddsgGraph (l0 :: l1 :: ls) = some (ddsgEdges arcs) := by
  unfold ddsgGraph
  simp only [hd]
  match hl : l1.toks with
  | [] => simp [hl] at h1
  | [_] => simp [hl] at h1
  | _ :: _ :: _ => simp [ddsgLoop_render arcs ls h hwf]

/-! ### sizes of the described lists (for the Vec length prefix) -/

theorem dimacsEdges_length_le (F : List DimacsItem) : (dimacsEdges F).length ≤ F.length := by
  induction F with
  | nil => simp [dimacsEdges]
  | cons it F ih =>
    cases it with
    | comment => simp [dimacsEdges]; omega
    | problem n m => simp [dimacsEdges]; omega
    | arc u v w =>
      simp only [dimacsEdges]
      split <;> simp <;> omega

theorem dimacsEdges_fits (F : List DimacsItem)
    (hf : ∀ u v w, DimacsItem.arc u v w ∈ F →
      u < 18446744073709551616 ∧ v < 18446744073709551616 ∧ w < 18446744073709551616) :
    ∀ e ∈ dimacsEdges F, EdgeFits e := by
  induction F with
  | nil => intro e he; simp [dimacsEdges] at he
  | cons it F ih =>
    have ih' := ih (fun u v w hm => hf u v w (List.mem_cons_of_mem _ hm))
    cases it with
    | comment => simpa [dimacsEdges] using ih'
    | problem n m => simpa [dimacsEdges] using ih'
    | arc u v w =>
      have h1 := hf u v w (by simp)
      intro e he
      simp only [dimacsEdges] at he
      split at he
      · exact ih' e he
      · simp only [List.mem_cons] at he
        rcases he with he | he
        · subst he; unfold EdgeFits; simp only; omega
        · exact ih' e he

theorem dimacsCoords_length_le (G : List DimacsCoItem) : (GraphSpec.dimacsCoords G).length ≤ G.length := by
  induction G with
  | nil => simp [GraphSpec.dimacsCoords]
  | cons it G ih =>
    cases it <;> simp [GraphSpec.dimacsCoords] <;> omega

theorem dimacsCoords_fits (G : List DimacsCoItem)
    (hf : ∀ id lon lat, DimacsCoItem.vertex id lon lat ∈ G → I32 lon ∧ I32 lat) :
    ∀ c ∈ GraphSpec.dimacsCoords G, CoordFits c := by
  induction G with
  | nil => intro c hc; simp [GraphSpec.dimacsCoords] at hc
  | cons it G ih =>
    have ih' := ih (fun id lon lat hm => hf id lon lat (List.mem_cons_of_mem _ hm))
    cases it with
    | comment => simpa [GraphSpec.dimacsCoords] using ih'
    | problem n => simpa [GraphSpec.dimacsCoords] using ih'
    | vertex id lon lat =>
      have h1 := hf id lon lat (by simp)
      intro c hc
      simp only [GraphSpec.dimacsCoords, List.mem_cons] at hc
      rcases hc with hc | hc
      · subst hc; exact ⟨h1.2, h1.1⟩
      · exact ih' c hc

theorem metisEdgesFrom_fits (n i : Nat) (adj : List (List Nat)) (hn : n < 18446744073709551616)
    (hlen : i + adj.length ≤ n) (hr : ∀ nbrs ∈ adj, ∀ t ∈ nbrs, 1 ≤ t ∧ t ≤ n) :
    ∀ e ∈ metisEdgesFrom i adj, EdgeFits e := by
  induction adj generalizing i with
  | nil => intro e he; simp [metisEdgesFrom] at he
  | cons nbrs adj ih =>
    simp only [List.length_cons] at hlen
    intro e he
    simp only [metisEdgesFrom, List.mem_append, List.mem_map, List.mem_filter] at he
    rcases he with ⟨t, ⟨ht, _⟩, rfl⟩ | he
    · have := hr nbrs (by simp) t ht
      unfold EdgeFits; simp only; omega
    · exact ih (i + 1) (by omega) (fun nb hnb => hr nb (List.mem_cons_of_mem _ hnb)) e he

theorem ddsgEdges_fits (arcs : List DdsgArc)
    (hf : ∀ a ∈ arcs, a.u < 18446744073709551616 ∧ a.v < 18446744073709551616 ∧ a.w < 18446744073709551616) :
    ∀ e ∈ ddsgEdges arcs, EdgeFits e := by
  induction arcs with
  | nil => intro e he; simp [ddsgEdges] at he
  | cons a arcs ih =>
    have h1 := hf a (by simp)
    intro e he
    simp only [ddsgEdges, List.mem_append] at he
    rcases he with he | he
    · unfold ddsgArcEdges at he
      split at he
      · simp at he
      · split at he
        · simp only [List.mem_cons, List.not_mem_nil, or_false] at he
          rcases he with rfl | rfl <;> (unfold EdgeFits; simp only; omega)
        · split at he
          · simp only [List.mem_cons, List.not_mem_nil, or_false] at he
            subst he; unfold EdgeFits; simp only; omega
          · split at he
            · simp only [List.mem_cons, List.not_mem_nil, or_false] at he
              subst he; unfold EdgeFits; simp only; omega
            · simp at he
    · exact ih (fun b hb => hf b (List.mem_cons_of_mem _ hb)) e he

end Tbx.PlierRender
