import Tbx.Proofs.DGraphBasic
/-
Invariant preservation and refinement for the slot-making block of `insert_edge` (`placeSlice`):
right spare / left spare / relocation with growth.
-/
namespace Tbx.DG
open Tbx
open Tbx.SG (InEdge EEntry maxId)

/-- left-spare branch of `insert_edge` -/
theorem left_inv (g g3 : Graph) (s F C : Nat) (hI : Inv g) (hs : s < g.numNodes)
    (hF : (gt g.nodes s).first = F) (hC : (gt g.nodes s).count = C) (hF0 : F ≠ 0)
    (hsp : (gt g.edges (F - 1)).tgt = maxId)
    (hn : g3.nodes = st g.nodes s ⟨F - 1, C⟩) (he : g3.edges = swapE g.edges (F - 1) (F + C - 1))
    (hnn : g3.numNodes = g.numNodes) (hne : g3.numEdges = g.numEdges) :
    Inv g3 ∧ (gt g3.nodes s).first + (gt g3.nodes s).count < g3.edges.size ∧
    (gt g3.edges ((gt g3.nodes s).first + (gt g3.nodes s).count)).tgt = maxId ∧
    (adjM g3 s).Perm (adjM g s) ∧ (∀ v, v ≠ s → adjM g3 v = adjM g v) := by
  have hsz := hI.size
  have hsn : s < g.nodes.size := by omega
  have hb := hI.bound s hsn
  rw [hF, hC] at hb
  have gn : ∀ v, gt g3.nodes v = if v = s then ⟨F - 1, C⟩ else gt g.nodes v := by
    intro v; rw [hn, gt_st]
    by_cases c : s = v
    · subst c; simp [hsn]
    · have : ¬ v = s := fun h => c h.symm
      simp [c, this]
  have ge : ∀ k, gt g3.edges k = if k = F + C - 1 then gt g.edges (F - 1)
      else if k = F - 1 then gt g.edges (F + C - 1) else gt g.edges k := by
    intro k; rw [he]; exact gt_swapE _ _ _ _ (by omega) (by omega)
  have esz : g3.edges.size = g.edges.size := by rw [he]; simp
  have nospare : ∀ v, ¬ owns g v (F - 1) := fun v ho => hI.used v _ ho hsp
  have ow_ne : ∀ v e, v ≠ s → (owns g3 v e ↔ owns g v e) := by
    intro v e hv; unfold owns; rw [gn, if_neg hv]
  have ow_s : ∀ e, owns g3 s e ↔ (F - 1 ≤ e ∧ e < F - 1 + C) := by
    intro e; unfold owns; rw [gn, if_pos rfl]
  have ow_s0 : ∀ e, owns g s e ↔ (F ≤ e ∧ e < F + C) := by
    intro e; unfold owns; rw [hF, hC]
  -- slots owned by other nodes are untouched
  have keep : ∀ v e, v ≠ s → owns g v e → gt g3.edges e = gt g.edges e := by
    intro v e hv ho
    rw [ge]
    have n1 : e ≠ F - 1 := fun c => nospare v (c ▸ ho)
    by_cases c : e = F + C - 1
    · exfalso
      by_cases c0 : C = 0
      · exact n1 (by omega)
      · have : owns g s e := (ow_s0 e).mpr (by omega)
        exact hv (hI.disj v s e ho this)
    · rw [if_neg c, if_neg n1]
  refine ⟨⟨?_, ?_, ?_, ?_, ?_, ?_, ?_⟩, ?_, ?_, ?_, ?_⟩
  · rw [hn, hnn]; simp; exact hI.size
  · intro v hv
    rw [hn] at hv; simp only [size_st] at hv
    rw [esz, gn]
    by_cases c : v = s
    · rw [if_pos c]; simp only; omega
    · rw [if_neg c]; exact hI.bound v hv
  · intro v hv
    rw [hnn] at hv
    rw [gn, if_neg (by omega)]; exact hI.extra v hv
  · intro u v e h1 h2
    by_cases cu : u = s <;> by_cases cv : v = s
    · omega
    · subst cu
      rw [ow_s] at h1; rw [ow_ne v e cv] at h2
      by_cases c : e = F - 1
      · subst c; exact absurd h2 (nospare v)
      · exact hI.disj _ _ e ((ow_s0 e).mpr (by omega)) h2
    · subst cv
      rw [ow_s] at h2; rw [ow_ne u e cu] at h1
      by_cases c : e = F - 1
      · subst c; exact absurd h1 (nospare u)
      · exact hI.disj _ _ e h1 ((ow_s0 e).mpr (by omega))
    · rw [ow_ne u e cu] at h1; rw [ow_ne v e cv] at h2
      exact hI.disj _ _ e h1 h2
  · intro v e ho
    by_cases cv : v = s
    · subst cv
      rw [ow_s] at ho
      rw [ge]
      by_cases c1 : e = F + C - 1
      · omega
      · rw [if_neg c1]
        by_cases c2 : e = F - 1
        · rw [if_pos c2]; exact hI.used v _ ((ow_s0 _).mpr (by omega))
        · rw [if_neg c2]; exact hI.used v _ ((ow_s0 _).mpr (by omega))
    · have ho' := (ow_ne v e cv).mp ho
      rw [keep v e cv ho']; exact hI.used v e ho'
  · intro e hlt hne'
    rw [esz] at hlt
    rw [hnn]
    rw [ge] at hne'
    by_cases c1 : e = F + C - 1
    · rw [if_pos c1] at hne'; exact absurd hsp hne'
    · rw [if_neg c1] at hne'
      by_cases c2 : e = F - 1
      · exact ⟨s, hs, (ow_s e).mpr (by omega)⟩
      · rw [if_neg c2] at hne'
        obtain ⟨v, hv, ho⟩ := hI.spare e hlt hne'
        refine ⟨v, hv, ?_⟩
        by_cases cv : v = s
        · subst cv
          have := (ow_s0 e).mp ho
          exact (ow_s e).mpr (by omega)
        · exact (ow_ne v e cv).mpr ho
  · rw [hne, hnn, hI.edges]
    exact (sumCounts_congr g.nodes g3.nodes g.numNodes (fun v _ => by
      rw [gn]; split
      · rename_i c; subst c; exact hC.symm
      · rfl)).symm
  · rw [gn, if_pos rfl, esz]; simp only; omega
  · rw [gn, if_pos rfl]; simp only
    rw [ge, if_pos (by omega)]; exact hsp
  · unfold adjM
    rw [hnn, if_pos hs, if_pos hs]
    unfold adjList edgeRange beginEdges outDegree target data
    rw [gn, if_pos rfl, hF, hC]
    simp only
    cases C with
    | zero => simp
    | succ C' =>
      have e1 : List.range' (F - 1) (C' + 1) = (F - 1) :: List.range' F C' := by
        rw [List.range'_succ]; congr 1; congr 1; omega
      rw [e1, List.range'_concat, List.map_append, List.map_cons]
      have e2 : (List.range' F C').map (fun e => ((gt g3.edges e).tgt, (gt g3.edges e).data)) =
          (List.range' F C').map (fun e => ((gt g.edges e).tgt, (gt g.edges e).data)) := by
        apply List.map_congr_left
        intro e hm
        have := List.mem_range'_1.mp hm
        rw [ge, if_neg (by omega), if_neg (by omega)]
      rw [e2, ge (F - 1), if_neg (by omega), if_pos rfl]
      simp only [List.map_cons, List.map_nil, Nat.one_mul]
      have e3 : F + (C' + 1) - 1 = F + C' := by omega
      rw [e3]
      exact (List.perm_append_singleton _ _).symm
  · intro v hv
    unfold adjM
    rw [hnn]
    split
    · exact adjList_congr g g3 v (by rw [gn, if_neg hv]) (fun e ho => keep v e hv ho)
    · rfl


/-- the new slice is longer than the old one (GROWTH_FACTOR >= 1, regenerated from the source) -/
theorem growLen_gt (c : Nat) : c < growLen c := by
  unfold growLen Tbx.Gen.dynGrowthNum Tbx.Gen.dynGrowthDen
  omega

/-- relocation branch of `insert_edge` -/
theorem reloc_inv (g g3 : Graph) (s F C L : Nat) (d : Int) (hI : Inv g) (hs : s < g.numNodes)
    (hF : (gt g.nodes s).first = F) (hC : (gt g.nodes s).count = C) (hL : C < L)
    (hn : g3.nodes = st g.nodes s ⟨g.edges.size, C⟩)
    (he : g3.edges = moveLoop g.edges.size F C (g.edges ++ Array.replicate L (⟨maxId, d⟩ : EEntry)))
    (hnn : g3.numNodes = g.numNodes) (hne : g3.numEdges = g.numEdges) :
    Inv g3 ∧ (gt g3.nodes s).first + (gt g3.nodes s).count < g3.edges.size ∧
    (gt g3.edges ((gt g3.nodes s).first + (gt g3.nodes s).count)).tgt = maxId ∧
    adjM g3 s = adjM g s ∧ (∀ v, v ≠ s → adjM g3 v = adjM g v) := by
  have hsz := hI.size
  have hsn : s < g.nodes.size := by omega
  have hb := hI.bound s hsn
  rw [hF, hC] at hb
  generalize hN : g.edges.size = N at *
  have gn : ∀ v, gt g3.nodes v = if v = s then ⟨N, C⟩ else gt g.nodes v := by
    intro v; rw [hn, gt_st]
    by_cases c : s = v
    · subst c; simp [hsn]
    · have : ¬ v = s := fun h => c h.symm
      simp [c, this]
  have esz : g3.edges.size = N + L := by rw [he]; simp [hN]
  have ge : ∀ k, gt g3.edges k =
      if N ≤ k ∧ k < N + C then gt g.edges (F + (k - N))
      else if F ≤ k ∧ k < F + C then ⟨maxId, d⟩
      else if k < N then gt g.edges k else if k < N + L then ⟨maxId, d⟩ else default := by
    intro k
    rw [he, gt_moveLoop _ _ _ _ (by omega) (by simp [hN]; omega)]
    simp only [gt_append_replicate, hN]
    by_cases c1 : N ≤ k ∧ k < N + C
    · rw [if_pos c1, if_pos c1, if_pos (by omega)]
    · rw [if_neg c1, if_neg c1]
      by_cases c2 : F ≤ k ∧ k < F + C
      · rw [if_pos c2, if_pos c2, if_neg (by omega), if_pos (by omega)]
      · rw [if_neg c2, if_neg c2]
  have ow_ne : ∀ v e, v ≠ s → (owns g3 v e ↔ owns g v e) := by
    intro v e hv; unfold owns; rw [gn, if_neg hv]
  have ow_s : ∀ e, owns g3 s e ↔ (N ≤ e ∧ e < N + C) := by
    intro e; unfold owns; rw [gn, if_pos rfl]
  have ow_s0 : ∀ e, owns g s e ↔ (F ≤ e ∧ e < F + C) := by
    intro e; unfold owns; rw [hF, hC]
  have ow_lt : ∀ v e, owns g v e → e < N := by
    intro v e ho
    unfold owns at ho
    by_cases c : v < g.nodes.size
    · have := hI.bound v c; omega
    · have := hI.extra v (by omega); omega
  have keep : ∀ v e, v ≠ s → owns g v e → gt g3.edges e = gt g.edges e := by
    intro v e hv ho
    have h1 := ow_lt v e ho
    have h2 : ¬ (F ≤ e ∧ e < F + C) := fun c => hv (hI.disj v s e ho ((ow_s0 e).mpr c))
    rw [ge, if_neg (by omega), if_neg h2, if_pos h1]
  refine ⟨⟨?_, ?_, ?_, ?_, ?_, ?_, ?_⟩, ?_, ?_, ?_, ?_⟩
  · rw [hn, hnn]; simp; exact hI.size
  · intro v hv
    rw [hn] at hv; simp only [size_st] at hv
    rw [esz, gn]
    by_cases c : v = s
    · rw [if_pos c]; simp only; omega
    · rw [if_neg c]; have := hI.bound v hv; omega
  · intro v hv
    rw [hnn] at hv
    rw [gn, if_neg (by omega)]; exact hI.extra v hv
  · intro u v e h1 h2
    by_cases cu : u = s <;> by_cases cv : v = s
    · omega
    · subst cu
      rw [ow_s] at h1; rw [ow_ne v e cv] at h2
      have := ow_lt v e h2; omega
    · subst cv
      rw [ow_s] at h2; rw [ow_ne u e cu] at h1
      have := ow_lt u e h1; omega
    · rw [ow_ne u e cu] at h1; rw [ow_ne v e cv] at h2
      exact hI.disj _ _ e h1 h2
  · intro v e ho
    by_cases cv : v = s
    · subst cv
      rw [ow_s] at ho
      rw [ge, if_pos ho]
      exact hI.used v _ ((ow_s0 _).mpr (by omega))
    · have ho' := (ow_ne v e cv).mp ho
      rw [keep v e cv ho']; exact hI.used v e ho'
  · intro e hlt hne'
    rw [esz] at hlt
    rw [hnn]
    rw [ge] at hne'
    by_cases c1 : N ≤ e ∧ e < N + C
    · exact ⟨s, hs, (ow_s e).mpr c1⟩
    · rw [if_neg c1] at hne'
      by_cases c2 : F ≤ e ∧ e < F + C
      · rw [if_pos c2] at hne'; exact absurd rfl hne'
      · rw [if_neg c2] at hne'
        by_cases c3 : e < N
        · rw [if_pos c3] at hne'
          obtain ⟨v, hv, ho⟩ := hI.spare e (by omega) hne'
          have cv : v ≠ s := fun c => c2 ((ow_s0 e).mp (c ▸ ho))
          exact ⟨v, hv, (ow_ne v e cv).mpr ho⟩
        · rw [if_neg c3, if_pos hlt] at hne'; exact absurd rfl hne'
  · rw [hne, hnn, hI.edges]
    exact (sumCounts_congr g.nodes g3.nodes g.numNodes (fun v _ => by
      rw [gn]; split
      · rename_i c; subst c; exact hC.symm
      · rfl)).symm
  · rw [gn, if_pos rfl, esz]; simp only; omega
  · rw [gn, if_pos rfl]; simp only
    rw [ge, if_neg (by omega), if_neg (by omega), if_neg (by omega), if_pos (by omega)]
  · unfold adjM
    rw [hnn, if_pos hs, if_pos hs]
    unfold adjList edgeRange beginEdges outDegree target data
    rw [gn, if_pos rfl, hF, hC]
    simp only
    rw [List.range'_eq_map_range, List.range'_eq_map_range, List.map_map, List.map_map]
    apply List.map_congr_left
    intro i hi
    have hi' : i < C := List.mem_range.mp hi
    simp only [Function.comp]
    rw [ge, if_pos (by omega)]
    have : F + (N + i - N) = F + i := by omega
    rw [this]
  · intro v hv
    unfold adjM
    rw [hnn]
    split
    · exact adjList_congr g g3 v (by rw [gn, if_neg hv]) (fun e ho => keep v e hv ho)
    · rfl


/-- the three branches together -/
theorem placeSlice_inv (g g3 : Graph) (s : Nat) (d : Int) (hI : Inv g) (hs : s < g.numNodes)
    (h : placeSlice g s d = some g3) :
    Inv g3 ∧ g3.numNodes = g.numNodes ∧ g3.numEdges = g.numEdges ∧
    (gt g3.nodes s).first + (gt g3.nodes s).count < g3.edges.size ∧
    (gt g3.edges ((gt g3.nodes s).first + (gt g3.nodes s).count)).tgt = maxId ∧
    (adjM g3 s).Perm (adjM g s) ∧ (∀ v, v ≠ s → adjM g3 v = adjM g v) := by
  unfold placeSlice at h
  simp only at h
  split at h
  · cases h
  · rename_i hc
    split at h
    · rename_i hr
      split at h
      · -- left spare
        rename_i hl
        have hg := Option.some.inj h
        have hsp : (gt g.edges ((gt g.nodes s).first - 1)).tgt = maxId := by
          have := hl.2; simpa [isSpare] using this
        have := left_inv g g3 s _ _ hI hs rfl rfl hl.1 hsp (by rw [← hg]) (by rw [← hg]) (by rw [← hg]) (by rw [← hg])
        exact ⟨this.1, by rw [← hg], by rw [← hg], this.2⟩
      · -- relocation
        have hg := Option.some.inj h
        have := reloc_inv g g3 s _ _ (growLen (gt g.nodes s).count) d hI hs rfl rfl (growLen_gt _)
          (by rw [← hg]) (by rw [← hg]) (by rw [← hg]) (by rw [← hg])
        exact ⟨this.1, by rw [← hg], by rw [← hg], this.2.1, this.2.2.1, List.Perm.of_eq this.2.2.2.1, this.2.2.2.2⟩
    · -- right spare
      rename_i hr
      have hg := Option.some.inj h
      subst hg
      have hr1 : (gt g.nodes s).first + (gt g.nodes s).count ≠ g.edges.size := fun c => hr (Or.inl c)
      have hr2 : (gt g.edges ((gt g.nodes s).first + (gt g.nodes s).count)).tgt = maxId := by
        have : isSpare g.edges ((gt g.nodes s).first + (gt g.nodes s).count) = true := by
          cases hq : isSpare g.edges ((gt g.nodes s).first + (gt g.nodes s).count)
          · exact absurd (Or.inr (by simp [hq])) hr
          · rfl
        simpa [isSpare] using this
      exact ⟨hI, rfl, rfl, by omega, hr2, List.Perm.refl _, fun _ _ => rfl⟩

theorem placeSlice_isSome (g : Graph) (s : Nat) (d : Int) (hI : Inv g) (hs : s < g.numNodes) :
    (placeSlice g s d).isSome := by
  have hsz := hI.size
  have hb := hI.bound s (by omega)
  unfold placeSlice
  simp only
  rw [if_neg (by omega)]
  split
  · split <;> rfl
  · rfl

end Tbx.DG
