import Tbx.Proofs.FlowAugment
import Tbx.Proofs.FlowSearch
/-
C01 `ek_ff_correct` (partial correctness of the EdmondsKarp / FordFulkerson models): the state invariant
`FInv` (well-formed CSR graph, non-negative capacities, residual invariant, conservation, accumulated flow =
value) is preserved by every iteration of `augmentLoop`, and when the search fails the accumulated flow
is the maximum flow value.  Works for any pop discipline (stack = the DFS struct, queue = the BFS struct).
-/
open Finset
namespace Tbx.Flow
open Tbx Tbx.FlowTheory

def NonNeg (g : Graph) : Prop := ∀ e, 0 ≤ gt g.cap e

theorem WF.targetsOK {g : Graph} (h : WF g) : TargetsOK g := by
  intro e hpos
  rcases Nat.lt_or_ge e g.cap.size with hlt | hge
  · exact h.tgtOK e (by rw [← h.capsz]; exact hlt)
  · rw [gt_of_ge _ _ hge] at hpos; exact absurd hpos (by decide)

theorem WF.withCap {g : Graph} (h : WF g) (c : Array Int) (hc : c.size = g.cap.size) :
    WF { g with cap := c } :=
  ⟨h.pos, h.mono, h.last, by show c.size = g.tgt.size; rw [hc, h.capsz], h.tgtOK⟩

/-- the residual function of a CSR graph on `Fin n` -/
def rF (g : Graph) (n : Nat) : Fin n → Fin n → ℤ := fun u v => rOf g u.val v.val

/-- walk indicator on node ids (same recursion as `FlowTheory.chi`) -/
def chiN : List Nat → Nat → Nat → ℤ
  | a :: b :: rest, u, v =>
      (if u = a ∧ v = b then 1 else 0) - (if u = b ∧ v = a then 1 else 0) + chiN (b :: rest) u v
  | _, _, _ => 0

theorem chiN_map {n : Nat} (p : List (Fin n)) (u v : Fin n) : chiN (p.map Fin.val) u.val v.val = chi p u v := by
  induction p with
  | nil => simp [chiN, chi]
  | cons a rest ih =>
    cases rest with
    | nil => simp [chiN, chi]
    | cons b rest =>
      simp only [List.map_cons, chiN, chi] at ih ⊢
      rw [ih]
      simp only [Fin.ext_iff]

theorem mem_windows {l : List Nat} {ab : Nat × Nat} (h : ab ∈ windows l) : ab.1 ∈ l ∧ ab.2 ∈ l := by
  induction l with
  | nil => simp [windows] at h
  | cons a tl ih =>
    cases tl with
    | nil => simp [windows] at h
    | cons b rest =>
      simp only [windows, List.mem_cons] at h
      rcases h with rfl | h
      · exact ⟨List.mem_cons_self, List.mem_cons_of_mem _ List.mem_cons_self⟩
      · have := ih h
        exact ⟨List.mem_cons_of_mem _ this.1, List.mem_cons_of_mem _ this.2⟩

theorem consec_map_val {n : Nat} (p : List (Fin n)) (ab : Fin n × Fin n) (h : ab ∈ consec p) :
    (ab.1.val, ab.2.val) ∈ windows (p.map Fin.val) := by
  induction p with
  | nil => simp [consec] at h
  | cons a tl ih =>
    cases tl with
    | nil => simp [consec] at h
    | cons b rest =>
      simp only [consec, List.mem_cons] at h
      simp only [List.map_cons, windows, List.mem_cons]
      rcases h with rfl | h
      · exact Or.inl rfl
      · exact Or.inr (ih h)

theorem exists_fin_list (n : Nat) (l : List Nat) (h : ∀ y, y ∈ l → y < n) :
    ∃ p : List (Fin n), p.map Fin.val = l := by
  induction l with
  | nil => exact ⟨[], rfl⟩
  | cons a tl ih =>
    obtain ⟨p, hp⟩ := ih (fun y hy => h y (List.mem_cons_of_mem _ hy))
    exact ⟨⟨a, h a List.mem_cons_self⟩ :: p, by simp [hp]⟩

/-! ### `pushPath` -/

theorem pushPath_spec (pf : ℤ) (path : List Nat) : ∀ (g g' : Graph), WF g →
    pushPath g pf (windows path) = some g' →
    g'.first = g.first ∧ g'.tgt = g.tgt ∧ g'.cap.size = g.cap.size ∧
    ∀ u v, rOf g' u v = rOf g u v + pf * chiN path u v := by
  induction path with
  | nil => intro g g' _ h; simp only [windows, pushPath, Option.some.injEq] at h; subst h; simp [chiN]
  | cons a tl ih =>
    cases tl with
    | nil => intro g g' _ h; simp only [windows, pushPath, Option.some.injEq] at h; subst h; simp [chiN]
    | cons b rest =>
      intro g g' hwf h
      simp only [windows, pushPath] at h
      cases h1 : g.findEdge a b with
      | none => simp [h1] at h
      | some rev =>
        cases h2 : g.findEdge b a with
        | none => simp [h1, h2] at h
        | some fwd =>
          simp only [h1, h2] at h
          obtain ⟨ha, hra, hta⟩ := findEdge_spec g a b rev h1
          obtain ⟨hb, hrb, htb⟩ := findEdge_spec g b a fwd h2
          -- first update: fwd
          have hwfA : WF { g with cap := st g.cap fwd (gt g.cap fwd - pf) } := hwf.withCap _ (by simp)
          have hA := rOf_st hwf b a fwd (gt g.cap fwd - pf) hb hrb htb
          have hB := rOf_st hwfA a b rev
            (gt (st g.cap fwd (gt g.cap fwd - pf)) rev + pf) ha hra hta
          have hwf1 : WF { g with cap := st (st g.cap fwd (gt g.cap fwd - pf)) rev (gt (st g.cap fwd (gt g.cap fwd - pf)) rev + pf) } :=
            hwf.withCap _ (by simp)
          obtain ⟨e1, e2, e3, e4⟩ := ih _ g' hwf1 h
          refine ⟨e1, e2, by rw [e3]; simp, ?_⟩
          intro u v
          rw [e4 u v]
          have hB' := hB u v
          have hA' := hA u v
          simp only at hB' hA'
          rw [hB', hA']
          simp only [chiN]
          split_ifs <;> ring

theorem pushPath_nonneg (pf : ℤ) (hpf : 0 ≤ pf) (path : List Nat) : ∀ (g g' : Graph), WF g → NonNeg g →
    path.Nodup →
    (∀ ab, ab ∈ windows path → ∀ e, g.findEdge ab.2 ab.1 = some e → pf ≤ gt g.cap e) →
    pushPath g pf (windows path) = some g' → NonNeg g' := by
  induction path with
  | nil => intro g g' _ hnn _ _ h; simp only [windows, pushPath, Option.some.injEq] at h; subst h; exact hnn
  | cons a tl ih =>
    cases tl with
    | nil => intro g g' _ hnn _ _ h; simp only [windows, pushPath, Option.some.injEq] at h; subst h; exact hnn
    | cons b rest =>
      intro g g' hwf hnn hnd hcap h
      simp only [windows, pushPath] at h
      cases h1 : g.findEdge a b with
      | none => simp [h1] at h
      | some rev =>
        cases h2 : g.findEdge b a with
        | none => simp [h1, h2] at h
        | some fwd =>
          simp only [h1, h2] at h
          obtain ⟨hb, hrb, htb⟩ := findEdge_spec g b a fwd h2
          have hfw : pf ≤ gt g.cap fwd := hcap (a, b) (by simp [windows]) fwd h2
          have hc1 : ∀ e, 0 ≤ gt (st g.cap fwd (gt g.cap fwd - pf)) e := by
            intro e; rw [gt_st]; split
            · omega
            · exact hnn e
          have hwf1 : WF { g with cap := st (st g.cap fwd (gt g.cap fwd - pf)) rev (gt (st g.cap fwd (gt g.cap fwd - pf)) rev + pf) } :=
            hwf.withCap _ (by simp)
          apply ih _ g' hwf1 _ (List.nodup_cons.mp hnd).2 _ h
          · intro e
            show 0 ≤ gt (st (st g.cap fwd (gt g.cap fwd - pf)) rev _) e
            rw [gt_st]; split
            · have := hc1 rev; omega
            · exact hc1 e
          · intro ab hab e he
            rw [findEdge_cap_irrel] at he
            have hold := hcap ab (by simp only [windows, List.mem_cons]; exact Or.inr hab) e he
            obtain ⟨_, _, hte⟩ := findEdge_spec g ab.2 ab.1 e he
            have hne : e ≠ fwd := by
              intro heq
              have h1' : ab.1 = a := by rw [← hte, heq, htb]
              have := (mem_windows hab).1
              rw [h1'] at this
              exact (List.nodup_cons.mp hnd).1 this
            show pf ≤ gt (st (st g.cap fwd (gt g.cap fwd - pf)) rev _) e
            rw [gt_st]; split
            · rename_i hh
              rw [hh.1, gt_st_ne _ _ _ _ (fun x => hne x.symm)]; omega
            · rw [gt_st_ne _ _ _ _ (fun x => hne x.symm)]; exact hold

theorem minByCap_spec (g : Graph) (ws : List (Nat × Nat)) : ∀ (m : Nat × Nat) (km : ℤ),
    minByCap g ws = some (m, km) →
    m ∈ ws ∧ windowCap g m = some km ∧ ∀ ab, ab ∈ ws → ∃ k, windowCap g ab = some k ∧ km ≤ k := by
  induction ws with
  | nil => intro m km h; simp [minByCap] at h
  | cons p tl ih =>
    cases tl with
    | nil =>
      intro m km h
      simp only [minByCap] at h
      cases hw : windowCap g p with
      | none => simp [hw] at h
      | some k =>
        simp only [hw, Option.map_some, Option.some.injEq, Prod.mk.injEq] at h
        obtain ⟨rfl, rfl⟩ := h
        refine ⟨List.mem_singleton.mpr rfl, hw, ?_⟩
        intro ab hab; rw [List.mem_singleton] at hab; subst hab; exact ⟨k, hw, Int.le_refl _⟩
    | cons q rest =>
      intro m km h
      simp only [minByCap] at h
      cases hw : windowCap g p with
      | none => simp [hw] at h
      | some k =>
        cases hr : minByCap g (q :: rest) with
        | none => simp [hw, hr] at h
        | some r =>
          obtain ⟨m', km'⟩ := r
          simp only [hw, hr] at h
          obtain ⟨i1, i2, i3⟩ := ih m' km' hr
          split at h
          · rename_i hlt
            simp only [Option.some.injEq, Prod.mk.injEq] at h
            obtain ⟨rfl, rfl⟩ := h
            refine ⟨List.mem_cons_of_mem _ i1, i2, ?_⟩
            intro ab hab
            rcases List.mem_cons.mp hab with rfl | h'
            · exact ⟨k, hw, by omega⟩
            · exact i3 ab h'
          · rename_i hge
            simp only [Option.some.injEq, Prod.mk.injEq] at h
            obtain ⟨rfl, rfl⟩ := h
            refine ⟨List.mem_cons_self, hw, ?_⟩
            intro ab hab
            rcases List.mem_cons.mp hab with rfl | h'
            · exact ⟨_, hw, Int.le_refl _⟩
            · obtain ⟨k', a1, a2⟩ := i3 ab h'
              exact ⟨k', a1, by omega⟩

/-! ### the loop invariant and the main theorem -/

structure FInv {n : Nat} (c : Fin n → Fin n → ℤ) (s t : Fin n) (g : Graph) (flow : ℤ) : Prop where
  hn   : g.numNodes = n
  wf   : WF g
  nn   : NonNeg g
  inv  : ResInv c (rF g n)
  cons : Conserved c (rF g n) s t
  val  : value (resFlow c (rF g n)) s = flow

/-- pushing `pf ≥ 0` along a simple path listed from the target back to the source, every edge of which
    exists and admits `pf`, keeps the invariant and adds `pf` to the flow -/
theorem push_finv {n : Nat} {c : Fin n → Fin n → ℤ} {s t : Fin n} (hst : s ≠ t)
    (g : Graph) (flow : ℤ) (hi : FInv c s t g flow) (path tail : List Nat) (e1 : path = t.val :: tail)
    (hnd : path.Nodup) (hlast : path.getLast? = some s.val) (hlt : ∀ y, y ∈ path → y < g.numNodes)
    (pf : ℤ) (hpf : 0 ≤ pf)
    (hcap : ∀ ab, ab ∈ windows path → ∃ e, g.findEdge ab.2 ab.1 = some e ∧ pf ≤ gt g.cap e)
    (g' : Graph) (hpush : pushPath g pf (windows path) = some g') :
    FInv c s t g' (flow + pf) ∧ g'.first = g.first ∧ g'.tgt = g.tgt := by
  obtain ⟨p1, p2, p3, p4⟩ := pushPath_spec pf path g g' hi.wf hpush
  have hcapE : ∀ ab, ab ∈ windows path → ∀ e, g.findEdge ab.2 ab.1 = some e → pf ≤ gt g.cap e := by
    intro ab hab e he
    obtain ⟨e', h1, h2⟩ := hcap ab hab
    rw [he] at h1; cases h1; exact h2
  have hnn' := pushPath_nonneg pf hpf path g g' hi.wf hi.nn hnd hcapE hpush
  have hn' : g'.numNodes = n := by unfold Graph.numNodes; rw [p1]; exact hi.hn
  have hwf' : WF g' := by
    have := hi.wf.withCap g'.cap p3
    have hg : ({ g with cap := g'.cap } : Graph) = g' := by
      cases g'; simp only at p1 p2; subst p1; subst p2; rfl
    rw [hg] at this; exact this
  -- the path as a list over Fin n
  obtain ⟨pF, hpF⟩ := exists_fin_list n path (fun y hy => by rw [← hi.hn]; exact hlt y hy)
  have hpFne : pF ≠ [] := by intro e; rw [e] at hpF; rw [e1] at hpF; cases hpF
  obtain ⟨t', rest, hcons⟩ := List.exists_cons_of_ne_nil hpFne
  have ht' : t' = t := by
    rw [hcons, e1] at hpF
    simp only [List.map_cons, List.cons.injEq] at hpF
    exact Fin.ext hpF.1
  subst ht'
  have hndF : (t' :: rest).Nodup := by
    rw [← hcons]; apply List.Nodup.of_map Fin.val; rw [hpF]; exact hnd
  have hlastF : (t' :: rest).getLast (by simp) = s := by
    have : ((t' :: rest).map Fin.val).getLast? = some s.val := by rw [← hcons, hpF]; exact hlast
    rw [List.getLast?_map] at this
    rw [List.getLast?_eq_some_getLast (by simp)] at this
    simp only [Option.map_some, Option.some.injEq] at this
    exact Fin.ext this
  have hrF : rF g' n = fun u v => rF g n u v + pf * chi (t' :: rest) u v := by
    funext u v
    show rOf g' u.val v.val = rOf g u.val v.val + pf * chi (t' :: rest) u v
    rw [p4, ← chiN_map, ← hcons, hpF]
  have hcapF : ∀ ab ∈ consec (t' :: rest), pf ≤ rF g n ab.2 ab.1 := by
    intro ab hab
    have hw := consec_map_val _ ab hab
    rw [← hcons, hpF] at hw
    obtain ⟨e, hfe, hk2⟩ := hcap _ hw
    have hfe' : g.findEdge ab.2.val ab.1.val = some e := hfe
    obtain ⟨_, hre, hte⟩ := findEdge_spec g _ _ e hfe'
    have := cap_le_rowSum g hi.nn ab.1.val _ _ e hre.1 hre.2 hte
    show pf ≤ rOf g ab.2.val ab.1.val
    unfold rOf; omega
  obtain ⟨a1, a2, a3⟩ := augment_ok_rev hst hi.inv hi.cons pf hpf rest hndF hlastF hcapF
  rw [← hrF] at a1 a2 a3
  exact ⟨⟨hn', hwf', hnn', a1, a2, by rw [a3, hi.val]⟩, p1, p2⟩

/-- one successful iteration keeps the invariant and adds the pushed amount to the flow -/
theorem augment_step {n : Nat} {c : Fin n → Fin n → ℤ} {s t : Fin n} (hst : s ≠ t) (hN : n ≤ INV)
    (g : Graph) (flow : ℤ) (hi : FInv c s t g flow) (sr : Search) (hsf : SFound g s.val t.val sr)
    (path : List Nat) (hpath : pathIter sr.parents (g.numNodes + 1) t.val = some path)
    (m : Nat × Nat) (km pf : ℤ) (hmin : minByCap g (windows path) = some (m, km))
    (hpf : windowCap g m = some pf) (hpos : ¬ pf ≤ 0) (g' : Graph)
    (hpush : pushPath g pf (windows path) = some g') :
    FInv c s t g' (flow + pf) ∧ g'.first = g.first ∧ g'.tgt = g.tgt := by
  obtain ⟨rank, hr⟩ := hsf.tree
  have hNg : g.numNodes ≤ INV := by rw [hi.hn]; exact hN
  obtain ⟨tail, e1, _, hnd, hlast, hlt, hwin⟩ :=
    pathIter_spec g s.val sr.parents hsf.hs hNg rank hr _ t.val path hsf.htn hsf.ht hpath
  obtain ⟨_, hm2, hm3⟩ := minByCap_spec g _ m km hmin
  have hkm : km = pf := by rw [hm2] at hpf; exact Option.some.inj hpf
  rw [hkm] at hm2 hm3
  refine push_finv hst g flow hi path tail e1 hnd hlast hlt pf (by omega) ?_ g' hpush
  intro ab hab
  obtain ⟨k, hk1, hk2⟩ := hm3 ab hab
  unfold windowCap at hk1
  cases hfe : g.findEdge ab.2 ab.1 with
  | none => simp [hfe] at hk1
  | some e =>
    simp only [hfe, Option.map_some, Option.some.injEq] at hk1
    exact ⟨e, rfl, by omega⟩

/-- partial correctness of the loop: it keeps the invariant, and on exit the target is unreachable -/
theorem augmentLoop_spec {n : Nat} {c : Fin n → Fin n → ℤ} {s t : Fin n} (hst : s ≠ t) (hN : n ≤ INV)
    (pop : List Nat → Option (Nat × List Nat)) (hp : PopOK pop) (fuel : Nat) :
    ∀ (g : Graph) (flow : ℤ) (augs : Nat) (g' : Graph) (flow' : ℤ) (augs' : Nat), FInv c s t g flow →
    augmentLoop pop s.val t.val fuel g flow augs = some (g', flow', augs') →
    FInv c s t g' flow' ∧ ¬ ReachG g' s.val t.val := by
  induction fuel with
  | zero => intro g flow augs g' flow' augs' _ h; simp [augmentLoop] at h
  | succ fuel ih =>
    intro g flow augs g' flow' augs' hi h
    have hNg : g.numNodes ≤ INV := by rw [hi.hn]; exact hN
    have hsn : s.val < g.numNodes := by rw [hi.hn]; exact s.isLt
    have hstv : s.val ≠ t.val := fun e => hst (Fin.ext e)
    simp only [augmentLoop] at h
    cases hsearch : search g s.val t.val pop with
    | none => simp [hsearch] at h
    | some r =>
      obtain ⟨res, sr⟩ := r
      cases res with
      | false =>
        simp only [hsearch, Option.some.injEq, Prod.mk.injEq] at h
        obtain ⟨rfl, rfl, rfl⟩ := h
        exact ⟨hi, search_none g s.val t.val pop hp hi.wf.targetsOK hNg hsn hstv sr hsearch⟩
      | true =>
        have hsf := search_found g s.val t.val pop hp hi.wf.targetsOK hNg hsn sr hsearch
        simp only [hsearch] at h
        cases hpath : pathIter sr.parents (g.numNodes + 1) t.val with
        | none => simp [hpath] at h
        | some path =>
          simp only [hpath] at h
          cases hmin : minByCap g (windows path) with
          | none => simp [hmin] at h
          | some mk =>
            obtain ⟨m, km⟩ := mk
            simp only [hmin] at h
            cases hpf : windowCap g m with
            | none => simp [hpf] at h
            | some pf =>
              simp only [hpf] at h
              split at h
              · cases h
              · rename_i hpos
                cases hpush : pushPath g pf (windows path) with
                | none => simp [hpush] at h
                | some g1 =>
                  simp only [hpush] at h
                  have hi1 := (augment_step hst hN g flow hi sr hsf path hpath m km pf hmin hpf hpos g1 hpush).1
                  exact ih g1 (flow + pf) (augs + 1) g' flow' augs' hi1 h

/-- a state satisfying the invariant in which the target is unreachable carries the maximum flow -/
theorem finv_unreachable_max {n : Nat} {c : Fin n → Fin n → ℤ} {s t : Fin n} (g : Graph) (flow : ℤ)
    (hi : FInv c s t g flow) (hun : ¬ ReachG g s.val t.val) : IsMaxFlowValue c s t flow := by
  classical
  let A : Finset (Fin n) := Finset.univ.filter fun v => ReachG g s.val v.val
  have hA : ∀ v, v ∈ A ↔ ReachG g s.val v.val := by intro v; simp [A]
  have hcl : Closed (rF g n) A := by
    intro u hu v hv
    by_contra hpos
    have hp : 0 < rOf g u.val v.val := by
      have : ¬ rF g n u v ≤ 0 := hpos
      unfold rF at this; omega
    have he := (rOf_pos_iff g hi.nn u.val v.val).mp hp
    exact hv ((hA v).mpr (ReachG.step ((hA u).mp hu) he))
  have hs : s ∈ A := (hA s).mpr ReachG.refl
  have ht : t ∉ A := fun h => hun ((hA t).mp h)
  obtain ⟨a, _, _⟩ := closed_certificate hi.inv hi.cons A hs ht hcl
  rw [hi.val] at a; exact a

/-- **ek_ff_correct** (partial correctness): from any state satisfying the invariant, a `run` of the
    EdmondsKarp / FordFulkerson model that returns reports the maximum flow value -/
theorem run_correct {n : Nat} {c : Fin n → Fin n → ℤ} {s t : Fin n} (hst : s ≠ t) (hN : n ≤ INV)
    (pop : List Nat → Option (Nat × List Nat)) (hp : PopOK pop) (sv sv' : Solver) (fuel : Nat)
    (hsrc : sv.source = s.val) (htgt : sv.target = t.val) (hi : FInv c s t sv.g sv.maxFlow)
    (h : sv.run pop fuel = some sv') :
    IsMaxFlowValue c s t sv'.maxFlow ∧ FInv c s t sv'.g sv'.maxFlow ∧ sv'.finished = true ∧
    ¬ ReachG sv'.g s.val t.val := by
  unfold Solver.run at h
  split at h
  · cases h
  · cases hl : augmentLoop pop sv.source sv.target fuel sv.g sv.maxFlow sv.augs with
    | none => simp [hl] at h
    | some r =>
      obtain ⟨g', flow', augs'⟩ := r
      simp only [hl, Option.some.injEq] at h
      subst h
      rw [hsrc, htgt] at hl
      obtain ⟨a, b⟩ := augmentLoop_spec hst hN pop hp fuel _ _ _ _ _ _ hi hl
      exact ⟨finv_unreachable_max g' flow' a b, a, rfl, b⟩

end Tbx.Flow
