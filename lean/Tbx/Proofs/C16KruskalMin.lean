import Tbx.Proofs.C16Kruskal
import Tbx.Proofs.C16Msf
/-
Kruskal returns a spanning forest of MINIMAL weight.

Invariant: some minimum spanning forest M of the input contains all edges accepted so far.
When the best remaining edge e = (a, b) is accepted and is not in M, `crit_cross` gives an
edge f of M that the accepted edges do not connect and whose removal disconnects a from b;
f has not been processed yet, so it is at least as heavy as e (the heap pops a lightest
entry); M - f + e is again a minimum spanning forest.  At the end the accepted edges are a
spanning forest inside a minimum one, hence equal to it as a multiset.  Core Lean only.
-/
namespace Tbx.Kruskal
open Tbx Tbx.UF Tbx.Comp

/-- the popped heap entry has the smallest weight -/
theorem best_min : ∀ (h : List (Nat × Nat)) (b : Nat × Nat), best h = some b → ∀ p, p ∈ h → b.1 ≤ p.1 := by
  intro h
  induction h with
  | nil => intro b hb; simp [best] at hb
  | cons x xs ih =>
    intro b hb p hp
    simp only [best] at hb
    split at hb
    · rename_i hn
      cases hb
      rcases List.mem_cons.mp hp with rfl | hp
      · exact Nat.le_refl _
      · cases xs with
        | nil => cases hp
        | cons y ys => exact absurd hn (best_ne_none _ (by simp))
    · rename_i y hy
      split at hb
      · rename_i hbt
        cases hb
        simp only [better, Bool.or_eq_true, decide_eq_true_eq, Bool.and_eq_true, beq_iff_eq] at hbt
        rcases List.mem_cons.mp hp with rfl | hp
        · rcases hbt with h | h
          · omega
          · omega
        · exact ih _ hy p hp
      · rename_i hbt
        cases hb
        simp only [better, Bool.or_eq_true, decide_eq_true_eq, Bool.and_eq_true, beq_iff_eq, not_or, not_and] at hbt
        rcases List.mem_cons.mp hp with rfl | hp
        · exact Nat.le_refl _
        · have := ih _ hy p hp
          omega

/-- the invariant carried through the loop -/
def InMsf (inp : List WEdge) (mst : Array WEdge) : Prop :=
  ∃ M, MinSpanningForest inp M ∧ ∀ x, mst.toList.count x ≤ M.count x

theorem inMsf_accept (inp : List WEdge) (l : Loop) (w idx : Nat)
    (hk : KInv inp.toArray (maxNode inp 0 + 1) (cost inp) l) (hb : best l.heap = some (w, idx))
    (hidx : idx < inp.toArray.size)
    (hn : ¬ Conn (ends l.mst.toList) (gt inp.toArray idx).1 (gt inp.toArray idx).2.1) (hP : InMsf inp l.mst) :
    InMsf inp (l.mst.push (gt inp.toArray idx)) := by
  obtain ⟨M, ⟨hM, hmin⟩, hsub⟩ := hP
  generalize he : gt inp.toArray idx = e at hn ⊢
  have heinp : e ∈ inp := by rw [← he]; simpa using gt_mem_toList hidx
  have hew : w = e.2.2 := by
    have := (hk.hidx _ (best_mem _ _ hb)).2
    simp only at this
    rw [he] at this; exact this
  have heT : e ∉ l.mst.toList := fun hh => hn (Conn.of_mem (List.mem_map.mpr ⟨e, hh, rfl⟩))
  by_cases heM : e ∈ M
  · -- M already contains e beyond the accepted edges
    refine ⟨M, ⟨hM, hmin⟩, ?_⟩
    intro x
    rw [Array.toList_push, List.count_append]
    by_cases hx : x = e
    · subst hx
      rw [List.count_eq_zero_of_not_mem heT]
      have := List.count_pos_iff.mpr heM
      simp; omega
    · have : [e].count x = 0 := List.count_eq_zero_of_not_mem (by simpa using hx)
      rw [this]; exact hsub x
  · -- exchange
    have hab : Conn (ends M) e.1 e.2.1 := (hM.spans _ _).mpr (Conn.of_mem (List.mem_map.mpr ⟨e, heinp, rfl⟩))
    obtain ⟨f', hf', hRf, hcrit⟩ := crit_cross (Conn (ends l.mst.toList)) (Conn.refl _)
      (fun _ _ h => h.symm) (fun _ _ _ h1 h2 => h1.trans h2) (ends M) e.1 e.2.1 hM.acyclic hab hn
    obtain ⟨f, hfM, rfl⟩ := List.mem_map.mp hf'
    simp only at hRf hcrit
    have hcrit' : ¬ Conn (ends (M.erase f)) e.1 e.2.1 := by
      rw [ends_erase M f hM.acyclic.nodup hfM]; exact hcrit
    obtain ⟨hM', hcost⟩ := spanningForest_exchange hM heinp hfM hcrit'
    -- f is still in the heap, so it is at least as heavy as e
    have hfinp : f ∈ inp := List.count_pos_iff.mp (Nat.lt_of_lt_of_le (List.count_pos_iff.mpr hfM) (hM.sub f))
    obtain ⟨j, hj⟩ := List.mem_iff_getElem?.mp hfinp
    have hjl : j < inp.length := by
      rcases Nat.lt_or_ge j inp.length with h | h
      · exact h
      · rw [List.getElem?_eq_none h] at hj; cases hj
    have hgj := gt_toArray inp j f hj
    have hheap : ∃ w', (w', j) ∈ l.heap := by
      apply Classical.byContradiction
      intro hno
      have := hk.proc j (by simpa using hjl) (fun w' hw' => hno ⟨w', hw'⟩)
      rw [hgj] at this
      exact hRf this
    obtain ⟨w', hw'⟩ := hheap
    have hw'f : w' = f.2.2 := by
      have := (hk.hidx _ hw').2
      simp only at this
      rw [hgj] at this; exact this
    have hle : e.2.2 ≤ f.2.2 := by
      have := best_min _ _ hb _ hw'
      simp only at this
      omega
    have hfT : f ∉ l.mst.toList := fun hh => hRf (Conn.of_mem (List.mem_map.mpr ⟨f, hh, rfl⟩))
    refine ⟨e :: M.erase f, ⟨hM', fun F' hF' => Nat.le_trans (by omega) (hmin F' hF')⟩, ?_⟩
    intro x
    rw [Array.toList_push, List.count_append]
    by_cases hx : x = e
    · subst hx
      rw [List.count_eq_zero_of_not_mem heT, List.count_cons_self]
      simp
    · have h1 : [e].count x = 0 := List.count_eq_zero_of_not_mem (by simpa using hx)
      rw [h1, List.count_cons_of_ne (Ne.symm hx), Nat.add_zero]
      by_cases hxf : x = f
      · subst hxf
        rw [List.count_eq_zero_of_not_mem hfT]; exact Nat.zero_le _
      · rw [List.count_erase_of_ne hxf]; exact hsub x

/-- `kruskal` returns a minimum spanning forest -/
theorem kruskal_min (inp : List WEdge) (htot : cost inp < 4294967296) :
    ∃ c mst, kruskal inp = some (c, mst) ∧ c = cost mst ∧ MinSpanningForest inp mst := by
  -- some spanning forest exists (the one Kruskal returns), hence a minimal one
  obtain ⟨_, T0, _, a2, a3, a4, _⟩ := kruskal_spec inp htot
  obtain ⟨M0, hM0⟩ := exists_msf (cost T0) T0 ⟨subMulti_of_acyclic a2 a3, a3, a4⟩ rfl
  obtain ⟨c, mst, h1, h2, h3, h4, h5, hP⟩ := kruskal_spec_gen inp htot (InMsf inp)
    (fun l w idx hk hb hidx hn hP => inMsf_accept inp l w idx hk hb hidx hn hP)
    ⟨M0, hM0, fun x => by simp⟩
  have hT : SpanningForest inp mst.toList := ⟨subMulti_of_acyclic h2 h3, h3, h4⟩
  obtain ⟨M, ⟨hM, hmin⟩, hsub⟩ := hP
  have hc := subforest_cost hT hM hsub
  exact ⟨c, mst.toList, h1, h5, hT, fun F' hF' => by rw [hc]; exact hmin F' hF'⟩

end Tbx.Kruskal
