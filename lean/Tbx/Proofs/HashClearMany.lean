import Tbx.Model.HashTable
/-
`clearMany` (the driver's fast path for long runs of clears) is `n` times `clear`.
-/
namespace Tbx.HashTable

theorem clearN_add (N a b : Nat) (t : Table) : clearN N (a + b) t = clearN N b (clearN N a t) := by
  induction a generalizing t with
  | zero => simp [clearN]
  | succ a ih =>
    have : a + 1 + b = (a + b) + 1 := by omega
    rw [this]; simp only [clearN]; exact ih _

theorem clear_plain (N : Nat) (t : Table) (h : t.ts + 1 < 4294967295) :
    clear N t = { cells := t.cells, ts := t.ts + 1, length := 0 } := by
  have hmod : (t.ts + 1) % 4294967296 = t.ts + 1 := Nat.mod_eq_of_lt (by omega)
  simp only [clear, hmod, u32Max]
  rw [if_neg (by omega), if_neg (by omega)]

theorem clearN_jump (N : Nat) (j : Nat) : ∀ (t : Table), 1 ≤ j → t.ts + j < 4294967295 →
    clearN N j t = { cells := t.cells, ts := t.ts + j, length := 0 } := by
  induction j with
  | zero => intro t h; omega
  | succ j ih =>
    intro t _ hlt
    simp only [clearN]
    rw [clear_plain N t (by omega)]
    by_cases hj : j = 0
    · subst hj; rfl
    · rw [ih _ (by omega) (by simp only; omega)]
      simp only [Table.mk.injEq, true_and, and_true]; omega

theorem clearMany_eq (N n : Nat) (t : Table) : clearMany N n t = clearN N n t := by
  fun_induction clearMany N n t with
  | case1 t => rfl
  | case2 n t hn hlt => exact (clearN_jump N n t (by omega) hlt).symm
  | case3 n t hn hge hlt ih =>
    rw [ih]
    have hsplit : n = (4294967294 - t.ts) + (n - (4294967294 - t.ts)) := by omega
    conv => rhs; rw [hsplit, clearN_add]
    rw [clearN_jump N (4294967294 - t.ts) t (by omega) (by omega)]
    have : t.ts + (4294967294 - t.ts) = 4294967294 := by omega
    rw [this]
  | case4 n t hn hge hge2 ih =>
    rw [ih]
    have : n = (n - 1) + 1 := by omega
    conv => rhs; rw [this]
    rfl

end Tbx.HashTable
