import Tbx.Spec.GraphText
import Mathlib.Tactic.Linarith
import Mathlib.Tactic.FieldSimp
import Mathlib.Tactic.Positivity
import Mathlib.Data.Rat.Cast.Order
/-
The judge's tolerance check is stated over the integers with the denominator cleared; this file shows
that it is the inequality over the rationals the property text speaks of.
-/
namespace Tbx.PlierRat
open Tbx.GraphSpec

theorem withinMicro_iff_rat (d : Dec) (r : Int) :
    WithinMicro d r ↔ |(r : ℚ) - 10 * (d.mant : ℚ) / (10 : ℚ) ^ d.scale| ≤ 1 := by
  have hp : (0 : ℚ) < (10 : ℚ) ^ d.scale := by positivity
  unfold WithinMicro
  rw [abs_le]
  have e1 : (r * 10 ^ d.scale - 10 * d.mant ≤ 10 ^ d.scale) ↔
      ((r : ℚ) * (10 : ℚ) ^ d.scale - 10 * (d.mant : ℚ) ≤ (10 : ℚ) ^ d.scale) := by
    rw [← Int.cast_le (R := ℚ)]; push_cast; rfl
  have e2 : (10 * d.mant - r * 10 ^ d.scale ≤ 10 ^ d.scale) ↔
      (10 * (d.mant : ℚ) - (r : ℚ) * (10 : ℚ) ^ d.scale ≤ (10 : ℚ) ^ d.scale) := by
    rw [← Int.cast_le (R := ℚ)]; push_cast; rfl
  rw [e1, e2]
  have key : (r : ℚ) - 10 * (d.mant : ℚ) / (10 : ℚ) ^ d.scale =
      ((r : ℚ) * (10 : ℚ) ^ d.scale - 10 * (d.mant : ℚ)) / (10 : ℚ) ^ d.scale := by
    field_simp
  rw [key, le_div_iff₀ hp, div_le_iff₀ hp]
  constructor
  · rintro ⟨h1, h2⟩; constructor <;> linarith
  · rintro ⟨h1, h2⟩; constructor <;> linarith

end Tbx.PlierRat
