import Tbx.Proofs.FlowEKTotal
/-
Running a finished EdmondsKarp / FordFulkerson object again: `Solver.run` starts from the stored flow counter
(`self.max_flow += path_flow`), so the model of a re-run is `Solver.run` itself.

  tree_reach       : every node marked by a search is reachable along positive residual edges
  search_unreach   : if the target is unreachable, the search returns `false` (and it returns)
  solver_rerun_fixed / solver_rerunN_fixed : in a state without an augmenting path, further runs return after
                     one search each and leave the residual graph and the flow counter as they are
-/
namespace Tbx.Flow
open Tbx Tbx.FlowTheory Tbx.FlowSpec

theorem tree_reach (g : Graph) (s : Nat) (ps : Array Nat) (ht : Tree g s ps) :
    ∀ v, v < g.numNodes → Marked ps v → ReachG g s v := by
  obtain ⟨rank, hr⟩ := ht
  have key : ∀ k v, rank v = k → v < g.numNodes → Marked ps v → ReachG g s v := by
    intro k
    induction k using Nat.strongRecOn with
    | _ k ih =>
      intro v hk hv hm
      by_cases hvs : v = s
      · subst hvs; exact ReachG.refl
      · obtain ⟨p1, p2, p3, p4⟩ := hr v hv hvs hm
        exact ReachG.step (ih (rank (gt ps v)) (by omega) (gt ps v) rfl p1 p2) p4
  intro v hv hm
  exact key (rank v) v rfl hv hm

theorem search_unreach (g : Graph) (s t : Nat) (pop : List Nat → Option (Nat × List Nat)) (hp : PopOK pop)
    (hl : PopLen pop) (hT : TargetsOK g) (hN : g.numNodes ≤ INV) (hs : s < g.numNodes)
    (hun : ¬ ReachG g s t) : ∃ sr, search g s t pop = some (false, sr) := by
  obtain ⟨r, hr⟩ := search_total g s t pop hp hl hT hN hs
  obtain ⟨b, sr⟩ := r
  cases b with
  | false => exact ⟨sr, hr⟩
  | true =>
    exfalso
    have hsf := search_found g s t pop hp hT hN hs sr hr
    exact hun (tree_reach g s sr.parents hsf.tree t hsf.htn hsf.ht)

/-- a quiescent state of the EK / FF model -/
structure QuietS {n : Nat} (c : Fin n → Fin n → ℤ) (s t : Fin n) (sv : Solver) : Prop where
  fi  : FInv c s t sv.g sv.maxFlow
  nr  : ¬ ReachG sv.g s.val t.val
  src : sv.source = s.val
  tgt : sv.target = t.val
  fin : sv.finished = true

theorem solver_rerun_fixed {n : Nat} {c : Fin n → Fin n → ℤ} {s t : Fin n} (hN : n ≤ INV)
    (pop : List Nat → Option (Nat × List Nat)) (hp : PopOK pop) (hl : PopLen pop)
    (sv : Solver) (hq : QuietS c s t sv) (k : Nat) :
    ∃ sv', sv.run pop (k + 1) = some sv' ∧ sv'.maxFlow = sv.maxFlow ∧ sv'.g = sv.g ∧ QuietS c s t sv' := by
  have hgn := hq.fi.hn
  have hs : sv.source < sv.g.numNodes := by rw [hq.src, hgn]; exact s.isLt
  have ht : sv.target < sv.g.numNodes := by rw [hq.tgt, hgn]; exact t.isLt
  have hun : ¬ ReachG sv.g sv.source sv.target := by rw [hq.src, hq.tgt]; exact hq.nr
  obtain ⟨sr, hsr⟩ := search_unreach sv.g sv.source sv.target pop hp hl hq.fi.wf.targetsOK
    (by rw [hgn]; exact hN) hs hun
  have hguard : ¬ (sv.source ≥ sv.g.numNodes ∨ sv.target ≥ sv.g.numNodes) := by omega
  have hloop : augmentLoop pop sv.source sv.target (k + 1) sv.g sv.maxFlow sv.augs
      = some (sv.g, sv.maxFlow, sv.augs) := by
    simp only [augmentLoop, hsr]
  refine ⟨{ sv with g := sv.g, maxFlow := sv.maxFlow, finished := true, augs := sv.augs }, ?_, rfl, rfl, ?_⟩
  · unfold Solver.run
    rw [if_neg hguard, hloop]
  · exact ⟨hq.fi, hq.nr, hq.src, hq.tgt, rfl⟩

theorem solver_rerunN_fixed {n : Nat} {c : Fin n → Fin n → ℤ} {s t : Fin n} (hN : n ≤ INV)
    (pop : List Nat → Option (Nat × List Nat)) (hp : PopOK pop) (hl : PopLen pop) (fuel k : Nat) :
    ∀ (sv : Solver), QuietS c s t sv →
    ∃ sv', Solver.runN pop (fuel + 1) k sv = some sv' ∧ sv'.maxFlow = sv.maxFlow ∧ sv'.g = sv.g ∧
      QuietS c s t sv' := by
  induction k with
  | zero => intro sv hq; exact ⟨sv, rfl, rfl, rfl, hq⟩
  | succ k ih =>
    intro sv hq
    obtain ⟨s1, h1, m1, g1, q1⟩ := solver_rerun_fixed hN pop hp hl sv hq fuel
    obtain ⟨s2, h2, m2, g2, q2⟩ := ih s1 q1
    refine ⟨s2, ?_, by rw [m2, m1], by rw [g2, g1], q2⟩
    simp only [Solver.runN, h1]
    exact h2

/-- a completed run ends in a quiescent state -/
theorem run_quietS {n : Nat} {c : Fin n → Fin n → ℤ} {s t : Fin n} (hst : s ≠ t) (hN : n ≤ INV)
    (pop : List Nat → Option (Nat × List Nat)) (hp : PopOK pop) (sv sv' : Solver) (fuel : Nat)
    (hsrc : sv.source = s.val) (htgt : sv.target = t.val) (hi : FInv c s t sv.g sv.maxFlow)
    (h : sv.run pop fuel = some sv') : QuietS c s t sv' := by
  obtain ⟨_, a, b, c'⟩ := run_correct hst hN pop hp sv sv' fuel hsrc htgt hi h
  unfold Solver.run at h
  split at h
  · cases h
  · cases hl : augmentLoop pop sv.source sv.target fuel sv.g sv.maxFlow sv.augs with
    | none => simp [hl] at h
    | some r =>
      obtain ⟨g', flow', augs'⟩ := r
      simp only [hl, Option.some.injEq] at h
      subst h
      exact ⟨a, c', hsrc, htgt, rfl⟩

/-- **ek_ff_rerun**: after a completed run of the EdmondsKarp / FordFulkerson model on any admissible input,
    `k` further runs of the same object return (one search each) and change neither value nor residual graph -/
theorem ek_ff_rerun (es : List Edge) (s t : Nat) (hnn : ∀ e, e ∈ es → 0 ≤ e.cap) (hst : s ≠ t)
    (hN : nNodes (es.map toE) ≤ INV) (pop : List Nat → Option (Nat × List Nat)) (hp : PopOK pop)
    (hl : PopLen pop) (fuel : Nat) (sv' : Solver) (h : (Solver.fromEdgeList es s t).run pop fuel = some sv')
    (fuel' k : Nat) :
    ∃ sv'', Solver.runN pop (fuel' + 1) k sv' = some sv'' ∧ sv''.maxFlow = sv'.maxFlow ∧ sv''.g = sv'.g ∧
      sv''.finished = true ∧ sv'.finished = true := by
  have hm := merge_cap_ek es hnn
  have hnum : (residualEK es).numNodes = nNodes (es.map toE) := by rw [hm.2.1, maxId_eq_spec]; rfl
  have hguard : s < nNodes (es.map toE) ∧ t < nNodes (es.map toE) := by
    unfold Solver.run at h
    split at h
    · cases h
    · rename_i hg
      have : ¬ (s ≥ (residualEK es).numNodes ∨ t ≥ (residualEK es).numNodes) := hg
      rw [hnum] at this; omega
  have hi := init_finv (residualEK es) es ⟨s, hguard.1⟩ ⟨t, hguard.2⟩ hm
  have hq := run_quietS (fun e => hst (Fin.mk.inj e)) hN pop hp (Solver.fromEdgeList es s t) sv' fuel rfl rfl hi h
  obtain ⟨s2, h2, m2, g2, q2⟩ := solver_rerunN_fixed hN pop hp hl fuel' k sv' hq
  exact ⟨s2, h2, m2, g2, q2.fin, hq.fin⟩

end Tbx.Flow
