import Tbx.Model.InertialFlow
import Tbx.Spec.Bisection
/-
C03: the renumbering table of `sub_step` (core Lean only).

  `TWF t cur S T`   the table maps exactly S to 0, exactly T to 1, every other bound key to a number in
                    [2, cur), injectively
  `renum_spec`      the loop over the edges keeps `TWF`, only ADDS bindings (so the numbers written into
                    the edges earlier stay valid: `ext_get`, 4th conjunct of `renum_spec`), binds exactly the old
                    keys and the end points of the edges, and numbers consecutively
-/
namespace Tbx.InertialFlow
open Tbx Tbx.Flow

theorem find_set (t : Table) (k v x : Nat) :
    (t.set k v).find x = if k = x then some v else t.find x := rfl

theorem find_setAll (v : Nat) : ∀ (l : List Nat) (t : Table) (x : Nat),
    (setAll t v l).find x = if x ∈ l then some v else t.find x := by
  intro l
  induction l with
  | nil => intro t x; simp [setAll]
  | cons s rest ih =>
    intro t x
    rw [setAll, ih, find_set]
    by_cases h1 : x ∈ rest
    · simp [h1]
    · by_cases h2 : s = x
      · subst h2; simp
      · have : x ≠ s := fun h => h2 h.symm
        simp [h1, h2, this]

theorem containsKey_iff (t : Table) (x : Nat) : t.containsKey x = true ↔ ∃ p, t.find x = some p := by
  unfold Table.containsKey
  cases t.find x <;> simp

theorem get_of_find {t : Table} {x p : Nat} (h : t.find x = some p) : t.get x = p := by
  unfold Table.get; rw [h]; rfl

structure TWF (t : Table) (cur : Nat) (S T : List Nat) : Prop where
  zero : ∀ x, t.find x = some 0 ↔ x ∈ S
  one : ∀ x, t.find x = some 1 ↔ x ∈ T
  lt : ∀ x p, t.find x = some p → p < cur
  inj : ∀ x y p, 2 ≤ p → t.find x = some p → t.find y = some p → x = y
  cur2 : 2 ≤ cur

/-- `t'` extends `t`: every binding of `t` is kept -/
def Ext (t t' : Table) : Prop := ∀ x p, t.find x = some p → t'.find x = some p

theorem Ext.refl (t : Table) : Ext t t := fun _ _ h => h
theorem Ext.trans {a b c : Table} (h1 : Ext a b) (h2 : Ext b c) : Ext a c :=
  fun x p h => h2 x p (h1 x p h)

/-- the table after the two `for` loops over the contracted ends -/
theorem twf_init (S T : List Nat) (hdisj : ∀ x, x ∈ S → x ∉ T) :
    TWF (setAll (setAll [] 0 S) 1 T) 2 S T := by
  have hf : ∀ x, (setAll (setAll [] 0 S) 1 T).find x =
      if x ∈ T then some 1 else if x ∈ S then some 0 else none := by
    intro x; rw [find_setAll, find_setAll]; rfl
  refine ⟨?_, ?_, ?_, ?_, Nat.le_refl 2⟩
  · intro x; rw [hf]
    by_cases ht : x ∈ T
    · simp only [ht, ↓reduceIte]
      constructor
      · intro h; cases h
      · intro hs; exact absurd ht (hdisj x hs)
    · by_cases hs : x ∈ S <;> simp [ht, hs]
  · intro x; rw [hf]
    by_cases ht : x ∈ T
    · simp [ht]
    · by_cases hs : x ∈ S <;> simp [ht, hs]
  · intro x p; rw [hf]
    by_cases ht : x ∈ T
    · simp only [ht, ↓reduceIte]; intro h; cases h; omega
    · by_cases hs : x ∈ S
      · simp only [ht, hs, ↓reduceIte]; intro h; cases h; omega
      · simp [ht, hs]
  · intro x y p hp hx _
    rw [hf] at hx
    by_cases ht : x ∈ T
    · simp only [ht, ↓reduceIte] at hx; cases hx; omega
    · by_cases hs : x ∈ S
      · simp only [ht, hs, ↓reduceIte] at hx; cases hx; omega
      · simp [ht, hs] at hx

/-- one `if !contains_key(x) { set(x, current_id); current_id += 1 }` -/
theorem touch_spec (t : Table) (cur : Nat) (S T : List Nat) (x : Nat) (h : TWF t cur S T) :
    TWF (touch (t, cur) x).1 (touch (t, cur) x).2 S T ∧ Ext t (touch (t, cur) x).1 ∧
    (touch (t, cur) x).1.containsKey x = true ∧
    (∀ y, (touch (t, cur) x).1.containsKey y = true ↔ (t.containsKey y = true ∨ y = x)) ∧
    cur ≤ (touch (t, cur) x).2 ∧ (touch (t, cur) x).2 ≤ cur + 1 := by
  by_cases hc : t.containsKey x = true
  · have hpos : touch (t, cur) x = (t, cur) := by unfold touch; simp [hc]
    rw [hpos]
    refine ⟨h, Ext.refl t, hc, ?_, Nat.le_refl _, by omega⟩
    intro y; constructor
    · exact Or.inl
    · rintro (h' | rfl)
      · exact h'
      · exact hc
  · have hneg : touch (t, cur) x = (t.set x cur, cur + 1) := by unfold touch; simp [hc]
    rw [hneg]
    show TWF (t.set x cur) (cur + 1) S T ∧ Ext t (t.set x cur) ∧ (t.set x cur).containsKey x = true ∧
      (∀ y, (t.set x cur).containsKey y = true ↔ (t.containsKey y = true ∨ y = x)) ∧
      cur ≤ cur + 1 ∧ cur + 1 ≤ cur + 1
    have hnone : t.find x = none := by
      cases hf : t.find x with
      | none => rfl
      | some p => exact absurd ((containsKey_iff t x).mpr ⟨p, hf⟩) hc
    have hxS : x ∉ S := fun hs => by have := (h.zero x).mpr hs; rw [hnone] at this; cases this
    have hxT : x ∉ T := fun ht => by have := (h.one x).mpr ht; rw [hnone] at this; cases this
    have hcur := h.cur2
    refine ⟨⟨?_, ?_, ?_, ?_, by omega⟩, ?_, ?_, ?_, by omega, by omega⟩
    · intro y; rw [find_set]
      by_cases hy : x = y
      · subst hy; simp only [↓reduceIte]
        constructor
        · intro h'; cases h'; omega
        · intro hs; exact absurd hs hxS
      · simp only [hy, ↓reduceIte]; exact h.zero y
    · intro y; rw [find_set]
      by_cases hy : x = y
      · subst hy; simp only [↓reduceIte]
        constructor
        · intro h'; cases h'; omega
        · intro ht; exact absurd ht hxT
      · simp only [hy, ↓reduceIte]; exact h.one y
    · intro y p; rw [find_set]
      by_cases hy : x = y
      · simp only [hy, ↓reduceIte]; intro h'; cases h'; omega
      · simp only [hy, ↓reduceIte]; intro h'; have := h.lt y p h'; omega
    · intro y z p hp hy hz
      rw [find_set] at hy hz
      by_cases hxy : x = y
      · by_cases hxz : x = z
        · omega
        · simp only [hxy, ↓reduceIte] at hy
          have hxz' : ¬ (y = z) := fun e => hxz (hxy.trans e)
          rw [hxy] at hz
          simp only [hxz', ↓reduceIte] at hz
          cases hy
          have := h.lt z _ hz; omega
      · simp only [hxy, ↓reduceIte] at hy
        by_cases hxz : x = z
        · simp only [hxz, ↓reduceIte] at hz
          cases hz
          have := h.lt y _ hy; omega
        · simp only [hxz, ↓reduceIte] at hz
          exact h.inj y z p hp hy hz
    · intro y p hy
      rw [find_set]
      by_cases hxy : x = y
      · subst hxy; rw [hnone] at hy; cases hy
      · simp only [hxy, ↓reduceIte]; exact hy
    · rw [containsKey_iff]; exact ⟨cur, by rw [find_set]; simp⟩
    · intro y
      rw [containsKey_iff, containsKey_iff]
      constructor
      · rintro ⟨p, hp⟩
        rw [find_set] at hp
        by_cases hxy : x = y
        · exact Or.inr hxy.symm
        · simp only [hxy, ↓reduceIte] at hp; exact Or.inl ⟨p, hp⟩
      · rintro (⟨p, hp⟩ | rfl)
        · by_cases hxy : x = y
          · subst hxy; rw [hnone] at hp; cases hp
          · exact ⟨p, by rw [find_set]; simp only [hxy, ↓reduceIte]; exact hp⟩
        · exact ⟨cur, by rw [find_set]; simp⟩

theorem ext_get {t t' : Table} (he : Ext t t') {x : Nat} (hc : t.containsKey x = true) :
    t'.get x = t.get x := by
  obtain ⟨p, hp⟩ := (containsKey_iff t x).mp hc
  rw [get_of_find hp, get_of_find (he x p hp)]

theorem ext_contains {t t' : Table} (he : Ext t t') {x : Nat} (hc : t.containsKey x = true) :
    t'.containsKey x = true := by
  obtain ⟨p, hp⟩ := (containsKey_iff t x).mp hc
  exact (containsKey_iff t' x).mpr ⟨p, he x p hp⟩

/-- **the renumbering loop** -/
theorem renum_spec (S T : List Nat) : ∀ (edges : List (Nat × Nat)) (t : Table) (cur : Nat),
    TWF t cur S T →
    TWF (renumLoop t cur edges).1 (renumLoop t cur edges).2.1 S T ∧
    Ext t (renumLoop t cur edges).1 ∧
    (∀ y, (renumLoop t cur edges).1.containsKey y = true ↔
      (t.containsKey y = true ∨ Bisection.touched edges y = true)) ∧
    (renumLoop t cur edges).2.2 =
      edges.map (fun e => { src := (renumLoop t cur edges).1.get e.1,
                            tgt := (renumLoop t cur edges).1.get e.2, cap := 1 }) ∧
    cur ≤ (renumLoop t cur edges).2.1 ∧ (renumLoop t cur edges).2.1 ≤ cur + 2 * edges.length := by
  intro edges
  induction edges with
  | nil =>
    intro t cur h
    refine ⟨h, Ext.refl t, ?_, rfl, Nat.le_refl _, by simp [renumLoop]⟩
    intro y; simp [renumLoop, Bisection.touched]
  | cons e rest ih =>
    intro t cur h
    obtain ⟨u, v⟩ := e
    obtain ⟨w1, e1, c1, d1, l1, hbound1⟩ := touch_spec t cur S T u h
    obtain ⟨w2, e2, c2, d2, l2, hbound2⟩ :=
      touch_spec (touch (t, cur) u).1 (touch (t, cur) u).2 S T v w1
    have hu2 : (touch (touch (t, cur) u) v).1.containsKey u = true := by
      have := ext_contains e2 c1
      exact this
    obtain ⟨w3, e3, d3, r3, l3, l4⟩ :=
      ih (touch (touch (t, cur) u) v).1 (touch (touch (t, cur) u) v).2 w2
    have hup : ∀ (tc : Table × Nat), touch tc v = touch (tc.1, tc.2) v := fun _ => rfl
    have hbound2' : (touch (touch (t, cur) u) v).2 ≤ (touch (t, cur) u).2 + 1 := hbound2
    have l2' : (touch (t, cur) u).2 ≤ (touch (touch (t, cur) u) v).2 := l2
    simp only [renumLoop]
    refine ⟨w3, Ext.trans e1 (Ext.trans e2 e3), ?_, ?_, by omega, ?_⟩
    · intro y
      rw [d3, hup, d2, d1]
      have ht : Bisection.touched ((u, v) :: rest) y = true ↔
          (y = u ∨ y = v) ∨ Bisection.touched rest y = true := by
        unfold Bisection.touched
        simp only [List.any_cons, Bool.or_eq_true, beq_iff_eq]
        constructor
        · rintro ((h' | h') | h')
          · exact Or.inl (Or.inl h'.symm)
          · exact Or.inl (Or.inr h'.symm)
          · exact Or.inr h'
        · rintro ((h' | h') | h')
          · exact Or.inl (Or.inl h'.symm)
          · exact Or.inl (Or.inr h'.symm)
          · exact Or.inr h'
      rw [ht]
      constructor
      · rintro (((h' | h') | h') | h')
        · exact Or.inl h'
        · exact Or.inr (Or.inl (Or.inl h'))
        · exact Or.inr (Or.inl (Or.inr h'))
        · exact Or.inr (Or.inr h')
      · rintro (h' | (h' | h') | h')
        · exact Or.inl (Or.inl (Or.inl h'))
        · exact Or.inl (Or.inl (Or.inr h'))
        · exact Or.inl (Or.inr h')
        · exact Or.inr h'
    · rw [List.map_cons]
      congr 1
      · rw [ext_get e3 hu2, ext_get e3 (by rw [hup]; exact c2)]
    · simp only [List.length_cons]; omega

end Tbx.InertialFlow
