import Tbx.Proofs.SearchSound
/-
Helper lemmas for C15, part 5: totality of the model on the property's domain.
* the fuel `sources.length + number_of_nodes + 1` that `runWith` passes is sufficient (potential: queue length +
  number of unmarked nodes drops by exactly one per iteration of the outer loop);
* on a graph whose edge targets are all below `number_of_nodes` no panic branch is reached.
Core only.
-/
namespace Tbx.Search
open Tbx

/-- popping removes exactly one element -/
def PopLen (pop : List Nat → Option (Nat × List Nat)) : Prop :=
  ∀ l u rest, pop l = some (u, rest) → rest.length + 1 = l.length

theorem popFront_len : PopLen popFront := by
  intro l u rest h
  cases l with
  | nil => simp [popFront] at h
  | cons a as =>
    simp only [popFront, Option.some.injEq, Prod.mk.injEq] at h
    obtain ⟨_, rfl⟩ := h
    simp

theorem popBack_len : PopLen popBack := by
  intro l u rest h
  unfold popBack at h
  split at h
  · cases h
  · rename_i y hl
    simp only [Option.some.injEq, Prod.mk.injEq] at h
    obtain ⟨_, rfl⟩ := h
    have hne : l ≠ [] := by intro e; subst e; simp at hl
    have : 0 < l.length := List.length_pos_iff.mpr hne
    simp; omega

/-- number of unmarked nodes -/
def unm (par : Array (Option Nat)) : Nat :=
  ((List.range par.size).filter (fun i => (gt par i).isNone)).length

theorem unm_le (par : Array (Option Nat)) : unm par ≤ par.size := by
  unfold unm
  have := List.length_filter_le (fun i => (gt par i).isNone) (List.range par.size)
  simpa using this

theorem Disc.count {filt : Nat → Bool} {u : Nat} {vs : List (Nat × Nat)} {s s' : S} {news : List Nat}
    (hd : Disc filt u vs s s' news) : unm s'.par + news.length = unm s.par := by
  unfold unm
  rw [hd.size]
  have hn1 : ((List.range s.par.size).filter (fun i => (gt s.par i).isNone)).Nodup :=
    List.Nodup.sublist List.filter_sublist List.nodup_range
  have hn2 : (news ++ (List.range s.par.size).filter (fun i => (gt s'.par i).isNone)).Nodup := by
    rw [List.nodup_append]
    refine ⟨hd.nodup, List.Nodup.sublist List.filter_sublist List.nodup_range, ?_⟩
    intro a ha b hb hab
    subst hab
    simp only [List.mem_filter] at hb
    have := hb.2
    rw [hd.par a] at this
    simp [ha] at this
  have hp := (List.perm_ext_iff_of_nodup hn1 hn2).mpr (by
    intro x
    simp only [List.mem_filter, List.mem_range, List.mem_append]
    rw [hd.par x]
    constructor
    · rintro ⟨h1, h2⟩
      by_cases hx : x ∈ news
      · exact Or.inl hx
      · right; simp only [hx, if_false]; exact ⟨h1, h2⟩
    · rintro (h1 | ⟨h1, h2⟩)
      · obtain ⟨a, b, _⟩ := hd.fresh x h1
        exact ⟨b, by rw [a]; rfl⟩
      · by_cases hx : x ∈ news
        · simp [hx] at h2
        · simp only [hx, if_false] at h2; exact ⟨h1, h2⟩)
  have := hp.length_eq
  simp only [List.length_append] at this
  omega

theorem loop_ne_fuel (g : Graph) (filt isT : Nat → Bool) (pop : List Nat → Option (Nat × List Nat))
    (hp : PopLen pop) (fuel : Nat) (s : S) (hf : s.wl.length + unm s.par < fuel) :
    loop g filt isT pop fuel s ≠ .fuel := by
  induction fuel generalizing s with
  | zero => omega
  | succ fuel ih =>
    simp only [loop]
    split
    · simp
    · rename_i u rest hpop
      have hl := hp _ _ _ hpop
      split
      · simp
      · split
        · simp
        · simp
        · rename_i s1 he
          obtain ⟨news, hd, hw, _, _⟩ := edges_cont filt isT u _ (g u) _ s1 he
          have hc := hd.count
          simp only at hc hw
          apply ih s1
          rw [hw, List.length_append]
          omega

/-! ### no panic on consistent graphs -/

theorem edges_ne_panic (filt isT : Nat → Bool) (u : Nat) (b : Bool) (vs : List (Nat × Nat)) (s : S)
    (hv : ∀ v e, (v, e) ∈ vs → v < s.par.size) : edges filt isT u b vs s ≠ .panic := by
  induction vs generalizing s with
  | nil => simp [edges]
  | cons p vs ih =>
    obtain ⟨v, e⟩ := p
    have hlt : v < s.par.size := hv v e List.mem_cons_self
    have hrest : ∀ v' e', (v', e') ∈ vs → v' < s.par.size := fun v' e' h => hv v' e' (List.mem_cons_of_mem _ h)
    simp only [edges]
    split
    · exact ih s hrest
    · split
      · omega
      · split
        · exact ih s hrest
        · split
          · simp
          · apply ih
            simpa using hrest

theorem loop_ne_panic (g : Graph) (filt isT : Nat → Bool) (pop : List Nat → Option (Nat × List Nat))
    (hp : PopOK pop) (fuel : Nat) (s : S)
    (hg : ∀ u v e, u < s.par.size → (v, e) ∈ g u → v < s.par.size)
    (hwl : ∀ x, x ∈ s.wl → marked s.par x) :
    loop g filt isT pop fuel s ≠ .panic := by
  induction fuel generalizing s with
  | zero => simp [loop]
  | succ fuel ih =>
    simp only [loop]
    split
    · simp
    · rename_i u rest hpop
      have hu : u < s.par.size := marked_lt _ _ (hwl u ((hp.2 _ _ _ hpop u).mpr (Or.inl rfl)))
      split
      · omega
      · split
        · rename_i he
          exact absurd he (edges_ne_panic filt isT u _ (g u) _ (fun v e h => hg u v e hu h))
        · simp
        · rename_i s1 he
          obtain ⟨news, hd, hw, _, _⟩ := edges_cont filt isT u _ (g u) _ s1 he
          have hsz : s1.par.size = s.par.size := hd.size
          apply ih s1
          · rw [hsz]; exact hg
          · intro x hx
            rw [hw] at hx
            rcases List.mem_append.mp hx with h1 | h1
            · exact (hd.marked_iff x).mpr (Or.inr (hwl x ((hp.2 _ _ _ hpop x).mpr (Or.inr h1))))
            · exact (hd.marked_iff x).mpr (Or.inl h1)

end Tbx.Search
