import Tbx.Proofs.DijkstraExact
/-
C09: path retrieval.  In a search state whose parent pointers all point to closed nodes
(`PathReady`: every final state of both searches), `retrieve_node_path(v)` of an inserted node
terminates within `inserted_len + 1` iterations and returns a node-simple path from the source to
`v` over existing edges whose cheapest-edge weights add up to the label of `v`.
-/
namespace Tbx.Dijkstra
open Tbx Tbx.AHeap
variable {Inv : Heap → Prop}

/-- appending a node at the far end of a weighted path -/
theorem pathW_snoc {g : SP.Adj} {l : List Nat} {p v d w : Nat} (h : SP.PathW g (l ++ [p]) d)
    (hc : SP.IsCheapest g p v w) : SP.PathW g (l ++ [p, v]) (d + w) := by
  induction l generalizing d with
  | nil =>
    simp only [List.nil_append] at h ⊢
    cases h
    have := SP.PathW.cons hc (SP.PathW.single v)
    simpa using this
  | cons a l ih =>
    cases l with
    | nil =>
      simp only [List.cons_append, List.nil_append] at h ⊢
      cases h with
      | cons hc' h' =>
        cases h'
        have := SP.PathW.cons hc' (SP.PathW.cons hc (SP.PathW.single v))
        simpa [Nat.add_assoc] using this
    | cons b l =>
      simp only [List.cons_append] at h ⊢
      cases h with
      | cons hc' h' =>
        have := ih h'
        simp only [List.cons_append] at this
        have r := SP.PathW.cons hc' this
        rw [Nat.add_assoc]; exact r
/-- a search state from which paths can be retrieved: the parent of every node is closed -/
structure PathReady (Inv : Heap → Prop) (adj : Adj) (s : Nat) (q : Heap) : Prop extends Core Inv adj s q where
  pclosed : ∀ x : Int, inserted q x = true → x ≠ (s : Int) → ∀ p : Nat, data? q x = some (p : Int) → ClosedAt adj q p

theorem LInv.pathReady {adj : Adj} {s : Nat} {q : Heap} (I : LInv Inv adj s q) : PathReady Inv adj s q :=
  { toCore := I.toCore,
    pclosed := fun x hx hxs p hp => by
      obtain ⟨p0, w, h1, h2, _, _⟩ := I.par x hx hxs
      rw [h1] at hp
      have : p0 = p := by injection hp with h; omega
      subst this
      exact I.closed p0 h2 }

/-- right after the target was popped (nothing relaxed from it yet) -/
theorem RInv.pathReady {adj : Adj} {s u : Nat} {dist : Int} {q : Heap}
    (R : RInv Inv adj s u dist (fun _ _ => False) q) : PathReady Inv adj s q :=
  { toCore := R.toCore,
    pclosed := fun x hx hxs p hp => by
      obtain ⟨p0, w, h1, h2, _, _⟩ := R.par x hx hxs
      rw [h1] at hp
      have : p0 = p := by injection hp with h; omega
      subst this
      by_cases hpu : p0 = u
      · subst hpu
        obtain ⟨_, hF⟩ := R.par_cur x hx hxs h1
        exact absurd hF id
      · exact R.closed p0 h2 hpu }

/-- the ancestors of `x`, nearest first, up to and including the source -/
inductive Chain (q : Heap) (s : Int) : Int → List Int → Prop
  | src : Chain q s s []
  | step {x p : Int} {l : List Int} : x ≠ s → inserted q x = true → data? q x = some p → Chain q s p l →
      Chain q s x (p :: l)

theorem pathLoop_chain {q : Heap} {s : Int} (hs : data? q s = some s) {x : Int} {l : List Int}
    (hc : Chain q s x l) (hne : ∀ y p, inserted q y = true → y ≠ s → data? q y = some p → p ≠ y)
    (fuel : Nat) (hf : l.length < fuel) (acc : Array Int) :
    ∃ r, pathLoop q fuel x acc = .ok r ∧ r.toList = (acc.toList ++ l).reverse := by
  induction hc generalizing fuel acc with
  | src =>
    cases fuel with
    | zero => omega
    | succ fuel =>
      refine ⟨acc.reverse, ?_, by simp⟩
      simp [pathLoop, hs]
  | @step x p l hxs hxi hp _ ih =>
    cases fuel with
    | zero => omega
    | succ fuel =>
      simp only [List.length_cons] at hf
      obtain ⟨r, hr, hl⟩ := ih fuel (by omega) (acc.push p)
      refine ⟨r, ?_, ?_⟩
      · simp only [pathLoop, hp]
        have : (p == x) = false := by simpa using hne x p hxi hxs hp
        rw [this]; simpa using hr
      · rw [hl]; simp

theorem PathReady.chain {adj : Adj} {s : Nat} {q : Heap} (P : PathReady Inv adj s q)
    (rank : Int → Nat) (hr : ∀ x, inserted q x = true → x ≠ (s : Int) → ∀ p, data? q x = some p → rank p < rank x) :
    ∀ (k : Nat) (v : Nat), rank (v : Int) = k → inserted q (v : Int) = true →
      ∃ (l : List Nat) (d : Nat), Chain q (s : Int) (v : Int) (l.map Int.ofNat) ∧ weight q (v : Int) = (d : Int) ∧
        SP.PathW adj (v :: l).reverse d ∧ (v :: l).reverse.head? = some s ∧
        (∀ y ∈ l, rank (y : Int) < k) ∧ (v :: l).Nodup ∧ (∀ y ∈ l, inserted q (y : Int) = true) := by
  intro k
  induction k using Nat.strongRecOn with
  | _ k ih =>
    intro v hk hv
    by_cases hvs : v = s
    · subst hvs
      refine ⟨[], 0, .src, by rw [P.src.2.1]; rfl, .single v, rfl, ?_, by simp, ?_⟩
      · intro y hy; cases hy
      · intro y hy; cases hy
    · have hvs' : (v : Int) ≠ (s : Int) := by omega
      obtain ⟨p, w, h1, h2, h3, h4⟩ := P.par v hv hvs'
      rw [Int.toNat_natCast] at h3
      have hrp := hr v hv hvs' p h1
      obtain ⟨l, d, c1, c2, c3, c4, c5, c6, c7⟩ := ih (rank (p : Int)) (by omega) p rfl h2.1
      have hcheap : SP.IsCheapest adj p v w := by
        refine ⟨h3, ?_⟩
        intro w' hw'
        have := (P.pclosed v hv hvs' p h1 v w' hw').2
        omega
      refine ⟨p :: l, d + w, ?_, ?_, ?_, ?_, ?_, ?_, ?_⟩
      · exact .step hvs' hv h1 c1
      · rw [h4, c2]; omega
      · have : (v :: p :: l).reverse = l.reverse ++ [p, v] := by simp
        rw [this]
        apply pathW_snoc _ hcheap
        have : l.reverse ++ [p] = (p :: l).reverse := by simp
        rw [this]; exact c3
      · have : (v :: p :: l).reverse = (p :: l).reverse ++ [v] := by simp
        rw [this, List.head?_append, c4]; rfl
      · intro y hy
        rcases List.mem_cons.mp hy with rfl | hy
        · omega
        · have := c5 y hy; omega
      · rw [List.nodup_cons]
        refine ⟨?_, c6⟩
        intro hmem
        rcases List.mem_cons.mp hmem with h | h
        · subst h; omega
        · have := c5 v h; omega
      · intro y hy
        rcases List.mem_cons.mp hy with rfl | hy
        · exact h2.1
        · exact c7 y hy


theorem nodup_reverse' {l : List Nat} (h : l.Nodup) : l.reverse.Nodup := by
  unfold List.Nodup at *
  rw [List.pairwise_reverse]
  exact h.imp (fun hab e => hab e.symm)

theorem nodup_map_ofNat (l : List Nat) (h : l.Nodup) : (l.map Int.ofNat).Nodup := by
  induction l with
  | nil => simp
  | cons a l ih =>
    have := List.nodup_cons.mp h
    rw [List.map_cons, List.nodup_cons]
    refine ⟨?_, ih this.2⟩
    intro hm
    obtain ⟨b, hb, e⟩ := List.mem_map.mp hm
    have e' : (b : Int) = (a : Int) := e
    have : b = a := by omega
    subst this; exact this.1 hb

/-- **retrieved paths are valid** (relative to the queue laws) -/
theorem retrievePath_valid (L : HeapLaws Inv) {adj : Adj} {s : Nat} {q : Heap} (P : PathReady Inv adj s q)
    (v : Nat) (hv : inserted q (v : Int) = true) :
    ∃ (path : Array Int) (nodes : List Nat) (d : Nat),
      retrievePath q v = .ok (some path) ∧ path.toList = nodes.map Int.ofNat ∧
      weight q (v : Int) = (d : Int) ∧ SP.ValidPath adj s v nodes d := by
  obtain ⟨rank, hr⟩ := P.rank
  obtain ⟨l, d, c1, c2, c3, c4, _, c6, c7⟩ := P.chain rank hr (rank (v : Int)) v rfl hv
  have hne : ∀ y p, inserted q y = true → y ≠ (s : Int) → data? q y = some p → p ≠ y := by
    intro y p hy hys hp e
    have := hr y hy hys p hp
    rw [e] at this; omega
  have hlen : (l.map Int.ofNat).length < insertedLen q + 1 := by
    have hnd := nodup_map_ofNat (v :: l) c6
    have := L.inserted_bound q ((v :: l).map Int.ofNat) P.inv hnd (by
      intro x hx
      obtain ⟨y, hy, e⟩ := List.mem_map.mp hx
      subst e
      rcases List.mem_cons.mp hy with rfl | hy
      · exact hv
      · exact c7 y hy)
    simp only [List.map_cons, List.length_cons, List.length_map] at this ⊢
    omega
  obtain ⟨r, hr1, hr2⟩ := pathLoop_chain P.src.2.2 c1 hne (insertedLen q + 1) hlen #[(v : Int)]
  refine ⟨r, (v :: l).reverse, d, ?_, ?_, c2, c4, ?_, ?_, c3⟩
  · unfold retrievePath; rw [hr1]
  · rw [hr2]; simp [List.map_reverse]
  · rw [List.getLast?_reverse]; rfl
  · exact nodup_reverse' c6

end Tbx.Dijkstra
