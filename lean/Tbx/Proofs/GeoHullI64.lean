import Tbx.Proofs.GeoHull
/-
On valid coordinates the i64 version of the monotone chain never overflows and equals the model.
-/
namespace Tbx.Geo

theorem popWhileI64_eq (m : Nat) (p : Coord) (hp : ValidCoord p) :
    ∀ st : List Coord, (∀ v ∈ st, ValidCoord v) → popWhileI64 m p st = some (popWhile m p st) := by
  intro st
  induction st with
  | nil => intro _; rfl
  | cons a rest ih =>
    intro hv
    cases rest with
    | nil => rfl
    | cons o r =>
      have ha := hv a List.mem_cons_self
      have ho := hv o (List.mem_cons_of_mem _ List.mem_cons_self)
      have hcw := (crossI64_eq ho ha hp).2.1
      have ih' := ih (fun v h => hv v (List.mem_cons_of_mem _ h))
      rw [popWhile_cons2]
      unfold popWhileI64
      simp only [hcw]
      simp only [List.length_cons]
      by_cases hlen : m ≤ r.length + 1 + 1
      · simp only [hlen, if_true, true_and]
        cases hc : isCW o a p
        · simp only [Bool.not_false, if_true]
          exact ih'
        · simp
      · simp only [hlen, if_false, false_and]

theorem chainI64_eq (m : Nat) : ∀ (pts st : List Coord), (∀ v ∈ st, ValidCoord v) → (∀ v ∈ pts, ValidCoord v) →
    chainI64 m st pts = some (chain m st pts) := by
  intro pts
  induction pts with
  | nil => intro st _ _; rfl
  | cons p ps ih =>
    intro st hst hpts
    have hp := hpts p List.mem_cons_self
    unfold chainI64
    rw [popWhileI64_eq m p hp st hst]
    simp only [chain, List.foldl_cons]
    exact ih (p :: popWhile m p st)
      (by intro v hv
          rcases List.mem_cons.mp hv with rfl | hv
          · exact hp
          · exact hst v (List.IsSuffix.mem hv (popWhile_suffix m p st)))
      (fun v hv => hpts v (List.mem_cons_of_mem _ hv))

theorem monotoneChainI64_eq (pts : List Coord) (hv : ∀ p ∈ pts, ValidCoord p) :
    monotoneChainI64 pts = some (monotoneChain pts) := by
  unfold monotoneChainI64 monotoneChain
  split
  · rfl
  · have hcs : ∀ v ∈ sortLonLat pts, ValidCoord v := fun v h => hv v (mem_sortLonLat.mp h)
    have h1 := chainI64_eq 2 (sortLonLat pts) [] (by intro v h; cases h) hcs
    simp only [h1, lowerStack]
    have hlow : ∀ v ∈ (chain 2 [] (sortLonLat pts)).tail, ValidCoord v := by
      intro v h
      rcases chain_mem 2 _ [] v (List.mem_of_mem_tail h) with h' | h'
      · cases h'
      · exact hcs v h'
    have h2 := chainI64_eq (2 + (chain 2 [] (sortLonLat pts)).tail.length) (sortLonLat pts).reverse
      (chain 2 [] (sortLonLat pts)).tail hlow (fun v h => hcs v (List.mem_reverse.mp h))
    simp only [h2]

end Tbx.Geo
