import Tbx.Spec.Hierarchy
/-
Soundness of the Spec's executable form: every pair `specAll` lists for a node is that node's `specSides`
(`specAll` evaluates `best` once per cell and is what the judge runs; `specSides` is the per-node definition the
theorems speak about).  Needs only that the two sides `best` reports lie inside the cell and are disjoint.
-/
namespace Tbx.Hierarchy

/-- the sides `best` reports are ids of the cell and disjoint -/
structure BestSides (best : Cell → Option (List Nat × List Nat)) : Prop where
  sub  : ∀ c L R, best c = some (L, R) → (∀ y ∈ L, y ∈ c.ids) ∧ (∀ y ∈ R, y ∈ c.ids)
  disj : ∀ c L R, best c = some (L, R) → ∀ y ∈ L, y ∉ R

theorem specAll_keys (best : Cell → Option (List Nat × List Nat)) (m : Nat) (hb : BestSides best) :
    ∀ (d : Nat) (c : Cell) (p : Nat × List Bool), p ∈ specAll best m d c → p.1 ∈ c.ids := by
  intro d
  induction d with
  | zero =>
    intro c p h
    simp only [specAll, List.mem_map] at h
    obtain ⟨y, hy, e⟩ := h
    subst e; exact hy
  | succ d ih =>
    intro c p h
    unfold specAll at h
    cases hbc : best c with
    | none =>
      rw [hbc] at h
      simp only [List.mem_map] at h
      obtain ⟨y, hy, e⟩ := h
      subst e; exact hy
    | some lr =>
      obtain ⟨L, R⟩ := lr
      rw [hbc] at h
      simp only [] at h
      obtain ⟨hL, hR⟩ := hb.sub c L R hbc
      rcases List.mem_append.mp h with h | h
      · by_cases hl : L.length > m
        · simp only [hl, if_true, List.mem_map] at h
          obtain ⟨q, hq, e⟩ := h
          subst e
          exact hL _ (ih (restrict c L) q hq)
        · simp only [hl, if_false, List.mem_map] at h
          obtain ⟨y, hy, e⟩ := h
          subst e; exact hL y hy
      · rcases List.mem_append.mp h with h | h
        · by_cases hr : R.length > m
          · simp only [hr, if_true, List.mem_map] at h
            obtain ⟨q, hq, e⟩ := h
            subst e
            exact hR _ (ih (restrict c R) q hq)
          · simp only [hr, if_false, List.mem_map] at h
            obtain ⟨y, hy, e⟩ := h
            subst e; exact hR y hy
        · simp only [List.mem_map, List.mem_filter] at h
          obtain ⟨y, ⟨hy, _⟩, e⟩ := h
          subst e; exact hy

/-- every pair `specAll` lists is (node, `specSides` of that node) -/
theorem specAll_sound (best : Cell → Option (List Nat × List Nat)) (m : Nat) (hb : BestSides best) :
    ∀ (d : Nat) (c : Cell) (p : Nat × List Bool), p ∈ specAll best m d c →
      p.2 = specSides best m d c p.1 := by
  intro d
  induction d with
  | zero =>
    intro c p h
    simp only [specAll, List.mem_map] at h
    obtain ⟨y, _, e⟩ := h
    subst e; rfl
  | succ d ih =>
    intro c p h
    unfold specAll at h
    unfold specSides
    cases hbc : best c with
    | none =>
      rw [hbc] at h
      simp only [List.mem_map] at h
      obtain ⟨y, _, e⟩ := h
      subst e; rfl
    | some lr =>
      obtain ⟨L, R⟩ := lr
      rw [hbc] at h
      simp only [] at h ⊢
      rcases List.mem_append.mp h with h | h
      · by_cases hl : L.length > m
        · simp only [hl, if_true, List.mem_map] at h
          obtain ⟨q, hq, e⟩ := h
          subst e
          have hx : q.1 ∈ L := specAll_keys best m hb d (restrict c L) q hq
          simp only [List.contains_iff_mem.mpr hx, if_true, hl]
          rw [ih (restrict c L) q hq]
        · simp only [hl, if_false, List.mem_map] at h
          obtain ⟨y, hy, e⟩ := h
          subst e
          simp only [List.contains_iff_mem.mpr hy, if_true, hl, if_false]
      · rcases List.mem_append.mp h with h | h
        · by_cases hr : R.length > m
          · simp only [hr, if_true, List.mem_map] at h
            obtain ⟨q, hq, e⟩ := h
            subst e
            have hx : q.1 ∈ R := specAll_keys best m hb d (restrict c R) q hq
            have hxL : L.contains q.1 = false := by
              cases hc : L.contains q.1 with
              | false => rfl
              | true => exact absurd hx (hb.disj c L R hbc _ (List.contains_iff_mem.mp hc))
            simp only [hxL, List.contains_iff_mem.mpr hx, if_true, hr, Bool.false_eq_true, if_false]
            rw [ih (restrict c R) q hq]
          · simp only [hr, if_false, List.mem_map] at h
            obtain ⟨y, hy, e⟩ := h
            subst e
            have hxL : L.contains y = false := by
              cases hc : L.contains y with
              | false => rfl
              | true => exact absurd hy (hb.disj c L R hbc _ (List.contains_iff_mem.mp hc))
            simp only [hxL, List.contains_iff_mem.mpr hy, if_true, hr, Bool.false_eq_true, if_false]
        · simp only [List.mem_map, List.mem_filter, Bool.and_eq_true, Bool.not_eq_eq_eq_not, Bool.not_true] at h
          obtain ⟨y, ⟨_, h1, h2⟩, e⟩ := h
          subst e
          simp only [h1, h2, Bool.false_eq_true, if_false]

end Tbx.Hierarchy
