import Tbx.Proofs.C16Conn
/-
Graph theory for Kruskal's minimality, phrased with `Conn` only (no explicit paths or cycles):

  acyclic_perm / acyclic_erase / acyclic_cons_inv    closure properties of cycle-free pair lists
  crit_cross     in a forest M connecting a and b, for any equivalence R that separates a from b there
                 is an edge f of M whose ends R separates and whose removal disconnects a from b
  exchange       replacing such an f by the pair (a, b) gives a forest with the same connectivity
  subforest_eq   a spanning forest contained in another spanning forest of the same graph equals it
Core Lean only.
-/
namespace Tbx.Comp

theorem acyclic_perm {F F' : Edges} (h : Acyclic F) (hp : F.Perm F') : Acyclic F' := by
  intro e he hc
  have he' : e ∈ F := hp.mem_iff.mpr he
  refine h e he' ?_
  have hpe : (F'.erase e).Perm (F.erase e) := (hp.erase e).symm
  exact (conn_congr (fun p => hpe.mem_iff) _ _).mp hc

theorem acyclic_cons_inv {f : Nat × Nat} {M : Edges} (h : Acyclic (f :: M)) : Acyclic M ∧ ¬ Conn M f.1 f.2 := by
  have h1 : ¬ Conn M f.1 f.2 := by
    have := h f List.mem_cons_self
    simpa using this
  refine ⟨?_, h1⟩
  intro e he hc
  have hne : e ≠ f := by
    intro hh; subst hh
    exact h1 (Conn.of_mem (by simpa using he))
  have := h e (List.mem_cons_of_mem _ he)
  rw [List.erase_cons_tail (by simpa using Ne.symm hne)] at this
  exact this (hc.mono fun p hp => List.mem_cons_of_mem _ hp)

theorem acyclic_cons {F : Edges} {a b : Nat} (hF : Acyclic F) (hab : ¬ Conn F a b) : Acyclic ((a, b) :: F) :=
  acyclic_perm (acyclic_snoc hF hab) (by
    have := @List.perm_append_comm _ F [(a, b)]
    simpa using this)

theorem acyclic_erase {M : Edges} (h : Acyclic M) (f : Nat × Nat) : Acyclic (M.erase f) := by
  intro e he hc
  have heM : e ∈ M := List.mem_of_mem_erase he
  refine h e heM (hc.mono ?_)
  intro p hp
  rw [List.erase_comm] at hp
  exact List.mem_of_mem_erase hp

theorem mem_iff_erase_or {M : Edges} {f : Nat × Nat} (hf : f ∈ M) (p : Nat × Nat) : p ∈ M ↔ p ∈ M.erase f ∨ p = f := by
  constructor
  · intro hp
    by_cases h : p = f
    · exact Or.inr h
    · exact Or.inl ((List.mem_erase_of_ne h).mpr hp)
  · rintro (h | h)
    · exact List.mem_of_mem_erase h
    · exact h ▸ hf

theorem conn_nil' (i j : Nat) : Conn [] i j ↔ i = j := by
  constructor
  · intro h
    unfold Conn at h
    induction h with
    | refl => rfl
    | tail _ he _ => simp [sym] at he
  · rintro rfl; exact Conn.refl _ _

/-- in a forest connecting `a` and `b`, an equivalence that separates `a` from `b` separates the ends of
    some edge whose removal disconnects `a` from `b` -/
theorem crit_cross (R : Nat → Nat → Prop) (hr : ∀ x, R x x) (hsym : ∀ x y, R x y → R y x)
    (htr : ∀ x y z, R x y → R y z → R x z) :
    ∀ (M : Edges) (a b : Nat), Acyclic M → Conn M a b → ¬ R a b →
      ∃ f, f ∈ M ∧ ¬ R f.1 f.2 ∧ ¬ Conn (M.erase f) a b := by
  intro M
  induction M with
  | nil =>
    intro a b _ hc hn
    rw [(conn_nil' a b).mp hc] at hn
    exact absurd (hr b) hn
  | cons f M ih =>
    intro a b hac hc hn
    obtain ⟨c, d⟩ := f
    obtain ⟨hacM, hcd⟩ := acyclic_cons_inv hac
    simp only at hcd
    have hadd : ∀ (G : Edges) x y, Conn ((c, d) :: G) x y ↔ Conn G x y ∨ (Conn G x c ∧ Conn G d y) ∨ (Conn G x d ∧ Conn G c y) :=
      fun G x y => conn_add (by intro p; simp [or_comm]) x y
    have hsub : ∀ f', ∀ p, p ∈ M.erase f' → p ∈ M := fun f' p hp => List.mem_of_mem_erase hp
    -- an edge found inside M is different from (c, d), so erasing it keeps the head
    have herase : ∀ f', f' ∈ M → ((c, d) :: M).erase f' = (c, d) :: M.erase f' := by
      intro f' hf'
      have hne : f' ≠ (c, d) := by
        intro hh; subst hh
        exact hcd (Conn.of_mem hf')
      exact List.erase_cons_tail (by simpa using Ne.symm hne)
    rcases (hadd M a b).mp hc with h1 | ⟨h1, h2⟩ | ⟨h1, h2⟩
    · -- (c, d) is not needed to connect a and b
      obtain ⟨f', hf', hRf, hcrit⟩ := ih a b hacM h1 hn
      refine ⟨f', List.mem_cons_of_mem _ hf', hRf, ?_⟩
      rw [herase f' hf']
      intro hcon
      rcases (hadd _ a b).mp hcon with k | ⟨k1, k2⟩ | ⟨k1, k2⟩
      · exact hcrit k
      · exact hcd ((k1.mono (hsub f')).symm.trans (h1.trans (k2.mono (hsub f')).symm))
      · exact hcd ((k2.mono (hsub f')).trans (h1.symm.trans (k1.mono (hsub f')))).symm.symm
    · -- a ~ c -(c,d)- d ~ b
      by_cases hab : Conn M a b
      · obtain ⟨f', hf', hRf, hcrit⟩ := ih a b hacM hab hn
        refine ⟨f', List.mem_cons_of_mem _ hf', hRf, ?_⟩
        rw [herase f' hf']
        intro hcon
        rcases (hadd _ a b).mp hcon with k | ⟨k1, k2⟩ | ⟨k1, k2⟩
        · exact hcrit k
        · exact hcd ((k1.mono (hsub f')).symm.trans (hab.trans (k2.mono (hsub f')).symm))
        · exact hcd (h1.symm.trans (hab.trans h2.symm))
      · by_cases hRcd : R c d
        · have hsplit : ¬ R a c ∨ ¬ R d b := by
            by_cases hac' : R a c
            · right; intro hdb; exact hn (htr _ _ _ hac' (htr _ _ _ hRcd hdb))
            · left; exact hac'
          rcases hsplit with hs | hs
          · obtain ⟨f', hf', hRf, hcrit⟩ := ih a c hacM h1 hs
            refine ⟨f', List.mem_cons_of_mem _ hf', hRf, ?_⟩
            rw [herase f' hf']
            intro hcon
            rcases (hadd _ a b).mp hcon with k | ⟨k1, _⟩ | ⟨k1, _⟩
            · exact hab (k.mono (hsub f'))
            · exact hcrit k1
            · exact hab ((k1.mono (hsub f')).trans h2)
          · obtain ⟨f', hf', hRf, hcrit⟩ := ih d b hacM h2 hs
            refine ⟨f', List.mem_cons_of_mem _ hf', hRf, ?_⟩
            rw [herase f' hf']
            intro hcon
            rcases (hadd _ a b).mp hcon with k | ⟨_, k2⟩ | ⟨k1, _⟩
            · exact hab (k.mono (hsub f'))
            · exact hcrit k2
            · exact hab ((k1.mono (hsub f')).trans h2)
        · refine ⟨(c, d), List.mem_cons_self, hRcd, ?_⟩
          simpa using hab
    · -- a ~ d -(c,d)- c ~ b
      by_cases hab : Conn M a b
      · obtain ⟨f', hf', hRf, hcrit⟩ := ih a b hacM hab hn
        refine ⟨f', List.mem_cons_of_mem _ hf', hRf, ?_⟩
        rw [herase f' hf']
        intro hcon
        rcases (hadd _ a b).mp hcon with k | ⟨k1, k2⟩ | ⟨k1, k2⟩
        · exact hcrit k
        · exact hcd (h2.trans (hab.symm.trans h1))
        · exact hcd (h2.trans (hab.symm.trans h1))
      · by_cases hRcd : R c d
        · have hsplit : ¬ R a d ∨ ¬ R c b := by
            by_cases had' : R a d
            · right; intro hcb; exact hn (htr _ _ _ had' (htr _ _ _ (hsym _ _ hRcd) hcb))
            · left; exact had'
          rcases hsplit with hs | hs
          · obtain ⟨f', hf', hRf, hcrit⟩ := ih a d hacM h1 hs
            refine ⟨f', List.mem_cons_of_mem _ hf', hRf, ?_⟩
            rw [herase f' hf']
            intro hcon
            rcases (hadd _ a b).mp hcon with k | ⟨k1, _⟩ | ⟨k1, _⟩
            · exact hab (k.mono (hsub f'))
            · exact hab ((k1.mono (hsub f')).trans h2)
            · exact hcrit k1
          · obtain ⟨f', hf', hRf, hcrit⟩ := ih c b hacM h2 hs
            refine ⟨f', List.mem_cons_of_mem _ hf', hRf, ?_⟩
            rw [herase f' hf']
            intro hcon
            rcases (hadd _ a b).mp hcon with k | ⟨k1, _⟩ | ⟨_, k2⟩
            · exact hab (k.mono (hsub f'))
            · exact hab ((k1.mono (hsub f')).trans h2)
            · exact hcrit k2
        · refine ⟨(c, d), List.mem_cons_self, hRcd, ?_⟩
          simpa using hab

/-- replacing an edge `f` whose removal disconnects `a` from `b` by the pair `(a, b)` -/
theorem exchange {M : Edges} {f : Nat × Nat} {a b : Nat} (hac : Acyclic M) (hf : f ∈ M) (hab : Conn M a b)
    (hcrit : ¬ Conn (M.erase f) a b) :
    Acyclic ((a, b) :: M.erase f) ∧ ∀ x y, Conn ((a, b) :: M.erase f) x y ↔ Conn M x y := by
  refine ⟨acyclic_cons (acyclic_erase hac f) hcrit, ?_⟩
  obtain ⟨c, d⟩ := f
  have hM : ∀ x y, Conn M x y ↔ Conn (M.erase (c, d)) x y ∨ (Conn (M.erase (c, d)) x c ∧ Conn (M.erase (c, d)) d y) ∨
      (Conn (M.erase (c, d)) x d ∧ Conn (M.erase (c, d)) c y) :=
    fun x y => conn_add (mem_iff_erase_or hf) x y
  have hN : ∀ x y, Conn ((a, b) :: M.erase (c, d)) x y ↔ Conn (M.erase (c, d)) x y ∨
      (Conn (M.erase (c, d)) x a ∧ Conn (M.erase (c, d)) b y) ∨ (Conn (M.erase (c, d)) x b ∧ Conn (M.erase (c, d)) a y) :=
    fun x y => conn_add (by intro p; simp [or_comm]) x y
  intro x y
  rw [hM, hN]
  rcases (hM a b).mp hab with h | ⟨h1, h2⟩ | ⟨h1, h2⟩
  · exact absurd h hcrit
  · -- a ~ c, d ~ b
    constructor
    · rintro (k | ⟨k1, k2⟩ | ⟨k1, k2⟩)
      · exact Or.inl k
      · exact Or.inr (Or.inl ⟨k1.trans h1, h2.trans k2⟩)
      · exact Or.inr (Or.inr ⟨k1.trans h2.symm, h1.symm.trans k2⟩)
    · rintro (k | ⟨k1, k2⟩ | ⟨k1, k2⟩)
      · exact Or.inl k
      · exact Or.inr (Or.inl ⟨k1.trans h1.symm, h2.symm.trans k2⟩)
      · exact Or.inr (Or.inr ⟨k1.trans h2, h1.trans k2⟩)
  · -- a ~ d, c ~ b
    constructor
    · rintro (k | ⟨k1, k2⟩ | ⟨k1, k2⟩)
      · exact Or.inl k
      · exact Or.inr (Or.inr ⟨k1.trans h1, h2.trans k2⟩)
      · exact Or.inr (Or.inl ⟨k1.trans h2.symm, h1.symm.trans k2⟩)
    · rintro (k | ⟨k1, k2⟩ | ⟨k1, k2⟩)
      · exact Or.inl k
      · exact Or.inr (Or.inr ⟨k1.trans h2, h1.trans k2⟩)
      · exact Or.inr (Or.inl ⟨k1.trans h1.symm, h2.symm.trans k2⟩)

/-! ### weighted edge lists -/

/-- when no two edges share their end points, erasing an edge erases its pair -/
theorem ends_erase : ∀ (M : List WEdge) (f : WEdge), (ends M).Nodup → f ∈ M →
    ends (M.erase f) = (ends M).erase (f.1, f.2.1) := by
  intro M
  induction M with
  | nil => intro f _ hf; cases hf
  | cons x M ih =>
    intro f hnd hf
    simp only [ends, List.map_cons, List.nodup_cons] at hnd
    by_cases hx : x = f
    · subst hx; simp [ends]
    · have hfM : f ∈ M := by
        rcases List.mem_cons.mp hf with h | h
        · exact absurd h.symm hx
        · exact h
      have hne : (x.1, x.2.1) ≠ (f.1, f.2.1) := by
        intro hh
        apply hnd.1
        rw [hh]
        exact List.mem_map.mpr ⟨f, hfM, rfl⟩
      rw [List.erase_cons_tail (by simpa using hx)]
      simp only [ends, List.map_cons]
      rw [List.erase_cons_tail (by simpa using hne)]
      congr 1
      exact ih f hnd.2 hfM

theorem cost_erase : ∀ (M : List WEdge) (f : WEdge), f ∈ M → cost (M.erase f) + f.2.2 = cost M := by
  intro M
  induction M with
  | nil => intro f hf; cases hf
  | cons x M ih =>
    intro f hf
    by_cases hx : x = f
    · subst hx; simp [cost, Nat.add_comm]
    · have hfM : f ∈ M := by
        rcases List.mem_cons.mp hf with h | h
        · exact absurd h.symm hx
        · exact h
      rw [List.erase_cons_tail (by simpa using hx)]
      have := ih f hfM
      simp only [cost, List.map_cons, List.sum_cons] at this ⊢
      omega

theorem cost_perm {A B : List WEdge} (h : A.Perm B) : cost A = cost B := by
  have := (h.map (fun e : WEdge => e.2.2)).sum_nat
  simpa [cost] using this

/-- the exchange step on spanning forests: `M - f + e` is again a spanning forest -/
theorem spanningForest_exchange {inp M : List WEdge} {f e : WEdge} (hM : SpanningForest inp M) (he : e ∈ inp)
    (hf : f ∈ M) (hcrit : ¬ Conn (ends (M.erase f)) e.1 e.2.1) :
    SpanningForest inp (e :: M.erase f) ∧ cost (e :: M.erase f) + f.2.2 = cost M + e.2.2 := by
  have hnd : (ends M).Nodup := hM.acyclic.nodup
  have hee := ends_erase M f hnd hf
  have hfe : (f.1, f.2.1) ∈ ends M := List.mem_map.mpr ⟨f, hf, rfl⟩
  have hab : Conn (ends M) e.1 e.2.1 :=
    (hM.spans _ _).mpr (Conn.of_mem (List.mem_map.mpr ⟨e, he, rfl⟩))
  rw [hee] at hcrit
  obtain ⟨x1, x2⟩ := exchange hM.acyclic hfe hab hcrit
  have hends : ends (e :: M.erase f) = (e.1, e.2.1) :: (ends M).erase (f.1, f.2.1) := by
    simp only [ends, List.map_cons] at hee ⊢
    rw [hee]
  refine ⟨⟨?_, by rw [hends]; exact x1, fun a b => by rw [hends, x2]; exact hM.spans a b⟩, ?_⟩
  · -- sub-multiset
    intro x
    by_cases hxe : x = e
    · subst hxe
      -- e is not in M.erase f (its ends are not even connected there)
      have hnot : x ∉ M.erase f := by
        intro hh
        apply hcrit
        rw [← hee]
        exact Conn.of_mem (List.mem_map.mpr ⟨x, hh, rfl⟩)
      rw [List.count_cons_self, List.count_eq_zero_of_not_mem hnot]
      exact List.count_pos_iff.mpr he
    · rw [List.count_cons_of_ne (Ne.symm hxe)]
      have h1 : (M.erase f).count x ≤ M.count x := List.Sublist.count_le x List.erase_sublist
      exact Nat.le_trans h1 (hM.sub x)
  · have := cost_erase M f hf
    simp only [cost, List.map_cons, List.sum_cons] at this ⊢
    omega

/-- a spanning forest contained (as a multiset) in another spanning forest of the same input has its cost -/
theorem subforest_cost {inp T M : List WEdge} (hT : SpanningForest inp T) (hM : SpanningForest inp M)
    (hsub : ∀ x, T.count x ≤ M.count x) : cost T = cost M := by
  apply cost_perm
  rw [List.perm_iff_count]
  intro x
  apply Nat.le_antisymm (hsub x)
  -- an extra copy of x in M would close a cycle with T
  apply Decidable.byContradiction
  intro hlt
  have hlt' : T.count x < M.count x := by omega
  have hxM : x ∈ M := List.count_pos_iff.mp (by omega)
  have hxinp : x ∈ inp := List.count_pos_iff.mp (Nat.lt_of_lt_of_le (by omega) (hM.sub x))
  -- T fits inside M.erase x
  have hTsub : ∀ y, T.count y ≤ (M.erase x).count y := by
    intro y
    by_cases hy : y = x
    · subst hy; rw [List.count_erase_self]; omega
    · rw [List.count_erase_of_ne hy]; exact hsub y
  have hmem : ∀ p, p ∈ ends T → p ∈ ends (M.erase x) := by
    intro p hp
    obtain ⟨y, hy, rfl⟩ := List.mem_map.mp hp
    have : 0 < (M.erase x).count y := Nat.lt_of_lt_of_le (List.count_pos_iff.mpr hy) (hTsub y)
    exact List.mem_map.mpr ⟨y, List.count_pos_iff.mp this, rfl⟩
  have hconn : Conn (ends T) x.1 x.2.1 := (hT.spans _ _).mpr (Conn.of_mem (List.mem_map.mpr ⟨x, hxinp, rfl⟩))
  have hc2 : Conn (ends (M.erase x)) x.1 x.2.1 := hconn.mono hmem
  rw [ends_erase M x hM.acyclic.nodup hxM] at hc2
  exact hM.acyclic (x.1, x.2.1) (List.mem_map.mpr ⟨x, hxM, rfl⟩) hc2

/-- if any spanning forest exists, one of minimal cost exists -/
theorem exists_msf {inp : List WEdge} : ∀ (c : Nat) (F : List WEdge), SpanningForest inp F → cost F = c →
    ∃ M, MinSpanningForest inp M := by
  intro c
  induction c using Nat.strongRecOn with
  | _ c ih =>
    intro F hF hc
    by_cases hmin : ∀ F', SpanningForest inp F' → cost F ≤ cost F'
    · exact ⟨F, hF, hmin⟩
    · have : ∃ F', SpanningForest inp F' ∧ cost F' < cost F := by
        apply Classical.byContradiction
        intro hno
        apply hmin
        intro F' hF'
        apply Classical.byContradiction
        intro hlt
        exact hno ⟨F', hF', by omega⟩
      obtain ⟨F', hF', hlt⟩ := this
      exact ih (cost F') (by omega) F' hF' rfl

end Tbx.Comp
